#!/usr/bin/env python3
"""Development helper (not a registered check): independently confirm a seeded
violation produced by a sub-agent, in a fresh scratch worktree of /repo, and
store it under /verif/seeded/<id>/.

usage: confirm_seed.py <id> <agent_worktree> <agent_outdir> <property> "<needs>"
"""
import json, os, re, shutil, subprocess, sys, time
sid, wt, outdir, prop, needs = sys.argv[1:6]
ENV = dict(os.environ, GOFLAGS="-mod=mod", GOPROXY="off", GOSUMDB="off", GOTOOLCHAIN="local")
KNOWN = {"TestGenerateProof", "TestVerifyProof", "TestGenerateProofJumboFixture", "TestRemoveTreeFixture", "TestHTTPServer"}
def sh(cmd, cwd, timeout=1500):
    p = subprocess.run(cmd, cwd=cwd, shell=True, env=ENV, stdout=subprocess.PIPE, stderr=subprocess.STDOUT, text=True, timeout=timeout)
    return p.returncode, p.stdout
scratch = f"/tmp/cf/{sid}"
os.makedirs("/tmp/cf", exist_ok=True)
sh(f"git -C /repo worktree remove --force {scratch}", "/")
rc, out = sh(f"git -C /repo worktree add -q --detach {scratch} HEAD", "/")
assert rc == 0, out
res = {"id": sid, "property": prop, "needs": needs, "ran": []}
try:
    # demo files = untracked files in the agent's worktree
    rc, out = sh("git status --porcelain", wt)
    demos = [l[3:].strip() for l in out.splitlines() if l.startswith("??") and l.strip().endswith(".go")]
    assert demos, "no demo file found in agent worktree: " + out
    patch = os.path.join(outdir, "patch.diff")
    assert os.path.exists(patch)
    tests, pkgs = [], set()
    for d in demos:
        os.makedirs(os.path.dirname(os.path.join(scratch, d)), exist_ok=True)
        shutil.copy(os.path.join(wt, d), os.path.join(scratch, d))
        tests += re.findall(r"^func (Test\w+)\(", open(os.path.join(wt, d)).read(), re.M)
        pkgs.add("./" + os.path.dirname(d) + "/")
    tagset = set()
    for d in demos:
        tagset |= set(re.findall(r"^//go:build (\w+)\s*$", open(os.path.join(wt, d)).read(), re.M))
    tags = ("-tags " + ",".join(sorted(tagset)) + " ") if tagset else ""
    run = f"go test {tags}-vet=off -count=1 -run '^({'|'.join(tests)})$' {' '.join(sorted(pkgs))}"
    rc0, out0 = sh(run, scratch)
    res["ran"].append({"cmd": run, "tree": "original + demo", "exit": rc0})
    rcA, outA = sh(f"git apply {patch}", scratch)
    assert rcA == 0, "patch does not apply: " + outA
    rcb, outb = sh("go build ./...", scratch)
    res["ran"].append({"cmd": "go build ./...", "tree": "changed", "exit": rcb})
    rc1, out1 = sh(run, scratch)
    res["ran"].append({"cmd": run, "tree": "changed + demo", "exit": rc1, "tail": out1[-1500:]})
    for d in demos:
        os.remove(os.path.join(scratch, d))
    rc2, out2 = sh("go test -vet=off -count=1 -json ./pkg/... 2>&1 | grep -E '\"Action\":\"fail\"' | grep -o '\"Test\":\"[^\"]*\"' | sort -u", scratch)
    failed = set(re.findall(r'"Test":"([^"/]+)', out2))
    # timing-sensitive tests fail now and then on a loaded machine: a test outside the known
    # set counts only if it also fails when re-run alone (twice)
    for tname in sorted(failed - KNOWN):
        flaky = False
        for _ in range(2):
            rcx, _o = sh(f"go test -vet=off -count=1 -run '^{tname}$' ./pkg/... 2>&1 | tail -3", scratch)
            rcy, oy = sh(f"go test -vet=off -count=1 -run '^{tname}$' ./pkg/... 2>&1 | grep -c '^FAIL'", scratch)
            if oy.strip() == "0":
                flaky = True
                break
        if flaky:
            failed.discard(tname)
            res.setdefault("flaky_on_rerun", []).append(tname)
    res["ran"].append({"cmd": "go test -vet=off -count=1 ./pkg/...  (demo removed)", "tree": "changed", "failed_tests": sorted(failed)})
    ok = rc0 == 0 and rcb == 0 and rc1 != 0 and failed <= KNOWN
    res["confirmed"] = ok
    res["why"] = f"demo passes on original={rc0==0}, builds={rcb==0}, demo fails on changed={rc1!=0}, existing suite failures beyond known={sorted(failed-KNOWN)}"
    dst = f"/verif/seeded/{sid}"
    if ok:
        os.makedirs(dst, exist_ok=True)
        shutil.copy(patch, dst + "/patch.diff")
        for d in demos:
            shutil.copy(os.path.join(wt, d), dst + "/" + os.path.basename(d))
        notes = os.path.join(outdir, "NOTES.md")
        if os.path.exists(notes):
            shutil.copy(notes, dst + "/NOTES.md")
        meta = {"id": sid, "breaks_property": prop, "needs_to_manifest": needs,
                "demo_files": {os.path.basename(d): d for d in demos}, "demo_cmd": run,
                "confirmed_by": res["ran"], "caught_by": None}
        json.dump(meta, open(dst + "/meta.json", "w"), indent=1)
    print(json.dumps(res, indent=1)[:3000])
finally:
    sh(f"git -C /repo worktree remove --force {scratch}", "/")
