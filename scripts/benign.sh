#!/bin/bash
# Development helper (not a registered check): behaviour-preserving edits must leave every
# check silent. Applies each patch under /verif/benign/*/ (hand-made ones in benign/hand,
# the rest written by independent sub-agents acting as maintainers) to its own scratch
# worktree of /repo and runs the checks there.
# usage: benign.sh [patch-glob] [props]     e.g.  benign.sh 'C03r/r*' C03,C05
set -u
export GOFLAGS=-mod=mod GOPROXY=off GOSUMDB=off GOTOOLCHAIN=local
cd "$(dirname "$0")/.."
glob=${1:-'*/*'}; props=${2:-all}; par=${BENIGN_PAR:-6}
[ -x bin/liskcheck ] || scripts/check.sh C04 quick >/dev/null
out=$(mktemp -d /tmp/liskcheck-benign-out.XXXXXX)
one() {
  d=$1; name=$(echo "$d" | sed 's#benign/##; s#/#.#; s#\.diff$##')
  wt=$(mktemp -d /tmp/liskcheck-benign.XXXXXX)
  flock /tmp/liskcheck-wt.lock git -C /repo worktree add -q --detach "$wt" HEAD || { echo "$name: cannot create worktree"; return; }
  if ! git -C "$wt" apply "$PWD/$d" 2>/dev/null; then echo "$name: SKIP (does not apply to the current tree)"; flock /tmp/liskcheck-wt.lock git -C /repo worktree remove --force "$wt"; return; fi
  if ! (cd "$wt" && go build ./... >/dev/null 2>&1); then echo "$name: SKIP (does not build)"; flock /tmp/liskcheck-wt.lock git -C /repo worktree remove --force "$wt"; return; fi
  ev=$(mktemp -d /tmp/liskcheck-benign-ev.XXXXXX); mkdir -p "$ev/evidence"; cp known_findings.json "$ev/"
  bin/liskcheck -repo "$wt" -verif "$ev" -prop "$props" > "$out/$name.log" 2>&1
  v=$(grep -E "^VIOLATION|BROKEN" "$out/$name.log" | sed 's/ replay=.*//; s/VIOLATION property=//; s/: .*//' | tr '\n' ' ')
  if [ -n "$v" ]; then echo "$name: FALSE ALARM $v"; else echo "$name: silent"; fi
  flock /tmp/liskcheck-wt.lock git -C /repo worktree remove --force "$wt"; rm -rf "$ev"
}
export -f one; export out props
ls benign/$glob.diff | xargs -P "$par" -I{} bash -c 'one {}' | sort | tee "$out/SUMMARY.txt"
git -C /repo worktree prune
echo "logs: $out"
! grep -q "FALSE ALARM" "$out/SUMMARY.txt"
