#!/bin/bash
# Development helper (not a registered check): apply each behaviour-preserving edit in
# scripts/benign/*.diff to a scratch worktree of /repo and require every check to stay silent.
set -u
export GOFLAGS=-mod=mod GOPROXY=off GOSUMDB=off GOTOOLCHAIN=local
cd "$(dirname "$0")/.."
[ -x bin/liskcheck ] || scripts/check.sh C04 quick >/dev/null
rc=0
for d in scripts/benign/*.diff; do
  wt=$(mktemp -d /tmp/liskcheck-benign.XXXXXX)
  git -C /repo worktree add -q --detach "$wt" HEAD || { echo "cannot create worktree"; exit 2; }
  if ! git -C "$wt" apply "$PWD/$d"; then echo "SKIP $d (does not apply)"; git -C /repo worktree remove --force "$wt"; continue; fi
  ev=$(mktemp -d /tmp/liskcheck-benign-ev.XXXXXX); mkdir -p "$ev/evidence"; cp known_findings.json "$ev/"
  out=$(bin/liskcheck -repo "$wt" -verif "$ev" -prop "${1:-all}" 2>&1)
  if echo "$out" | grep -qE "^VIOLATION|BROKEN|undecided"; then echo "FALSE ALARM on $d"; echo "$out" | grep -E "FAIL|VIOLATION" | head; rc=1; else echo "silent on $d"; fi
  git -C /repo worktree remove --force "$wt"; rm -rf "$ev"
done
git -C /repo worktree prune
exit $rc
