#!/bin/bash
# development helper: apply a patch to /repo, run checks, undo.
# usage: mut.sh <patch.diff> Cnn[,Cmm...]
set -u
P="$1"; PROPS="$2"
cd /repo || exit 2
if ! git diff --quiet; then echo "repo dirty, refusing"; exit 2; fi
git apply "$P" || { echo "patch does not apply"; exit 2; }
trap 'git -C /repo checkout -- . ; git -C /repo clean -fdq -- pkg cmd >/dev/null 2>&1' EXIT
rc=0
for pr in ${PROPS//,/ }; do
  /verif/scripts/check.sh "$pr" quick | grep -E "FAIL|want:|VIOLATION|^OK|BROKEN|UNDECIDED|at pkg" | head -${MUT_LINES:-30}
done
