#!/bin/bash
# usage: check.sh Cnn quick|thorough
# Rebuilds the analyser if its sources changed, then analyses /repo's current
# working tree. Exit 0 = all obligations discharged (or listed as known
# findings); exit 1 + "VIOLATION property=… replay=…" otherwise; exit 2 = the
# tree could not be analysed (never reported as "holds").
#
# thorough = the quick rules (C20: plus the whole-module sweep) plus a checker
# self-test: every stored seeded violation of this property is applied to a
# scratch worktree of /repo's HEAD (outside /repo and /verif, removed
# afterwards) and the check must report it; every stored behaviour-preserving
# refactoring written for this property (benign/<id>r/, benign/<id>s/, benign/<id>t/, benign/<id>u/, benign/<id>v/, benign/X0<n>w/, benign/X0<n>x/, benign/hand/) is applied
# the same way and the check must stay silent. A self-test miss or false alarm
# means the checker regressed: exit 2, not a verdict about /repo.
set -u
cd "$(dirname "$0")/.."
VERIF="$(pwd)"
export GOFLAGS=-mod=mod GOPROXY=off GOSUMDB=off GOTOOLCHAIN=local GOWORK=off
PROP="${1:?property id}"
TIER="${2:-${VERIF_TIER:-quick}}"
REPO="${VERIF_REPO:-/repo}"
BIN="$VERIF/bin/liskcheck"
need=0
[ -x "$BIN" ] || need=1
if [ $need -eq 0 ]; then
  for f in "$VERIF"/tool/*.go "$VERIF"/tool/go.mod; do
    [ "$f" -nt "$BIN" ] && need=1 && break
  done
fi
if [ $need -eq 1 ]; then
  mkdir -p "$VERIF/bin"
  (cd "$VERIF/tool" && go build -o "$BIN" .) || { echo "BROKEN: analyser does not build"; exit 2; }
fi
"$BIN" -repo "$REPO" -verif "$VERIF" -prop "$PROP" -tier "$TIER"
rc=$?
if [ "$TIER" != "thorough" ] || [ $rc -ne 0 ]; then
  exit $rc
fi
# ---- thorough: seeded-violation self-test of the checker
SCR="$(mktemp -d /tmp/liskcheck-selftest.XXXXXX)"
results="[]"
miss=0
for meta in "$VERIF"/seeded/*/meta.json; do
  [ -f "$meta" ] || continue
  p=$(python3 -c "import json,sys;print(json.load(open(sys.argv[1]))['breaks_property'])" "$meta")
  [ "$p" = "$PROP" ] || continue
  sid=$(basename "$(dirname "$meta")")
  wt="$SCR/$sid"; out="$SCR/out_$sid"; mkdir -p "$out"
  if ! git -C "$REPO" worktree add -q --detach "$wt" HEAD 2>/dev/null; then
    results=$(python3 -c "import json,sys;r=json.loads(sys.argv[1]);r.append({'seed':sys.argv[2],'status':'skipped: cannot create scratch worktree'});print(json.dumps(r))" "$results" "$sid"); continue
  fi
  if git -C "$wt" apply "$VERIF/seeded/$sid/patch.diff" 2>/dev/null; then
    cp "$VERIF/known_findings.json" "$out/" 2>/dev/null
    "$BIN" -repo "$wt" -verif "$out" -prop "$PROP" -tier quick > "$out/log" 2>&1
    src=$?
    if [ $src -eq 1 ] && grep -q "^VIOLATION property=$PROP" "$out/log"; then st="caught"; else st="MISSED (exit $src)"; miss=1; fi
  else
    st="skipped: patch does not apply to the current HEAD"
  fi
  git -C "$REPO" worktree remove --force "$wt" >/dev/null 2>&1
  results=$(python3 -c "import json,sys;r=json.loads(sys.argv[1]);r.append({'seed':sys.argv[2],'status':sys.argv[3]});print(json.dumps(r))" "$results" "$sid" "$st")
  echo "  self-test seed $sid: $st"
done
# ---- thorough: behaviour-preserving edits written for this property must leave it silent
bresults="[]"
alarm=0
for d in "$VERIF"/benign/"$PROP"r/*.diff "$VERIF"/benign/"$PROP"s/*.diff "$VERIF"/benign/"$PROP"t/*.diff "$VERIF"/benign/"$PROP"u/*.diff "$VERIF"/benign/"$PROP"v/*.diff "$VERIF"/benign/X0?w/*.diff "$VERIF"/benign/X0?x/*.diff "$VERIF"/benign/hand/*.diff; do
  [ -f "$d" ] || continue
  bid="$(basename "$(dirname "$d")")/$(basename "$d" .diff)"
  # patches this property's check is known not to see through (DESIGN.md §7): listed, not run
  if grep -qx "$bid $PROP" "$VERIF/scripts/benign_expected.txt" 2>/dev/null; then
    bresults=$(python3 -c "import json,sys;r=json.loads(sys.argv[1]);r.append({'patch':sys.argv[2],'status':'known limitation of this check (DESIGN.md section 7): not run'});print(json.dumps(r))" "$bresults" "$bid")
    echo "  self-test benign $bid: known limitation, not run"
    continue
  fi
  wt="$SCR/b_$(echo "$bid" | tr / _)"; out="$SCR/bout_$(echo "$bid" | tr / _)"; mkdir -p "$out"
  git -C "$REPO" worktree add -q --detach "$wt" HEAD 2>/dev/null || continue
  if git -C "$wt" apply "$d" 2>/dev/null; then
    cp "$VERIF/known_findings.json" "$out/" 2>/dev/null
    "$BIN" -repo "$wt" -verif "$out" -prop "$PROP" -tier quick > "$out/log" 2>&1
    src=$?
    if [ $src -eq 0 ]; then st="silent"
    elif [ $src -eq 2 ] && grep -q "type/load errors" "$out/log"; then st="skipped: the patched tree does not type-check (the patch is out of date with a later repair)"
    else st="FALSE ALARM (exit $src)"; alarm=1; fi
  else
    st="skipped: patch does not apply to the current HEAD"
  fi
  git -C "$REPO" worktree remove --force "$wt" >/dev/null 2>&1
  bresults=$(python3 -c "import json,sys;r=json.loads(sys.argv[1]);r.append({'patch':sys.argv[2],'status':sys.argv[3]});print(json.dumps(r))" "$bresults" "$bid" "$st")
  echo "  self-test benign $bid: $st"
done
rm -rf "$SCR"; git -C "$REPO" worktree prune >/dev/null 2>&1
python3 - "$VERIF/evidence/$PROP.json" "$results" "$bresults" <<'PY'
import json,sys
p,res,bres=sys.argv[1],json.loads(sys.argv[2]),json.loads(sys.argv[3])
e=json.load(open(p))
e['coverage']['seeded_selftest']=res
e['coverage']['benign_selftest']=bres
e['coverage']['explanation']+=" Thorough tier: plus the checker self-test in both directions — each stored seeded violation of this property applied to a scratch worktree must be reported, and each stored behaviour-preserving refactoring written for this property must leave the check silent."
json.dump(e,open(p,'w'),indent=1)
PY
if [ $miss -ne 0 ]; then
  echo "BROKEN property=$PROP: the checker no longer reports a stored seeded violation (checker regression, not a verdict about the repository)"
  exit 2
fi
if [ $alarm -ne 0 ]; then
  echo "BROKEN property=$PROP: the checker raises an alarm on a stored behaviour-preserving refactoring (checker regression, not a verdict about the repository)"
  exit 2
fi
exit 0
