#!/bin/bash
# usage: check.sh Cnn quick|thorough
# Rebuilds the analyser if its sources changed, then analyses /repo's current
# working tree. Exit 0 = all obligations discharged (or listed as known
# findings); exit 1 + "VIOLATION property=… replay=…" otherwise; exit 2 = the
# tree could not be analysed (never reported as "holds").
set -u
cd "$(dirname "$0")/.."
VERIF="$(pwd)"
export GOFLAGS=-mod=mod GOPROXY=off GOSUMDB=off GOTOOLCHAIN=local GOWORK=off
PROP="${1:?property id}"
TIER="${2:-${VERIF_TIER:-quick}}"
REPO="${VERIF_REPO:-/repo}"
BIN="$VERIF/bin/liskcheck"
need=0
[ -x "$BIN" ] || need=1
if [ $need -eq 0 ]; then
  for f in "$VERIF"/tool/*.go "$VERIF"/tool/go.mod; do
    [ "$f" -nt "$BIN" ] && need=1 && break
  done
fi
if [ $need -eq 1 ]; then
  mkdir -p "$VERIF/bin"
  (cd "$VERIF/tool" && go build -o "$BIN" .) || { echo "BROKEN: analyser does not build"; exit 2; }
fi
exec "$BIN" -repo "$REPO" -verif "$VERIF" -prop "$PROP" -tier "$TIER"
