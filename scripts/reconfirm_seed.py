#!/usr/bin/env python3
"""Re-confirm a stored seed against /repo's current HEAD (the repaired tree):
demo passes without the patch, fails with it, the tree builds. Records the result in meta.json."""
import json, os, shutil, subprocess, sys
sid = sys.argv[1]
ENV = dict(os.environ, GOFLAGS="-mod=mod", GOPROXY="off", GOSUMDB="off", GOTOOLCHAIN="local")
def sh(cmd, cwd, timeout=900):
    p = subprocess.run(cmd, cwd=cwd, shell=True, env=ENV, stdout=subprocess.PIPE, stderr=subprocess.STDOUT, text=True, timeout=timeout)
    return p.returncode, p.stdout
d = f"/verif/seeded/{sid}"
m = json.load(open(d + "/meta.json"))
scratch = f"/tmp/rc/{sid}"
os.makedirs("/tmp/rc", exist_ok=True)
sh(f"git -C /repo worktree remove --force {scratch}", "/")
rc, out = sh(f"git -C /repo worktree add -q --detach {scratch} HEAD", "/")
assert rc == 0, out
try:
    for base, rel in m["demo_files"].items():
        os.makedirs(os.path.dirname(os.path.join(scratch, rel)), exist_ok=True)
        shutil.copy(os.path.join(d, base), os.path.join(scratch, rel))
    head = sh("git rev-parse --short HEAD", scratch)[1].strip()
    rc0, o0 = sh(m["demo_cmd"], scratch)
    rcA, oA = sh(f"git apply {d}/patch.diff", scratch)
    rcb, ob = sh("go build ./...", scratch)
    rc1, o1 = sh(m["demo_cmd"], scratch)
    ok = rc0 == 0 and rcA == 0 and rcb == 0 and rc1 != 0
    m["reconfirmed_on_repaired_tree"] = {"repo_head": head, "demo_passes_without_patch": rc0 == 0, "patch_applies": rcA == 0, "builds": rcb == 0, "demo_fails_with_patch": rc1 != 0, "ok": ok}
    json.dump(m, open(d + "/meta.json", "w"), indent=1)
    print(sid, "OK" if ok else "PROBLEM", m["reconfirmed_on_repaired_tree"], (o0[-400:] if rc0 else ""))
finally:
    sh(f"git -C /repo worktree remove --force {scratch}", "/")
