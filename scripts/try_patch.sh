#!/bin/bash
# Development helper: run checks against one patch in a scratch worktree (never touches /repo's tree).
# usage: try_patch.sh <patch.diff> [Cnn|all] [lines-of-detail]
set -u
export GOFLAGS=-mod=mod GOPROXY=off GOSUMDB=off GOTOOLCHAIN=local
cd "$(dirname "$0")/.."
patch=$(readlink -f "$1"); prop=${2:-all}; n=${3:-5}
wt=$(mktemp -d /tmp/liskcheck-try.XXXXXX)
flock /tmp/liskcheck-wt.lock git -C /repo worktree add -q --detach "$wt" HEAD || exit 2
if ! git -C "$wt" apply "$patch"; then echo "PATCH DOES NOT APPLY"; git -C /repo worktree remove --force "$wt"; exit 2; fi
(cd "$wt" && go build ./... 2>&1 | head -5)
ev=$(mktemp -d /tmp/liskcheck-try-ev.XXXXXX); mkdir -p "$ev/evidence"; cp known_findings.json "$ev/"
"${LISKCHECK_BIN:-bin/liskcheck}" -repo "$wt" -verif "$ev" -prop "$prop" > "$ev/out.log" 2>&1
grep -E -A"$n" "^  FAIL|undecided|BROKEN" "$ev/out.log" | cut -c1-700
grep -E "^VIOLATION|^OK" "$ev/out.log" | tr '\n' ' '; echo
flock /tmp/liskcheck-wt.lock git -C /repo worktree remove --force "$wt"; rm -rf "$ev"
