#!/usr/bin/env python3
"""Regenerates /verif/MANIFEST.json from the table below (single source of truth)."""
import json, os
V = os.path.dirname(os.path.dirname(os.path.abspath(__file__)))

BASELINE_OFF = ("cd /repo && GOFLAGS=-mod=mod GOPROXY=off GOSUMDB=off GOTOOLCHAIN=local "
                "go build ./... && GOFLAGS=-mod=mod GOPROXY=off GOSUMDB=off GOTOOLCHAIN=local "
                "go test -json -vet=off -count=1 -timeout 25m ./...")

TRUST = ("Trusted base: Go type checker and go/ssa construction (x/tools v0.29.0), the VTA call graph as an "
         "over-approximation of dynamic calls, the instance tables in /verif/tool/rules_*.go. Decides structural "
         "necessary conditions for all paths/callers; the runtime behaviour itself (values, timing, third-party "
         "libraries) is not decided. ")

# id -> (technique, level text, level note extra, design ref)
CLAIMED = {}
NA = {}

def claim(pid, technique, text, note, ref):
    CLAIMED[pid] = (technique, text, note, ref)

def na(pid, reason):
    NA[pid] = reason

exec(open(os.path.join(V, "scripts", "manifest_table.py")).read())

checks = []
for pid in sorted(CLAIMED):
    technique, text, note, ref = CLAIMED[pid]
    checks.append({
        "property_id": pid,
        "quick_cmd": f"./scripts/check.sh {pid} quick",
        "thorough_cmd": f"./scripts/check.sh {pid} thorough",
        "evidence_file": f"/verif/evidence/{pid}.json",
        "replay_cmd_template": "cat {path}",
        "engine": "liskcheck",
        "level_claimed": {"category": "other", "text": text, "design_ref": ref},
        "level_note": TRUST + note,
        "technique": technique,
    })
m = {
    "version": 1,
    "setup_cmd": "cd /verif/tool && GOFLAGS=-mod=mod GOPROXY=off GOSUMDB=off GOTOOLCHAIN=local GOWORK=off go build -o /verif/bin/liskcheck .",
    "hooks": {
        "guard": "verif",
        "enable": "none needed: the analysis reads /repo's sources as they are; no instrumentation is compiled in",
        "baseline_off_cmd": BASELINE_OFF,
        "source_commits": [],
        "add_only": True,
    },
    "engines": [{
        "name": "liskcheck",
        "path": "/verif/tool",
        "serves_properties": sorted(CLAIMED),
        "kind_free_text": "repository-specific static analyser on go/packages + go/ssa + VTA call graph: edge-fact dominance with linear comparison normal forms, who-may-call/who-may-write, must-pass-through path search, lock sets, closure capture, codec schema tables, order-domain abstract interpretation",
    }],
    "checks": checks,
    "not_applicable": [{"property_id": k, "reason": NA[k]} for k in sorted(NA)],
    "notes": "All claims are level 'other': structural necessary conditions decided statically for every path/caller; see DESIGN.md for what each check does and does not decide. known_findings.json lists genuine defects found on the pinned tree.",
}
json.dump(m, open(os.path.join(V, "MANIFEST.json"), "w"), indent=1)
print("claimed", sorted(CLAIMED), "n/a", sorted(NA))
