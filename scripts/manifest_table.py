claim("C04", "who-may-call + edge-fact dominance (SSA, linear comparison normal form) + phi-monotonicity",
      "For every caller and every path: Chain.RemoveBlock is reachable only under the dominating fact height > stored finalized height on the cached tip; the finalized marker has one writer fed by an argument proved monotone on every phi edge; the finalize event is published iff raised and only after the commit. Breaking any of these breaks the property for some block sequence; the arithmetic of the precommitted height is not decided.",
      "Assumes GetFinalizedHeight returns the stored marker and ignores uint32 wrap-around.", "DESIGN.md §4 C04")
for pid in ["C01","C02","C03","C05","C06","C07","C08","C09","C11","C12","C13","C14","C15","C16","C17","C18","C19","C20"]:
    na(pid, "check not built yet in this round (planned, see DESIGN.md §4); not claimed until its rules run clean")
na("C10", "history independence, LIP-0039 agreement and proof soundness are equalities between hash computations over all maps/update sequences; no structural necessary condition worth claiming (panic-freedom of Verify is under C09, the delete sentinel under C16)")
