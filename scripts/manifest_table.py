claim("C01", "edge-fact dominance over SSA (linear normal form with floor-division atoms) + term provenance of weight updates",
      "Thin: threshold bounds dominate the parameter store; precommit/prevote increments are control-dependent on the quorum and lower-bound facts and use the voter's weight in the parameters at the voted block's own height; max heights are first-quorum entries; the verifier rejects headers the window flags. Each clause is necessary for finality safety; the quorum-intersection argument over fork histories is not decided.",
      "Counting arithmetic, getHeightNotPrevoted and validator-set dynamics are not decided.", "DESIGN.md §4 C01")
claim("C02", "effect analysis over the call graph (no clock/random/env/goroutine/map-order) + per-height parameter provenance + schema tables",
      "Determinism of the BFT height computation for every reachable function, the per-height parameter lookup of every weight and threshold, update order, window length and the codec tables of the stored state. Agreement with LIP-0058 on concrete chains is not decided.",
      "No independent LIP-0058 transcription is run; value-level behaviour is not decided.", "DESIGN.md §4 C02")
claim("C03", "reject-edge tables by edge-fact dominance, callee-error propagation, who-may-write, field-coverage tables, capture analysis",
      "Every success exit of the verifier and every path to AddBlock is dominated by each validity rule's passing edge (11 header rules, ABI steps, validatorsHash, event count, event root, state root via Commit); stateless validation dominates every apply call; every signed header field is consumed; nothing persistent/evented happens before acceptance except the recorded findings. Sufficiency of the rules is not decided.",
      "Slot arithmetic, signature maths and application behaviour are not decided; three known findings are listed in known_findings.json.", "DESIGN.md §4 C03")
claim("C04", "who-may-call + edge-fact dominance (SSA, linear comparison normal form) + phi-monotonicity",
      "For every caller and every path: Chain.RemoveBlock is reachable only under the dominating fact height > stored finalized height on the cached tip; the finalized marker has one writer fed by an argument proved monotone on every phi edge; the finalize event is published iff raised and only after the commit. The arithmetic of the precommitted height is not decided.",
      "Assumes GetFinalizedHeight returns the stored marker and ignores uint32 wrap-around.", "DESIGN.md §4 C04")
claim("C05", "key-family symmetry tables + dominance chain + edge-fact classification of diff writes (SSA terms)",
      "Every key family saveBlock sets is deleted by removeBlock under the same key expression and no stronger guard; pruning deletes only at or below finality; the revert diff is stored/read/deleted under one key in a dominance-ordered chain; cacheDB.commit's three diff classes are emitted under exactly their defining edge facts and RevertDiff is the inverse table; init is a private copy. Equality of the resulting database is not decided.",
      "Does not execute the code: byte equality after apply/delete sequences and the application-state side are not decided.", "DESIGN.md §4 C05")
claim("C06", "edge-fact dominance + result-used-under-error + value provenance + comparator-direction agreement",
      "Accepting exits of the aggregate-commit verifier are dominated by every bound (incl. the next-parameter bound on the success edge of its lookup), certificate pieces come from the node's own header and that height's parameters, keys/weights stay aligned with the aggregation bits, all BLS-key comparators agree, the single-commit validator adds only after its checks and never accepts, creator and verifiers hash the same message. BLS soundness is not decided.",
      "Cryptographic soundness and weight arithmetic are trusted/value-level.", "DESIGN.md §4 C06")
claim("C07", "order-domain abstract interpretation of comparison-only kernels (exhaustive over weak orderings) + dominance ordering",
      "The contradiction kernel is proved comparison-only and its table over every weak ordering of the six header integers equals the LIP-0014 specification (symmetric, false for different generators); the three priority predicates equal the strict lexicographic order; field predicates equal their tables; process() consults them in LIP-0014 order; the window scan sees the most recent header first. Exhaustive for the abstract domain, hence all uint32 inputs up to wrap-around. History-level clauses are not decided.",
      "uint32 wrap-around is outside the abstract domain.", "DESIGN.md §4 C07")
claim("C08", "schema-table agreement (struct tags vs generated Encode/Decode call tables) + dominance in the primitives",
      "For every generated codec (>100): writer and both readers handle exactly the tagged fields, ascending, with dual primitives, correct strict flags and propagated errors; DecodeStrict rejects trailing bytes; primitive duals agree on wire type and framing; varint/bool/string acceptance exits are dominated by the canonical-form checks; IDs are Hash(Encode()); signing structs are sub-schemas. Value-level round trips are not decided.",
      "Varint arithmetic at boundaries, NFC library behaviour and the Lisk32 checksum are not decided.", "DESIGN.md §4 C08")
claim("C11", "must-pass-through path search + save/load field tables",
      "Only the persistence clause and handle coherence: every mutation of root/size/appendPath reaches the persist call on all successful paths, the persisted record and the loader agree on fields and key, node-index prefixes agree, and non-persisted derived state is invalidated on append. All root/proof/witness equalities are NOT decided (known gap G1).",
      "The core of C11 (tree arithmetic) is out of reach of this technique; the check passes while gap G1 (CalculateRootFromAppendPath's append path) exists.", "DESIGN.md §4 C11, §5")
claim("C12", "typestate of key arguments (origin analysis) + edge-fact dominance + sentinel-producer table + must-pass-through",
      "Every key handed to overlay or store is the view's prefixed key; the limit never truncates a filtered scan; cache.set/add/del follow the write-through facts; the not-in-database sentinel is preserved by every producer; merge order/shadowing/limit-after-sort; every pebble iterator is closed on all paths. Equivalence with a sorted-map model is not decided.",
      "Bound inclusivity and pebble scan semantics are value-level.", "DESIGN.md §4 C12")
claim("C13", "who-may-call/who-may-write over the call graph + value identity of the batch + instruction dominance",
      "On every path of the block pipeline one batch value carries consensus-store commit, revert diff, block, indexes and finalized marker into exactly one synced pebble Apply, staged before and cached after it; no other chain-DB write is reachable; restart derives the tip from the height index. pebble's own atomicity is trusted.",
      "DB instances are abstracted to packages (no points-to); the ABI boundary (application store) is cut by design.", "DESIGN.md §4 C13")
claim("C14", "lock-set dataflow with parameter-relative lock paths and callee summaries + must-pass-through + edge facts",
      "No re-entrant acquire/lock-order cycle/blocking wait under the pool or per-sender mutex on any path (incl. Add→evict→remove chains), index co-update on all paths, the replaced ID is consumed, bounds on the skip-eviction and per-sender edges, all-or-nothing promotion, heap orderings. Gap-freeness of nonce runs is not decided.",
      "Mutex instances are identified by access path; fee arithmetic and fairness are not decided.", "DESIGN.md §4 C14")
claim("C15", "instruction dominance + value provenance (SSA terms) + call-sequence mirror",
      "Persist-before-publish ordering, exact provenance of MaxHeightGenerated/MaxHeightPrevoted/Height/PreviousBlockID, monotone persisted height, seal derives fields with the validator's functions and signs last, selection guards. One known finding (generator ignores next validators).",
      "Selection optimality and real restarts are not decided.", "DESIGN.md §4 C15")
claim("C16", "must-pass-through and dominance in ExecuteTransaction + constant-discriminator table + sentinel agreement + typestate",
      "Snapshot protocol on every path (restore iff the command failed, same id, release on all non-invalid exits, standard event after the restore with the right flag), revertible/unrevertible discriminator, delete sentinel agrees with the trie's removal test, one batch/one write in Commit/revert with root check before the write, recovery path never dereferences a nil execution context. Root equality is not decided.",
      "Module behaviour and hash equalities are not decided.", "DESIGN.md §4 C16")
claim("C17", "typestate of the pending-response table: dominance + must-pass-through path search + lock-set dataflow",
      "Register-before-send, release on every exit with the same key, nothing blocking under resMu, bounded select and retry loop, ID correlation end to end, both IDs codec field 1.",
      "libp2p stream behaviour and timing are not modelled.", "DESIGN.md §4 C17")
claim("C18", "edge-fact dominance + exhaustive truth-table interpretation of the gate predicate + who-may-call + key-function agreement",
      "Gates consult the predicate; the predicate's truth table equals the specification; accumulation, ban threshold, expiry sweep under their defining facts; ban implies disconnect with an address that carries the peer id; one key function for the maps; penalty coverage and conditionality.",
      "libp2p honouring the gater and wall-clock behaviour are not decided.", "DESIGN.md §4 C18")
claim("C19", "running-extremum shape check + schema pairs + must-pass-through + constant propagation of restore flags",
      "Filter chain and argmax shape, RPC schema pairs, malformed-request edges reach the ban, served segment bounds/order, fast-sync guard/restore/ban protocol with the temp-table flags on the restore path, search floor, downloader order.",
      "Convergence and behaviour against stalling peers are not decided.", "DESIGN.md §4 C19")
claim("C20", "lock-set dataflow (may/must) with callee summaries + field-guard consistency + closure-capture analysis",
      "For every function of the chain/consensus/event/db/router packages: no re-entrant acquire, acyclic lock order, no unbounded wait under a lock (three known findings), lock-protected fields accessed under their lock everywhere, no racy captured write in goroutine bodies, send/close exclusion.",
      "Happens-before through channels is not modelled; mutex instances are identified by access path.", "DESIGN.md §4 C20")
na("C09", "check still being completed in this round (panic reachability with compiler bounds report; the reviewed residual table is not final); not claimed until it runs clean")
na("C10", "history independence, LIP-0039 agreement and proof soundness are equalities between hash computations over all maps/update sequences; no structural necessary condition worth claiming (panic-freedom of Verify is under C09, the delete sentinel under C16)")
