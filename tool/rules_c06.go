package main

import (
	"fmt"
	"go/types"
	"strings"

	"golang.org/x/tools/go/ssa"
)

// sortDirection classifies a less(i,j) function as ascending or descending on
// one key: `a[i].K < a[j].K`, `Compare(a[i].K, a[j].K) < 0`, or the mirrored forms.
func sortDirection(fn *ssa.Function) (dir, key string, ok bool) {
	for _, r := range Returns(fn) {
		if r.Block() == fn.Recover || len(r.Results) != 1 {
			continue
		}
		return returnOrder(fn, r)
	}
	return "", "", false
}

// returnOrder reads the ordering one return of a comparator expresses. Two comparator
// shapes are understood: the less-function of sort.Slice (index parameters i, j; returns
// bool) and the three-way function of slices.SortFunc (element parameters a, b; returns
// int). The result is "asc"/"desc" and the compared key with the two sides unified.
func returnOrder(fn *ssa.Function, r *ssa.Return) (dir, key string, ok bool) {
	t := T(r.Results[0])
	n := len(fn.Params)
	if n < 2 {
		return "", "", false
	}
	first, second := fmt.Sprintf("p%d", n-2), fmt.Sprintf("p%d", n-1)
	mentions := func(x *Term, p string) bool {
		return x.Any(func(y *Term) bool { return y.Op == "param" && y.Sym == p })
	}
	norm := func(x *Term) string {
		s := x.String()
		for _, p := range []string{first, second} {
			s = strings.ReplaceAll(s, "["+p+"]", "[·]")
			s = strings.ReplaceAll(s, "("+p+")", "(·)")
			s = strings.ReplaceAll(s, p+".", "·.")
			if s == p {
				s = "·"
			}
		}
		return s
	}
	flip := false
	for t.Op == "unop" && t.Sym == "-" {
		t = t.Args[0]
		flip = !flip
	}
	isCompare := func(x *Term) bool {
		return x.Op == "call" && len(x.Args) == 2 && (strings.HasSuffix(x.Sym, "bytes.Compare") || strings.HasSuffix(x.Sym, "cmp.Compare") || strings.Contains(x.Sym, "cmp.Compare["))
	}
	var l, rr *Term
	op := "<"
	switch {
	case isCompare(t): // three-way: Compare(a, b) orders ascending
		l, rr = t.Args[0], t.Args[1]
	case t.Op == "binop":
		op = t.Sym
		l, rr = t.Args[0], t.Args[1]
		m := map[string]string{"<": ">", ">": "<", "<=": ">=", ">=": "<="}
		if isCompare(l) && rr.String() == "0" {
			l, rr = l.Args[0], l.Args[1]
		} else if isCompare(rr) && l.String() == "0" {
			op = m[op]
			l, rr = rr.Args[0], rr.Args[1]
		}
		if _, known := m[op]; !known {
			return "", "", false
		}
	default:
		return "", "", false
	}
	if norm(l) != norm(rr) {
		return "", "", false
	}
	key = norm(l)
	fl := mentions(l, first) && mentions(rr, second)
	sl := mentions(l, second) && mentions(rr, first)
	asc := (fl && (op == "<" || op == "<=")) || (sl && (op == ">" || op == ">="))
	desc := (fl && (op == ">" || op == ">=")) || (sl && (op == "<" || op == "<="))
	if flip {
		asc, desc = desc, asc
	}
	switch {
	case asc:
		return "asc", key, true
	case desc:
		return "desc", key, true
	}
	return "", "", false
}

// forwardedComparator: a comparator that only forwards to a function its enclosing new helper
// received as a parameter — sortBy(items, less) { sort.Slice(items, func(i, j int) bool {
// return less(items[i], items[j]) }) } — stands for the function literal the root passes for
// that parameter (same argument order only).
func forwardedComparator(root, f *ssa.Function) *ssa.Function {
	h := f.Parent()
	if h == nil || !isNewHelper(h) || len(f.Params) != 2 {
		return f
	}
	var ret *ssa.Return
	for _, b := range f.Blocks {
		if r, ok := b.Instrs[len(b.Instrs)-1].(*ssa.Return); ok {
			if ret != nil {
				return f
			}
			ret = r
		}
	}
	if ret == nil || len(ret.Results) != 1 {
		return f
	}
	call, ok := ret.Results[0].(*ssa.Call)
	if !ok || len(call.Common().Args) != 2 {
		return f
	}
	var prm *ssa.Parameter
	switch v := call.Common().Value.(type) {
	case *ssa.FreeVar:
		prm, _ = bindingOf(v).(*ssa.Parameter)
	case *ssa.UnOp:
		if fv, isFV := v.X.(*ssa.FreeVar); isFV {
			if al, isAl := bindingOf(fv).(*ssa.Alloc); isAl {
				prm, _ = uniqueStore(al).(*ssa.Parameter)
			}
		}
	}
	if prm == nil || prm.Parent() != h {
		return f
	}
	// the arguments are the elements at the comparator's first and second index, in that order
	a0, a1 := T(call.Common().Args[0]), T(call.Common().Args[1])
	uses := func(t *Term, p string) bool {
		return t.Any(func(y *Term) bool { return y.Op == "param" && y.Sym == p })
	}
	if !(uses(a0, "p0") && !uses(a0, "p1") && uses(a1, "p1") && !uses(a1, "p0")) {
		return f
	}
	k := -1
	for i, q := range h.Params {
		if q == prm {
			k = i
		}
	}
	var lit *ssa.Function
	n := 0
	for _, c := range AllCallsDeep(root) {
		if c.Common().StaticCallee() != h || k < 0 || k >= len(c.Common().Args) {
			continue
		}
		n++
		switch x := c.Common().Args[k].(type) {
		case *ssa.MakeClosure:
			lit, _ = x.Fn.(*ssa.Function)
		case *ssa.Function:
			lit = x
		}
	}
	if n == 1 && lit != nil && len(lit.Params) == 2 {
		return lit
	}
	return f
}

// sortCallNames: the library sorts whose second argument is a comparator.
func isSortCall(name string) bool {
	return name == "sort.Slice" || name == "sort.SliceStable" || strings.HasPrefix(name, "slices.SortFunc") || strings.HasPrefix(name, "slices.SortStableFunc")
}

// sortSites lists the comparator-taking sort calls of fn with their comparator closures.
func sortSites(fn *ssa.Function) (calls []ssa.CallInstruction, cmps []*ssa.Function) {
	for _, call := range AllCallsDeep(fn) {
		if !isSortCall(CalleeName(call.Common())) || len(call.Common().Args) < 2 {
			continue
		}
		var f *ssa.Function
		switch x := ArgK(call, 1).(type) {
		case *ssa.MakeClosure:
			f, _ = x.Fn.(*ssa.Function)
		case *ssa.Function:
			f = x
		}
		if f != nil {
			f = forwardedComparator(fn, f)
			calls = append(calls, call)
			cmps = append(cmps, f)
		}
	}
	return
}

// verifierSort: the list's sort method, or the verifying function itself when the sort is
// written in place there.
func verifierSort(p *Program, vac *ssa.Function) string {
	if p.Fn("pkg/consensus.(*ValidatorsWithBLSKey).sort") == nil && sortClosure(vac) != nil {
		return FuncKey(vac)
	}
	return "pkg/consensus.(*ValidatorsWithBLSKey).sort"
}

// aggregatorSort finds the key-pair sort method SingleCommits.Aggregate calls
// before it fixes the aggregation-bit positions.
func aggregatorSort(p *Program) string {
	agg := p.Fn("pkg/consensus/certificate.(SingleCommits).Aggregate")
	if agg == nil {
		return "pkg/consensus/certificate.(SingleCommits).Aggregate"
	}
	for _, call := range AllCalls(agg) {
		if g := call.Common().StaticCallee(); g != nil && strings.HasPrefix(FuncKey(g), "pkg/consensus/certificate.(*AddressKeyPairs).") && sortClosure(g) != nil {
			return FuncKey(g)
		}
	}
	return "pkg/consensus/certificate.(SingleCommits).Aggregate"
}

// sortClosure returns the less-function passed to sort.Slice in fn.
func sortClosure(fn *ssa.Function) *ssa.Function {
	_, cmps := sortSites(fn)
	if len(cmps) > 0 {
		return cmps[0]
	}
	return nil
}

func init() {
	register("C06", "Structural necessary conditions of sound, bounded, self-consistent certificates, for every path: "+
		"(R1) the aggregate-commit verifier's accepting exits are dominated by: non-empty bits and signature, height > maxHeightCertified, height <= maxHeightPrecommitted, and — on the paths where a next BFT-parameter height exists — height <= next−1; the certificate is rebuilt from the node's own header at that height and keys, weights and threshold all come from the parameters of that height; "+
		"(R2) result-used-under-error: the value returned with a non-nil error by NextHeightBFTParameters is never used; "+
		"(R3) aggregation-bit alignment: keys[i] and weights[i] are filled from the same element of one sorted sequence and neither slice is reordered afterwards; every comparator that fixes bit positions or the validators hash orders BLS keys the same way; "+
		"(R4) the single-commit validator never returns Accept and adds to the pool only after all seven checks; "+
		"(R5) creator and verifiers hash the same message tag‖chainID‖signingBytes; "+
		"(R6) the commit the node assembles picks heights in (maxHeightCertified, min(next−1, maxHeightPrecommitted)] and only with weight >= threshold.",
		runC06)
}

func runC06(c *Ctx) {
	checkNextParamsNearest(c, "C06.R9 next-params-lookup-nearest-above")
	checkModuleStateless(c, "C06.D1 module-holds-no-state")
	p := c.P
	c.Assume = append(c.Assume, "BLS soundness and weight arithmetic are value-level; pool selection policy is not decided")
	vac := c.Anchor("pkg/consensus.(*Executer).verifyAggregateCommit")
	gac := c.Anchor("pkg/consensus.(*Executer).GetAggregateCommit")
	scv := c.Anchor("pkg/consensus.(*Executer).singleCommitValidator")
	if vac == nil || gac == nil || scv == nil {
		return
	}
	const AC = "blockchain.AggregateCommit"
	heights := "(*consensus/liskbft.API).GetBFTHeights"
	nextH := "(*consensus/liskbft.API).NextHeightBFTParameters"
	commitH := Matcher{"commit.Height", func(t *Term) bool {
		return t.Op == "field" && t.Sym == "Height" && t.Owner == AC && t.Args[0].String() == "p2"
	}}

	// ---- R1
	checkAggregateCommitVerifier(c, "C06.R1", vac)
	checkChangeDetectionComplete(c, "C06.G change-detection-complete", []string{"pkg/consensus/liskbft.(*API).SetBFTParameters", "pkg/consensus/liskbft.(*API).SetGeneratorKeys"})
	// ---- R8 the pool holds a commit once. Aggregation sums the weight of every stored commit
	// and adds every stored signature: a commit stored twice (Certify reaches the same height
	// by two routes; two gossip validators race between Has and Add) makes the node assemble
	// an aggregate its own verification rejects. The insertion itself must be guarded, under
	// the lock it is made with.
	if add := c.Anchor("pkg/consensus/certificate.(*Pool).Add"); add != nil {
		af := factsOf(add)
		n := 0
		for _, st := range storesToField(add, "consensus/certificate.Pool", "nonGossiped") {
			n++
			notIn := func(list string) bool {
				return af.EveryPathHas(st.Block(), func(f Fact) bool {
					if f.IsCmp || f.Truth || f.B.Op != "call" {
						return false
					}
					if !(strings.HasSuffix(f.B.Sym, "certificate.SingleCommits).has") || strings.Contains(f.B.Sym, "slices.Contains")) {
						return false
					}
					return strings.Contains(f.B.String(), "."+list)
				})
			}
			ok := notIn("gossiped") && notIn("nonGossiped")
			c.Require("C06.R8 pool-holds-a-commit-once", FuncKey(add)+": append to nonGossiped", p.InstrPos(st), "a commit is inserted only where it was found in neither list (same critical section)", ok, "")
		}
		c.MinInstances("C06.R8 pool-holds-a-commit-once", n, 1)
	}
	ff := factsOf(vac)
	_, _, _, _ = ff, commitH, heights, nextH

	// ---- R7 gossip bookkeeping moves commits, it never adds any: what Upgrade stores into the
	// pool's two lists is built only from elements that were in the pool already (only Add
	// inserts). Appending the caller's selection itself re-inserts commits that are in the pool
	// already — duplicates whose weight the aggregation then counts twice.
	if up := c.Anchor("pkg/consensus/certificate.(*Pool).Upgrade"); up != nil {
		const PL = "consensus/certificate.Pool"
		isPoolList := func(v ssa.Value) bool {
			ld, ok := stripConv(v).(*ssa.UnOp)
			if !ok {
				return false
			}
			fa, ok := ld.X.(*ssa.FieldAddr)
			if !ok {
				return false
			}
			o, st := ownerOfFieldBase(fa.X.Type())
			n := fieldNameOf(st.Field(fa.Field))
			return o == PL && (n == "gossiped" || n == "nonGossiped")
		}
		var fromPool func(v ssa.Value, seen map[ssa.Value]bool) (bool, string)
		fromPool = func(v ssa.Value, seen map[ssa.Value]bool) (bool, string) {
			v = stripConv(v)
			if seen[v] {
				return true, ""
			}
			seen[v] = true
			if isPoolList(v) {
				return true, ""
			}
			switch x := v.(type) {
			case *ssa.Const:
				return x.Value == nil, "constant"
			case *ssa.MakeSlice:
				return true, ""
			case *ssa.Phi:
				for _, e := range x.Edges {
					if ok, why := fromPool(e, seen); !ok {
						return false, why
					}
				}
				return true, ""
			case *ssa.Slice:
				if al, isAl := x.X.(*ssa.Alloc); isAl {
					// a literal or the temporary of a variadic call: every element stored into it
					if elems, ok := arrayElems(al); ok {
						for _, e := range elems {
							if ok, why := fromPool(e, seen); !ok {
								return false, why
							}
						}
						return true, ""
					}
					return false, "array " + al.Comment
				}
				return fromPool(x.X, seen)
			case *ssa.UnOp:
				// an element of a pool-derived slice
				if ia, ok := x.X.(*ssa.IndexAddr); ok {
					return fromPool(ia.X, seen)
				}
				if al, ok := x.X.(*ssa.Alloc); ok {
					if sv := uniqueStore(al); sv != nil {
						return fromPool(sv, seen)
					}
				}
			case *ssa.Call:
				if CalleeName(x.Common()) == "builtin:append" {
					for _, a := range x.Common().Args {
						if ok, why := fromPool(a, seen); !ok {
							return false, why
						}
					}
					return true, ""
				}
				if newHelperCallee(x) != nil {
					// a new helper can only rearrange the slices it is handed
					for _, a := range x.Common().Args {
						if _, isSlice := a.Type().Underlying().(*types.Slice); isSlice {
							if ok, why := fromPool(a, seen); !ok {
								return false, why
							}
						}
					}
					return true, ""
				}
			}
			return false, T(v).String()
		}
		n := 0
		for _, fld := range []string{"gossiped", "nonGossiped"} {
			for _, st := range storesToField(up, PL, fld) {
				n++
				ok, why := fromPool(st.Val, map[ssa.Value]bool{})
				c.Require("C06.R7 upgrade-moves-commits", FuncKey(up)+": "+fld+" =", p.InstrPos(st), "the new list holds only commits that were in the pool (moved or kept), never the caller's selection itself", ok, "comes from: "+why)
			}
		}
		c.MinInstances("C06.R7 upgrade-moves-commits", n, 2)
	}

	// ---- R2 result used under error
	for _, fn := range []*ssa.Function{vac, gac} {
		fx := factsOf(fn)
		for _, s := range CallsIn(fn, nextH) {
			var val ssa.Value
			for _, r := range *s.Call.Value().Referrers() {
				if ex, ok := r.(*ssa.Extract); ok && ex.Index == 0 {
					val = ex
				}
			}
			if val == nil {
				continue
			}
			bad := ""
			for _, u := range valueUses(val) {
				for _, f := range fx.FactsAt(u.Block()) {
					if f.IsCmp && f.Op.String() == "!=" && IsResult(nextH, 1).Match(f.L) && f.R.Sym == "nil" {
						bad = "used at " + p.InstrPos(u) + " where " + f.String()
					}
				}
			}
			c.Require("C06.R2 result-used-under-error", FuncKey(fn)+" ⇒ NextHeightBFTParameters#0", p.InstrPos(s.Call), "the height result is meaningless when the error is non-nil and must not be used there", bad == "", bad)
		}
	}

	// ---- U1 height-window arithmetic on unsigned integers never wraps into a comparison
	checkUnsignedDifferences(c, "C06.U1 unsigned-difference-guarded", func(fn *ssa.Function) bool {
		k := FuncKey(fn)
		return strings.HasPrefix(k, "pkg/consensus.(*Executer).") || strings.HasPrefix(k, "pkg/consensus/certificate.")
	}, c06UnsignedTable, 0)

	// ---- R4b the pool's duplicate test looks at every pooled commit: a "not found" answer is
	// given only after the scan is exhausted (an early negative relies on an order the pool
	// does not keep between Select calls, and lets a re-gossiped commit in twice)
	for _, key := range []string{"pkg/consensus/certificate.(SingleCommits).has"} {
		fn := c.Anchor(key)
		if fn == nil {
			continue
		}
		loops := naturalLoops(fn)
		bad := ""
		for _, r := range Returns(fn) {
			if len(r.Results) != 1 || T(r.Results[0]).String() != "false" {
				continue
			}
			for _, li := range loops {
				if li.Blocks[r.Block()] {
					bad = "returns false inside the scan at " + p.InstrPos(r)
				}
				// a block outside the loop but reachable only from inside without passing the
				// loop's exhaustion test
				for _, pr := range r.Block().Preds {
					if li.Blocks[pr] && pr != li.Header {
						if iff, ok := pr.Instrs[len(pr.Instrs)-1].(*ssa.If); ok {
							cond := T(iff.Cond).String()
							if !strings.Contains(cond, "builtin:len(") {
								bad = "returns false from inside the scan (" + cond + ") at " + p.InstrPos(r)
							}
						}
					}
				}
			}
		}
		// or no scan of its own at all: the answer is a library search over the whole list
		libSearch := false
		if len(loops) == 0 {
			for _, r := range Returns(fn) {
				if len(r.Results) == 1 {
					t := T(r.Results[0]).String()
					if (strings.Contains(t, "slices.ContainsFunc[") || strings.Contains(t, "slices.IndexFunc[") || strings.Contains(t, "slices.ContainsFunc(") || strings.Contains(t, "slices.IndexFunc(")) && strings.Contains(t, "(p0") {
						libSearch = true
					}
				}
			}
		}
		c.Require("C06.R4 duplicate-test-exhaustive", key, p.Pos(fn.Pos()), "the membership test answers false only when no pooled commit matched", (len(loops) >= 1 || libSearch) && bad == "", bad)
	}

	// ---- R3 alignment and comparator agreement
	{
		for _, s := range CallsIn(vac, "(consensus/certificate.Certificate).VerifyAggregateCertificateSignature") {
			a := s.Call.Common().Args
			keys, weights := valueOrigin(a[1]), valueOrigin(a[2])
			type fill struct{ idx, elem, field string }
			fills := map[ssa.Value]fill{}
			for _, b := range blocksDeep(vac) {
				for _, in := range b.Instrs {
					st, ok := in.(*ssa.Store)
					if !ok {
						continue
					}
					ia, ok := st.Addr.(*ssa.IndexAddr)
					if !ok {
						continue
					}
					base := stripConv(ia.X)
					if base != keys && base != weights {
						continue
					}
					v := T(st.Val)
					if v.Op == "field" {
						fills[base] = fill{T(ia.Index).String(), v.Args[0].String(), v.Sym}
					} else {
						fills[base] = fill{T(ia.Index).String(), v.String(), "?"}
					}
				}
			}
			// the other way of filling: one append to each slice per iteration of the same loop
			// (position = number of elements so far, equal for both while both grow together)
			appendFill := func(v ssa.Value) (fill, []*ssa.Call, bool) {
				var calls []*ssa.Call
				seen := map[ssa.Value]bool{}
				var walk func(x ssa.Value) bool
				walk = func(x ssa.Value) bool {
					x = stripConv(x)
					if seen[x] {
						return true
					}
					seen[x] = true
					switch y := x.(type) {
					case *ssa.Phi:
						for _, e := range y.Edges {
							if !walk(e) {
								return false
							}
						}
						return true
					case *ssa.Call:
						if CalleeName(y.Common()) != "builtin:append" {
							return false
						}
						calls = append(calls, y)
						return walk(y.Common().Args[0])
					case *ssa.MakeSlice:
						return T(y.Len).String() == "0"
					case *ssa.Const:
						return y.Value == nil
					}
					return false
				}
				if !walk(v) || len(calls) != 1 {
					return fill{}, nil, false
				}
				el := T(calls[0].Common().Args[1])
				if el.Op == "list" && len(el.Args) == 1 {
					el = el.Args[0]
				}
				if el.Op == "field" {
					return fill{fmt.Sprintf("append@b%d", calls[0].Block().Index), el.Args[0].String(), el.Sym}, calls, true
				}
				return fill{fmt.Sprintf("append@b%d", calls[0].Block().Index), el.String(), "?"}, calls, true
			}
			ownAppends := map[ssa.CallInstruction]bool{}
			if _, filled := fills[keys]; !filled {
				fk, ck, okK := appendFill(a[1])
				fw, cw, okW := appendFill(a[2])
				if okK && okW {
					fills[keys], fills[weights] = fk, fw
					ownAppends[ck[0]], ownAppends[cw[0]] = true, true
				}
			}
			fk, fw := fills[keys], fills[weights]
			ok := fk.idx != "" && fk.idx == fw.idx && fk.elem == fw.elem && fk.field == "BLSKey" && fw.field == "BFTWeight"
			c.Require("C06.R3 keys-weights-aligned", FuncKey(vac)+": keys[i] / weights[i]", p.InstrPos(s.Call), "both slices are filled at the same index from the same element (bit i ↔ key i ↔ weight i)", ok, fmt.Sprintf("keys[%s]=%s.%s weights[%s]=%s.%s", fk.idx, fk.elem, fk.field, fw.idx, fw.elem, fw.field))
			// neither slice is handed to anything else (e.g. a sort) before the verification
			for _, call := range AllCallsDeep(vac) {
				if call == s.Call || newHelperCallee(call) != nil || ownAppends[call] {
					continue
				}
				// len / cap only look at the slice header: they cannot reorder it
				if n := CalleeName(call.Common()); n == "builtin:len" || n == "builtin:cap" {
					continue
				}
				for _, arg := range call.Common().Args {
					sv := valueOrigin(arg)
					if sl, isSl := sv.(*ssa.Slice); isSl {
						sv = valueOrigin(sl.X)
					}
					if sv == keys || sv == weights {
						c.Require("C06.R3 keys-weights-aligned", FuncKey(vac)+" ⇒ "+CalleeName(call.Common()), p.InstrPos(call), "neither parallel slice is passed to another function (reordering one breaks the alignment)", false, "")
					}
				}
			}
			// the element sequence is sorted once, before the fill
			// (through the list's own sort method, or a comparator sort on the BLS key written in place)
			var srt []ssa.CallInstruction
			for _, cs := range CallsIn(vac, "(*consensus.ValidatorsWithBLSKey).sort") {
				srt = append(srt, cs.Call)
			}
			if calls, cmps := sortSites(vac); p.Fn("pkg/consensus.(*ValidatorsWithBLSKey).sort") == nil {
				for i, call := range calls {
					if _, key, ok := sortDirection(cmps[i]); ok && strings.Contains(key, "BLSKey") && call.Parent() == vac {
						srt = append(srt, call)
					}
				}
			}
			c.Require("C06.R3 keys-weights-aligned", FuncKey(vac)+": sorted before the fill", p.InstrPos(s.Call), "the validator sequence is sorted by BLS key before keys/weights are derived", len(srt) == 1 && instrDominates(srt[0], s.Call), "")
		}
		// comparator agreement
		type cmpSite struct{ name, fn string }
		sites := []cmpSite{
			{"verifier (ValidatorsWithBLSKey.sort)", verifierSort(p, vac)},
			{"aggregator (sort used by SingleCommits.Aggregate)", aggregatorSort(p)},
			{"validators hash (ComputeValidatorsHash)", "pkg/consensus/validator.ComputeValidatorsHash"},
		}
		dirs := map[string]string{}
		for _, cs := range sites {
			fn := c.Anchor(cs.fn)
			if fn == nil {
				continue
			}
			cl := sortClosure(fn)
			if cl == nil {
				c.Undecided("C06.R3 bls-key-order-agreement", cs.name, "no sort.Slice closure found")
				continue
			}
			d, key, ok := sortDirection(cl)
			if !ok {
				c.Undecided("C06.R3 bls-key-order-agreement", cs.name, "comparator outside the recognised forms")
				continue
			}
			dirs[cs.name] = d + " on " + key
			_ = key
		}
		ref := dirs[sites[0].name]
		for _, cs := range sites[1:] {
			d := dirs[cs.name]
			same := strings.HasPrefix(d, "asc") == strings.HasPrefix(ref, "asc") && d != "" && ref != ""
			c.Require("C06.R3 bls-key-order-agreement", cs.name+" vs verifier", "-", "every comparator that fixes aggregation-bit positions or the validators hash orders BLS keys in the same direction", same, "verifier: "+ref+"; "+cs.name+": "+d)
		}
	}

	// ---- R4 single commit validator
	{
		sf := factsOf(scv)
		acc, _ := p.constValue("pkg/p2p", "ValidationAccept")
		for _, r := range Returns(scv) {
			if r.Block() == scv.Recover {
				continue
			}
			t := sf.Term(r.Results[0])
			c.Require("C06.R4 never-accept", FuncKey(scv), p.InstrPos(r), "the validator never returns ValidationAccept (re-gossip is manual)", t.String() != acc && !strings.Contains(t.String(), "phi") || (strings.Contains(t.String(), "phi") && !strings.Contains(t.String(), acc)), "returns "+t.String())
		}
		adds := CallsIn(scv, "(*consensus/certificate.Pool).Add")
		c.MinInstances("C06.R4 pool-add", len(adds), 1)
		for _, s := range adds {
			fs := sf.FactsAt(s.Call.Block())
			has := func(pred func(f Fact) bool) bool {
				for _, f := range fs {
					if pred(f) {
						return true
					}
				}
				return false
			}
			checks := []struct {
				name string
				ok   bool
			}{
				{"Validate() == nil", has(func(f Fact) bool {
					return f.IsCmp && f.Op.String() == "==" && strings.Contains(f.L.String(), "SingleCommit).Validate(") && f.R.Sym == "nil"
				})},
				{"not already in the pool", has(func(f Fact) bool {
					return !f.IsCmp && !f.Truth && strings.Contains(f.B.String(), "Pool).Has(")
				})},
				{"height > max removal height", has(func(f Fact) bool {
					return f.IsCmp && f.Op.String() == ">" && strings.Contains(f.L.String(), "SingleCommit).Height(") && strings.Contains(f.R.String(), "GetMaxRemovalHeight(")
				})},
				{"block ID matches own chain", has(func(f Fact) bool {
					return !f.IsCmp && f.Truth && strings.Contains(f.B.String(), "bytes.Equal(") && strings.Contains(f.B.String(), "SingleCommit).BlockID(") && strings.Contains(f.B.String(), "GetBlockHeaderByHeight(")
				})},
				{"validator active at that height", has(func(f Fact) bool {
					return !f.IsCmp && f.Truth && strings.Contains(f.B.String(), "BFTValidators).Find(") && strings.Contains(f.B.String(), "SingleCommit).ValidatorAddress(")
				})},
				{"certificate signature verifies", has(func(f Fact) bool {
					return !f.IsCmp && f.Truth && strings.Contains(f.B.String(), "Certificate).Verify(") && strings.Contains(f.B.String(), "SingleCommit).CertificateSignature(")
				})},
			}
			for _, ck := range checks {
				c.Require("C06.R4 pool-add-after-checks", FuncKey(scv)+": "+ck.name, p.InstrPos(s.Call), "Pool.Add is dominated by the passing edge of this step", ck.ok, "")
			}
			// what is added is the commit that was checked
			at := T(ArgK(s.Call, 1)).String()
			okSame := false
			for _, f := range fs {
				if strings.Contains(f.String(), "Certificate).Verify(") && strings.Contains(f.String(), at) {
					okSame = true
				}
			}
			c.Require("C06.R4 pool-add-after-checks", FuncKey(scv)+": same commit", p.InstrPos(s.Call), "the commit added is the one that was verified", okSame, at)
		}
	}

	// ---- R5 message agreement
	{
		msgOf := func(fn *ssa.Function, callee string, argIdx int) string {
			for _, s := range CallsIn(fn, callee) {
				t := T(ArgK(s.Call, argIdx))
				// name the chain-id parameter by its declared name, not its position
				chain := ""
				t.Walk(func(x *Term) bool {
					if x.Op == "list" && len(x.Args) == 3 && x.Args[1].Op == "param" {
						chain = x.Args[1].Sym + "→" + x.Args[1].Owner
						x.Args[1] = &Term{Op: "param", Sym: "<" + x.Args[1].Owner + ">"}
					}
					return true
				})
				_ = chain
				return t.String()
			}
			return ""
		}
		sign := c.Anchor("pkg/consensus/certificate.(*Certificate).Sign")
		ver := c.Anchor("pkg/consensus/certificate.(Certificate).Verify")
		agg := c.Anchor("pkg/consensus/certificate.(Certificate).VerifyAggregateCertificateSignature")
		if sign != nil && ver != nil && agg != nil {
			norm := func(s string) string {
				// receivers differ (pointer vs value spill); compare the shape tag‖chainID‖SigningBytes
				i := strings.Index(s, "SigningBytes(")
				if i < 0 {
					return s
				}
				return s[:i] + "SigningBytes(recv)])"
			}
			m1 := norm(msgOf(sign, "crypto.BLSSign", 0))
			m2 := norm(msgOf(ver, "crypto.BLSVerify", 0))
			m3 := norm(msgOf(agg, "crypto.BLSVerifyWeightedAggSig", 5))
			ok := m1 != "" && m1 == m2 && m2 == m3 && strings.Contains(m1, "certificateTag") && strings.Contains(m1, "crypto.Hash(") && strings.Contains(m1, "<chainID>")
			c.Require("C06.R5 same-message", "Sign / Verify / VerifyAggregateCertificateSignature", p.Pos(sign.Pos()), "all three hash tag ‖ chainID ‖ SigningBytes()", ok, m1+"\n"+m2+"\n"+m3)
		}
	}

	// ---- R6 GetAggregateCommit
	{
		gf := factsOf(gac)
		// nextHeight initialisation: φ(min(next−1, precommitted) under err == nil, precommitted under err != nil)
		okInit := false
		detail := ""
		for _, s := range append(CallsIn(gac, "collection/ints.Min[uint32]"), CallsIn(gac, "builtin:min")...) {
			t := T(s.Call.Value()).String()
			okNil, _ := gf.NilErrAt(s.Call.Block(), IsResult(nextH, 1))
			okInit = okNil && strings.Contains(t, "NextHeightBFTParameters") && strings.Contains(t, " - 1)") && strings.Contains(t, "GetBFTHeights")
			detail = fmt.Sprintf("min under err==nil: %v; %s", okNil, t)
		}
		c.Require("C06.R6 own-commit-window", FuncKey(gac)+": upper bound", p.Pos(gac.Pos()), "candidate height starts at min(next−1, maxHeightPrecommitted) when a next height exists", okInit, detail)
		// returns an aggregate only under weight >= threshold and height > maxHeightCertified
		for _, s := range CallsIn(gac, "(consensus/certificate.SingleCommits).Aggregate") {
			fs := gf.FactsAt(s.Call.Block())
			okW, okH := false, false
			for _, f := range fs {
				if f.IsCmp && f.Op.String() == ">=" && strings.Contains(f.R.String(), "CertificateThreshold(") {
					okW = true
				}
				if f.IsCmp && f.Op.String() == ">" && IsResult(heights, 2).Match(f.R) {
					okH = true
				}
			}
			c.Require("C06.R6 own-commit-window", FuncKey(gac)+": aggregate", p.InstrPos(s.Call), "aggregates only above maxHeightCertified and with aggregate weight >= certificate threshold", okW && okH, fmt.Sprintf("weight=%v height=%v", okW, okH))
		}
	}
}

var c06UnsignedTable = []unsignedRow{
	{fn: "pkg/consensus.(*Executer).singleCommitValidator", frag: "#1 − 100)", reason: "below height 100 the difference wraps and the test discards the commit unless BFT parameters exist at its height: nothing that should stay out enters the pool (what C06 states); that valid commits are dropped during the first 100 heights is a liveness matter outside the statement"},
	{fn: "pkg/consensus.(*Executer).broadcastCertificate$1", frag: "maxHeightPrecommited) − 100)", reason: "as in singleCommitValidator: a wrapped bound only removes commits from the pool earlier"},
	{fn: "pkg/consensus.(*Executer).verifyAggregateCommit", frag: "NextHeightBFTParameters(", reason: "NextHeightBFTParameters(store, maxHeightCertified+1) returns a height >= maxHeightCertified+1 >= 1"},
	{fn: "pkg/consensus.(*Executer).GetAggregateCommit", frag: "NextHeightBFTParameters(", reason: "as in verifyAggregateCommit: the next parameter height is >= 1"},
}

// checkAggregateCommitVerifier: the accepting exits of verifyAggregateCommit (R1). rp is the
// rule prefix ("C06.R1"; also run as "C03.A" — a block is valid only with a valid commit).
func checkAggregateCommitVerifier(c *Ctx, rp string, vac *ssa.Function) {
	p := c.P
	const AC = "blockchain.AggregateCommit"
	heights := "(*consensus/liskbft.API).GetBFTHeights"
	nextH := "(*consensus/liskbft.API).NextHeightBFTParameters"
	commitH := Matcher{"commit.Height", func(t *Term) bool {
		return t.Op == "field" && t.Sym == "Height" && t.Owner == AC && t.Args[0].String() == "p2"
	}}
	ff := factsOf(vac)
	nAcc := 0
	for _, r := range Returns(vac) {
		if classifyReturn(ff, r) != RetNil {
			continue
		}
		fs := ff.FactsAt(r.Block())
		// the early exit for "no new certificate": Empty() ∧ Height == maxHeightCertified
		early := false
		for _, f := range fs {
			if f.Entails(CmpSpec{A: commitH, B: IsResult(heights, 2), Rel: EQ, D: 0}) {
				early = true
			}
		}
		if early {
			okE, _ := ff.BoolHoldsAt(r.Block(), IsCall("(*blockchain.AggregateCommit).Empty"), true)
			c.Require(rp+" accept-edge", FuncKey(vac)+": empty commit", p.InstrPos(r), "an empty commit is accepted only when it is Empty() and restates maxHeightCertified", okE, "")
			continue
		}
		nAcc++
		chk := func(name string, spec CmpSpec) {
			ok, why := false, ""
			for _, f := range fs {
				if f.Entails(spec) {
					ok, why = true, f.String()
				}
			}
			c.Require(rp+" accept-edge", FuncKey(vac)+": "+name, p.InstrPos(r), "the accepting exit is dominated by this bound", ok, why)
		}
		chk("height > maxHeightCertified", CmpSpec{A: commitH, B: IsResult(heights, 2), Rel: GE, D: 1})
		chk("height <= maxHeightPrecommitted", CmpSpec{A: commitH, B: IsResult(heights, 1), Rel: LE, D: 0})
		chk("aggregation bits non-empty", CmpSpec{A: LenOf(IsFieldOf(AC, "AggregationBits", IsParam(2))), NoB: true, Rel: NE, D: 0})
		chk("signature non-empty", CmpSpec{A: LenOf(IsFieldOf(AC, "CertificateSignature", IsParam(2))), NoB: true, Rel: NE, D: 0})
		okV, _ := ff.BoolHoldsAt(r.Block(), IsCall("(consensus/certificate.Certificate).VerifyAggregateCertificateSignature"), true)
		c.Require(rp+" accept-edge", FuncKey(vac)+": weighted aggregate signature valid", p.InstrPos(r), "accepted only when VerifyAggregateCertificateSignature answered true", okV, "")
		for _, callee := range []string{heights, "(*blockchain.DataAccess).GetBlockHeaderByHeight", "(*consensus/liskbft.API).GetBFTParameters"} {
			ok, why := ff.NilErrAt(r.Block(), IsCall(callee))
			c.Require(rp+" accept-edge", FuncKey(vac)+": "+callee+" succeeded", p.InstrPos(r), "accepted only on the nil-error edge", ok, why)
		}
	}
	c.MinInstances(rp+" accept-edge", nAcc, 1)
	// next-parameter bound: a rejecting edge height >= next (i.e. > next−1) that is taken when the lookup SUCCEEDED
	{
		found := false
		type deepEdge struct {
			e        Edge
			f, other Fact
			hff      *FuncFacts
		}
		var des []deepEdge
		for _, hf := range funcAndHelpers(vac) { // the bounds may be checked in a helper
			hff := factsOf(hf)
			for i, e := range hff.Edges {
				f, o := hff.Facts[i], hff.Facts[i^1]
				if hf != vac {
					f, o = liftFact(vac, hf, f, false), liftFact(vac, hf, o, false)
				}
				des = append(des, deepEdge{e, f, o, hff})
			}
		}
		for _, de := range des {
			e, f := de.e, de.f
			if !f.IsCmp || !((f.L.Any(commitH.F) && f.R.Any(IsResult(nextH, 0).F)) || (f.R.Any(commitH.F) && f.L.Any(IsResult(nextH, 0).F))) {
				continue
			}
			rej := false
			for _, in := range e.To.Instrs {
				if r, isR := in.(*ssa.Return); isR && classifyReturn(de.hff, r) == RetErr {
					rej = true
				}
			}
			if !rej {
				continue
			}
			found = true
			okNil := false
			for _, g := range ff.FactsAt(e.From) {
				if g.IsCmp && g.Op.String() == "==" && IsResult(nextH, 1).Match(g.L) && g.R.Sym == "nil" {
					okNil = true
				}
			}
			bad := ""
			for _, g := range ff.FactsAt(e.From) {
				if g.IsCmp && g.Op.String() == "!=" && IsResult(nextH, 1).Match(g.L) && g.R.Sym == "nil" {
					bad = "the bound is tested only on the edge where the lookup FAILED: " + g.String()
				}
			}
			c.Require(rp+" next-parameter-bound", FuncKey(vac)+": height <= next−1 when a next height exists", p.InstrPos(e.If), "the rejecting comparison is evaluated on the paths where NextHeightBFTParameters succeeded", okNil, bad)
			// the edge that does NOT reject carries height <= next−1 (the block before the change is the last certifiable one)
			pass := de.other
			c.Require(rp+" next-parameter-bound", FuncKey(vac)+": surviving edge bound", p.InstrPos(e.If), "the non-rejecting edge of the comparison carries  commit.Height <= next − 1", pass.Entails(CmpSpec{A: commitH, B: IsResult(nextH, 0), Rel: LE, D: -1}), "surviving edge carries: "+pass.String())
		}
		if !found {
			c.Require(rp+" next-parameter-bound", FuncKey(vac)+": height <= next−1 when a next height exists", p.Pos(vac.Pos()), "a rejecting comparison of the commit height with next−1 exists", false, "no such edge")
		}
	}
	// provenance of the certificate pieces
	{
		one := func(name string) *Term {
			s := CallsIn(vac, name)
			if len(s) != 1 {
				return nil
			}
			return T(s[0].Call.Value())
		}
		hdrAt := one("(*blockchain.DataAccess).GetBlockHeaderByHeight")
		c.Require(rp+" provenance", "own header at commit.Height", p.Pos(vac.Pos()), "the certified header is the node's own header at the commit's height", hdrAt != nil && commitH.Match(hdrAt.Args[len(hdrAt.Args)-1]), "")
		prm := one("(*consensus/liskbft.API).GetBFTParameters")
		c.Require(rp+" provenance", "parameters of commit.Height", p.Pos(vac.Pos()), "keys, weights and threshold come from the BFT parameters of the commit's height", prm != nil && commitH.Match(prm.Args[len(prm.Args)-1]), "")
		cert := one("consensus/certificate.NewCertificateFromBlock")
		c.Require(rp+" provenance", "certificate built from that header", p.Pos(vac.Pos()), "NewCertificateFromBlock(own header)", cert != nil && hdrAt != nil && strings.Contains(cert.Args[0].String(), "GetBlockHeaderByHeight"), "")
		for _, s := range CallsIn(vac, "(consensus/certificate.Certificate).VerifyAggregateCertificateSignature") {
			a := s.Call.Common().Args
			thr := T(a[3])
			chain := T(a[4])
			c.Require(rp+" provenance", "threshold and chain id", p.InstrPos(s.Call), "threshold = params.CertificateThreshold(), chain id = the chain's", strings.Contains(thr.String(), "BFTParams).CertificateThreshold(") && strings.Contains(thr.String(), "GetBFTParameters") && strings.HasSuffix(chain.Sym, "Chain).ChainID"), thr.String())
		}
		// bits and signature of the certificate are the commit's
		for _, f := range []struct{ cf, af string }{{"AggregationBits", "AggregationBits"}, {"Signature", "CertificateSignature"}} {
			ok := false
			for _, st := range storesToField(vac, "consensus/certificate.Certificate", f.cf) {
				v := T(st.Val)
				ok = v.Op == "field" && v.Sym == f.af && v.Args[0].String() == "p2"
			}
			c.Require(rp+" provenance", "certificate."+f.cf, p.Pos(vac.Pos()), "taken from the aggregate commit under verification", ok, "")
		}
	}

}
