package main

import (
	"fmt"
	"go/types"
	"sort"
	"strings"

	"golang.org/x/tools/go/ssa"
)

// Aliasing rules shared by C12 (key buffers) and C20 (one lock per shared state).

// isFreshSlice: is v a slice whose backing array was allocated in this function
// activation (so that appending to it cannot write into memory another object sees)?
func isFreshSlice(v ssa.Value, seen map[ssa.Value]bool) bool {
	if seen[v] {
		return true
	}
	seen[v] = true
	switch x := v.(type) {
	case *ssa.MakeSlice:
		return true
	case *ssa.Const:
		return true // nil
	case *ssa.Call:
		// results of calls are owned by the caller by this repository's convention
		// (bytes.Join, codec encoders, append): the callee has no other reference we can see.
		if CalleeName(x.Common()) == "builtin:append" {
			return isFreshSlice(ArgK(x, 0), seen)
		}
		return true
	case *ssa.Slice:
		if a, ok := x.X.(*ssa.Alloc); ok {
			_ = a
			return true // slice of a local array (composite literal)
		}
		return isFreshSlice(x.X, seen)
	case *ssa.Phi:
		for _, e := range x.Edges {
			if !isFreshSlice(e, seen) {
				return false
			}
		}
		return true
	case *ssa.Convert:
		// []byte(string) allocates
		if _, ok := x.X.Type().Underlying().(*types.Basic); ok {
			return true
		}
		return isFreshSlice(x.X, seen)
	case *ssa.ChangeType:
		return isFreshSlice(x.X, seen)
	case *ssa.UnOp:
		// load of a local variable: fresh if every store to it is fresh
		if a, ok := x.X.(*ssa.Alloc); ok {
			for _, r := range *a.Referrers() {
				if st, ok := r.(*ssa.Store); ok && st.Addr == ssa.Value(a) {
					if !isFreshSlice(st.Val, seen) {
						return false
					}
				}
			}
			return true
		}
		return false // field / element / global load
	}
	return false // parameters, free variables, extracts of unknown origin
}

// checkFreshKeyBuffers: every append to a byte slice that this function does not own
// (loaded from a struct field, or received as parameter) must write its result back into
// the very place the slice came from; otherwise two holders may share one backing array
// and a later append through one silently rewrites the bytes the other sees.
func checkFreshKeyBuffers(c *Ctx, rule string, scope []string) {
	p := c.P
	n := 0
	for _, fn := range p.Subjects() {
		if !inScope(fn, scope) || len(fn.Blocks) == 0 {
			continue
		}
		ord := 0
		for _, cl := range AllCalls(fn) {
			if CalleeName(cl.Common()) != "builtin:append" {
				continue
			}
			sl, ok := ArgK(cl, 0).Type().Underlying().(*types.Slice)
			if !ok {
				continue
			}
			if b, ok := sl.Elem().Underlying().(*types.Basic); !ok || b.Kind() != types.Uint8 {
				continue
			}
			ord++
			n++
			base := ArgK(cl, 0)
			fresh := isFreshSlice(base, map[ssa.Value]bool{})
			ok2 := fresh
			detail := ""
			if !fresh {
				// x.f = append(x.f, …): the result goes back where the base came from
				if u, isLoad := base.(*ssa.UnOp); isLoad {
					all := true
					refs := cl.Value().Referrers()
					if refs == nil || len(*refs) == 0 {
						all = false
					} else {
						for _, r := range *refs {
							st, isSt := r.(*ssa.Store)
							if !isSt || T(st.Addr).String() != T(u.X).String() {
								all = false
							}
						}
					}
					ok2 = all
				}
				detail = "append base " + T(base).String() + " is shared (field or parameter) and the result is kept elsewhere"
			}
			c.Require(rule, fmt.Sprintf("%s: []byte append #%d", FuncKey(fn), ord), p.InstrPos(cl), "a byte-slice append either extends a buffer allocated in this call or writes back to the slot it read (no two holders share one backing array)", ok2, detail)
		}
	}
	c.Count(rule+" byte appends examined", n)
}

func isMutexType(t types.Type) (isMutex, isPtr bool) {
	if pt, ok := t.Underlying().(*types.Pointer); ok {
		m, _ := isMutexType(pt.Elem())
		return m, true
	}
	if nt, ok := t.(*types.Named); ok && nt.Obj().Pkg() != nil && nt.Obj().Pkg().Path() == "sync" && (nt.Obj().Name() == "Mutex" || nt.Obj().Name() == "RWMutex") {
		return true, false
	}
	return false, false
}

// checkSharedStateSharedLock: wherever a mutex-carrying struct value is built from another
// value of the same type by copying one of its reference-typed fields (pointer to an own
// struct, map, slice header, channel), the new value must carry the very same mutex object
// (pointer copy). Two handles over one shared structure with separate locks exclude nothing.
func checkSharedStateSharedLock(c *Ctx, rule string, scope []string, min int) {
	p := c.P
	n := 0
	for _, fn := range p.Subjects() {
		if !inScope(fn, scope) || len(fn.Blocks) == 0 {
			continue
		}
		for _, b := range fn.Blocks {
			for _, in := range b.Instrs {
				al, ok := in.(*ssa.Alloc)
				if !ok {
					continue
				}
				owner, st := ownerOfFieldBase(al.Type())
				if st == nil {
					continue
				}
				mIdx, mPtr := -1, false
				for i := 0; i < st.NumFields(); i++ {
					if m, ptr := isMutexType(st.Field(i).Type()); m {
						mIdx, mPtr = i, ptr
					}
				}
				if mIdx < 0 {
					continue
				}
				// stores into the new value's fields
				stored := map[int]ssa.Value{}
				for _, r := range *al.Referrers() {
					fa, ok := r.(*ssa.FieldAddr)
					if !ok {
						continue
					}
					for _, rr := range *fa.Referrers() {
						if s, ok := rr.(*ssa.Store); ok && s.Addr == ssa.Value(fa) {
							stored[fa.Field] = s.Val
						}
					}
				}
				// which fields are copied from another value of the same type?
				srcOf := func(v ssa.Value) (src ssa.Value, field int, ok bool) {
					u, isLoad := v.(*ssa.UnOp)
					if !isLoad {
						return nil, 0, false
					}
					fa, isFA := u.X.(*ssa.FieldAddr)
					if !isFA {
						return nil, 0, false
					}
					o, _ := ownerOfFieldBase(fa.X.Type())
					if o != owner {
						return nil, 0, false
					}
					return fa.X, fa.Field, true
				}
				var shared []string
				var from ssa.Value
				for i, v := range stored {
					if i == mIdx {
						continue
					}
					src, f, ok := srcOf(v)
					if !ok || f != i {
						continue
					}
					switch t := st.Field(i).Type().Underlying().(type) {
					case *types.Map, *types.Chan, *types.Slice:
						shared = append(shared, fieldNameOf(st.Field(i)))
						from = src
					case *types.Pointer:
						if _, isSt := t.Elem().Underlying().(*types.Struct); isSt {
							shared = append(shared, fieldNameOf(st.Field(i)))
							from = src
						}
					}
				}
				if len(shared) == 0 {
					continue
				}
				sort.Strings(shared)
				n++
				ok2, detail := false, ""
				if !mPtr {
					detail = "the mutex field " + fieldNameOf(st.Field(mIdx)) + " is a value: the new handle gets its own lock while sharing " + strings.Join(shared, ",")
				} else if mv, has := stored[mIdx]; !has {
					detail = "the new handle's " + fieldNameOf(st.Field(mIdx)) + " is not initialised from the source"
				} else if src, f, ok := srcOf(mv); !ok || f != mIdx || src != from {
					detail = "the new handle's " + fieldNameOf(st.Field(mIdx)) + " is " + T(mv).String() + ", not the source's lock"
				} else {
					ok2 = true
				}
				c.Require(rule, FuncKey(fn)+": derives "+owner+" sharing "+strings.Join(shared, ","), p.InstrPos(al), "a handle that shares guarded state with its source carries the source's mutex object", ok2, detail)
			}
		}
	}
	c.MinInstances(rule, n, min)
}

// sharedRefFields: per struct type, the reference-typed fields that some function copies from
// one value of the type into a newly built one (so that several handles point at one object).
func sharedRefFields(p *Program, scope []string) map[string]map[string]bool {
	out := map[string]map[string]bool{}
	for _, fn := range p.Subjects() {
		if !inScope(fn, scope) || len(fn.Blocks) == 0 {
			continue
		}
		for _, b := range fn.Blocks {
			for _, in := range b.Instrs {
				al, ok := in.(*ssa.Alloc)
				if !ok {
					continue
				}
				owner, st := ownerOfFieldBase(al.Type())
				if st == nil {
					continue
				}
				for _, r := range *al.Referrers() {
					fa, ok := r.(*ssa.FieldAddr)
					if !ok {
						continue
					}
					for _, rr := range *fa.Referrers() {
						s, ok := rr.(*ssa.Store)
						if !ok || s.Addr != ssa.Value(fa) {
							continue
						}
						u, isLoad := s.Val.(*ssa.UnOp)
						if !isLoad {
							continue
						}
						src, isFA := u.X.(*ssa.FieldAddr)
						if !isFA || src.Field != fa.Field {
							continue
						}
						if o, _ := ownerOfFieldBase(src.X.Type()); o != owner {
							continue
						}
						isRef := false
						switch t := st.Field(fa.Field).Type().Underlying().(type) {
						case *types.Map, *types.Chan:
							isRef = true
						case *types.Pointer:
							_, isRef = t.Elem().Underlying().(*types.Struct)
						}
						if m, _ := isMutexType(st.Field(fa.Field).Type()); m {
							isRef = false
						}
						if isRef {
							if out[owner] == nil {
								out[owner] = map[string]bool{}
							}
							out[owner][fieldNameOf(st.Field(fa.Field))] = true
						}
					}
				}
			}
		}
	}
	return out
}

// checkSharedRefNotRepointed: a field through which several handles share one object is
// never assigned after construction — re-pointing one handle leaves the others on the old
// object. Changes to the shared object must be made in place.
func checkSharedRefNotRepointed(c *Ctx, rule string, scope []string, min int) {
	p := c.P
	shared := sharedRefFields(p, scope)
	n := 0
	for owner, fields := range shared {
		for f := range fields {
			n++
			var bad []string
			for _, fn := range p.Subjects() {
				if !inScope(fn, scope) || len(fn.Blocks) == 0 {
					continue
				}
				for _, b := range fn.Blocks {
					for _, in := range b.Instrs {
						st, ok := in.(*ssa.Store)
						if !ok {
							continue
						}
						fa, ok := st.Addr.(*ssa.FieldAddr)
						if !ok {
							continue
						}
						o, s := ownerOfFieldBase(fa.X.Type())
						if o != owner || s == nil || fieldNameOf(s.Field(fa.Field)) != f {
							continue
						}
						if _, fresh := fa.X.(*ssa.Alloc); fresh {
							continue // initialising a value under construction
						}
						bad = append(bad, FuncKey(fn)+" at "+p.InstrPos(st)+" assigns "+T(st.Val).String())
					}
				}
			}
			sort.Strings(bad)
			c.Require(rule, owner+"."+f, "-", "a field through which derived handles share one object is only set while a handle is constructed; later changes happen inside the shared object", len(bad) == 0, strings.Join(bad, "; "))
		}
	}
	c.MinInstances(rule, n, min)
}

// derivedFromField: v is the slice loaded from owner.field, or a re-slice of it.
func derivedFromField(v ssa.Value, owner, field string, depth int) bool {
	if depth > 6 || v == nil {
		return false
	}
	switch x := stripConv(v).(type) {
	case *ssa.UnOp:
		if fa, ok := x.X.(*ssa.FieldAddr); ok {
			o, st := ownerOfFieldBase(fa.X.Type())
			return o == owner && st != nil && fieldNameOf(st.Field(fa.Field)) == field
		}
		if al, ok := x.X.(*ssa.Alloc); ok {
			if sv := reachingStore(al, x); sv != nil {
				return derivedFromField(sv, owner, field, depth+1)
			}
		}
	case *ssa.Slice:
		return derivedFromField(x.X, owner, field, depth+1)
	case *ssa.Phi:
		for _, e := range x.Edges {
			if derivedFromField(e, owner, field, depth+1) {
				return true
			}
		}
	}
	return false
}

// checkExposedSliceImmutable: a slice field that an accessor hands out as it is (no copy)
// must never have its elements overwritten in place — a caller that kept the earlier result
// would see it change. The field may only be replaced by a new slice (or extended by append).
func checkExposedSliceImmutable(c *Ctx, rule, owner, field string, methods []*ssa.Function) {
	p := c.P
	exposed := ""
	for _, fn := range methods {
		for _, r := range Returns(fn) {
			for _, res := range r.Results {
				if derivedFromField(res, owner, field, 0) {
					if _, isSl := stripConv(res).(*ssa.Slice); !isSl {
						exposed = FuncKey(fn)
					}
				}
			}
		}
	}
	if exposed == "" {
		c.Notes = append(c.Notes, rule+": no accessor returns "+owner+"."+field+" uncopied; in-place writes are not restricted")
		return
	}
	var bad []string
	for _, fn := range methods {
		for _, b := range blocksDeep(fn) {
			for _, in := range b.Instrs {
				switch x := in.(type) {
				case *ssa.Store:
					if ia, ok := x.Addr.(*ssa.IndexAddr); ok && derivedFromField(ia.X, owner, field, 0) {
						bad = append(bad, FuncKey(fn)+" stores into an element at "+p.InstrPos(x))
					}
				case *ssa.Call:
					if CalleeName(x.Common()) == "builtin:copy" && derivedFromField(ArgK(x, 0), owner, field, 0) {
						bad = append(bad, FuncKey(fn)+" copies into it at "+p.InstrPos(x))
					}
					if CalleeName(x.Common()) == "builtin:append" {
						// append(field[:k], …) overwrites elements k… of the shared array
						if sl, ok := stripConv(ArgK(x, 0)).(*ssa.Slice); ok && sl.High != nil && derivedFromField(sl.X, owner, field, 0) {
							bad = append(bad, FuncKey(fn)+" appends onto a shortened view of it at "+p.InstrPos(x))
						}
					}
				}
			}
		}
	}
	sort.Strings(bad)
	c.Require(rule, owner+"."+field+" (handed out by "+exposed+")", "-", "a slice an accessor returns uncopied is only ever replaced, never rewritten in place", len(bad) == 0, strings.Join(bad, "; "))
}
