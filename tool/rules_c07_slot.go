package main

import (
	"strings"

	"golang.org/x/tools/go/ssa"
)

// C07.S1 slot-is-elapsed-over-block-time.
//
// The tie-break kernel (K4) is decided over *slot numbers* as atoms. What makes a slot number
// mean "the forging slot of this time" is the one function that maps a time to a slot: slots are
// blockTime seconds long and the first one starts at the genesis timestamp, so
//
//	slot(t) = floor((t − genesis) / blockTime)      and      time(slot) = genesis + slot·blockTime.
//
// Structural condition (a necessary one: any other dividend moves the slot boundaries for a
// genesis timestamp that is not a multiple of the block time, so "received within its slot" and
// "same slot" change their answers): every value GetSlotNumber returns contains exactly one
// division; its dividend is, in linear normal form, `time parameter − genesis field`; its divisor is
// the block-time field; and GetSlotTime returns `genesis + slot·blockTime` over the same two
// fields. Conversions (integer ↔ float) and math.Floor are transparent. Overflow is not decided.
func checkSlotArithmetic(c *Ctx) {
	p := c.P
	num := c.Anchor("pkg/consensus/validator.(*BlockSlot).GetSlotNumber")
	tim := c.Anchor("pkg/consensus/validator.(*BlockSlot).GetSlotTime")
	if num == nil || tim == nil {
		return
	}
	rule := "C07.S1 slot-is-elapsed-over-block-time"
	strip := func(t *Term) *Term {
		for t != nil {
			switch {
			case t.Op == "conv" && len(t.Args) == 1:
				t = t.Args[0]
			case t.Op == "call" && (t.Sym == "math.Floor" || t.Sym == "math.Trunc") && len(t.Args) == 1:
				t = t.Args[0]
			default:
				return t
			}
		}
		return t
	}
	fieldsOf := func(t *Term) []string {
		var fs []string
		t.Walk(func(x *Term) bool {
			if x.Op == "field" && strings.HasSuffix(x.Owner, "validator.BlockSlot") {
				fs = append(fs, x.Sym)
			}
			return true
		})
		return fs
	}
	genesisField, blockField := "", ""
	n := 0
	for _, r := range Returns(num) {
		if len(r.Results) != 1 {
			continue
		}
		n++
		t := T(r.Results[0])
		var divs []*Term
		t.Walk(func(x *Term) bool {
			if x.Op == "binop" && (x.Sym == "/" || x.Sym == ">>") {
				divs = append(divs, x)
			}
			return true
		})
		ok, why := true, ""
		if len(divs) != 1 || divs[0].Sym != "/" {
			ok, why = false, "the returned slot "+t.String()+" is not a single division"
		} else if strip(t) != divs[0] {
			ok, why = false, "the returned slot "+t.String()+" is not the quotient itself"
		} else {
			dividend, divisor := strip(divs[0].Args[0]), strip(divs[0].Args[1])
			lin := linOf(transparentConv(dividend))
			df := fieldsOf(dividend)
			vf := fieldsOf(divisor)
			switch {
			case divisor.Op != "field" || len(vf) != 1:
				ok, why = false, "the divisor "+divisor.String()+" is not the block-time field"
			case !lin.OK || len(lin.Coef) != 2 || lin.Const != 0 || len(df) != 1:
				ok, why = false, "the dividend "+dividend.String()+" is not `time − genesis`"
			default:
				pos, neg := "", ""
				for k, cf := range lin.Coef {
					a := lin.Atom[k]
					switch {
					case cf == 1 && a != nil && a.Op == "param":
						pos = k
					case cf == -1 && a != nil && a.Op == "field":
						neg = a.Sym
					}
				}
				if pos == "" || neg == "" {
					ok, why = false, "the dividend "+dividend.String()+" is not `time parameter − genesis field`"
				} else {
					genesisField, blockField = neg, vf[0]
				}
			}
		}
		c.Require(rule, FuncKey(num)+": returned slot", p.InstrPos(r), "slot(t) = floor((t − genesis) / blockTime): one division, dividend `time − genesis`, divisor the block time", ok, why)
	}
	c.MinInstances(rule, n, 1)
	// the inverse uses the same two fields the same way round
	for _, r := range Returns(tim) {
		if len(r.Results) != 1 || genesisField == "" {
			continue
		}
		t := T(r.Results[0])
		lin := linOf(transparentConv(t))
		ok := false
		why := "GetSlotTime returns " + t.String()
		if lin.OK && lin.Const == 0 && len(lin.Coef) == 2 {
			gOK, mOK := false, false
			for k, cf := range lin.Coef {
				a := lin.Atom[k]
				if a == nil || cf != 1 {
					continue
				}
				if a.Op == "field" && a.Sym == genesisField {
					gOK = true
				}
				if a.Op == "binop" && a.Sym == "*" {
					fs := fieldsOf(a)
					hasParam := a.Any(func(x *Term) bool { return x.Op == "param" && x.Sym != "p0" })
					mOK = len(fs) == 1 && fs[0] == blockField && hasParam
				}
				_ = k
			}
			ok = gOK && mOK
		}
		c.Require(rule, FuncKey(tim)+": returned time", p.InstrPos(r), "time(slot) = genesis + slot·blockTime over the fields GetSlotNumber divides by and subtracts", ok, why)
	}
}

// transparentConv rebuilds a term without conversion nodes (integer/float conversions do not
// change which quantity is meant; wrap-around is not modelled by this rule).
func transparentConv(t *Term) *Term {
	if t == nil {
		return nil
	}
	if t.Op == "conv" && len(t.Args) == 1 {
		return transparentConv(t.Args[0])
	}
	if len(t.Args) == 0 {
		return t
	}
	cp := *t
	cp.Args = make([]*Term, len(t.Args))
	for i, a := range t.Args {
		cp.Args[i] = transparentConv(a)
	}
	return &cp
}

var _ = ssa.Value(nil)
