package main

import (
	"fmt"
	"strings"

	"golang.org/x/tools/go/ssa"
)

func init() {
	register("C03", "Structural necessary conditions of 'only fully valid blocks extend the chain; rejected blocks change nothing', for every path and caller: "+
		"(V) reject-edge table: every nil-error exit of the block verifier is dominated by the passing edge of each rule — version, consecutive height, previous-block link, not-future slot, later-than-tip slot, slot's generator, own maxHeightPrevoted, no contradiction, aggregate commit, signature over the signing bytes for this chain ID with the slot generator's key — and the apply function reaches Chain.AddBlock only after the verifier, the ABI verify/execute, the validatorsHash comparison and the event-count bound all passed, with no callee error dropped; "+
		"(B) Block.Validate (transaction root, asset root, asset order/uniqueness, header lengths) dominates every call of the apply function except the two documented restorations; "+
		"(F) field coverage: every tagged header field is part of the signing bytes (or is the signature) and is compared or consumed on the validation path; derived fields are computed by the same function in the generator's seal step and in validation; "+
		"(N) nothing changes on rejection: no persistent write, cache change, event or Executer field store happens before the last reject edge except those listed; the publish goroutine cannot alter the verdict; "+
		"(W) the contradiction window is scanned most-recent-first.",
		runC03)
}

func runC03(c *Ctx) {
	// what a block is verified against (generator list, BFT parameters) is read from the store of the
	// branch being processed; memory kept in the BFT module across blocks survives a revert
	checkModuleStateless(c, "C03.D1 module-holds-no-state")
	p := c.P
	c.Assume = append(c.Assume, "sufficiency of the checks (slot arithmetic, signature maths, application behaviour) is not decided", "the ABI boundary is opaque: what the application does on Verify/Execute is outside this analysis")
	verify := c.Anchor("pkg/consensus.(*Executer).verifyBlock")
	procV := c.Anchor("pkg/consensus.(*Executer).processValidated")
	process := c.Anchor("pkg/consensus.(*Executer).process")
	validate := c.Anchor("pkg/blockchain.(*Block).Validate")
	hdrValidate := c.Anchor("pkg/blockchain.(*BlockHeader).Validate")
	if verify == nil || procV == nil || process == nil || validate == nil || hdrValidate == nil {
		return
	}
	const H = "blockchain.BlockHeader"
	// the aggregate commit a block carries is one of its validity rules: the verifier the block
	// verifier delegates to accepts only within the stated bounds (the rules of C06.R1)
	if vac := c.Anchor("pkg/consensus.(*Executer).verifyAggregateCommit"); vac != nil {
		checkAggregateCommitVerifier(c, "C03.A", vac)
		// … and credits each aggregation bit with the weight of the validator whose key sits at that
		// position (an under-weight commit must not certify a block): the alignment rules of C06.R3
		if na := c.borrowRule(runC06, "C06", "R3 keys-weights-aligned", "C03.A weights-follow-keys", nil); na < 1 {
			c.Undecided("C03.A weights-follow-keys", "verifyAggregateCommit: keys/weights", "the alignment rule of C06.R3 could not be evaluated (anchor missing)")
		}
	}
	// the generator key a signature is checked against and the validatorsHash a header must
	// carry are the ones the application set last: skipping the update is licensed only by a
	// comparison of every stored field
	checkChangeDetectionComplete(c, "C03.G change-detection-complete", []string{"pkg/consensus/liskbft.(*API).SetBFTParameters", "pkg/consensus/liskbft.(*API).SetGeneratorKeys"})
	// the transaction root and the payload size a block is checked with are computed from each
	// transaction's ID and size: both are recomputed from the content on every way into Init
	// (an ID that came with the JSON of a posted block must not survive) — the rule of C08.I1
	c.MinInstances("C03.I1 transaction-id-from-content", c.borrowRule(runC08, "C08", "I1 id-", "C03.I1 transaction-id-from-content", func(k string) bool {
		return strings.Contains(k, "blockchain.(*Transaction)") || strings.Contains(k, "blockchain.NewTransaction")
	}), 1)
	// a block is executed to the end only while every transaction's execution result is one the
	// generator would have kept in a block (an INVALID result rejects the block) — the mirror rule of C15.R4
	if nx := c.borrowRule(runC15, "C15", "R4 executer-mirror", "C03.X execution-verdict-checked", func(k string) bool {
		return k == "execution verdict" || k == "verification verdict"
	}); nx < 2 {
		// the mirror rule did not run (its anchors on the generator side are gone): not a verdict
		c.Undecided("C03.X execution-verdict-checked", "execution verdict", "the generator/validator mirror of C15.R4 could not be evaluated (anchor missing)")
	}
	vf := factsOf(verify)

	// ---- V: reject-edge table in verifyBlock
	var nilRets []*ssa.Return
	for _, r := range Returns(verify) {
		if classifyReturn(vf, r) == RetNil {
			nilRets = append(nilRets, r)
		}
	}
	c.MinInstances("C03.V verifier success exits", len(nilRets), 1)
	blkHdr := func(field string) Matcher { // field of the incoming block's header (parameter 2)
		return Matcher{"block." + field, func(t *Term) bool {
			return t.Op == "field" && t.Sym == field && t.Owner == H && strings.HasPrefix(t.Args[0].String(), "p2.")
		}}
	}
	tipHdr := func(field string) Matcher {
		return Matcher{"tip." + field, func(t *Term) bool {
			return t.Op == "field" && t.Sym == field && t.Owner == H && t.Args[0].Any(IsCall("(*blockchain.Chain).LastBlock").F)
		}}
	}
	slotOf := func(m Matcher) Matcher {
		return Matcher{"slot(" + m.Desc + ")", func(t *Term) bool {
			return t.Op == "call" && strings.HasSuffix(t.Sym, "BlockSlot).GetSlotNumber") && len(t.Args) == 2 && (m.Match(t.Args[1]) || t.Args[1].Any(m.F))
		}}
	}
	nowM := Matcher{"now", func(t *Term) bool { return strings.Contains(t.String(), "time.Now") }}
	type rule struct {
		name string
		chk  func(fs []Fact) (bool, string)
	}
	cmp := func(spec CmpSpec) func(fs []Fact) (bool, string) {
		return func(fs []Fact) (bool, string) {
			for _, f := range fs {
				if f.Entails(spec) {
					return true, f.String()
				}
			}
			return false, ""
		}
	}
	boolF := func(m Matcher, truth bool) func(fs []Fact) (bool, string) {
		return func(fs []Fact) (bool, string) {
			for _, f := range fs {
				if !f.IsCmp && f.Truth == truth && m.Match(f.B) {
					return true, f.String()
				}
			}
			return false, ""
		}
	}
	generatorAt := Matcher{"generator at the block's slot", func(t *Term) bool {
		return t.Op == "call" && strings.HasSuffix(t.Sym, "Generators).AtTimestamp") && len(t.Args) == 3 && blkHdr("Timestamp").Match(t.Args[2])
	}}
	rules := []rule{
		{"version == 2", cmp(CmpSpec{A: blkHdr("Version"), NoB: true, Rel: EQ, D: 2})},
		{"height == tip.height + 1", cmp(CmpSpec{A: blkHdr("Height"), B: tipHdr("Height"), Rel: EQ, D: 1})},
		{"previousBlockID == tip.ID", boolF(Matcher{"Equal(tip.ID, block.PreviousBlockID)", func(t *Term) bool {
			return t.Op == "call" && strings.HasSuffix(t.Sym, "bytes.Equal") && ((tipHdr("ID").Match(t.Args[0]) && blkHdr("PreviousBlockID").Match(t.Args[1])) || (tipHdr("ID").Match(t.Args[1]) && blkHdr("PreviousBlockID").Match(t.Args[0])))
		}}, true)},
		{"slot(timestamp) <= slot(now)", cmp(CmpSpec{A: slotOf(blkHdr("Timestamp")), B: slotOf(nowM), Rel: LE, D: 0})},
		{"slot(timestamp) > slot(tip.timestamp)", cmp(CmpSpec{A: slotOf(blkHdr("Timestamp")), B: slotOf(tipHdr("Timestamp")), Rel: GE, D: 1})},
		{"generatorAddress == slot generator", boolF(Matcher{"Equal(generatorAt(ts).Address(), block.GeneratorAddress)", func(t *Term) bool {
			if !(t.Op == "call" && strings.HasSuffix(t.Sym, "bytes.Equal")) {
				return false
			}
			a, b := t.Args[0], t.Args[1]
			isGen := func(x *Term) bool {
				return x.Op == "call" && strings.HasSuffix(x.Sym, "Generator).Address") && x.Args[0].Any(generatorAt.F)
			}
			return (isGen(a) && blkHdr("GeneratorAddress").Match(b)) || (isGen(b) && blkHdr("GeneratorAddress").Match(a))
		}}, true)},
		{"total transactions size <= configured maximum", func(fs []Fact) (bool, string) {
			for _, f := range fs {
				if f.IsCmp && (f.Op.String() == "<=" || f.Op.String() == "<") && strings.Contains(f.L.String(), "Transaction).Size(") && f.L.Any(func(t *Term) bool { return t.Op == "phi" }) &&
					(strings.Contains(f.R.String(), "Chain).MaxTransactionsLength(") || strings.Contains(f.R.String(), ".maxTransactionsLength")) {
					return true, f.String()
				}
			}
			return false, ""
		}},
		{"maxHeightPrevoted == own value", cmp(CmpSpec{A: blkHdr("MaxHeightPrevoted"), B: IsResult("(*consensus/liskbft.API).GetBFTHeights", 0), Rel: EQ, D: 0})},
		{"not contradicting", boolF(IsResult("(*consensus/liskbft.API).IsHeaderContradictingChain", 0), false)},
		{"signature valid", boolF(Matcher{"VerifySignature(chainID, slot generator's key)", func(t *Term) bool {
			if !(t.Op == "call" && strings.HasSuffix(t.Sym, "BlockHeader).VerifySignature") && len(t.Args) == 3) {
				return false
			}
			okRecv := strings.HasPrefix(t.Args[0].String(), "p2.")
			okChain := t.Args[1].Op == "call" && strings.HasSuffix(t.Args[1].Sym, "Chain).ChainID")
			okKey := t.Args[2].Op == "call" && strings.HasSuffix(t.Args[2].Sym, "Generator).GeneratorKey") && t.Args[2].Args[0].Any(generatorAt.F)
			return okRecv && okChain && okKey
		}}, true)},
	}
	for _, r := range nilRets {
		fs := vf.FactsAt(r.Block())
		for _, ru := range rules {
			ok, why := ru.chk(fs)
			c.Require("C03.V reject-edge", FuncKey(verify)+": "+ru.name, p.InstrPos(r), "the verifier's success exit is dominated by the passing edge of this rule", ok, why)
		}
		// callee errors: GetGeneratorKeys, AtTimestamp, GetBFTHeights, IsHeaderContradictingChain, verifyAggregateCommit
		for _, callee := range []string{"(*consensus/liskbft.API).GetGeneratorKeys", "(consensus/liskbft.Generators).AtTimestamp", "(*consensus/liskbft.API).GetBFTHeights", "(*consensus/liskbft.API).IsHeaderContradictingChain", "(*consensus.Executer).verifyAggregateCommit"} {
			ok, why := vf.NilErrAt(r.Block(), IsCall(callee))
			c.Require("C03.V callee-error-propagated", FuncKey(verify)+": "+callee, p.InstrPos(r), "success only when this callee returned a nil error", ok, why)
		}
	}
	// aggregate commit verified is the block's own
	for _, s := range CallsIn(verify, "(*consensus.Executer).verifyAggregateCommit") {
		t := T(ArgK(s.Call, 2))
		c.Require("C03.V reject-edge", FuncKey(verify)+": aggregate commit argument", p.InstrPos(s.Call), "the block's own aggregate commit is verified", t.Op == "field" && t.Sym == "AggregateCommit" && strings.HasPrefix(t.Args[0].String(), "p2."), t.String())
	}

	// ---- V in processValidated: gates before AddBlock
	pf := factsOf(procV)
	adds := CallsIn(procV, "(*blockchain.Chain).AddBlock")
	c.Require("C03.V apply-gates", FuncKey(procV)+": AddBlock", p.Pos(procV.Pos()), "exactly one AddBlock call", len(adds) == 1, "")
	if len(adds) == 1 {
		ab := adds[0].Call
		blk := ab.Block()
		for _, callee := range []string{"(*consensus.Executer).verifyBlock", "consensus.newBlockExecuteABI", "(*consensus.stateExecuter).Verify", "(*consensus.stateExecuter).Execute", "(*consensus/liskbft.API).GetBFTParameters", "(*blockchain.DataAccess).GetFinalizedHeight", "(*consensus/liskbft.API).GetBFTHeights", "(*consensus.stateExecuter).Commit"} {
			ok, why := pf.NilErrAt(blk, IsCall(callee))
			c.Require("C03.V apply-gates", FuncKey(procV)+": "+callee+" succeeded", p.InstrPos(ab), "AddBlock is reached only on the nil-error edge of this step", ok, why)
		}
		// verifyBlock and abi.Verify receive the same block that is added
		added := T(ArgK(ab, 2)).String()
		for _, callee := range []string{"(*consensus.Executer).verifyBlock", "(*consensus.stateExecuter).Verify", "(*consensus.stateExecuter).Execute"} {
			for _, s := range CallsIn(procV, callee) {
				a := s.Call.Common().Args
				c.Require("C03.V apply-gates", FuncKey(procV)+": "+callee+" on the added block", p.InstrPos(s.Call), "the block that is verified/executed is the block that is added", T(a[len(a)-1]).String() == added, "")
			}
		}
		// validatorsHash
		okVH, wVH := pf.BoolHoldsAt(blk, Matcher{"Equal(params(h+1).ValidatorsHash(), block.ValidatorsHash)", func(t *Term) bool {
			if !(t.Op == "call" && strings.HasSuffix(t.Sym, "bytes.Equal")) {
				return false
			}
			s := t.String()
			return strings.Contains(s, "BFTParams).ValidatorsHash(") && strings.Contains(s, "GetBFTParameters(") && strings.Contains(s, ".Header.Height + 1)") && strings.Contains(s, ".Header.ValidatorsHash")
		}}, true)
		c.Require("C03.V reject-edge", FuncKey(procV)+": validatorsHash == hash of parameters at height+1", p.InstrPos(ab), "AddBlock dominated by the validatorsHash comparison (against the staged store after execution)", okVH, wVH)
		// … and the parameters compared are read after the block was executed: executing the
		// block is what stores the parameters of height+1 into the staged store
		{
			execs := CallsIn(procV, "(*consensus.stateExecuter).Execute")
			gets := CallsIn(procV, "(*consensus/liskbft.API).GetBFTParameters")
			okOrder := len(execs) == 1 && len(gets) >= 1
			det := ""
			for _, g := range gets {
				if len(execs) == 1 && !instrDominates(execs[0].Call, g.Call) {
					okOrder = false
					det = "GetBFTParameters at " + p.InstrPos(g.Call) + " is not preceded by the execution at " + p.InstrPos(execs[0].Call)
				}
			}
			c.Require("C03.V reject-edge", FuncKey(procV)+": validatorsHash compared after execution", p.InstrPos(ab), "the parameters of height+1 are read from the staged store after abi.Execute wrote them", okOrder, det)
		}
		maxEv, _ := p.constValue("pkg/blockchain", "MaxEventsPerBlock")
		okEv := false
		for _, f := range pf.FactsAt(blk) {
			if f.IsCmp && f.Op.String() == "<=" && strings.Contains(f.L.String(), "stateExecuter).Events(") && (f.R.String() == maxEv || strings.HasSuffix(f.R.String(), "blockchain.MaxEventsPerBlock")) {
				okEv = true
			}
		}
		c.Require("C03.V reject-edge", FuncKey(procV)+": events count <= MaxEventsPerBlock", p.InstrPos(ab), "AddBlock dominated by the event-count bound", okEv, "")
		// state root: Commit is told the block's state root as expected root
		for _, s := range CallsIn(procV, "(*consensus.stateExecuter).Commit") {
			a := T(ArgK(s.Call, 2))
			c.Require("C03.V reject-edge", FuncKey(procV)+": stateRoot checked by Commit", p.InstrPos(s.Call), "the application commit is given block.Header.StateRoot as the expected root", a.Op == "field" && a.Sym == "StateRoot" && strings.Contains(a.String(), added), a.String())
		}
	}

	// ---- B: Block.Validate dominates every call of the apply function
	{
		n := 0
		for _, s := range p.callSitesOf(procV) {
			if !IsProd(s.Fn) {
				continue
			}
			n++
			arg := argFromEnd(s.Call, 3)
			at := T(arg)
			ff := factsOf(s.Fn)
			okV := false
			why := ""
			for _, v := range CallsIn(s.Fn, "(*blockchain.Block).Validate") {
				if T(ArgK(v.Call, 0)).String() == at.String() && instrDominates(v.Call, s.Call) {
					if ok, w := ff.NilErrAt(s.Call.Block(), Matcher{"this Validate", func(t *Term) bool { return t.V == v.Call.Value() }}); ok {
						okV, why = true, w
					}
				}
			}
			if !okV {
				// documented exceptions (a call site that moved into a new helper counts for the
				// known function the helper works for)
				key := FuncKey(s.Fn)
				if isNewHelper(s.Fn) {
					if kr := knownRootOf(s.Fn); kr != nil {
						key = FuncKey(kr)
					}
				}
				switch {
				case key == "pkg/consensus.(*Executer).process" && at.Op == "call" && strings.HasSuffix(at.Sym, "Chain).LastBlock"):
					okV, why = true, "exception: re-application of the node's own previous tip after a failed tie-break"
				case key == "pkg/consensus/sync.(*fastSyncer).restoreBlocks" && strings.Contains(at.String(), "GetTempBlocks"):
					okV, why = true, "exception: restoration of temp blocks read back from the node's own database"
				case key == "pkg/consensus/sync.(*fastSyncer).Sync" && strings.Contains(at.String(), "downloadAndValidate"):
					// validated inside downloadAndValidate: every appended block passed Validate
					dv := p.Fn("pkg/consensus/sync.(*fastSyncer).downloadAndValidate")
					if dv != nil {
						df := factsOf(dv)
						good := true
						cnt := 0
						for _, call := range AllCalls(dv) {
							if CalleeName(call.Common()) == "builtin:append" {
								cnt++
								if ok, _ := df.NilErrAt(call.Block(), IsCall("(*blockchain.Block).Validate")); !ok {
									good = false
								}
							}
						}
						okV, why = good && cnt > 0, "validated in downloadAndValidate before being collected"
					}
				}
			}
			c.Require("C03.B stateless-validation-first", FuncKey(s.Fn)+" ⇒ processValidated", p.InstrPos(s.Call), "Block.Validate() == nil on the same block dominates the call (or a documented restoration)", okV, why+" block: "+at.String())
		}
		c.MinInstances("C03.B stateless-validation-first", n, 4)
		// what Validate checks
		bf := factsOf(validate)
		for _, r := range Returns(validate) {
			if classifyReturn(bf, r) != RetNil {
				continue
			}
			okH, _ := bf.NilErrAt(r.Block(), IsCall("(*blockchain.BlockHeader).Validate"))
			okT, _ := bf.BoolHoldsAt(r.Block(), Matcher{"Equal(header.TransactionRoot, rmt.CalculateRoot(txIDs))", func(t *Term) bool {
				return t.Op == "call" && strings.HasSuffix(t.Sym, "bytes.Equal") && strings.Contains(t.String(), ".Header.TransactionRoot") && strings.Contains(t.String(), "rmt.CalculateRoot(")
			}}, true)
			okA, _ := bf.BoolHoldsAt(r.Block(), Matcher{"Equal(header.AssetRoot, assets.GetRoot())", func(t *Term) bool {
				return t.Op == "call" && strings.HasSuffix(t.Sym, "bytes.Equal") && strings.Contains(t.String(), ".Header.AssetRoot") && strings.Contains(t.String(), "BlockAssets).GetRoot(")
			}}, true)
			okAV, _ := bf.NilErrAt(r.Block(), IsCall("(blockchain.BlockAssets).Valid"))
			c.Require("C03.B validate-content", FuncKey(validate), p.InstrPos(r), "success requires header validation, transaction root, asset validity and asset root", okH && okT && okA && okAV, fmt.Sprintf("header=%v txRoot=%v assetRoot=%v assetsValid=%v", okH, okT, okA, okAV))
		}
		// the transaction root is computed over this block's transaction IDs
		okIDs := false
		for _, b := range blocksDeep(validate) {
			for _, in := range b.Instrs {
				if st, ok := in.(*ssa.Store); ok {
					if _, isIA := st.Addr.(*ssa.IndexAddr); isIA {
						v := T(st.Val)
						if v.Op == "field" && v.Sym == "ID" && strings.Contains(v.String(), "p0.Transactions[") {
							okIDs = true
						}
					}
				}
			}
		}
		c.Require("C03.B validate-content", FuncKey(validate)+": txIDs", p.Pos(validate.Pos()), "the root is computed over the IDs of the block's own transactions, in order", okIDs, "")
	}

	// ---- F: field coverage
	{
		var full, sign *Schema
		for _, s := range p.schemas() {
			if s.Owner == H {
				full = s
			}
			if s.Owner == "blockchain.signingBlockHeader" {
				sign = s
			}
		}
		if full == nil || sign == nil {
			c.Undecided("C03.F field-coverage", H, "schema not found")
		} else {
			signed := map[string]bool{}
			for _, f := range sign.Fields {
				signed[f.Name] = true
			}
			// fields read on the validation path: verifyBlock, verifyAggregateCommit, processValidated, Block.Validate, BlockHeader.Validate (+ readonly accessors used by liskbft)
			read := map[string][]string{}
			scan := func(fn *ssa.Function) {
				if fn == nil {
					return
				}
				for _, b := range blocksDeep(fn) {
					for _, in := range b.Instrs {
						if fa, ok := in.(*ssa.FieldAddr); ok {
							o, s := ownerOfFieldBase(fa.X.Type())
							if o == H {
								name := fieldNameOf(s.Field(fa.Field))
								// a read, not a store
								for _, r := range *fa.Referrers() {
									if _, isLoad := r.(*ssa.UnOp); isLoad {
										read[name] = append(read[name], FuncKey(fn))
									}
								}
							}
						}
					}
				}
			}
			for _, k := range []string{"pkg/consensus.(*Executer).verifyBlock", "pkg/consensus.(*Executer).verifyAggregateCommit", "pkg/consensus.(*Executer).processValidated", "pkg/blockchain.(*Block).Validate", "pkg/blockchain.(*BlockHeader).Validate"} {
				scan(p.Fn(k))
			}
			// through the read-only view handed to the BFT module: which accessors does the non-genesis path call?
			viaAccessor := map[string]bool{}
			for _, k := range []string{"pkg/consensus/liskbft.(*BFTVotes).insertBlockBFTInfo", "pkg/consensus/liskbft.(*BFTVotes).updateMaxHeightCertified", "pkg/consensus/liskbft.(*API).IsHeaderContradictingChain", "pkg/consensus/contradiction.NewBFTBlockHeader", "pkg/consensus/liskbft.(*API).ImpliesMaximalPrevotes"} {
				fn := p.Fn(k)
				if fn == nil {
					continue
				}
				for _, call := range AllCalls(fn) {
					if call.Common().IsInvoke() && strings.Contains(CalleeName(call.Common()), "BlockHeader.") {
						viaAccessor[call.Common().Method.Name()] = true
					}
				}
			}
			for _, f := range full.Fields {
				if f.Name == "Signature" {
					c.Require("C03.F field-coverage", H+".Signature", "-", "the signature is outside the signing bytes and is what VerifySignature checks", !signed["Signature"], "")
					continue
				}
				c.Require("C03.F signed", H+"."+f.Name, "-", "the field is part of the signing bytes", signed[f.Name], "")
				if f.Name == "ImpliesMaxPrevotes" {
					// LIP-0058 defines it, but it is not among the validity rules the property enumerates;
					// reported as a note, not an obligation (it is covered by the signature only)
					c.Notes = append(c.Notes, fmt.Sprintf("BlockHeader.ImpliesMaxPrevotes: read on the validation path = %v (informational; not one of the enumerated rules)", len(read[f.Name]) > 0 || viaAccessor[f.Name]))
					continue
				}
				consumed := len(read[f.Name]) > 0 || viaAccessor[f.Name]
				where := strings.Join(uniq(read[f.Name]), ", ")
				if viaAccessor[f.Name] {
					where += " (BFT module via read-only accessor)"
				}
				c.Require("C03.F field-coverage", H+"."+f.Name, "-", "the field is compared or consumed on the non-genesis validation path (a field nobody reads can be altered freely)", consumed, "read in: "+where)
			}
		}
		// derived fields: producer/validator mirror
		seal := p.Fn("pkg/generator.(*Generator).sealBlock")
		if seal != nil {
			got := map[string]string{}
			for _, b := range blocksDeep(seal) {
				for _, in := range b.Instrs {
					if st, ok := in.(*ssa.Store); ok {
						if fa, ok := st.Addr.(*ssa.FieldAddr); ok {
							o, s := ownerOfFieldBase(fa.X.Type())
							if o == H {
								got[fieldNameOf(s.Field(fa.Field))] = T(st.Val).String()
							}
						}
					}
				}
			}
			want := map[string]string{
				"TransactionRoot": "trie/rmt.CalculateRoot(",
				"AssetRoot":       "BlockAssets).GetRoot(",
				"EventRoot":       "blockchain.CalculateEventRoot(",
				"ValidatorsHash":  "BFTParams).ValidatorsHash(",
				"StateRoot":       "p5",
			}
			for f, sub := range want {
				c.Require("C03.F producer-validator-mirror", "sealBlock: "+f, p.Pos(seal.Pos()), "the generator derives the field with the function the validator compares against", strings.Contains(got[f], sub), "assigned: "+got[f])
			}
			// validatorsHash from params at height+1 on both sides
			c.Require("C03.F producer-validator-mirror", "sealBlock: ValidatorsHash height", p.Pos(seal.Pos()), "parameters at header.Height+1, as in validation", strings.Contains(got["ValidatorsHash"], ".Height + 1)"), got["ValidatorsHash"])
		}
	}

	// ---- N: nothing changes before the last reject edge
	if len(adds) == 1 {
		ab := adds[0].Call
		// (a) no chain-DB write reachable except via AddBlock: C13.R2 (re-checked here in short form)
		w := reachesAvoidingFuncs(p, procV, map[*ssa.Function]bool{p.Fn("pkg/blockchain.(*Chain).AddBlock"): true}, func(name string) bool {
			return name == "(*db.DB).Write" || name == "(*db.DB).Set" || name == "(*db.DB).Del"
		})
		c.Require("C03.N no-write-before-accept", FuncKey(procV), p.Pos(procV.Pos()), "the only persistent chain write is the one inside AddBlock", w == nil, strings.Join(w, " → "))
		// (b) events only after AddBlock succeeded
		for _, s := range CallsIn(procV, "(*event.EventEmitter).Publish") {
			ok, why := pf.NilErrAt(s.Call.Block(), IsCall("(*blockchain.Chain).AddBlock"))
			c.Require("C03.N events-after-accept", FuncKey(procV)+" ⇒ Publish("+T(ArgK(s.Call, 1)).String()+")", p.InstrPos(s.Call), "events are emitted only after AddBlock returned nil", ok && instrDominates(ab, s.Call), why)
		}
		// (c) the application commit is the last fallible step before AddBlock: no reject edge between Commit and AddBlock
		for _, s := range CallsIn(procV, "(*consensus.stateExecuter).Commit") {
			rejects := 0
			for i, e := range pf.Edges {
				_ = i
				if instrDominates(s.Call, e.If) && instrDominates(e.If, ab) {
					for _, in := range e.To.Instrs {
						if r, isR := in.(*ssa.Return); isR && classifyReturn(pf, r) == RetErr && e.If.Block() != s.Call.Block() {
							rejects++
						}
					}
				}
			}
			c.Require("C03.N commit-after-last-reject", FuncKey(procV), p.InstrPos(s.Call), "no validity rule can still reject the block after the application state was committed", rejects == 0, fmt.Sprintf("%d reject edges between Commit and AddBlock", rejects))
		}
		// (d) the publish goroutine must not write the verdict variable
		for _, sp := range spawnsIn(procV) {
			for _, wv := range sharedWrites(sp) {
				if wv.Kind == "assign" {
					touch, at := parentTouchesAfter(sp, wv.Binding)
					c.Require("C03.N verdict-not-shared", FuncKey(procV)+": goroutine assigns captured "+wv.Var, p.InstrPos(wv.Instr), "a concurrently running body does not assign a variable the verdict path reads", !touch, "creator reads it at "+p.InstrPos(at))
				}
			}
		}
	}
	// (e) Executer fields stored on the receive path before validation
	{
		pfacts := factsOf(process)
		for _, b := range blocksDeep(process) {
			for _, in := range b.Instrs {
				st, ok := in.(*ssa.Store)
				if !ok {
					continue
				}
				fa, ok := st.Addr.(*ssa.FieldAddr)
				if !ok {
					continue
				}
				o, s := ownerOfFieldBase(fa.X.Type())
				if o != "consensus.Executer" {
					continue
				}
				name := fieldNameOf(s.Field(fa.Field))
				if name == "syncying" {
					continue // sync state flag, not part of chain/consensus state
				}
				// must be after a successful processValidated
				ok2, _ := pfacts.NilErrAt(b, IsCall("(*consensus.Executer).processValidated"))
				if !ok2 {
					// … or it forgets what it knew (a nil / zero value) after a sync ran, on the way
					// where the tip is no longer the block it was: nothing about the incoming block is
					// remembered, the chain itself has changed
					if cst, isC := st.Val.(*ssa.Const); isC && cst.IsNil() {
						after := false
						for _, sc := range CallsIn(process, "(*consensus/sync.Syncer).Sync") {
							if instrDominates(sc.Call, st) {
								after = true
							}
						}
						tipChanged := false
						for _, f := range pfacts.FactsAt(b) {
							if t := f.String(); strings.Contains(t, "LastBlock(") && strings.Contains(t, ".ID") {
								tipChanged = true
							}
						}
						ok2 = after && tipChanged
					}
				}
				c.Require("C03.N executer-state-after-accept", FuncKey(process)+": store Executer."+name, p.InstrPos(st), "receive-path state (used by later fork-choice decisions) changes only after the block was accepted", ok2, "")
			}
		}
		// (f) tie-break: the tip is deleted only after the incoming block passed stateless validation AND verification
		for _, s := range CallsIn(process, "(*consensus.Executer).deleteBlock") {
			okVal, _ := pfacts.NilErrAt(s.Call.Block(), IsCall("(*blockchain.Block).Validate"))
			c.Require("C03.N tie-break-validates-first", FuncKey(process)+" ⇒ deleteBlock", p.InstrPos(s.Call), "the tip is removed only after the incoming block passed Block.Validate", okVal, "")
			// the stateful verification of the incoming block happens only inside processValidated, i.e. after the tip was already removed:
			// a tie-break block that fails verification has by then changed the chain and emitted delete/new events
			verifiedFirst := false
			for _, v := range CallsIn(process, "(*consensus.Executer).verifyBlock") {
				if instrDominates(v.Call, s.Call) {
					verifiedFirst = true
				}
			}
			c.Require("C03.N tie-break-verifies-before-delete", FuncKey(process)+" ⇒ deleteBlock before the incoming block is verified", p.InstrPos(s.Call), "a rejected block changes nothing: the tip may be removed only once the replacing block is known to be valid (or the removal and its events must be invisible)", verifiedFirst, "the incoming tie-break block is verified (verifyBlock, ABI verify/execute) only inside processValidated, after deleteBlock has removed the tip and published EventBlockDelete")
		}
	}

	// ---- payload limit
	{
		// Chain.maxTransactionsLength must reach a comparison somewhere
		reads := 0
		for _, fn := range p.Subjects() {
			if !IsProd(fn) || len(fn.Blocks) == 0 || strings.HasSuffix(FuncKey(fn), "blockchain.NewChain") {
				continue
			}
			for _, b := range blocksDeep(fn) {
				for _, in := range b.Instrs {
					if fa, ok := in.(*ssa.FieldAddr); ok {
						o, s := ownerOfFieldBase(fa.X.Type())
						if o == "blockchain.Chain" && fieldNameOf(s.Field(fa.Field)) == "maxTransactionsLength" {
							for _, r := range *fa.Referrers() {
								if _, isLoad := r.(*ssa.UnOp); isLoad {
									reads++
								}
							}
						}
					}
				}
			}
		}
		c.Require("C03.P payload-limit-enforced", "blockchain.Chain.maxTransactionsLength", "-", "the configured payload size limit reaches a comparison on the validation path", reads > 0, fmt.Sprintf("%d reads of the configured limit in production code", reads))
		// transactions are statically validated on the block path
		okTxV := false
		for _, k := range []string{"pkg/blockchain.(*Block).Validate", "pkg/consensus.(*Executer).verifyBlock", "pkg/consensus.(*Executer).processValidated"} {
			if fn := p.Fn(k); fn != nil && len(CallsIn(fn, "(*blockchain.Transaction).Validate")) > 0 {
				okTxV = true
			}
		}
		c.Require("C03.P transactions-statically-valid", "Transaction.Validate on the block path", "-", "every transaction of a block is statically validated before the block is applied", okTxV, "")
	}

	// ---- W
	checkWindowOrder(c, "C03")
}

func uniq(in []string) []string {
	seen := map[string]bool{}
	var out []string
	for _, s := range in {
		if !seen[s] {
			seen[s] = true
			out = append(out, s)
		}
	}
	return out
}
