package main

import (
	"fmt"
	"go/token"
	"go/types"
	"sort"
	"strings"

	"golang.org/x/tools/go/ssa"
)

// ---------------------------------------------------------------------------
// E1: lock sets, re-entrancy, lock order, blocking under lock, field guards.

type LockRef struct {
	Path   string // access path of the mutex object, parameter-relative: "p0.mutex"
	TypeID string // "blockchain.blockCache.mutex" (owner type + field) or "local:<fn>:<name>"
	Mode   byte   // 'W' | 'R'
	T      *Term
}

func (l LockRef) String() string {
	m := "Lock"
	if l.Mode == 'R' {
		m = "RLock"
	}
	return m + "(" + l.TypeID + ")"
}

// normPath renders the mutex term with address-of and field-load unified.
func lockPath(t *Term) (string, string) {
	// strip &x.f → x.f
	if t.Op == "addr" {
		t = &Term{Op: "field", Sym: t.Sym, Owner: t.Owner, Args: t.Args, V: t.V}
	}
	typeID := ""
	switch t.Op {
	case "field":
		typeID = t.Owner + "." + t.Sym
	case "alloc":
		typeID = "local:" + t.Sym
	case "global":
		typeID = t.Sym
	case "free":
		if len(t.Args) == 1 {
			return lockPath(t.Args[0])
		}
		typeID = "free:" + t.Sym
	case "load":
		if len(t.Args) == 1 {
			return lockPath(t.Args[0])
		}
	default:
		typeID = "?" + t.String()
	}
	return stripFree(t).String(), typeID
}

// stripFree removes free() wrappers so that a closure's view of a captured
// variable compares equal to its creator's view.
func stripFree(t *Term) *Term {
	if t == nil {
		return nil
	}
	if t.Op == "free" && len(t.Args) == 1 {
		return stripFree(t.Args[0])
	}
	if len(t.Args) == 0 {
		return t
	}
	changed := false
	args := make([]*Term, len(t.Args))
	for i, a := range t.Args {
		args[i] = stripFree(a)
		if args[i] != a {
			changed = true
		}
	}
	if !changed {
		return t
	}
	c := *t
	c.Args = args
	return &c
}

// lockOp recognises an acquire/release in a call instruction.
func lockOp(tb *termBuilder, c ssa.CallInstruction) (ref LockRef, acquire bool, ok bool) {
	cc := c.Common()
	name := CalleeName(cc)
	var recv ssa.Value
	mode := byte('W')
	switch name {
	case "(*sync.Mutex).Lock", "(*sync.RWMutex).Lock":
		acquire = true
	case "(*sync.Mutex).Unlock", "(*sync.RWMutex).Unlock":
	case "(*sync.RWMutex).RLock":
		acquire, mode = true, 'R'
	case "(*sync.RWMutex).RUnlock":
		mode = 'R'
	case "iface:sync.Locker.Lock", "iface:sync.Locker.Unlock":
		// x.RLocker().Lock()
		rt := tb.of(cc.Value, 0)
		if rt.Op == "call" && rt.Sym == "(*sync.RWMutex).RLocker" && len(rt.Args) == 1 {
			path, tid := lockPath(rt.Args[0])
			return LockRef{Path: path, TypeID: tid, Mode: 'R', T: rt.Args[0]}, strings.HasSuffix(name, ".Lock"), true
		}
		return ref, false, false
	default:
		return ref, false, false
	}
	if len(cc.Args) == 0 {
		return ref, false, false
	}
	recv = cc.Args[0]
	t := tb.of(recv, 0)
	path, tid := lockPath(t)
	return LockRef{Path: path, TypeID: tid, Mode: mode, T: t}, acquire, true
}

type heldSet map[string]LockRef // key: Path+"/"+Mode

func (h heldSet) clone() heldSet {
	o := heldSet{}
	for k, v := range h {
		o[k] = v
	}
	return o
}

func (h heldSet) keys() []string {
	var ks []string
	for k := range h {
		ks = append(ks, k)
	}
	sort.Strings(ks)
	return ks
}

func (h heldSet) String() string {
	var s []string
	for _, k := range h.keys() {
		s = append(s, h[k].String())
	}
	return "{" + strings.Join(s, ", ") + "}"
}

// LockFlow holds, per instruction, the locks that may / must be held just before it.
type LockFlow struct {
	Fn   *ssa.Function
	tb   *termBuilder
	May  map[ssa.Instruction]heldSet
	Must map[ssa.Instruction]heldSet
}

func lockFlow(fn *ssa.Function, entry heldSet) *LockFlow {
	lf := &LockFlow{Fn: fn, tb: newTB(), May: map[ssa.Instruction]heldSet{}, Must: map[ssa.Instruction]heldSet{}}
	for _, must := range []bool{false, true} {
		in := map[*ssa.BasicBlock]heldSet{}
		out := map[*ssa.BasicBlock]heldSet{}
		if len(fn.Blocks) == 0 {
			return lf
		}
		work := []*ssa.BasicBlock{fn.Blocks[0]}
		in[fn.Blocks[0]] = entry.clone()
		visited := map[*ssa.BasicBlock]bool{}
		for iter := 0; len(work) > 0 && iter < 10000; iter++ {
			b := work[0]
			work = work[1:]
			cur := in[b].clone()
			for _, ins := range b.Instrs {
				if must {
					lf.Must[ins] = cur.clone()
				} else {
					lf.May[ins] = cur.clone()
				}
				call, ok := ins.(*ssa.Call)
				if !ok {
					continue
				}
				ref, acq, ok := lockOp(lf.tb, call)
				if !ok {
					continue
				}
				k := ref.Path + "/" + string(ref.Mode)
				if acq {
					cur[k] = ref
				} else {
					delete(cur, k)
				}
			}
			changedOut := !visited[b] || !sameKeys(out[b], cur)
			visited[b] = true
			out[b] = cur
			if !changedOut {
				continue
			}
			for si, s := range b.Succs {
				cur := cur
				// `if mu.TryLock() { … }`: the lock is held on the edge where the attempt succeeded
				if ref, onTrue, ok := tryLockBranch(lf.tb, b); ok && len(b.Succs) == 2 && ((si == 0) == onTrue) {
					cur = cur.clone()
					cur[ref.Path+"/"+string(ref.Mode)] = ref
				}
				var merged heldSet
				if old, seen := in[s]; !seen {
					merged = cur.clone()
				} else if must {
					merged = heldSet{}
					for k, v := range old {
						if _, ok := cur[k]; ok {
							merged[k] = v
						}
					}
				} else {
					merged = old.clone()
					for k, v := range cur {
						merged[k] = v
					}
				}
				if old, seen := in[s]; !seen || !sameKeys(old, merged) || !visited[s] {
					in[s] = merged
					work = append(work, s)
				}
			}
		}
	}
	return lf
}

// tryLockBranch: block b ends in a branch on the result of mu.TryLock() / mu.TryRLock()
// (possibly negated); onTrue tells which successor runs with the lock held.
func tryLockBranch(tb *termBuilder, b *ssa.BasicBlock) (ref LockRef, onTrue bool, ok bool) {
	if len(b.Instrs) == 0 {
		return
	}
	iff, isIf := b.Instrs[len(b.Instrs)-1].(*ssa.If)
	if !isIf {
		return
	}
	cond, truth := iff.Cond, true
	for {
		u, isNot := cond.(*ssa.UnOp)
		if !isNot || u.Op != token.NOT {
			break
		}
		cond, truth = u.X, !truth
	}
	call, isCall := cond.(*ssa.Call)
	if !isCall || len(call.Common().Args) == 0 {
		return
	}
	mode := byte('W')
	switch CalleeName(call.Common()) {
	case "(*sync.Mutex).TryLock", "(*sync.RWMutex).TryLock":
	case "(*sync.RWMutex).TryRLock":
		mode = 'R'
	default:
		return
	}
	t := tb.of(call.Common().Args[0], 0)
	path, tid := lockPath(t)
	return LockRef{Path: path, TypeID: tid, Mode: mode, T: t}, truth, true
}

func sameKeys(a, b heldSet) bool {
	if len(a) != len(b) {
		return false
	}
	for k := range a {
		if _, ok := b[k]; !ok {
			return false
		}
	}
	return true
}

// ---------------------------------------------------------------------------
// Summaries.

type BlockOp struct {
	Desc  string
	Site  string
	Chain []string
	Instr ssa.Instruction
}

type AcqOp struct {
	Ref   LockRef
	Site  string
	Chain []string
}

type LockSummary struct {
	Acquires []AcqOp
	Blocks   []BlockOp
}

type lockAnalysis struct {
	p     *Program
	memo  map[*ssa.Function]*LockSummary
	stack map[*ssa.Function]bool
	depth int
}

func newLockAnalysis(p *Program) *lockAnalysis {
	return &lockAnalysis{p: p, memo: map[*ssa.Function]*LockSummary{}, stack: map[*ssa.Function]bool{}}
}

// blockingOp classifies an instruction as a potentially unbounded wait.
func blockingOp(in ssa.Instruction) string {
	switch x := in.(type) {
	case *ssa.Send:
		return "channel send"
	case *ssa.UnOp:
		if x.Op == token.ARROW {
			return "channel receive"
		}
	case *ssa.Select:
		if x.Blocking {
			return "select without default"
		}
	case *ssa.Call:
		switch CalleeName(x.Common()) {
		case "(*sync.WaitGroup).Wait":
			return "WaitGroup.Wait"
		case "(*golang.org/x/sync/errgroup.Group).Wait":
			return "errgroup.Wait"
		case "time.Sleep":
			return "time.Sleep"
		case "(*sync.Cond).Wait":
			return "Cond.Wait"
		}
	}
	return ""
}

// substParams rewrites a parameter-relative term into the caller's terms.
func substParams(t *Term, args []*Term) *Term {
	if t == nil {
		return nil
	}
	if t.Op == "param" {
		var i int
		if _, err := fmt.Sscanf(t.Sym, "p%d", &i); err == nil && i < len(args) && args[i] != nil {
			return args[i]
		}
		return t
	}
	if len(t.Args) == 0 {
		return t
	}
	c := *t
	c.Args = make([]*Term, len(t.Args))
	for i, a := range t.Args {
		c.Args[i] = substParams(a, args)
	}
	// a call of a function-typed parameter bound to a function literal with one plain result:
	// the literal's result, with its parameters replaced by the call's arguments
	if t.Op == "call" && strings.HasPrefix(t.Sym, "dyn:p") {
		var k int
		if _, err := fmt.Sscanf(t.Sym, "dyn:p%d", &k); err == nil && k < len(args) && args[k] != nil {
			switch lit := args[k].V.(type) {
			case *ssa.MakeClosure:
				g, _ := lit.Fn.(*ssa.Function)
				if r := literalResultTerm(g, lit.Bindings, c.Args); r != nil {
					return r
				}
			case *ssa.Function: // a literal that captures nothing
				if lit.Parent() != nil {
					if r := literalResultTerm(lit, nil, c.Args); r != nil {
						return r
					}
				}
			}
		}
	}
	return &c
}

// literalResultTerm: the single result of the function literal created by mc, written with
// args for its parameters and its creator's values for what it captured; nil when the literal
// has several returns or results.
func literalResultTerm(g *ssa.Function, bindings []ssa.Value, args []*Term) *Term {
	if g == nil || len(g.Params) != len(args) {
		return nil
	}
	var ret *ssa.Return
	for _, b := range g.Blocks {
		if r, ok := b.Instrs[len(b.Instrs)-1].(*ssa.Return); ok {
			if ret != nil {
				return nil
			}
			ret = r
		}
	}
	if ret == nil || len(ret.Results) != 1 {
		return nil
	}
	tb := newTB()
	for i, prm := range g.Params {
		tb.memo[prm] = args[i]
	}
	creator := newTB()
	for i, fv := range g.FreeVars {
		if i >= len(bindings) {
			break
		}
		if al, isCell := bindings[i].(*ssa.Alloc); isCell {
			if sv := uniqueStore(al); sv != nil {
				for _, r := range *fv.Referrers() {
					if ld, ok := r.(*ssa.UnOp); ok && ld.Op == token.MUL {
						tb.memo[ld] = creator.of(sv, 1)
					}
				}
			}
			continue
		}
		tb.memo[fv] = creator.of(bindings[i], 1)
	}
	return tb.of(ret.Results[0], 1)
}

func (la *lockAnalysis) summary(fn *ssa.Function) *LockSummary {
	if s, ok := la.memo[fn]; ok {
		return s
	}
	if la.stack[fn] || len(la.stack) > 10 || len(fn.Blocks) == 0 {
		return &LockSummary{}
	}
	la.stack[fn] = true
	defer delete(la.stack, fn)
	s := &LockSummary{}
	tb := newTB()
	for _, b := range fn.Blocks {
		for _, in := range b.Instrs {
			if d := blockingOp(in); d != "" {
				s.Blocks = append(s.Blocks, BlockOp{Desc: d, Site: la.p.InstrPos(in), Chain: []string{FuncKey(fn)}, Instr: in})
			}
			call, ok := in.(*ssa.Call) // go and defer are not synchronous acquisitions at this point
			if !ok {
				continue
			}
			if ref, acq, ok := lockOp(tb, call); ok {
				if acq {
					s.Acquires = append(s.Acquires, AcqOp{Ref: ref, Site: la.p.InstrPos(call), Chain: []string{FuncKey(fn)}})
				}
				continue
			}
			callees := la.p.Callees(call)
			if len(callees) > 6 {
				continue // too imprecise to be useful
			}
			var args []*Term
			cc := call.Common()
			if cc.IsInvoke() {
				args = append(args, tb.of(cc.Value, 0))
			}
			for _, a := range cc.Args {
				args = append(args, tb.of(a, 0))
			}
			for _, g := range callees {
				if !IsOwn(g) || isAppBoundary(g) {
					continue
				}
				gs := la.summary(g)
				for _, a := range gs.Acquires {
					nt := substParams(a.Ref.T, args)
					path, tid := lockPath(nt)
					s.Acquires = append(s.Acquires, AcqOp{Ref: LockRef{Path: path, TypeID: tid, Mode: a.Ref.Mode, T: nt}, Site: a.Site, Chain: append([]string{FuncKey(fn)}, a.Chain...)})
				}
				for _, bo := range gs.Blocks {
					s.Blocks = append(s.Blocks, BlockOp{Desc: bo.Desc, Site: bo.Site, Chain: append([]string{FuncKey(fn)}, bo.Chain...), Instr: bo.Instr})
				}
			}
		}
	}
	// cap sizes
	if len(s.Acquires) > 64 {
		s.Acquires = s.Acquires[:64]
	}
	if len(s.Blocks) > 64 {
		s.Blocks = s.Blocks[:64]
	}
	la.memo[fn] = s
	return s
}

// unwrapBound replaces a synthetic bound-method or thunk wrapper (what a method *value* such as
// c.blocksBelowTip is) by the method it forwards to.
func unwrapBound(g *ssa.Function) *ssa.Function {
	if g == nil || g.Synthetic == "" || !(strings.Contains(g.Synthetic, "bound method") || strings.Contains(g.Synthetic, "thunk")) {
		return g
	}
	for _, b := range g.Blocks {
		for _, in := range b.Instrs {
			if call, ok := in.(ssa.CallInstruction); ok {
				if f := call.Common().StaticCallee(); f != nil {
					return f
				}
			}
		}
	}
	return g
}

// isAppBoundary: the application (ABI) side is a separate component reached
// over IPC or an in-process handler; its waits do not depend on engine locks.
// Calls into it under a lock are counted in evidence, not followed.
func isAppBoundary(g *ssa.Function) bool {
	k := FuncKey(g)
	return strings.HasPrefix(k, "pkg/labi_client.") || strings.HasPrefix(k, "pkg/framework.") || strings.HasPrefix(k, "pkg/framework/")
}

// LockReport is one finding of rules R1..R3.
type LockReport struct {
	Rule      string // R1 reentrant | R3 blocking
	Fn        *ssa.Function
	Site      string
	Held      LockRef
	What      string // acquired lock / blocking op
	Chain     []string
	Construct string
}

// analyseLocks runs R1 (re-entrant acquire) and R3 (blocking under lock) on fn.
func (la *lockAnalysis) analyse(fn *ssa.Function) (reports []LockReport, orderEdges [][2]string) {
	lf := lockFlow(fn, heldSet{})
	tb := lf.tb
	seen := map[string]bool{}
	add := func(r LockReport) {
		if !seen[r.Construct] {
			seen[r.Construct] = true
			reports = append(reports, r)
		}
	}
	for _, b := range fn.Blocks {
		for _, in := range b.Instrs {
			held := lf.May[in]
			if len(held) == 0 {
				continue
			}
			if d := blockingOp(in); d != "" {
				for _, k := range held.keys() {
					h := held[k]
					add(LockReport{Rule: "R3", Fn: fn, Site: la.p.InstrPos(in), Held: h, What: d, Chain: []string{FuncKey(fn)},
						Construct: FuncKey(fn) + ": " + d + " while holding " + h.String()})
				}
			}
			call, ok := in.(*ssa.Call)
			if !ok {
				continue
			}
			var acqs []AcqOp
			var blocks []BlockOp
			if ref, acq, ok := lockOp(tb, call); ok {
				if acq {
					acqs = append(acqs, AcqOp{Ref: ref, Site: la.p.InstrPos(call), Chain: []string{FuncKey(fn)}})
				}
			} else {
				callees := la.p.Callees(call)
				if len(callees) <= 6 {
					var args []*Term
					cc := call.Common()
					if cc.IsInvoke() {
						args = append(args, tb.of(cc.Value, 0))
					}
					for _, a := range cc.Args {
						args = append(args, tb.of(a, 0))
					}
					for _, g := range callees {
						g = unwrapBound(g)
						if !IsOwn(g) || isAppBoundary(g) {
							continue
						}
						gs := la.summary(g)
						for _, a := range gs.Acquires {
							nt := substParams(a.Ref.T, args)
							path, tid := lockPath(nt)
							acqs = append(acqs, AcqOp{Ref: LockRef{Path: path, TypeID: tid, Mode: a.Ref.Mode, T: nt}, Site: a.Site, Chain: append([]string{FuncKey(fn)}, a.Chain...)})
						}
						for _, bo := range gs.Blocks {
							blocks = append(blocks, BlockOp{Desc: bo.Desc, Site: bo.Site, Chain: append([]string{FuncKey(fn)}, bo.Chain...)})
						}
					}
				}
			}
			// a call of a function *value* (a callback parameter, a stored closure): the callee's
			// lock paths are relative to what the value captured, which cannot be expressed in this
			// function's vocabulary — the mutex is then identified by its (type, field) alone
			viaFuncValue := !call.Common().IsInvoke() && call.Common().StaticCallee() == nil
			if _, isBuiltin := call.Common().Value.(*ssa.Builtin); isBuiltin {
				viaFuncValue = false
			}
			for _, a := range acqs {
				for _, k := range held.keys() {
					h := held[k]
					if viaFuncValue && h.Path != a.Ref.Path && h.TypeID == a.Ref.TypeID && !strings.HasPrefix(h.TypeID, "local:") && !strings.HasPrefix(h.TypeID, "?") {
						add(LockReport{Rule: "R1", Fn: fn, Site: la.p.InstrPos(call), Held: h, What: a.Ref.String(), Chain: a.Chain,
							Construct: FuncKey(fn) + " ⇒ callback ⇒ " + a.Chain[len(a.Chain)-1] + ": " + a.Ref.String() + " under " + h.String()})
						continue
					}
					if h.Path == a.Ref.Path {
						add(LockReport{Rule: "R1", Fn: fn, Site: la.p.InstrPos(call), Held: h, What: a.Ref.String(), Chain: a.Chain,
							Construct: FuncKey(fn) + " ⇒ " + a.Chain[len(a.Chain)-1] + ": " + a.Ref.String() + " under " + h.String()})
					} else if h.TypeID != a.Ref.TypeID {
						orderEdges = append(orderEdges, [2]string{h.TypeID, a.Ref.TypeID})
					}
				}
			}
			for _, bo := range blocks {
				for _, k := range held.keys() {
					h := held[k]
					construct := FuncKey(fn) + " ⇒ " + bo.Chain[len(bo.Chain)-1] + ": " + bo.Desc + " while holding " + h.String()
					// a wait that sits in new helpers only is the caller's own wait
					allNew := len(bo.Chain) > 1
					for _, k := range bo.Chain[1:] {
						if g := la.p.Fn(k); g == nil || !isNewHelper(g) {
							allNew = false
						}
					}
					if allNew {
						construct = FuncKey(fn) + ": " + bo.Desc + " while holding " + h.String()
					}
					add(LockReport{Rule: "R3", Fn: fn, Site: la.p.InstrPos(call), Held: h, What: bo.Desc, Chain: bo.Chain,
						Construct: construct})
				}
			}
		}
	}
	return reports, orderEdges
}

// ---------------------------------------------------------------------------
// R4: field guard consistency.

type fieldAccess struct {
	Fn     *ssa.Function
	Instr  ssa.Instruction
	Field  string
	Write  bool
	Locked bool
	Fresh  bool // base is a value allocated in this function (constructor)
	Mode   byte // mode in which the guarding mutex is held here ('W' | 'R'), 0 when not held
}

// guardedStructs returns, for each named struct type with a sync mutex field
// declared in own prod packages, the name of that mutex field.
func guardedStructs(p *Program) map[string]string {
	out := map[string]string{}
	for _, pk := range p.Pkgs {
		if !strings.HasPrefix(relPkg(pk.PkgPath), "pkg/") {
			continue
		}
		sc := pk.Types.Scope()
		for _, n := range sc.Names() {
			tn, ok := sc.Lookup(n).(*types.TypeName)
			if !ok {
				continue
			}
			st, ok := tn.Type().Underlying().(*types.Struct)
			if !ok {
				continue
			}
			for i := 0; i < st.NumFields(); i++ {
				ft := typeName(st.Field(i).Type())
				if ft == "sync.Mutex" || ft == "*sync.Mutex" || ft == "sync.RWMutex" || ft == "*sync.RWMutex" {
					out[relPkgName(pk.Types)+"."+n] = fieldNameOf(st.Field(i))
					break
				}
			}
		}
	}
	return out
}

// fieldAccesses lists accesses to fields of `owner` in fn with the must-held
// lock information (entry = locks known held by every caller).
func fieldAccesses(fn *ssa.Function, owner, mutexField string, entry heldSet) []fieldAccess {
	lf := lockFlow(fn, entry)
	var out []fieldAccess
	for _, b := range fn.Blocks {
		for _, in := range b.Instrs {
			fa, ok := in.(*ssa.FieldAddr)
			if !ok {
				continue
			}
			o, st := ownerOfFieldBase(fa.X.Type())
			if o != owner || st == nil {
				continue
			}
			name := fieldNameOf(st.Field(fa.Field))
			if name == mutexField {
				continue
			}
			_, fresh := fa.X.(*ssa.Alloc)
			base := stripFree(lf.tb.of(fa.X, 0)).String()
			wantPath := base + "." + mutexField
			locked := false
			var mode byte
			for _, h := range lf.Must[in] {
				if h.Path == wantPath {
					locked = true
					if mode != 'W' {
						mode = h.Mode
					}
				}
			}
			// classify uses of the address
			read, write := false, false
			for _, r := range *fa.Referrers() {
				switch u := r.(type) {
				case *ssa.Store:
					if u.Addr == fa {
						write = true
					} else {
						read = true
					}
				case *ssa.UnOp:
					read = true
					// writes through the loaded reference: map update / delete / element store
					for _, rr := range *u.Referrers() {
						switch w := rr.(type) {
						case *ssa.MapUpdate:
							if w.Map == u {
								write = true
							}
						case *ssa.Call:
							if CalleeName(w.Common()) == "builtin:delete" && len(w.Common().Args) > 0 && w.Common().Args[0] == ssa.Value(u) {
								write = true
							}
							// the loaded slice/map handed to something that rewrites its elements in place
							for k, a := range w.Common().Args {
								if stripConv(a) == ssa.Value(u) && mutatesArg(w.Common(), k, 0) {
									write = true
								}
							}
						case *ssa.IndexAddr:
							for _, r3 := range *w.Referrers() {
								if st, ok := r3.(*ssa.Store); ok && st.Addr == ssa.Value(w) {
									write = true
								}
							}
						}
					}
				case ssa.CallInstruction:
					read = true
					// the field's address handed to something that writes through it
					for k, a := range u.Common().Args {
						if a == ssa.Value(fa) && mutatesArg(u.Common(), k, 0) {
							write = true
						}
					}
				default:
					read = true
				}
			}
			if write {
				out = append(out, fieldAccess{fn, in, name, true, locked, fresh, mode})
			}
			if read {
				out = append(out, fieldAccess{fn, in, name, false, locked, fresh, mode})
			}
		}
	}
	return out
}

// mutatesArg: does the callee rewrite, in place, the elements of its k-th argument (a slice or
// map)? Library sorts do; an own function does when it stores through an element address of
// that parameter, updates/deletes in it as a map, or hands it on to something that does.
func mutatesArg(cc *ssa.CallCommon, k int, depth int) bool {
	name := CalleeName(cc)
	switch {
	case name == "sort.Slice" || name == "sort.SliceStable" || name == "sort.Sort" || name == "sort.Stable" || name == "sort.Strings" || name == "sort.Ints":
		return k == 0
	case strings.HasPrefix(name, "slices.Sort") || strings.HasPrefix(name, "slices.Reverse"):
		return k == 0
	case name == "builtin:copy":
		return k == 0
	}
	g := cc.StaticCallee()
	if g == nil || !IsOwn(g) || len(g.Blocks) == 0 || depth > 3 || k >= len(g.Params) {
		return false
	}
	prm := g.Params[k]
	fromParam := func(v ssa.Value) bool {
		for i := 0; i < 4 && v != nil; i++ {
			v = stripConv(v)
			if v == ssa.Value(prm) {
				return true
			}
			switch x := v.(type) {
			case *ssa.Slice:
				v = x.X
			case *ssa.UnOp:
				// the parameter is a pointer to the slice/map: *p
				if x.X == ssa.Value(prm) {
					return true
				}
				// the parameter is a pointer to a struct that holds the slice/map: p.f
				if fa, ok := x.X.(*ssa.FieldAddr); ok && stripConv(fa.X) == ssa.Value(prm) {
					return true
				}
				// value receivers and captured parameters are spilled to a cell
				if al, ok := x.X.(*ssa.Alloc); ok {
					if sv := uniqueStore(al); sv != nil {
						v = sv
						continue
					}
				}
				return false
			default:
				return false
			}
		}
		return false
	}
	for _, b := range g.Blocks {
		for _, in := range b.Instrs {
			switch x := in.(type) {
			case *ssa.Store:
				if ia, ok := x.Addr.(*ssa.IndexAddr); ok && fromParam(ia.X) {
					return true
				}
				if x.Addr == ssa.Value(prm) {
					return true // *p = …
				}
				if fa, ok := x.Addr.(*ssa.FieldAddr); ok && stripConv(fa.X) == ssa.Value(prm) {
					return true // p.f = …
				}
			case *ssa.MapUpdate:
				if fromParam(x.Map) {
					return true
				}
			case ssa.CallInstruction:
				if CalleeName(x.Common()) == "builtin:delete" && len(x.Common().Args) > 0 && fromParam(x.Common().Args[0]) {
					return true
				}
				for j, a := range x.Common().Args {
					if fromParam(a) && mutatesArg(x.Common(), j, depth+1) {
						return true
					}
				}
			}
		}
	}
	return false
}
