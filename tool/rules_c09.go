package main

import (
	"go/token"
	"fmt"
	"go/types"
	"os"
	"sort"
	"strings"

	"golang.org/x/tools/go/ssa"
)

func init() {
	register("C09", "Panic reachability from untrusted entry points. Entry points are discovered structurally (gossip handlers/validators, RPC and stream handlers, JSON-RPC endpoint maps, library verifiers); every own-module function reachable from them through the VTA call graph is scanned for panic-capable instructions: bounds checks the Go compiler's prove pass could not eliminate, slice expressions, unchecked type assertions, integer division, make with a computed length, sign-changing/narrowing conversions feeding a bound, explicit panics, and dereferences of JSON-decoded pointers. Each is discharged by (i) the compiler's proof, (ii) a dominating edge fact in linear normal form that entails the bound (conversions are not seen through), (iii) a recognised idiom (length derived from existing data, generated-codec assertion whose creator returns the asserted type, variadic Min/Max with a literal argument), or (iv) a reviewed table row with its reason; anything else is a violation. Validators must answer Reject/Ignore on every decode/validate error edge.",
		runC09)
}

func c09Key(s PanicSite) string { return FuncKey(s.Fn) + " | " + s.Kind + " | " + s.Desc }

func runC09(c *Ctx) {
	p := c.P
	c.Assume = append(c.Assume,
		"data read back from the node's own databases was validated before it was stored",
		"third-party libraries (blst, pebble, libp2p, x/text) do not panic on the inputs they are handed, except where a table row says which precondition is checked",
		"time and memory proportionality beyond 'allocation bounded by input size' is not decided")
	c.Trusted = append(c.Trusted, "the Go compiler's prove pass (bounds-check elimination report)", "VTA call graph for reachability")
	entries := discoverEntries(p)
	counts := map[string]int{}
	var roots []*ssa.Function
	for _, e := range entries {
		roots = append(roots, e.Fn)
		switch {
		case strings.HasPrefix(e.How, "gossip"):
			counts["gossip"]++
		case strings.HasPrefix(e.How, "RPC"), strings.HasPrefix(e.How, "libp2p"):
			counts["rpc"]++
		case strings.HasPrefix(e.How, "JSON"):
			counts["json"]++
		default:
			counts["library"]++
		}
		c.Anchors = append(c.Anchors, FuncKey(e.Fn)+" ("+e.How+")")
	}
	c.MinInstances("C09 gossip handlers and validators", counts["gossip"], 6)
	c.MinInstances("C09 RPC and stream handlers", counts["rpc"], 6)
	c.MinInstances("C09 JSON-RPC endpoints", counts["json"], 14)
	c.MinInstances("C09 library verifiers", counts["library"], 12)

	via := reachableFrom(p, roots, func(g *ssa.Function) bool { return !IsProd(g) })
	var fns []*ssa.Function
	for f := range via {
		if IsProd(f) {
			fns = append(fns, f)
		}
	}
	sort.Slice(fns, func(i, j int) bool { return FuncKey(fns[i]) < FuncKey(fns[j]) })
	c.Count("functions reachable from untrusted entries", len(fns))
	c.MinInstances("C09 reachable functions", len(fns), 250)

	var env []string
	if c.Tier == "thorough" && os.Getenv("VERIF_C09_ARCH") != "" {
		env = append(env, "GOARCH="+os.Getenv("VERIF_C09_ARCH"))
	}
	unproven, err := unprovenBounds(p.Dir, env)
	if err != nil {
		c.Undecided("C09 bounds-report", "go build -gcflags=-d=ssa/check_bce", err.Error())
		return
	}
	c.Count("bounds checks the compiler kept (whole module)", len(unproven))

	proven, usedRows := 0, map[string]bool{}
	nSites := 0
	for _, fn := range fns {
		sites, pr := panicSites(p, fn, unproven)
		proven += pr
		var ff *FuncFacts
		facts := func() *FuncFacts {
			if ff == nil {
				ff = factsOfConv(fn)
			}
			return ff
		}
		hasConvRisk := false
		for _, s := range sites {
			if s.Kind == "index" || s.Kind == "slice" || s.Kind == "make" {
				hasConvRisk = true
			}
		}
		if hasConvRisk {
			sites = append(sites, unsafeConversions(p, facts())...)
		}
		for _, s := range sites {
			nSites++
			d := c09Discharge(c, facts(), s, via)
			key := c09Key(s)
			if !d.OK && isNewHelper(s.Fn) {
				// a site inside a new helper is judged where the helper is used: with the facts
				// and the argument terms of every known function that reaches it
				roots := knownRootsOf(s.Fn)
				all := len(roots) > 0
				how := ""
				nCtx := 0
				for _, r := range roots {
					for _, ch := range helperChains(r, s.Fn) {
						nCtx++
						dr := c09Discharge(c, factsOfConv(r).withChain(ch), s, via)
						if !dr.OK {
							all = false
							break
						}
						how = dr.How
					}
				}
				all = all && nCtx > 0
				if all {
					d = Discharge{true, "in the context of each caller (" + fmt.Sprint(len(roots)) + "): " + how, ""}
				}
			}
			if !d.OK && isNewHelper(s.Fn) {
				// a site that moved into a new helper: it is the reviewed site of each function
				// that calls the helper, read with that call's arguments
				if ok, how, rows := c09ViaCallers(p, s, via); ok {
					for _, ri := range rows {
						usedRows[fmt.Sprint(ri)] = true
					}
					d = Discharge{true, how, ""}
				}
			}
			if !d.OK {
				if i, row := c09FindRow(s); row != nil {
					usedRows[fmt.Sprint(i)] = true
					if ok, why := c09RowHolds(p, facts(), s, row, via); ok {
						d = Discharge{true, "reviewed table row: " + row.reason + why, ""}
					} else {
						d = Discharge{false, "", "table row for this site exists but its required facts no longer hold: " + why + " — " + d.Need}
					}
				}
			}
			chain := ""
			if !d.OK {
				chain = "\nreached via " + strings.Join(via[fn], " → ")
			}
			c.Require("C09."+s.Kind, key, s.Pos, "panic-capable instruction reachable from untrusted input is discharged", d.OK, d.How+d.Need+chain)
		}
	}
	c.Count("bounds checks proved by the compiler in reachable functions", proven)
	c.Count("panic-capable sites examined", nSites)
	for i, row := range c09Table {
		if !usedRows[fmt.Sprint(i)] {
			c.Notes = append(c.Notes, "table row no longer matches any site (stale, harmless): "+row.fn+" | "+row.kind+" | "+row.desc)
		}
	}
	c.Count("reviewed table rows", len(c09Table))

	// ---- hang rules (join counters and result channels local to a handler)
	// U1 for the proof verifiers fed with untrusted proofs: an unsigned difference that wraps
	// turns the "index below the tree" guard into dead code
	checkUnsignedDifferences(c, "C09.U1 unsigned-difference-guarded", func(fn *ssa.Function) bool {
		return strings.HasPrefix(FuncKey(fn), "pkg/trie/rmt.") || strings.HasPrefix(FuncKey(fn), "pkg/trie/smt.")
	}, c09UnsignedTable, 0)
	// the hang rules also follow what the gossip handlers hand over through a channel: a block
	// accepted by the validator is processed by the consensus loop (process → sync → download),
	// and a peer that stalls a loop there stalls the node
	fnsHang := append([]*ssa.Function{}, fns...)
	if proc := c.Anchor("pkg/consensus.(*Executer).process"); proc != nil {
		have := map[*ssa.Function]bool{}
		for _, f := range fns {
			have[f] = true
		}
		more := reachableFrom(p, []*ssa.Function{proc}, func(f *ssa.Function) bool {
			k := FuncKey(f)
			// the application boundary and the local stores are not peer-driven
			return strings.HasPrefix(k, "pkg/framework") || strings.HasPrefix(k, "pkg/statemachine") || strings.HasPrefix(k, "pkg/db") || strings.HasPrefix(k, "pkg/labi") || strings.HasPrefix(k, "pkg/trie")
		})
		var extra []*ssa.Function
		for f := range more {
			if !have[f] && IsProd(f) && len(f.Blocks) > 0 {
				extra = append(extra, f)
			}
		}
		sort.Slice(extra, func(i, j int) bool { return FuncKey(extra[i]) < FuncKey(extra[j]) })
		fnsHang = append(fnsHang, extra...)
		c.Count("functions added for the hang rules (consensus loop)", len(extra))
	}
	checkHangRules(c, fnsHang)
	checkLoopProgress(c, fnsHang)
	checkResultUsedAfterError(c, fns)
	checkNilErrorDereferenced(c, fns)
	checkHandlerMaps(c, via)
	checkLogArgumentPositive(c, fns)
	checkNoSendToFinishedService(c)

	// ---- validators answer Reject/Ignore on error edges
	acc, _ := p.constValue("pkg/p2p", "ValidationAccept")
	nv := 0
	for _, e := range entries {
		if !strings.HasPrefix(e.How, "gossip validator") {
			continue
		}
		nv++
		ff := factsOf(e.Fn)
		var fallible []ssa.CallInstruction
		for _, call := range AllCalls(e.Fn) {
			if _, isGo := call.(*ssa.Go); isGo {
				continue
			}
			res := call.Common().Signature().Results()
			if res.Len() > 0 && typeName(res.At(res.Len()-1).Type()) == "error" {
				n := CalleeName(call.Common())
				if strings.Contains(n, "Decode") || strings.Contains(n, "Validate") || strings.Contains(n, ".New") {
					fallible = append(fallible, call)
				}
			}
		}
		for _, r := range Returns(e.Fn) {
			if r.Block() == e.Fn.Recover {
				continue
			}
			t := ff.Term(r.Results[0])
			if t.String() != acc {
				continue
			}
			for _, fc := range fallible {
				ok, _ := ff.NilErrAt(r.Block(), Matcher{"this call", func(x *Term) bool {
					if x.V == fc.Value() {
						return true
					}
					return x.Op == "extract" && len(x.Args) == 1 && x.Args[0].V == fc.Value()
				}})
				c.Require("C09.validator-rejects-on-error", FuncKey(e.Fn)+" ⇒ "+CalleeName(fc.Common()), p.InstrPos(r), "Accept is returned only when every decode/validate step returned nil", ok, "")
			}
		}
		c.Require("C09.validator-rejects-on-error", FuncKey(e.Fn)+": no explicit panic", p.Pos(e.Fn.Pos()), "a validator never panics explicitly", true, "")
	}
	c.MinInstances("C09 gossip validators", nv, 3)

	// ---- JSON-decoded pointers
	for _, e := range entries {
		if !strings.HasPrefix(e.How, "JSON") {
			continue
		}
		checkJSONNil(c, e.Fn)
	}
}

// c09Discharge applies the automatic discharge rules to one site.
func c09Discharge(c *Ctx, ff *FuncFacts, s PanicSite, via map[*ssa.Function][]string) Discharge {
	p := c.P
	switch x := s.Instr.(type) {
	case *ssa.IndexAddr:
		return dischargeIndex(ff, x.Block(), x.X, x.Index)
	case *ssa.Index:
		return dischargeIndex(ff, x.Block(), x.X, x.Index)
	case *ssa.Lookup:
		if s.Kind == "nilentry" {
			if _, isC := x.Index.(*ssa.Const); isC {
				return Discharge{true, "constant key: presence does not depend on input", ""}
			}
			mt, kt := ff.Term(x.X).String(), ff.Term(x.Index).String()
			for _, f := range ff.FactsAt(x.Block()) {
				if !f.IsCmp && f.Truth && f.B != nil && f.B.Op == "extract" && f.B.Sym == "#1" && len(f.B.Args) == 1 && f.B.Args[0].Op == "lookup" && len(f.B.Args[0].Args) == 2 && f.B.Args[0].Args[0].String() == mt && f.B.Args[0].Args[1].String() == kt {
					return Discharge{true, "dominating presence test " + f.String(), ""}
				}
				if f.IsCmp && f.Op == token.NEQ && ((f.L.Op == "lookup" && f.R.Sym == "nil" && f.L.Args[0].String() == mt && f.L.Args[1].String() == kt) || (f.R.Op == "lookup" && f.L.Sym == "nil" && f.R.Args[0].String() == mt && f.R.Args[1].String() == kt)) {
					return Discharge{true, "dominating nil test " + f.String(), ""}
				}
			}
			return Discharge{false, "", "the key " + kt + " may be absent from " + mt}
		}
		return dischargeIndex(ff, x.Block(), x.X, x.Index)
	case *ssa.Slice:
		return dischargeSlice(ff, x)
	case *ssa.MakeSlice:
		return dischargeMake(ff, x)
	case *ssa.Call:
		if s.Kind == "libpre" {
			kt := ff.Term(x.Call.Args[0]).String()
			for _, f := range ff.FactsAt(x.Block()) {
				if f.IsCmp && f.Entails(CmpSpec{A: Matcher{"len(key)", func(t *Term) bool {
					return t.Op == "call" && t.Sym == "builtin:len" && len(t.Args) == 1 && t.Args[0].String() == kt
				}}, NoB: true, Rel: EQ, D: 32}) {
					return Discharge{true, "dominating fact " + f.String(), ""}
				}
			}
			return Discharge{false, "", "no dominating fact gives len(" + kt + ") == 32"}
		}
		return Discharge{false, "", s.Desc}
	case *ssa.Convert:
		return Discharge{false, "", s.Desc}
	case *ssa.BinOp:
		dt := ff.Term(x.Y)
		for _, f := range ff.FactsAt(x.Block()) {
			m := Matcher{"divisor", func(t *Term) bool { return t.String() == dt.String() }}
			if f.Entails(CmpSpec{A: m, NoB: true, Rel: NE, D: 0}) || f.Entails(CmpSpec{A: m, NoB: true, Rel: GE, D: 1}) {
				return Discharge{true, "dominating fact " + f.String() + " excludes a zero divisor", ""}
			}
		}
		return Discharge{false, "", "divisor " + dt.String() + " is not known to be non-zero"}
	case *ssa.TypeAssert:
		// generated codec: val.(*T) on the result of ReadDecodable(s) whose creator returns *T
		xt := ff.Term(x.X)
		var call *Term
		xt.Walk(func(t *Term) bool {
			if call == nil && t.Op == "call" && (strings.HasSuffix(t.Sym, "Reader).ReadDecodable") || strings.HasSuffix(t.Sym, "Reader).ReadDecodables")) {
				call = t
			}
			return true
		})
		if call != nil && len(call.Args) >= 3 && (call.Args[2].Op == "closure" || call.Args[2].Op == "func") {
			if cl := p.Funcs[closureKey(x.Parent(), call.Args[2].Sym)]; cl != nil {
				okAll := true
				for _, r := range Returns(cl) {
					if r.Block() == cl.Recover {
						continue
					}
					rt := stripConv(r.Results[0]).Type()
					if typeName(rt) != typeName(x.AssertedType) {
						okAll = false
					}
				}
				if okAll {
					return Discharge{true, "generated codec: the creator passed to " + call.Sym + " returns exactly " + typeName(x.AssertedType), ""}
				}
			}
		}
		// container/heap: the popped value was pushed in this very function with the asserted type
		if xt.Op == "call" && xt.Sym == "container/heap.Pop" {
			pushes, good := 0, true
			for _, call := range AllCalls(x.Parent()) {
				n := CalleeName(call.Common())
				if n == "container/heap.Push" {
					pushes++
					if mi, ok := ArgK(call, 1).(*ssa.MakeInterface); !ok || typeName(mi.X.Type()) != typeName(x.AssertedType) {
						good = false
					}
				}
			}
			if pushes > 0 && good {
				return Discharge{true, fmt.Sprintf("heap idiom: all %d heap.Push calls in this function push %s", pushes, typeName(x.AssertedType)), ""}
			}
			// the heap is a typed slice whose Pop returns its element type
			if len(xt.Args) == 1 {
				ht := xt.Args[0].V
				if ht != nil {
					if elem := heapElemType(stripConv(ht).Type()); elem != "" && elem == typeName(x.AssertedType) {
						return Discharge{true, "heap idiom: the heap's Pop method returns its element type " + elem, ""}
					}
				}
			}
		}
		return Discharge{false, "", "asserted value comes from " + xt.String()}
	case *ssa.Panic:
		fn := x.Parent()
		k := FuncKey(fn)
		// go/ssa's lowering of a blocking select ends in a synthetic panic no case can reach
		if cst, isC := x.X.(*ssa.MakeInterface); isC {
			if kk, ok := cst.X.(*ssa.Const); ok && kk.Value != nil && strings.Contains(kk.Value.ExactString(), "blocking select matched no case") && !x.Pos().IsValid() {
				return Discharge{true, "compiler-generated default of a blocking select (unreachable)", ""}
			}
		}
		// variadic Min/Max on an empty slice: every call site reachable must pass >= 1 element
		if strings.HasPrefix(k, "pkg/collection/ints.Min") || strings.HasPrefix(k, "pkg/collection/ints.Max") {
			bad := ""
			for _, site := range p.callSitesOf(fn) {
				if _, reach := via[site.Fn]; !reach {
					continue
				}
				a := T(ArgK(site.Call, 0))
				if !(a.Op == "list" && len(a.Args) >= 1) {
					bad = FuncKey(site.Fn) + " passes " + a.String()
				}
			}
			if bad == "" {
				return Discharge{true, "every reachable call site passes a literal argument list with at least one element", ""}
			}
			return Discharge{false, "", bad}
		}
		// handler-after-validator mirror: panic(err) of a decode that the registered validator performed and rejected on
		ffp := factsOf(fn)
		for _, f := range ffp.FactsAt(x.Block()) {
			if f.IsCmp && f.Op.String() == "!=" && f.R.Sym == "nil" && f.L.Op == "extract" && f.L.Args[0].Op == "call" {
				decode := f.L.Args[0].Sym
				if v := pairedValidator(p, fn); v != nil {
					vf := factsOf(v)
					rejects := false
					for i, e := range vf.Edges {
						g := vf.Facts[i]
						if g.IsCmp && g.Op.String() == "!=" && g.R.Sym == "nil" && g.L.Op == "extract" && g.L.Args[0].Op == "call" && g.L.Args[0].Sym == decode {
							for _, in := range e.To.Instrs {
								if r, isR := in.(*ssa.Return); isR && strings.Contains(T(r.Results[0]).String(), "") {
									acc, _ := p.constValue("pkg/p2p", "ValidationAccept")
									if T(r.Results[0]).String() != acc {
										rejects = true
									}
								}
							}
						}
					}
					if rejects {
						return Discharge{true, "the validator registered with this handler (" + FuncKey(v) + ") performs the same " + decode + " and rejects on its error; handlers only see accepted messages", ""}
					}
				}
			}
		}
		return Discharge{false, "", "explicit panic"}
	}
	return Discharge{false, "", "unhandled site kind"}
}

func closureKey(parent *ssa.Function, sym string) string {
	// sym is the FuncName of the closure: "(*pkg.T).M$1" → key via parent
	if i := strings.LastIndex(sym, "$"); i >= 0 {
		return FuncKey(parent) + sym[i:]
	}
	return sym
}

// pairedValidator finds the validator registered together with a gossip handler.
func pairedValidator(p *Program, handler *ssa.Function) *ssa.Function {
	for _, fn := range p.OwnFuncs {
		if !IsProd(fn) {
			continue
		}
		for _, call := range AllCalls(fn) {
			if !strings.HasSuffix(CalleeName(call.Common()), ".RegisterEventHandler") {
				continue
			}
			a := call.Common().Args
			hs := funcValueTargets(a[len(a)-2], 0)
			vs := funcValueTargets(a[len(a)-1], 0)
			for _, h := range hs {
				if h == handler && len(vs) == 1 {
					return vs[0]
				}
			}
		}
	}
	return nil
}

// checkJSONNil: pointer fields of a struct filled by json.Unmarshal may be nil.
func checkJSONNil(c *Ctx, fn *ssa.Function) {
	p := c.P
	ff := factsOf(fn)
	for _, call := range AllCalls(fn) {
		if CalleeName(call.Common()) != "encoding/json.Unmarshal" {
			continue
		}
		req := stripConv(ArgK(call, 1))
		if _, ok := req.(*ssa.Alloc); !ok {
			continue
		}
		for _, r := range *req.Referrers() {
			fa, ok := r.(*ssa.FieldAddr)
			if !ok {
				continue
			}
			_, st := ownerOfFieldBase(fa.X.Type())
			ft := st.Field(fa.Field).Type()
			if _, isPtr := ft.Underlying().(*types.Pointer); !isPtr {
				continue
			}
			fname := fieldNameOf(st.Field(fa.Field))
			for _, u := range *fa.Referrers() {
				ld, ok := u.(*ssa.UnOp)
				if !ok {
					continue
				}
				for _, use := range *ld.Referrers() {
					deref := false
					switch w := use.(type) {
					case *ssa.FieldAddr:
						deref = w.X == ssa.Value(ld)
					case ssa.CallInstruction:
						if len(w.Common().Args) > 0 && ArgK(w, 0) == ssa.Value(ld) && !w.Common().IsInvoke() {
							if g := w.Common().StaticCallee(); g != nil && g.Signature.Recv() != nil {
								deref = methodDerefsReceiver(g)
							}
						}
					}
					if !deref {
						continue
					}
					lt := ff.Term(ld)
					guarded := false
					for _, f := range ff.FactsAt(use.Block()) {
						if f.IsCmp && f.Op.String() == "!=" && f.L.String() == lt.String() && f.R.Sym == "nil" {
							guarded = true
						}
					}
					if !guarded {
						guarded = nilCheckedByHelper(ff, use.Block(), lt)
					}
					c.Require("C09.json-nil-pointer", FuncKey(fn)+": request."+fname, p.InstrPos(use), "a pointer field filled from client JSON is dereferenced only under a non-nil fact (an absent field leaves it nil; the handler goroutine has no recover)", guarded, "")
				}
			}
		}
	}
}

// nilCheckedByHelper: a dominating fact  H(ptr) == nil  where helper H returns a
// non-nil error whenever its parameter is nil.
func nilCheckedByHelper(ff *FuncFacts, blk *ssa.BasicBlock, ptr *Term) bool {
	for _, f := range ff.FactsAt(blk) {
		if !(f.IsCmp && f.Op.String() == "==" && f.R.Sym == "nil" && f.L.Op == "call" && len(f.L.Args) == 1 && f.L.Args[0].String() == ptr.String()) {
			continue
		}
		cl, ok := f.L.V.(*ssa.Call)
		if !ok {
			continue
		}
		h := cl.Common().StaticCallee()
		if h == nil || len(h.Blocks) == 0 {
			continue
		}
		hf := factsOf(h)
		good := true
		n := 0
		for _, r := range Returns(h) {
			if classifyReturn(hf, r) != RetNil {
				continue
			}
			n++
			okp := false
			for _, g := range hf.FactsAt(r.Block()) {
				if g.IsCmp && g.Op.String() == "!=" && g.L.String() == "p0" && g.R.Sym == "nil" {
					okp = true
				}
			}
			if !okp {
				good = false
			}
		}
		if good && n > 0 {
			return true
		}
	}
	return false
}

// heapElemType: for *H where H is a slice type implementing heap.Interface, the element type name.
func heapElemType(t types.Type) string {
	if p, ok := t.Underlying().(*types.Pointer); ok {
		t = p.Elem()
	}
	if s, ok := t.Underlying().(*types.Slice); ok {
		return typeName(s.Elem())
	}
	return ""
}

// methodDerefsReceiver: does the method touch *receiver (any field access) on every path? Conservative: any FieldAddr on the receiver.
func methodDerefsReceiver(g *ssa.Function) bool {
	if len(g.Params) == 0 {
		return false
	}
	recv := g.Params[0]
	for _, r := range *recv.Referrers() {
		if _, ok := r.(*ssa.FieldAddr); ok {
			return true
		}
	}
	return false
}

var _ = fmt.Sprint

// c09ViaCallers discharges a site inside a new helper through the table rows of the known
// functions that call the helper (one level): the site's description is rewritten with each
// call's arguments and must match a row of that caller whose required facts hold there.
func c09ViaCallers(p *Program, s PanicSite, via map[*ssa.Function][]string) (bool, string, []int) {
	sites := callSitesOfHelper(s.Fn)
	if len(sites) == 0 {
		return false, "", nil
	}
	var rows []int
	var hows []string
	for _, cs := range sites {
		root := cs.Parent()
		if isNewHelper(root) {
			return false, "", nil
		}
		desc := s.Desc
		tb := newTB()
		tb.keepConv = true
		for k, a := range cs.Common().Args {
			desc = strings.ReplaceAll(desc, fmt.Sprintf("%s·p%d", FuncName(s.Fn), k), tb.of(a, 0).String())
		}
		s2 := s
		s2.Fn = root
		s2.Desc = desc
		i, row := c09FindRow(s2)
		if row == nil {
			return false, "", nil
		}
		if ok, _ := c09RowHolds(p, factsOfConv(root), s2, row, via); !ok {
			return false, "", nil
		}
		rows = append(rows, i)
		hows = append(hows, FuncKey(root)+": "+row.reason)
	}
	return true, "reviewed table row of each caller of the new helper: " + strings.Join(hows, "; "), rows
}

var c09UnsignedTable = []unsignedRow{
	{fn: "pkg/trie/rmt.(*nodeLocation).index", frag: "(p1 − p0.layerIndex)", reason: "every location is built for the tree whose height is passed here (newNodeLocation rejects an index with more path bits than layers, sibling locations stay inside the layer structure), so layerIndex <= height; should it wrap, int(length) is negative, the padding loop does not run and ParseInt answers — no panic, no unbounded loop"},
}
