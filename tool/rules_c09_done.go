package main

import (
	"go/types"
	"sort"
	"strings"

	"golang.org/x/tools/go/ssa"
)

// C09.H4 no-send-to-a-finished-service.
//
// A struct that has a *done channel* — a channel field that some function close()s — announces
// with it that its service goroutine has gone. A blocking send on another channel field of the
// same struct is received by that service goroutine; once it has gone, a plain send blocks for
// ever. Where such sends are made on behalf of untrusted peers or clients (a goroutine per
// published event for every socket that ever connected), memory grows without bound although no
// input arrives: the "bounded by the input size" clause of C09. Structural condition: a send on a
// channel field of a struct with a done channel is either non-blocking (select with default), or
// one case of a select that also receives from the done channel of the same object.
func checkNoSendToFinishedService(c *Ctx) {
	p := c.P
	rule := "C09.H4 no-send-to-a-finished-service"
	// 1. done channels: (owner, field) closed somewhere
	done := map[string]string{} // owner → done field
	for _, fn := range p.OwnFuncs {
		if !IsProd(fn) {
			continue
		}
		for _, call := range AllCalls(fn) {
			if CalleeName(call.Common()) != "builtin:close" || len(call.Common().Args) != 1 {
				continue
			}
			if ld, ok := call.Common().Args[0].(*ssa.UnOp); ok {
				if fa, ok := ld.X.(*ssa.FieldAddr); ok {
					if o, st := ownerOfFieldBase(fa.X.Type()); st != nil {
						// a done channel carries no data worth waiting for: element type bool / struct{}
						if ch, ok := st.Field(fa.Field).Type().Underlying().(*types.Chan); ok {
							if b, isB := ch.Elem().Underlying().(*types.Basic); (isB && b.Kind() == types.Bool) || isEmptyStruct(ch.Elem()) {
								done[o] = fieldNameOf(st.Field(fa.Field))
							}
						}
					}
				}
			}
		}
	}
	var owners []string
	for o := range done {
		owners = append(owners, o)
	}
	sort.Strings(owners)
	c.Count("structs with a done channel: "+strings.Join(owners, ","), len(owners))
	// 2. sends on sibling channel fields
	n := 0
	for _, fn := range p.OwnFuncs {
		if !IsProd(fn) {
			continue
		}
		for _, b := range fn.Blocks {
			for _, in := range b.Instrs {
				switch x := in.(type) {
				case *ssa.Send:
					o, fld, base := chanFieldOf(x.Chan)
					if d, ok := done[o]; ok && fld != d {
						n++
						c.Require(rule, FuncKey(fn)+": send on "+o+"."+fld, p.InstrPos(x), "a send to the service goroutine of an object with a done channel is a select case next to a receive from that done channel (or non-blocking)", false, "plain send on "+base+"."+fld+": blocks for ever once the goroutine that receives from it has returned ("+d+" closed)")
					}
				case *ssa.Select:
					var sends []*ssa.SelectState
					recvDone := map[string]bool{}
					for _, st := range x.States {
						o, fld, base := chanFieldOf(st.Chan)
						if st.Dir == types.SendOnly {
							if d, ok := done[o]; ok && fld != d {
								sends = append(sends, st)
							}
						} else if d, ok := done[o]; ok && fld == d {
							recvDone[base] = true
						}
					}
					for _, st := range sends {
						o, fld, base := chanFieldOf(st.Chan)
						n++
						ok := !x.Blocking || recvDone[base]
						c.Require(rule, FuncKey(fn)+": send on "+o+"."+fld, p.InstrPos(x), "a send to the service goroutine of an object with a done channel is a select case next to a receive from that done channel (or non-blocking)", ok, "blocking select without a receive from "+base+"."+done[o])
					}
				}
			}
		}
	}
	c.Count("sends on channel fields of structs with a done channel", n)
	c.MinInstances(rule, n, 2)
}

func isEmptyStruct(t types.Type) bool {
	s, ok := t.Underlying().(*types.Struct)
	return ok && s.NumFields() == 0
}

// chanFieldOf: v is the load of a channel field: owner type, field name, printed base object.
func chanFieldOf(v ssa.Value) (owner, field, base string) {
	ld, ok := v.(*ssa.UnOp)
	if !ok {
		return "", "", ""
	}
	fa, ok := ld.X.(*ssa.FieldAddr)
	if !ok {
		return "", "", ""
	}
	o, st := ownerOfFieldBase(fa.X.Type())
	if st == nil {
		return "", "", ""
	}
	return o, fieldNameOf(st.Field(fa.Field)), stripFree(T(fa.X)).String()
}
