package main

import (
	"fmt"
	"go/types"
	"sort"
	"strings"

	"golang.org/x/tools/go/ssa"
)

func init() {
	register("C08", "Schema-table agreement and canonical-decoding structure, for every generated codec and every path of the primitives: "+
		"(T1) for each struct with a generated codec: tags unique and positive; Encode writes every tagged field exactly once, in ascending field-number order, with the writer dual to the Go type; both decoders read the same numbers in the same order with the dual reader into the same field; scalar reads pass strict=false in the lenient and strict=true in the strict decoder; a stale or hand-edited codec (field added/removed/renumbered/retyped without regeneration) disagrees with its struct; "+
		"(T2) DecodeStrict = strict reader decode + ErrUnreadBytes on trailing bytes; Decode = lenient decode; "+
		"(T3) primitive duals agree on wire type and framing (one key for packed arrays, one key per element for repeated bytes/strings/messages); "+
		"(P1) varint reader: the value-returning exit is dominated by the shortest-form comparison and the 10th-byte overflow edge; booleans accept only 0/1; strings are accepted only after utf8.Valid and NFC IsNormal both answered true on every path, and written through NFC; "+
		"(I1) IDs are Hash(Encode()) of the same receiver wherever they are assigned; transactions from bytes are decoded strictly; "+
		"(S1) the signing structs are field-for-field sub-schemas of the full structs and the signing copy copies every signed field; "+
		"(N1) the transaction schema has no nested message, so its strict decoding does not depend on nested-message strictness (which the reader does not propagate — informational).",
		runC08)
}

func runC08(c *Ctx) {
	p := c.P
	c.Assume = append(c.Assume, "varint/zig-zag arithmetic at boundaries, the NFC library and the Lisk32 checksum are value-level and not decided")

	// ---- T1 / T2
	nGen := 0
	for _, s := range p.schemas() {
		enc := s.method(p, "Encode")
		if enc == nil || len(CallsIn(enc, "codec.NewWriter")) == 0 {
			continue // no generated codec (JSON-only structs)
		}
		nGen++
		for _, e := range s.TagErr {
			c.Require("C08.T1 tags", s.Owner, p.Pos(enc.Pos()), "fieldNumber tags are unique positive integers", false, e)
		}
		want := append([]SchemaField{}, s.Fields...)
		sort.SliceStable(want, func(i, j int) bool { return want[i].Num < want[j].Num })
		// Encode
		wc := codecCalls(enc, "Writer")
		okE, why := compareCalls(want, wc, true, "")
		c.Require("C08.T1 encode-table", s.Owner+".Encode", p.Pos(enc.Pos()), "writes every tagged field once, ascending, with the dual writer", okE, why)
		// decoders
		for _, d := range []struct{ name, strict string }{{"DecodeFromReader", "false"}, {"DecodeStrictFromReader", "true"}} {
			fn := s.method(p, d.name)
			if fn == nil {
				c.Require("C08.T1 decode-table", s.Owner+"."+d.name, p.Pos(enc.Pos()), "decoder exists", false, "missing")
				continue
			}
			rc := codecCalls(fn, "Reader")
			okD, whyD := compareCalls(want, rc, false, d.strict)
			c.Require("C08.T1 decode-table", s.Owner+"."+d.name, p.Pos(fn.Pos()), "reads the same fields in the same order with the dual reader, strict="+d.strict, okD, whyD)
			// every reader error is propagated: each call's error result reaches a return
			for _, call := range rc {
				ff := factsOf(fn)
				_ = ff
				propagated := false
				for _, r := range *call.Call.Referrers() {
					if ex, ok := r.(*ssa.Extract); ok && ex.Index == 1 && len(*ex.Referrers()) > 0 {
						propagated = true
					}
				}
				if !propagated {
					c.Require("C08.T1 decode-errors-propagate", s.Owner+"."+d.name+fmt.Sprintf(" field %d", call.Num), p.InstrPos(call.Call), "the reader's error is not discarded", false, "")
				}
			}
		}
		// T2
		if ds := s.method(p, "DecodeStrict"); ds != nil {
			ff := factsOf(ds)
			usesStrict := len(CallsIn(ds, "(*"+s.Owner+").DecodeStrictFromReader")) == 1
			trailing := false
			for _, r := range Returns(ds) {
				t := ff.Term(r.Results[0])
				if strings.HasSuffix(t.String(), "codec.ErrUnreadBytes") {
					if ok, _ := ff.BoolHoldsAt(r.Block(), IsCall("(*codec.Reader).HasUnreadBytes"), true); ok {
						trailing = true
					}
				}
			}
			// and the nil return is on the no-trailing-bytes edge
			nilOK := false
			for _, r := range Returns(ds) {
				if classifyReturn(ff, r) == RetNil {
					if ok, _ := ff.BoolHoldsAt(r.Block(), IsCall("(*codec.Reader).HasUnreadBytes"), false); ok {
						nilOK = true
					} else {
						nilOK = false
						break
					}
				}
			}
			c.Require("C08.T2 strict-entry", s.Owner+".DecodeStrict", p.Pos(ds.Pos()), "strict decode, then ErrUnreadBytes iff bytes remain", usesStrict && trailing && nilOK, fmt.Sprintf("strictReader=%v trailingRejected=%v successOnlyWhenConsumed=%v", usesStrict, trailing, nilOK))
		} else {
			c.Require("C08.T2 strict-entry", s.Owner+".DecodeStrict", p.Pos(enc.Pos()), "DecodeStrict exists", false, "")
		}
		if dl := s.method(p, "Decode"); dl != nil {
			c.Require("C08.T2 lenient-entry", s.Owner+".Decode", p.Pos(dl.Pos()), "Decode uses the lenient reader decode", len(CallsIn(dl, "(*"+s.Owner+").DecodeFromReader")) == 1, "")
		}
	}
	c.MinInstances("C08.T1 generated codecs", nGen, 90)

	// ---- T3 primitive duals
	{
		var wire func(fn *ssa.Function, helper string, argIdx int, depth int) (string, bool, bool)
		wire = func(fn *ssa.Function, helper string, argIdx int, depth int) (string, bool, bool) {
			found, ft, fl := false, "", false
			eachCallCtx(fn, func(call ssa.CallInstruction, lift func(*Term) *Term, inLoop bool) {
				if !found && strings.HasSuffix(CalleeName(call.Common()), helper) {
					found, ft, fl = true, lift(newTB().of(ArgK(call, argIdx), 0)).String(), inLoop
				}
			})
			if found {
				return ft, fl, true
			}
			if depth > 2 {
				return "", false, false
			}
			// through a same-package delegate (ReadUInt32 → ReadUInt, WriteBytesArray → WriteBytes per element)
			for _, call := range AllCalls(fn) {
				g := call.Common().StaticCallee()
				if g == nil || g == fn || !strings.HasPrefix(FuncKey(g), "pkg/codec.(*") {
					continue
				}
				if strings.HasPrefix(g.Name(), "Read") || strings.HasPrefix(g.Name(), "Write") {
					if t, l, ok := wire(g, helper, argIdx, depth+1); ok {
						return t, l || reachable2(call.Block(), call.Block()), true
					}
				}
			}
			return "", false, false
		}
		pairs := [][2]string{{"WriteString", "ReadString"}, {"WriteStrings", "ReadStrings"}, {"WriteUInt", "ReadUInt"}, {"WriteUInt32", "ReadUInt32"}, {"WriteUInts", "ReadUInts"}, {"WriteUInt32s", "ReadUInt32s"},
			{"WriteInt", "ReadInt"}, {"WriteInt32", "ReadInt32"}, {"WriteInts", "ReadInts"}, {"WriteBool", "ReadBool"}, {"WriteBools", "ReadBools"},
			{"WriteBytes", "ReadBytes"}, {"WriteBytesArray", "ReadBytesArray"}, {"WriteEncodable", "ReadDecodable"}}
		for _, pr := range pairs {
			w := p.Fn("pkg/codec.(*Writer)." + pr[0])
			r := p.Fn("pkg/codec.(*Reader)." + pr[1])
			if w == nil || r == nil {
				c.Require("C08.T3 primitive-duals", pr[0]+" / "+pr[1], "-", "both primitives exist", false, "")
				continue
			}
			ww, wl, ok1 := wire(w, ".writeKey", 1, 0)
			rw, rl, ok2 := wire(r, ".check", 2, 0)
			c.Require("C08.T3 primitive-duals", pr[0]+" / "+pr[1], p.Pos(w.Pos()), "writer and reader use the same wire type and the same key framing (per element vs once)", ok1 && ok2 && ww == rw && wl == rl,
				fmt.Sprintf("writer wireType=%s perElement=%v; reader wireType=%s perElement=%v", ww, wl, rw, rl))
		}
	}

	// ---- P1 primitives
	{
		ru := c.Anchor("pkg/codec.readUint")
		if ru != nil {
			ff := factsOf(ru)
			nOK := 0
			for _, r := range Returns(ru) {
				if r.Block() == ru.Recover {
					continue
				}
				// the value-returning exit: result 0 is not the constant 0
				if t := ff.Term(r.Results[0]); t.String() == "0" {
					continue
				}
				nOK++
				// the error handed back is nil only when shortest-form holds: err is φ(nil, ErrUnnecessaryLeadingBytes) keyed by the comparison
				et := ff.Term(r.Results[2])
				// every way this exit can hand back a nil error is under the shortest-form
				// equality: a constant nil error → the facts at the return; a φ of nil and an
				// error → the facts on the φ edge that carries nil
				isShort := func(fs []Fact) bool {
					for _, f := range fs {
						if f.IsCmp && f.Op.String() == "==" && strings.Contains(f.L.String(), "varintShortestSize") {
							return true
						}
					}
					return false
				}
				okShort := false
				switch ev := r.Results[2].(type) {
				case *ssa.Phi:
					okShort = true
					nNil := 0
					for i, e := range ev.Edges {
						if cst, isC := e.(*ssa.Const); isC && cst.Value == nil {
							nNil++
							if !isShort(ff.FactsOnEdge(ev.Block().Preds[i], ev.Block())) {
								okShort = false
							}
						}
					}
					okShort = okShort && nNil > 0
				case *ssa.Const:
					if ev.Value == nil {
						okShort = isShort(ff.FactsAt(r.Block()))
					}
				default:
					if classifyReturn(ff, r) == RetErr {
						nOK--
						continue // an exit that reports an error carries no obligation
					}
				}
				c.Require("C08.P1 shortest-varint", FuncKey(ru)+": success exit", p.InstrPos(r), "a nil error is returned only when varintShortestSize(value) == bytes consumed", okShort, "err: "+et.String())
				// overflow edge dominates: the exit is reached only with ¬(10th byte ∧ bit > 1)
				okOv := false
				for i, e := range ff.Edges {
					f := ff.Facts[i]
					if f.IsCmp && f.Op.String() == ">" && f.R.String() == "1" {
						tgt := e.To
						for _, in := range tgt.Instrs {
							if rr, isR := in.(*ssa.Return); isR && strings.HasSuffix(ff.Term(rr.Results[2]).String(), "ErrOutOfRange") {
								okOv = true
							}
						}
					}
				}
				c.Require("C08.P1 varint-overflow", FuncKey(ru)+": 10th byte", p.InstrPos(r), "a 10th byte above 0x01 is rejected with ErrOutOfRange", okOv, "")
			}
			c.MinInstances("C08.P1 shortest-varint", nOK, 1)
		}
		rs := c.Anchor("pkg/codec.(*Reader).readString")
		if rs != nil {
			ff := factsOf(rs)
			for _, r := range Returns(rs) {
				if classifyReturn(ff, r) != RetNil {
					continue
				}
				okU, _ := ff.BoolHoldsAt(r.Block(), IsCall("unicode/utf8.Valid"), true)
				okN, _ := ff.BoolHoldsAt(r.Block(), IsCall("codec.isNormalizedString"), true)
				if !okN {
					// the library check asked directly
					okN, _ = ff.BoolHoldsAt(r.Block(), Matcher{"norm.NFC.IsNormal", func(t *Term) bool {
						return t.Op == "call" && strings.HasSuffix(t.Sym, "norm.Form).IsNormal") && (t.Args[0].String() == "0" || strings.Contains(t.Args[0].String(), "NFC")) // norm.NFC is Form(0)
					}}, true)
				}
				c.Require("C08.P1 string-canonical", FuncKey(rs)+": success", p.InstrPos(r), "a string is returned only after utf8.Valid and the NFC check both answered true", okU && okN, fmt.Sprintf("utf8=%v nfc=%v", okU, okN))
			}
		}
		var ns *ssa.Function
		if p.Fn("pkg/codec.isNormalizedString") != nil || len(CallsIn(rs, "codec.isNormalizedString")) > 0 || rs == nil {
			ns = c.Anchor("pkg/codec.isNormalizedString") // the reader's own wrapper of the check, while it exists
		}
		if ns != nil {
			ff := factsOf(ns)
			for _, r := range Returns(ns) {
				if r.Block() == ns.Recover {
					continue
				}
				t := ff.Term(r.Results[0])
				ok := t.Op == "call" && strings.HasSuffix(t.Sym, "norm.Form).IsNormal") && t.Args[len(t.Args)-1].String() == "p0"
				if !ok && t.String() == "false" {
					ok = true
				}
				if !ok {
					// a `true` (or φ containing true) must be dominated by IsNormal(...) == true
					d, _ := ff.BoolHoldsAt(r.Block(), IsCall(".IsNormal"), true)
					ok = d
				}
				c.Require("C08.P1 string-canonical", FuncKey(ns), p.InstrPos(r), "the answer is norm.NFC.IsNormal(data) on every path that says 'normalised'", ok, "returns "+t.String())
			}
		}
		ws := c.Anchor("pkg/codec.(*Writer).WriteString")
		if ws != nil {
			ok := false
			for _, call := range AllCalls(ws) {
				n := CalleeName(call.Common())
				if strings.Contains(n, "norm.Form).String") || strings.Contains(n, "norm.Form).Bytes") {
					ok = true
				}
			}
			c.Require("C08.P1 string-canonical", FuncKey(ws), p.Pos(ws.Pos()), "strings are written in NFC form", ok, "")
		}
		rb := c.Anchor("pkg/codec.(*Reader).readBool")
		if rb != nil {
			ff := factsOf(rb)
			for _, r := range Returns(rb) {
				if classifyReturn(ff, r) != RetNil {
					continue
				}
				// success only when byte == 0 or byte == 1
				ok := false
				fs := ff.FactsAt(r.Block())
				for _, f := range fs {
					if f.IsCmp && (f.Op.String() == "==" && (f.R.String() == "0" || f.R.String() == "1")) {
						ok = true
					}
				}
				if !ok {
					// reached from two edges: (== 0) and (!= 0 ∧ == 1)
					good := len(r.Block().Preds) > 0
					for _, pred := range r.Block().Preds {
						g := false
						for _, f := range ff.FactsOnEdge(pred, r.Block()) {
							if f.IsCmp && f.Op.String() == "==" && (f.R.String() == "0" || f.R.String() == "1") {
								g = true
							}
						}
						if !g {
							good = false
						}
					}
					ok = good
				}
				c.Require("C08.P1 bool-canonical", FuncKey(rb)+": success", p.InstrPos(r), "a boolean is accepted only when the byte is 0x00 or 0x01", ok, factsStr(fs))
			}
		}
	}

	// ---- P2 strict scalar readers
	checkStrictScalarReaders(c)

	// ---- P3 the field key is compared at full width: between the varint reader and the
	// comparison with the expected field number no conversion drops high bits (a 5–10 byte
	// varint whose low 32 bits equal a valid key would otherwise be accepted as that key)
	{
		sizes := types.SizesFor("gc", "amd64")
		n := 0
		for _, k := range []string{"pkg/codec.(*Reader).peekKey", "pkg/codec.(*Reader).check", "pkg/codec.readKey"} {
			fn := p.Fn(k)
			if fn == nil {
				continue // (peekKey is a one-line wrapper that may be inlined; check is the anchor)
			}
			for _, b := range blocksDeep(fn) {
				for _, in := range b.Instrs {
					cv, ok := in.(*ssa.Convert)
					if !ok {
						continue
					}
					sb, ok1 := cv.X.Type().Underlying().(*types.Basic)
					db, ok2 := cv.Type().Underlying().(*types.Basic)
					if !ok1 || !ok2 || sb.Info()&types.IsInteger == 0 || db.Info()&types.IsInteger == 0 {
						continue
					}
					n++
					c.Require("C08.P3 key-compared-at-full-width", FuncKey(fn)+": "+sb.Name()+" → "+db.Name(), p.InstrPos(in), "no integer conversion on the key path narrows the value", sizes.Sizeof(db) >= sizes.Sizeof(sb), "")
				}
			}
		}
		if chk := c.Anchor("pkg/codec.(*Reader).check"); chk != nil {
			c.MinInstances("C08.P3 key-compared-at-full-width", n, 1)
		}
	}

	checkLisk32(c)
	checkDecodedIntegerArithmetic(c)

	// ---- I1 IDs
	{
		n := 0
		establishers := map[*ssa.Function]bool{} // functions that compute an ID themselves
		for _, fn := range p.Subjects() {
			if !strings.HasPrefix(FuncKey(fn), "pkg/blockchain.") || len(fn.Blocks) == 0 {
				continue
			}
			for _, b := range blocksDeep(fn) {
				for _, in := range b.Instrs {
					st, ok := in.(*ssa.Store)
					if !ok {
						continue
					}
					fa, ok := st.Addr.(*ssa.FieldAddr)
					if !ok {
						continue
					}
					o, s := ownerOfFieldBase(fa.X.Type())
					if (o != "blockchain.Transaction" && o != "blockchain.BlockHeader") || fieldNameOf(s.Field(fa.Field)) != "ID" {
						continue
					}
					t := T(st.Val)
					base := T(fa.X).String()
					if t.Op == "field" && t.Sym == "ID" {
						continue // copies (Copy, getBlockHeader…)
					}
					n++
					ok2 := t.Op == "call" && strings.HasSuffix(t.Sym, "crypto.Hash") && t.Args[0].Op == "call" && strings.HasSuffix(t.Args[0].Sym, ").Encode") && t.Args[0].Args[0].String() == base
					if !ok2 && FuncKey(fn) == "pkg/blockchain.(*DataAccess).getBlockHeader" {
						// storage path: ID = Hash(stored bytes), and the same bytes are decoded
						dec := CallsIn(fn, "(*blockchain.BlockHeader).Decode")
						ok2 = t.Op == "call" && strings.HasSuffix(t.Sym, "crypto.Hash") && len(dec) == 1 && T(ArgK(dec[0].Call, 1)).String() == t.Args[0].String()
					}
					c.Require("C08.I1 id-is-hash-of-encoding", FuncKey(fn)+": "+o+".ID", p.InstrPos(st), "ID = Hash(x.Encode()) of the same value (or Hash of the very bytes decoded)", ok2, "value: "+t.String())
					// … and it is recomputed on every successful path through the function: an ID
					// already present (from JSON, from an earlier Init before a change) is never trusted
					if ok2 {
						if base == "p0" {
							establishers[fn] = true
						}
						ff := factsOf(fn)
						isSt := func(x ssa.Instruction) bool { return x == ssa.Instruction(st) }
						first := fn.Blocks[0].Instrs[0]
						var path []*ssa.BasicBlock
						if !isSt(first) {
							path = reachesReturnAvoiding(first, isSt, func(r *ssa.Return) bool { return classifyReturn(ff, r) != RetErr })
						}
						c.Require("C08.I1 id-recomputed-unconditionally", FuncKey(fn)+": "+o+".ID", p.InstrPos(st), "no successful path through the function skips the ID computation", path == nil, pathStr(path))
					}
				}
			}
		}
		// a function may also leave the computation to one of those (x.Init()): then the call
		// must be on every successful path
		for _, fn := range p.Subjects() {
			if !strings.HasPrefix(FuncKey(fn), "pkg/blockchain.") || len(fn.Blocks) == 0 || !IsProd(fn) {
				continue
			}
			for _, call := range AllCallsDeep(fn) {
				g := call.Common().StaticCallee()
				if g == nil || !establishers[g] || call.Parent() != fn {
					continue
				}
				if _, plain := call.(*ssa.Call); !plain {
					continue
				}
				n++
				if rt := T(call.Common().Args[0]); rt.Op != "param" && !strings.HasPrefix(rt.Op, "alloc") && rt.Op != "new" {
					continue // an element of a list (each transaction of a block): nothing to skip when the list is empty
				}
				ff := factsOf(fn)
				isCall := func(x ssa.Instruction) bool { return x == call.(ssa.Instruction) }
				first := fn.Blocks[0].Instrs[0]
				var path []*ssa.BasicBlock
				if !isCall(first) {
					path = reachesReturnAvoiding(first, isCall, func(r *ssa.Return) bool { return classifyReturn(ff, r) != RetErr })
				}
				c.Require("C08.I1 id-recomputed-unconditionally", FuncKey(fn)+" ⇒ "+FuncName(g), p.InstrPos(call), "no successful path through the function skips the ID computation", path == nil, pathStr(path))
			}
		}
		c.MinInstances("C08.I1 id-is-hash-of-encoding", n, 9)
		nt := c.Anchor("pkg/blockchain.NewTransaction")
		if nt != nil {
			c.Require("C08.I1 transactions-decoded-strictly", FuncKey(nt), p.Pos(nt.Pos()), "transactions built from bytes use DecodeStrict", len(CallsIn(nt, "(*blockchain.Transaction).DecodeStrict")) == 1 && len(CallsIn(nt, "(*blockchain.Transaction).Decode")) == 0, "")
			// every production construction of a Transaction from bytes goes through NewTransaction or DecodeStrict
			for _, s := range p.CallersOf("(*blockchain.Transaction).Decode") {
				if !IsProd(s.Fn) || strings.HasSuffix(FuncKey(s.Fn), "Transaction).MustDecode") {
					continue
				}
				// allowed only on data read back from the node's own database after a strict decode
				ok := FuncKey(s.Fn) == "pkg/blockchain.(*DataAccess).getTransaction" && len(CallsIn(s.Fn, "blockchain.NewTransaction")) == 1
				c.Require("C08.I1 transactions-decoded-strictly", FuncKey(s.Fn)+" ⇒ Transaction.Decode", p.InstrPos(s.Call), "lenient transaction decode only on bytes that already passed NewTransaction", ok, "")
			}
			// … nor through a whole-block decoder: the generated Block codec reads its nested
			// transactions with ReadDecodables, which decodes them leniently even in strict mode, so a
			// block built that way carries transactions whose ID is not the hash of the accepted bytes.
			// NewBlock goes through RawBlock and NewTransaction; nothing else decodes a Block.
			nb := 0
			for _, m := range []string{"Decode", "DecodeStrict", "DecodeFromReader", "DecodeStrictFromReader"} {
				for _, s := range p.CallersOf("(*blockchain.Block)." + m) {
					if !IsProd(s.Fn) || strings.HasPrefix(FuncKey(s.Fn), "pkg/blockchain.(*Block).") {
						continue // the generated codec's own entry points forward to each other
					}
					nb++
					c.Require("C08.I1 transactions-decoded-strictly", FuncKey(s.Fn)+" ⇒ Block."+m, p.InstrPos(s.Call), "no production code decodes a whole Block with the generated codec (its nested transactions would be read leniently); blocks from bytes go through NewBlock → NewTransaction", false, "")
				}
			}
			nbk := c.Anchor("pkg/blockchain.NewBlock")
			if nbk != nil {
				c.Require("C08.I1 transactions-decoded-strictly", FuncKey(nbk)+": transactions", p.Pos(nbk.Pos()), "NewBlock builds every transaction with NewTransaction (strict decode of the transaction's own bytes)", len(CallsIn(nbk, "blockchain.NewTransaction")) >= 1 || mentionsFunc(nbk, nt), "")
			}
			c.Count("production callers of the generated Block decoder", nb)
		}
	}

	// ---- S1 signing structs
	for _, pr := range [][3]string{{"blockchain.signingBlockHeader", "blockchain.BlockHeader", "pkg/blockchain.(*BlockHeader).signingBlockHeader"}, {"blockchain.SigningTransaction", "blockchain.Transaction", "pkg/blockchain.(*Transaction).SigningBytes"}} {
		var sub, full *Schema
		for _, s := range p.schemas() {
			if s.Owner == pr[0] {
				sub = s
			}
			if s.Owner == pr[1] {
				full = s
			}
		}
		if sub == nil || full == nil {
			c.Undecided("C08.S1 signing-subschema", pr[0], "schema not found")
			continue
		}
		fm := map[int]SchemaField{}
		for _, f := range full.Fields {
			fm[f.Num] = f
		}
		var excluded []string
		for _, f := range sub.Fields {
			g, ok := fm[f.Num]
			c.Require("C08.S1 signing-subschema", pr[0]+" field "+fmt.Sprint(f.Num), "-", "same number, name and wire kind as in "+pr[1], ok && g.Name == f.Name && g.Kind == f.Kind, fmt.Sprintf("%+v vs %+v", f, g))
			delete(fm, f.Num)
		}
		for _, g := range fm {
			excluded = append(excluded, g.Name)
		}
		sort.Strings(excluded)
		wantEx := map[string]string{"blockchain.signingBlockHeader": "Signature", "blockchain.SigningTransaction": "Signatures"}[pr[0]]
		c.Require("C08.S1 signing-subschema", pr[0]+" excluded fields", "-", "only the signature field is outside the signed bytes", strings.Join(excluded, ",") == wantEx, "excluded: "+strings.Join(excluded, ","))
		// the copy assigns every sub-schema field from the same-named field of the receiver
		fn := c.Anchor(pr[2])
		if fn != nil {
			assigned := map[string]string{}
			for _, b := range blocksDeep(fn) {
				for _, in := range b.Instrs {
					if st, ok := in.(*ssa.Store); ok {
						if fa, ok := st.Addr.(*ssa.FieldAddr); ok {
							o, s := ownerOfFieldBase(fa.X.Type())
							if o == pr[0] {
								assigned[fieldNameOf(s.Field(fa.Field))] = T(st.Val).String()
							}
						}
					}
				}
			}
			for _, f := range sub.Fields {
				c.Require("C08.S1 signing-copy", pr[2]+": "+f.Name, p.Pos(fn.Pos()), "signed field is copied from the same field of the receiver", assigned[f.Name] == "p0."+f.Name, "assigned: "+assigned[f.Name])
			}
		}
	}

	// ---- N1 strictness propagation
	{
		rd := c.Anchor("pkg/codec.(*Reader).ReadDecodable")
		if rd != nil {
			ff := factsOf(rd)
			strictNested := false
			for _, call := range AllCalls(rd) {
				if call.Common().IsInvoke() && call.Common().Method.Name() == "DecodeStrictFromReader" {
					if ok, _ := ff.BoolHoldsAt(call.Block(), IsParam(3), true); ok {
						strictNested = true
					}
				}
			}
			// Not an obligation: the property only demands canonical strict decoding of
			// transactions, which have no nested messages (see DESIGN.md, F29 withdrawn).
			c.Notes = append(c.Notes, fmt.Sprintf("N1 (informational): nested messages decoded strictly under a strict parent = %v (ReadDecodable calls the lenient DecodeFromReader); transactions have no nested message fields, checked by T1", strictNested))
			for _, s := range p.schemas() {
				if s.Owner == "blockchain.Transaction" {
					nested := false
					for _, f := range s.Fields {
						if f.Kind == "msg" || f.Kind == "msgs" {
							nested = true
						}
					}
					c.Require("C08.N1 transaction-has-no-nested-message", s.Owner, "-", "canonical strict decoding of a transaction does not depend on nested-message strictness", !nested, "")
				}
			}
			// nested reader bounded by its own end, and the parent must land exactly on it
			bounded := false
			for _, call := range AllCalls(rd) {
				_ = call
			}
			for _, b := range blocksDeep(rd) {
				for _, in := range b.Instrs {
					if st, ok := in.(*ssa.Store); ok {
						if fa, ok := st.Addr.(*ssa.FieldAddr); ok {
							o, s := ownerOfFieldBase(fa.X.Type())
							if o == "codec.Reader" && fieldNameOf(s.Field(fa.Field)) == "end" {
								t := T(st.Val).String()
								bounded = strings.Contains(t, ".index + ") && strings.Contains(t, "readUInt")
							}
						}
					}
				}
			}
			c.Require("C08.N1 nested-reader-bounded", FuncKey(rd), p.Pos(rd.Pos()), "the nested reader's end is parent.index + declared size", bounded, "")
		}
	}
}

// compareCalls checks the ordered codec calls of a generated method against
// the struct's tag table.
func compareCalls(want []SchemaField, calls []codecCall, writer bool, strict string) (bool, string) {
	if len(calls) != len(want) {
		var nums []string
		for _, c := range calls {
			nums = append(nums, fmt.Sprint(c.Num))
		}
		var wn []string
		for _, w := range want {
			wn = append(wn, fmt.Sprint(w.Num))
		}
		return false, fmt.Sprintf("struct tags %v but codec handles %v", wn, nums)
	}
	for i, w := range want {
		c := calls[i]
		if c.Num != w.Num {
			return false, fmt.Sprintf("position %d: codec handles field %d, tags say %d (%s)", i, c.Num, w.Num, w.Name)
		}
		kind := writerKind[c.Method]
		if !writer {
			kind = readerKind[c.Method]
		}
		wantKind := w.Kind
		if writer && wantKind == "msgs" {
			wantKind = "msg" // one WriteEncodable per element
			if !c.InLoop {
				return false, fmt.Sprintf("field %d (%s): repeated message must be written in a loop", w.Num, w.Name)
			}
		}
		if kind != wantKind {
			return false, fmt.Sprintf("field %d (%s %s): codec uses %s", w.Num, w.Name, w.GoType, c.Method)
		}
		if c.Field != "" && c.Field != w.Name {
			return false, fmt.Sprintf("field %d: tags say %s, codec touches %s", w.Num, w.Name, c.Field)
		}
		if c.Field == "" {
			return false, fmt.Sprintf("field %d (%s): cannot relate the codec call to a struct field", w.Num, w.Name)
		}
		if !writer && c.Strict != "" && c.Strict != strict {
			return false, fmt.Sprintf("field %d (%s): strict flag is %s, expected %s", w.Num, w.Name, c.Strict, strict)
		}
	}
	return true, fmt.Sprintf("%d fields", len(want))
}

// checkStrictScalarReaders (C08.P2): a scalar reader called in strict mode hands back every
// error of the field-key check — a field that is missing (also at the very end of the data)
// or out of order is an error, never the zero value. The lenient mode swallows exactly the
// two "field is not here" errors. Decided by interpreting the reader (and whatever helpers it
// passes the error to) over the abstract inputs {check failed, which error, strict}.
func checkStrictScalarReaders(c *Ctx) {
	p := c.P
	n := 0
	for _, name := range []string{"ReadUInt", "ReadInt", "ReadInt32", "ReadBool", "ReadBytes", "ReadString", "ReadDecodable"} {
		fn := c.Anchor("pkg/codec.(*Reader)." + name)
		if fn == nil {
			continue
		}
		var strictParam *ssa.Parameter
		for _, prm := range fn.Params {
			if b, ok := prm.Type().Underlying().(*types.Basic); ok && b.Kind() == types.Bool {
				strictParam = prm
			}
		}
		checks := CallsIn(fn, "(*codec.Reader).check")
		if strictParam == nil || len(checks) != 1 {
			c.Require("C08.P2 strict-missing-field", FuncKey(fn), p.Pos(fn.Pos()), "one field-key check and a strict flag", false, fmt.Sprintf("checks=%d", len(checks)))
			continue
		}
		n++
		chk := checks[0].Call.Value()
		errIdx := fn.Signature.Results().Len() - 1
		kernel := func(e *Env) (bool, string) {
			var special func(v ssa.Value, eval func(ssa.Value) AVal) (AVal, bool)
			special = func(v ssa.Value, eval func(ssa.Value) AVal) (AVal, bool) {
				switch x := v.(type) {
				case *ssa.Parameter:
					if x == strictParam {
						return AVal{K: 'b', B: e.B("strict")}, true
					}
				case *ssa.Extract:
					if x.Tuple == ssa.Value(chk) {
						if x.Index == 0 {
							return AVal{K: 'b', B: !e.B("checkFailed")}, true
						}
						if e.B("checkFailed") {
							return AVal{K: 'o', N: 1}, true
						}
						return AVal{K: 'o', N: -1}, true
					}
					if cl, ok := x.Tuple.(*ssa.Call); ok {
						if a, opaque := special(cl, eval); opaque && a.N == 2 {
							// a later reading step: taken to succeed
							switch classify(x.Type()) {
							case 'b':
								return AVal{K: 'b'}, true
							case 'i', 'y':
								return AVal{K: classify(x.Type())}, true
							}
							if types.Identical(x.Type(), types.Universe.Lookup("error").Type()) {
								return AVal{K: 'o', N: -1}, true
							}
							return AVal{K: 'o', N: 2}, true
						}
					}
				case *ssa.Call:
					cn := CalleeName(x.Common())
					if cn == "errors.Is" && len(x.Common().Args) == 2 {
						t := T(x.Common().Args[1]).String()
						switch {
						case strings.HasSuffix(t, "codec.ErrFieldNumberNotFound"):
							return AVal{K: 'b', B: e.B("checkFailed") && e.B("notFound")}, true
						case strings.HasSuffix(t, "codec.ErrUnexpectedFieldNumber"):
							return AVal{K: 'b', B: e.B("checkFailed") && !e.B("notFound") && e.B("unexpected")}, true
						}
						return AVal{K: 'b'}, true
					}
					// functions the error is handed to are interpreted; everything else is a later reading step
					if g := x.Common().StaticCallee(); g != nil && IsOwn(g) && len(g.Blocks) > 0 {
						if isNewHelper(g) {
							return AVal{}, false // a helper the reader's code was moved into
						}
						for i := 0; i < g.Signature.Params().Len(); i++ {
							if types.Identical(g.Signature.Params().At(i).Type(), types.Universe.Lookup("error").Type()) {
								return AVal{}, false
							}
						}
					}
					if x != chk {
						if types.Identical(x.Type(), types.Universe.Lookup("error").Type()) {
							return AVal{K: 'o', N: -1}, true
						}
						return AVal{K: 'o', N: 2}, true
					}
				}
				return AVal{}, false
			}
			r := &pathRun{env: e, special: special, want: []int{errIdx}}
			var args []pval
			for i := range fn.Params {
				args = append(args, pval{AVal{K: 'o', N: 2}, fmt.Sprintf("p%d", i)})
			}
			res := r.run(fn, args)
			if r.err != "" || len(res) <= errIdx || res[errIdx].K != 'o' {
				return false, "cannot interpret: " + r.err
			}
			return res[errIdx].N != -1, ""
		}
		spec := func(e *Env) bool {
			notHere := e.B("notFound") || e.B("unexpected")
			return e.B("checkFailed") && (e.B("strict") || !notHere)
		}
		ev, atoms, dis, err := exhaust(kernel, spec, 0, nil)
		if err != "" {
			c.Undecided("C08.P2 strict-missing-field", FuncKey(fn), err)
			continue
		}
		c.Require("C08.P2 strict-missing-field", FuncKey(fn), p.Pos(fn.Pos()), fmt.Sprintf("an error of the field-key check is returned iff strict, or it is not one of the two 'field is not here' errors — over %v (%d abstract inputs)", atoms, ev), dis == "" && len(atoms) >= 3, dis)
	}
	c.MinInstances("C08.P2 strict-missing-field", n, 7)
}

// mentionsFunc: fn (or a new helper of it) uses g as a value — calls it or hands it on
// (decodeEach(raw.Transactions, NewTransaction)).
func mentionsFunc(fn, g *ssa.Function) bool {
	for _, f := range funcAndHelpers(fn) {
		for _, b := range f.Blocks {
			for _, in := range b.Instrs {
				for _, op := range in.Operands(nil) {
					if op != nil && *op == ssa.Value(g) {
						return true
					}
				}
			}
		}
	}
	return false
}
