package main

import (
	"fmt"
	"go/constant"
	"go/token"

	"golang.org/x/tools/go/ssa"
)

// ---------------------------------------------------------------------------
// E8: order-domain abstract interpretation of comparison-only kernels.
//
// A kernel is a function whose integer inputs (atoms) are used only as
// operands of relational operators (optionally offset by a constant). Such a
// function is invariant under order-isomorphism of its inputs, so evaluating
// its SSA over every assignment of the n atoms to the abstract ranks
// {0..n·(m+1)−1} (m = largest constant offset) visits every order type the
// concrete uint32 inputs can have: the enumeration is exhaustive for the
// abstract domain and therefore sound for all concrete inputs (uint32
// wrap-around excluded, stated as an assumption). Nothing of lisk-engine is
// executed: the interpreter walks go/ssa instructions of the analysed source.

type AVal struct {
	K byte // 'b' bool, 'i' integer rank, 'o' object (parameter index), 'y' bytes identity, '?' unknown
	B bool
	N int64
}

func (a AVal) String() string {
	switch a.K {
	case 'b':
		return fmt.Sprint(a.B)
	case 'i', 'y':
		return fmt.Sprint(a.N)
	case 'o':
		return fmt.Sprintf("obj%d", a.N)
	}
	return "?"
}

// AtomFn lets a rule give meaning to a value (a parameter, an interface
// method result, a field read…). eval evaluates other SSA values (e.g. the
// receiver of the method).
type AtomFn func(v ssa.Value, eval func(ssa.Value) AVal) (AVal, bool)

type Interp struct {
	Fn    *ssa.Function
	Atom  AtomFn
	trace []*ssa.BasicBlock
	from  map[*ssa.BasicBlock]*ssa.BasicBlock
	Err   string
	steps int
	// Want: when set, only these results of the function are evaluated at a return
	Want []int
}

func (it *Interp) fail(format string, a ...any) AVal {
	if it.Err == "" {
		it.Err = fmt.Sprintf(format, a...)
	}
	return AVal{K: '?'}
}

func (it *Interp) eval(v ssa.Value) AVal {
	if it.Atom != nil {
		if a, ok := it.Atom(v, it.eval); ok {
			return a
		}
	}
	switch x := v.(type) {
	case *ssa.Const:
		if x.Value == nil {
			return AVal{K: 'o', N: -1}
		}
		switch x.Value.Kind() {
		case constant.Bool:
			return AVal{K: 'b', B: constant.BoolVal(x.Value)}
		case constant.Int:
			n, _ := constant.Int64Val(x.Value)
			return AVal{K: 'i', N: n}
		}
	case *ssa.Phi:
		pred := it.from[x.Block()]
		for i, p := range x.Block().Preds {
			if p == pred {
				return it.eval(x.Edges[i])
			}
		}
		return it.fail("phi evaluated without a predecessor")
	case *ssa.UnOp:
		if al, ok := x.X.(*ssa.Alloc); ok && x.Op == token.MUL {
			// local cell (defer-spilled result, captured variable): the value
			// is the last store on the executed path before this load
			for _, ref := range *al.Referrers() {
				switch u := ref.(type) {
				case *ssa.UnOp, *ssa.DebugRef:
				case *ssa.Store:
					if u.Addr != ssa.Value(al) {
						return it.fail("local %s escapes", al.Comment)
					}
				default:
					return it.fail("local %s is shared with a function literal or escapes", al.Comment)
				}
			}
			pos := -1
			for i := len(it.trace) - 1; i >= 0; i-- {
				if it.trace[i] == x.Block() {
					pos = i
					break
				}
			}
			for i := pos; i >= 0; i-- {
				b := it.trace[i]
				end := len(b.Instrs)
				if i == pos {
					end = instrIndex(x)
				}
				for j := end - 1; j >= 0; j-- {
					if st, ok := b.Instrs[j].(*ssa.Store); ok && st.Addr == al {
						return it.eval(st.Val)
					}
				}
			}
			return it.fail("load of local %s before any store on the path", al.Comment)
		}
		if x.Op == token.NOT {
			a := it.eval(x.X)
			if a.K == 'b' {
				return AVal{K: 'b', B: !a.B}
			}
		}
	case *ssa.BinOp:
		a, b := it.eval(x.X), it.eval(x.Y)
		if a.K == '?' || b.K == '?' {
			return AVal{K: '?'}
		}
		if a.K == 'b' && b.K == 'b' {
			switch x.Op {
			case token.EQL:
				return AVal{K: 'b', B: a.B == b.B}
			case token.NEQ:
				return AVal{K: 'b', B: a.B != b.B}
			case token.AND:
				return AVal{K: 'b', B: a.B && b.B}
			case token.OR:
				return AVal{K: 'b', B: a.B || b.B}
			}
		}
		if a.K == 'o' && b.K == 'o' && (a.N == -1 || b.N == -1) && a.N != 0 && b.N != 0 {
			// comparison with nil: N == -1 is nil, N >= 1 a definite object a rule introduced
			// (N == 0, an object nothing is known about, stays outside the fragment)
			switch x.Op {
			case token.EQL:
				return AVal{K: 'b', B: a.N == b.N}
			case token.NEQ:
				return AVal{K: 'b', B: a.N != b.N}
			}
		}
		if a.K == 'i' && b.K == 'i' {
			switch x.Op {
			case token.EQL:
				return AVal{K: 'b', B: a.N == b.N}
			case token.NEQ:
				return AVal{K: 'b', B: a.N != b.N}
			case token.LSS:
				return AVal{K: 'b', B: a.N < b.N}
			case token.LEQ:
				return AVal{K: 'b', B: a.N <= b.N}
			case token.GTR:
				return AVal{K: 'b', B: a.N > b.N}
			case token.GEQ:
				return AVal{K: 'b', B: a.N >= b.N}
			case token.ADD:
				return AVal{K: 'i', N: a.N + b.N}
			case token.SUB:
				return AVal{K: 'i', N: a.N - b.N}
			}
		}
		return it.fail("operator %s outside the comparison fragment", x.Op)
	case *ssa.Convert:
		return it.eval(x.X)
	case *ssa.ChangeType:
		return it.eval(x.X)
	case *ssa.ChangeInterface:
		return it.eval(x.X)
	case *ssa.MakeInterface:
		return it.eval(x.X)
	case *ssa.Call:
		if CalleeName(x.Common()) == "bytes.Equal" || CalleeName(x.Common()) == "collection/bytes.Equal" {
			a, b := it.eval(x.Common().Args[0]), it.eval(x.Common().Args[1])
			if a.K == 'y' && b.K == 'y' {
				return AVal{K: 'b', B: a.N == b.N}
			}
		}
	}
	return it.fail("value %s (%T) is outside the interpretable fragment", v.Name(), v)
}

// Run interprets fn and returns its results.
func (it *Interp) Run() []AVal {
	it.from = map[*ssa.BasicBlock]*ssa.BasicBlock{}
	it.Err = ""
	it.trace = nil
	b := it.Fn.Blocks[0]
	for it.steps = 0; it.steps < 2000; it.steps++ {
		it.trace = append(it.trace, b)
		last := b.Instrs[len(b.Instrs)-1]
		var next *ssa.BasicBlock
		switch t := last.(type) {
		case *ssa.Return:
			var out []AVal
			for i, r := range t.Results {
				wanted := it.Want == nil
				for _, w := range it.Want {
					if w == i {
						wanted = true
					}
				}
				if !wanted {
					out = append(out, AVal{K: '?'})
					continue
				}
				out = append(out, it.eval(r))
			}
			return out
		case *ssa.If:
			c := it.eval(t.Cond)
			if c.K != 'b' {
				it.fail("branch condition not boolean")
				return nil
			}
			if c.B {
				next = b.Succs[0]
			} else {
				next = b.Succs[1]
			}
		case *ssa.Jump:
			next = b.Succs[0]
		default:
			it.fail("terminator %T outside the fragment", last)
			return nil
		}
		it.from[next] = b
		b = next
	}
	it.fail("step bound exceeded")
	return nil
}

// comparisonOnly proves statically that every use of each integer atom in fn
// is as an operand of a relational operator (possibly after ± constant), a
// phi, or a conversion. Returns the largest constant offset seen.
func comparisonOnly(fn *ssa.Function, isIntAtom func(ssa.Value) bool) (ok bool, maxOffset int64, why string) {
	ok = true
	seen := map[ssa.Value]bool{}
	var check func(v ssa.Value)
	check = func(v ssa.Value) {
		if seen[v] || v.Referrers() == nil {
			return
		}
		seen[v] = true
		for _, r := range *v.Referrers() {
			switch u := r.(type) {
			case *ssa.BinOp:
				switch u.Op {
				case token.EQL, token.NEQ, token.LSS, token.LEQ, token.GTR, token.GEQ:
					// fine
				case token.ADD, token.SUB:
					other := u.Y
					if other == v {
						other = u.X
					}
					if c, isC := other.(*ssa.Const); isC && c.Value != nil && c.Value.Kind() == constant.Int {
						n, _ := constant.Int64Val(c.Value)
						if n < 0 {
							n = -n
						}
						if n > maxOffset {
							maxOffset = n
						}
						check(u)
					} else {
						ok, why = false, "atom used in arithmetic with a non-constant"
					}
				default:
					ok, why = false, "atom used with operator "+u.Op.String()
				}
			case *ssa.Phi:
				check(u)
			case *ssa.Convert:
				check(u)
			case *ssa.ChangeType:
				check(u)
			case *ssa.DebugRef:
			case *ssa.MakeInterface:
				// boxed for a log/format call: does not influence the result
			default:
				ok, why = false, fmt.Sprintf("atom escapes into %T", r)
			}
		}
	}
	for _, b := range fn.Blocks {
		for _, in := range b.Instrs {
			if v, isV := in.(ssa.Value); isV && isIntAtom(v) {
				check(v)
			}
		}
	}
	for _, p := range fn.Params {
		if isIntAtom(p) {
			check(p)
		}
	}
	return ok, maxOffset, why
}

// enumerate calls f with every assignment of n atoms to {0..k-1}.
func enumerate(n int, k int64, f func(vals []int64) bool) int {
	vals := make([]int64, n)
	count := 0
	for {
		count++
		if !f(vals) {
			return count
		}
		i := 0
		for ; i < n; i++ {
			vals[i]++
			if vals[i] < k {
				break
			}
			vals[i] = 0
		}
		if i == n {
			return count
		}
	}
}
