package main

import (
	"go/types"
	"sort"
	"strings"

	"golang.org/x/tools/go/ssa"
)

// C09.M1 handler-shared-maps-locked.
//
// Every discovered entry point (HTTP / websocket handler, libp2p stream handler, gossip handler
// and validator, RPC handler, JSON-RPC endpoint) is run by its server on a goroutine per
// connection or message, so two clients run the same function at the same time. The Go runtime
// turns unsynchronised map access into a *process abort* ("fatal error: concurrent map writes",
// "concurrent map iteration and map write") that no recover() catches — a crash an RPC client or
// peer can cause with well-formed traffic. Structural condition:
//
//	a map-typed field of a long-lived object (its struct is never constructed inside the reachable
//	set: it is set up before the servers start) that is written (m[k] = v, delete) in a function
//	reachable from an entry is written with a lock held, and every other access to that field in
//	production code (lookup, range, len) outside the constructors of the struct holds a lock of the
//	same identity.
//
// "Some lock of the struct" is the resolution: which mutex is not decided beyond its (type, field)
// identity; channel-based confinement is not recognised (none is used for such maps today).
func checkHandlerMaps(c *Ctx, via map[*ssa.Function][]string) {
	p := c.P
	held := entryHeld(p, "", "")
	// structs constructed inside the reachable set are per-request objects
	perRequest := map[string]bool{}
	for fn := range via {
		if !IsProd(fn) {
			continue
		}
		for _, b := range fn.Blocks {
			for _, in := range b.Instrs {
				if al, ok := in.(*ssa.Alloc); ok {
					if o, st := ownerOfFieldBase(al.Type()); st != nil {
						perRequest[o] = true
					}
				}
			}
		}
	}
	type mapField struct{ owner, field string }
	type access struct {
		fn     *ssa.Function
		in     ssa.Instruction
		write  bool
		locks  []string
		fresh  bool
		isCtor bool
	}
	mapAccesses := func(fn *ssa.Function) map[mapField][]access {
		out := map[mapField][]access{}
		var lf *LockFlow
		for _, b := range fn.Blocks {
			for _, in := range b.Instrs {
				fa, ok := in.(*ssa.FieldAddr)
				if !ok {
					continue
				}
				o, st := ownerOfFieldBase(fa.X.Type())
				if st == nil || o == "" {
					continue
				}
				if _, isMap := st.Field(fa.Field).Type().Underlying().(*types.Map); !isMap {
					continue
				}
				if lf == nil {
					lf = lockFlow(fn, held[fn])
				}
				_, fresh := fa.X.(*ssa.Alloc)
				a := access{fn: fn, in: in, fresh: fresh}
				for _, h := range lf.Must[in] {
					a.locks = append(a.locks, h.TypeID)
				}
				used := false
				for _, r := range *fa.Referrers() {
					switch u := r.(type) {
					case *ssa.Store:
						// the field itself assigned: construction or replacement of the map
						if u.Addr == ssa.Value(fa) {
							a.write = true
							used = true
						}
					case *ssa.UnOp:
						for _, rr := range *u.Referrers() {
							switch w := rr.(type) {
							case *ssa.MapUpdate:
								if w.Map == ssa.Value(u) {
									a.write = true
								}
								used = true
							case *ssa.Call:
								if CalleeName(w.Common()) == "builtin:delete" && len(w.Common().Args) > 0 && w.Common().Args[0] == ssa.Value(u) {
									a.write = true
								}
								used = true
							case *ssa.Lookup, *ssa.Range:
								used = true
							default:
								used = true
							}
						}
					}
				}
				if used {
					out[mapField{o, fieldNameOf(st.Field(fa.Field))}] = append(out[mapField{o, fieldNameOf(st.Field(fa.Field))}], a)
				}
			}
		}
		return out
	}
	// 1. maps written from the reachable set
	written := map[mapField][]access{}
	var reach []*ssa.Function
	for fn := range via {
		if IsProd(fn) {
			reach = append(reach, fn)
		}
	}
	sort.Slice(reach, func(i, j int) bool { return FuncKey(reach[i]) < FuncKey(reach[j]) })
	nMapSites := 0
	for _, fn := range reach {
		for mf, as := range mapAccesses(fn) {
			for _, a := range as {
				nMapSites++
				if a.write && !a.fresh && !perRequest[mf.owner] {
					written[mf] = append(written[mf], a)
				}
			}
		}
	}
	c.Count("map-field accesses in functions reachable from untrusted entries", nMapSites)
	var keys []mapField
	for mf := range written {
		keys = append(keys, mf)
	}
	sort.Slice(keys, func(i, j int) bool { return keys[i].owner+keys[i].field < keys[j].owner+keys[j].field })
	c.Count("long-lived map fields written by concurrent handlers", len(keys))
	c.MinInstances("C09.M1 handler-shared-maps-locked", len(keys), 4)
	for _, mf := range keys {
		lockIDs := map[string]int{}
		for _, a := range written[mf] {
			ok := len(a.locks) > 0
			for _, l := range a.locks {
				lockIDs[l]++
			}
			detail := ""
			if !ok {
				detail = "no lock is held at this write; two connections served at the same time abort the process (concurrent map writes)"
			}
			c.Require("C09.M1 handler-shared-maps-locked", FuncKey(a.fn)+": write of "+mf.owner+"."+mf.field, p.InstrPos(a.in),
				"a map of a long-lived object written by a handler that runs once per connection/message is written under a lock", ok, detail)
		}
		// 2. every other access outside constructors holds one of those locks
		for _, fn := range p.OwnFuncs {
			if !IsProd(fn) || len(fn.Blocks) == 0 {
				continue
			}
			if _, inReach := via[fn]; inReach {
				// writes were judged above; reads in the reachable set are judged here too
			}
			for mf2, as := range mapAccesses(fn) {
				if mf2 != mf {
					continue
				}
				for _, a := range as {
					if a.fresh || constructsOwner(fn, mf.owner) {
						continue
					}
					if a.write {
						if _, inReach := via[fn]; inReach {
							continue // already an obligation
						}
					}
					ok := false
					for _, l := range a.locks {
						if lockIDs[l] > 0 || len(lockIDs) == 0 {
							ok = true
						}
					}
					detail := ""
					if !ok {
						detail = "this access can run while a handler writes the map (concurrent map read/iteration and map write aborts the process)"
					}
					kind := "read"
					if a.write {
						kind = "write"
					}
					c.Require("C09.M1 handler-shared-maps-locked", FuncKey(fn)+": "+kind+" of "+mf.owner+"."+mf.field, p.InstrPos(a.in),
						"every access to a map that concurrent handlers write holds the lock those writes hold", ok, detail)
				}
			}
		}
	}
}

// constructsOwner: fn allocates a value of the struct (a constructor: the object is not shared yet).
func constructsOwner(fn *ssa.Function, owner string) bool {
	for _, b := range fn.Blocks {
		for _, in := range b.Instrs {
			if al, ok := in.(*ssa.Alloc); ok {
				if o, _ := ownerOfFieldBase(al.Type()); o == owner {
					return true
				}
			}
		}
	}
	return strings.HasSuffix(fn.Name(), "init") && fn.Signature.Recv() == nil
}
