package main

import (
	"fmt"
	"go/token"
	"go/types"
	"strings"

	"golang.org/x/tools/go/ssa"
)

// U1 unsigned-difference-guarded: an unsigned subtraction x − y whose result decides a
// comparison wraps to a huge value when x < y; the comparison then answers the opposite of
// what the arithmetic reads as. Each such subtraction must be dominated by a fact that
// entails x >= y (or x >= y + k), be a subtraction of a constant from a value a dominating
// fact bounds from below, or have a reviewed reason.
type unsignedRow struct {
	fn, frag, reason string
}

func isUnsignedInt(t types.Type) bool {
	b, ok := t.Underlying().(*types.Basic)
	return ok && b.Info()&types.IsUnsigned != 0
}

// feedsComparison: the value (through conversions and further +/− with constants) is an
// operand of a comparison.
func feedsComparison(v ssa.Value, depth int) bool {
	if depth > 4 || v.Referrers() == nil {
		return false
	}
	for _, r := range *v.Referrers() {
		switch x := r.(type) {
		case *ssa.BinOp:
			switch x.Op {
			case token.LSS, token.LEQ, token.GTR, token.GEQ, token.EQL, token.NEQ:
				return true
			case token.ADD, token.SUB:
				if feedsComparison(x, depth+1) {
					return true
				}
			}
		case *ssa.Convert:
			if feedsComparison(x, depth+1) {
				return true
			}
		case *ssa.Phi:
			if feedsComparison(x, depth+1) {
				return true
			}
		}
	}
	return false
}

func checkUnsignedDifferences(c *Ctx, rule string, scope func(*ssa.Function) bool, table []unsignedRow, min int) {
	p := c.P
	n := 0
	for _, fn := range p.Subjects() {
		if !IsProd(fn) || len(fn.Blocks) == 0 || !scope(fn) {
			continue
		}
		ff := factsOf(fn)
		ord := 0
		for _, b := range blocksDeep(fn) {
			for _, in := range b.Instrs {
				bo, ok := in.(*ssa.BinOp)
				if !ok || bo.Op != token.SUB || !isUnsignedInt(bo.Type()) {
					continue
				}
				if _, isC := bo.X.(*ssa.Const); isC {
					if _, isC2 := bo.Y.(*ssa.Const); isC2 {
						continue
					}
				}
				if !feedsComparison(bo, 0) {
					continue
				}
				ord++
				n++
				xt, yt := ff.Term(bo.X), ff.Term(bo.Y)
				xs, ys := xt.String(), yt.String()
				ok2, why := false, ""
				mx := Matcher{xs, func(t *Term) bool { return t.String() == xs }}
				my := Matcher{ys, func(t *Term) bool { return t.String() == ys }}
				for _, f := range ff.FactsAt(b) {
					if yt.Op == "const" {
						var k int64
						fmt.Sscan(yt.Sym, &k)
						if f.Entails(CmpSpec{A: mx, NoB: true, Rel: GE, D: k}) {
							ok2, why = true, "guard: "+f.String()
						}
					} else if f.Entails(CmpSpec{A: mx, B: my, Rel: GE, D: 0}) {
						ok2, why = true, "guard: "+f.String()
					}
				}
				if !ok2 && yt.Op == "const" {
					// x > z for an (unsigned) z of the same type means x >= 1, x >= z + d means x >= d
					var k int64
					fmt.Sscan(yt.Sym, &k)
					for _, f := range ff.FactsAt(b) {
						if !f.IsCmp {
							continue
						}
						l := newLin()
						l.add(linOf(f.L), 1)
						l.add(linOf(f.R), -1)
						if len(l.Coef) != 2 || l.Coef[xs] == 0 {
							continue
						}
						rel, d, okc := canonRel(f.Op, l.Const)
						if !okc {
							continue
						}
						other := int64(0)
						for a, cf := range l.Coef {
							if a != xs {
								other = cf
							}
						}
						if l.Coef[xs] == -1 {
							rel, d, other = flipRel(rel), -d, -other
						}
						if other == -1 && (rel == GE || rel == EQ) && d >= k {
							ok2, why = true, "guard: "+f.String()+" (the other side is unsigned, hence x >= "+fmt.Sprint(d)+")"
						}
					}
				}
				if !ok2 {
					// x = max(…, y, …) or x = y + …
					if xt.Op == "call" && strings.HasPrefix(xt.Sym, "collection/ints.Max") {
						for _, a := range xt.Args {
							if a.String() == ys || (a.Op == "list" && a.Any(func(t *Term) bool { return t.String() == ys })) {
								ok2, why = true, "x is a maximum that includes y"
							}
						}
					}
					l := newLin()
					l.add(linOf(xt), 1)
					l.add(linOf(yt), -1)
					if len(l.Coef) == 0 && l.Const >= 0 {
						ok2, why = true, "x − y is a non-negative constant"
					}
				}
				desc := fmt.Sprintf("(%s − %s)", xs, ys)
				if !ok2 {
					for _, row := range table {
						if row.fn == FuncKey(fn) && strings.Contains(desc, row.frag) {
							ok2, why = true, "reviewed: "+row.reason
						}
					}
				}
				c.Require(rule, fmt.Sprintf("%s: unsigned difference #%d %s", FuncKey(fn), ord, desc), p.InstrPos(bo), "x − y on unsigned integers that decides a comparison is computed only where x >= y is known", ok2, why)
			}
		}
	}
	c.MinInstances(rule, n, min)
}
