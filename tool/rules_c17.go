package main

import (
	"fmt"
	"go/token"
	"go/types"
	"sort"
	"strings"

	"golang.org/x/tools/go/ssa"
)

func init() {
	register("C17", "Typestate of the pending-response table and lock discipline of the P2P request/response layer, for every path: "+
		"(R1–R4) lock rules on the message protocol (nothing that may block while resMu is held — the delivery send in particular —, no re-entrancy, field guard of resCh); "+
		"(R7) register-before-send: the pending entry is stored before the request leaves; "+
		"(R8) release on all exits: every path from the registration to a return executes delete(resCh, id) with the same key; "+
		"(R9) the wait is one blocking select over exactly the registered channel, a timer on the configured timeout and ctx.Done(); the retry loop is bounded by messageMaxRetries and repeats only on errTimeout; "+
		"(R10) correlation: the response carries the request's ID (respond(…, req.ID, …) → responseMsg.ID), the lookup key on arrival is the decoded response's ID, and register/delete use the request's ID; both IDs are codec field 1; "+
		"(R11) the channel registered for a request is created by make() in that call (a reused channel could still hold a reply to an earlier request); "+
		"(R12) request IDs come from a uniqueness source, never from message content or the clock.",
		runC17)
}

func runC17(c *Ctx) {
	p := c.P
	c.Assume = append(c.Assume, "libp2p stream delivery and timing are not modelled")
	send := c.Anchor("pkg/p2p.(*MessageProtocol).sendRequestMessage")
	onResp := c.Anchor("pkg/p2p.(*MessageProtocol).onResponse")
	onReq := c.Anchor("pkg/p2p.(*MessageProtocol).onRequest")
	request := c.Anchor("pkg/p2p.(*MessageProtocol).request")
	respond := c.Anchor("pkg/p2p.(*MessageProtocol).respond")
	newResp := c.Anchor("pkg/p2p.newResponseMessage")
	if send == nil || onResp == nil || onReq == nil || request == nil || respond == nil || newResp == nil {
		return
	}
	checkResponsePathNeverQueues(c, onResp)
	// ---- R13 a request ends with a reply or an error, never with neither: the retry loop is left
	// — other than by its own counter running out, which happens only after failed attempts —
	// only after an attempt was made (the exit is dominated by the send). Leaving before the
	// first attempt returns (nil, nil): RequestFrom dereferences the nil response.
	{
		n := 0
		sends := CallsIn(request, "(*p2p.MessageProtocol).sendRequestMessage")
		for _, li := range naturalLoops(request) {
			var sendIn ssa.Instruction
			for _, sc := range sends {
				if sc.Fn == request && li.Blocks[sc.Call.Block()] {
					sendIn = sc.Call
				}
			}
			if sendIn == nil {
				continue
			}
			for b := range li.Blocks {
				if b == li.Header {
					continue
				}
				for _, sx := range b.Succs {
					if li.Blocks[sx] {
						continue
					}
					n++
					last := b.Instrs[len(b.Instrs)-1]
					ok := instrDominates(sendIn, last)
					c.Require("C17.R13 request-ends-with-reply-or-error", fmt.Sprintf("%s: exit of the retry loop from block %d", FuncKey(request), b.Index), p.InstrPos(last), "the retry loop is left from inside its body only after an attempt was made", ok, "")
				}
			}
		}
		c.MinInstances("C17.R13 request-ends-with-reply-or-error", n, 2)
	}
	// lock rules restricted to the message protocol's functions
	runLockRulesFuncs(c, "C17", func(fn *ssa.Function) bool {
		return strings.HasPrefix(FuncKey(fn), "pkg/p2p.(*MessageProtocol).")
	}, []string{"p2p.MessageProtocol"})

	const mp = "p2p.MessageProtocol"
	regs := fieldWrites(send, mp, "resCh")
	var reg *ssa.MapUpdate
	var dels []*ssa.Call
	for _, w := range regs {
		switch x := w.(type) {
		case *ssa.MapUpdate:
			reg = x
		case *ssa.Call:
			dels = append(dels, x)
		}
	}
	if reg == nil {
		c.Require("C17.R7 register-before-send", FuncKey(send), p.Pos(send.Pos()), "the pending channel is stored in resCh", false, "no map update of resCh found")
		return
	}
	ff := factsOf(send)

	// ---- R7
	for _, s := range CallsIn(send, "(*p2p.MessageProtocol).send") {
		c.Require("C17.R7 register-before-send", FuncKey(send)+": resCh[id]=ch ≺ send", p.InstrPos(s.Call),
			"the response channel is registered before the request is sent (a fast reply must find its entry)", instrDominates(reg, s.Call), "registration at "+p.InstrPos(reg))
	}

	// ---- R8
	keyT := ff.Term(reg.Key)
	// what counts as the release: delete(resCh, key) here; a call (or defer) of a local closure
	// or of a MessageProtocol method that always executes delete(resCh, key) for the same key
	releasesInCallee := func(cc *ssa.CallCommon) bool {
		var g *ssa.Function
		subst := map[string]string{}
		switch v := cc.Value.(type) {
		case *ssa.MakeClosure:
			g, _ = v.Fn.(*ssa.Function)
			if g != nil {
				for i, b := range v.Bindings {
					if i >= len(g.FreeVars) {
						continue
					}
					name := g.FreeVars[i].Name()
					if a, ok := b.(*ssa.Alloc); ok {
						if st := uniqueStoreTo(a); st != nil {
							subst["*free(alloc:"+name+")"] = ff.Term(st.Val).String()
							continue
						}
					}
					subst["free("+ff.Term(b).String()+")"] = ff.Term(b).String()
				}
			}
		case *ssa.Function:
			g = v
			if !strings.HasPrefix(FuncKey(g), "pkg/p2p.(*MessageProtocol).") {
				return false
			}
			for i, a := range cc.Args {
				subst[fmt.Sprintf("p%d", i)] = ff.Term(a).String()
			}
		}
		if g == nil || len(g.Blocks) == 0 {
			return false
		}
		gf := factsOf(g)
		return alwaysCalls(g, func(dc *ssa.CallCommon) bool {
			if CalleeName(dc) != "builtin:delete" || !gf.Term(dc.Args[0]).Any(IsField(mp, "resCh").F) {
				return false
			}
			k := gf.Term(dc.Args[1]).String()
			for from, to := range subst {
				k = strings.ReplaceAll(k, from, to)
			}
			return k == keyT.String()
		})
	}
	nRel := 0
	isDel := func(in ssa.Instruction) bool {
		for _, d := range dels {
			if d == in {
				return ff.Term(ArgK(d, 1)).String() == keyT.String()
			}
		}
		switch x := in.(type) {
		case *ssa.Call:
			// the delete itself, wherever the path search finds it (new helpers, literals run under a lock helper)
			if CalleeName(x.Common()) == "builtin:delete" && x.Parent() != send && ff.Term(ArgK(x, 0)).Any(IsField(mp, "resCh").F) && ff.Term(ArgK(x, 1)).String() == keyT.String() {
				return true
			}
			return releasesInCallee(x.Common())
		case *ssa.Defer:
			return releasesInCallee(x.Common())
		}
		return false
	}
	for _, b := range blocksDeep(send) {
		for _, in := range b.Instrs {
			if isDel(in) {
				nRel++
			}
		}
	}
	if nRel == 0 {
		// releases that sit in helpers of helpers: count the calls that intercept the search
		for _, cl := range AllCalls(send) {
			if g := newHelperCallee(cl); g != nil && reachesReturnAvoiding(g.Blocks[0].Instrs[0], isDel, nil) == nil {
				nRel++
			}
		}
	}
	path := reachesReturnAvoiding(reg, isDel, nil)
	c.Require("C17.R8 release-on-all-exits", FuncKey(send)+": resCh[id]=ch ⇒ delete(resCh,id)", p.InstrPos(reg),
		"every path from the registration to a return deletes the entry (same key), directly or through a closure/method that always does", path == nil, pathStr(path)+retOfPath(p, path))
	c.MinInstances("C17.R8 delete sites", nRel, 1)
	// ---- R12 pending entries are keyed by the request ID alone, so IDs of requests that are
	// pending together must differ: the ID comes from a uniqueness source (uuid, crypto/rand,
	// an atomic counter), not from the message content or the clock
	if nr := c.Anchor("pkg/p2p.newRequestMessage"); nr != nil {
		okU, val := false, ""
		for _, st := range storesToField(nr, "p2p.Request", "ID") {
			t := factsOf(nr).Term(st.Val)
			val = t.String()
			okU = t.Any(func(x *Term) bool {
				if x.Op != "call" {
					return false
				}
				return strings.Contains(x.Sym, "google/uuid.New") || strings.HasPrefix(x.Sym, "crypto/rand.") || strings.HasPrefix(x.Sym, "sync/atomic.Add") || strings.Contains(x.Sym, "atomic.Uint64).Add") || strings.Contains(x.Sym, "atomic.Int64).Add")
			})
		}
		c.Require("C17.R12 request-id-unique", FuncKey(nr)+": Request.ID", p.Pos(nr.Pos()), "the request ID is drawn from a uniqueness source (uuid / crypto/rand / atomic counter)", okU, "ID = "+val)
	}

	// ---- R14 the responder's writer is made for this request. The handler writes the payload into
	// it and respond() sends what it holds; requests are served concurrently (one goroutine per
	// stream), so a writer — or a buffer inside it — that outlives the request and is handed to the
	// next one lets one request's reply carry another's payload under the right request ID.
	{
		nw := 0
		for _, call := range AllCallsDeep(onReq) {
			cc := call.Common()
			if cc.IsInvoke() || cc.StaticCallee() != nil || len(cc.Args) != 2 {
				continue
			}
			if !strings.Contains(cc.Args[0].Type().String(), "ResponseWriter") && !strings.Contains(cc.Args[0].Type().String(), "responseWriter") {
				continue
			}
			nw++
			v := cc.Args[0]
			for {
				if mi, ok := v.(*ssa.MakeInterface); ok {
					v = mi.X
					continue
				}
				break
			}
			root := valueRoot(v)
			al, fresh := root.(*ssa.Alloc)
			if fresh {
				fresh = al.Heap || true
			}
			c.Require("C17.R14 writer-per-request", FuncKey(onReq)+": writer handed to the handler", p.InstrPos(call), "the response writer given to the handler is allocated for this request (not taken from a pool or a field shared between requests)", fresh, fmt.Sprintf("writer = %s (%T)", ff0(call.Parent()).Term(v).String(), root))
		}
		c.MinInstances("C17.R14 writer-per-request", nw, 1)
	}

	// ---- R11 the registered channel is made for this request: nothing delivered for an
	// earlier request can be buffered in it
	{
		_, fresh := stripConv(reg.Value).(*ssa.MakeChan)
		if rt := ff.Term(reg.Value); !fresh && rt.Op == "make" && rt.Sym == "chan" {
			fresh = true // the same make(), seen through a captured variable
		}
		c.Require("C17.R11 channel-per-request", FuncKey(send)+": registered channel", p.InstrPos(reg), "the channel stored in resCh is created by make() in this call (never reused across requests)", fresh, "registered value: "+ff.Term(reg.Value).String())
	}
	// … and it has room for the one reply: the receiver's delivery is a non-blocking send (it
	// must not wait while holding the table's lock), which is dropped when nobody is receiving
	// at that instant — on a channel without buffer a reply that arrives before the requester
	// reaches its select is lost and the request times out although the peer answered
	{
		nonBlockingDelivery := false
		for _, b := range blocksDeep(onResp) {
			for _, in := range b.Instrs {
				if sel, ok := in.(*ssa.Select); ok && !sel.Blocking {
					for _, st := range sel.States {
						if st.Dir == types.SendOnly {
							nonBlockingDelivery = true
						}
					}
				}
			}
		}
		capOK, capStr := !nonBlockingDelivery, "delivery blocks"
		if nonBlockingDelivery {
			// the make() is found through the term, so that it is also seen through a captured
			// variable or a new helper
			capStr = "not a make(chan) in this call: " + ff.Term(reg.Value).String()
			if rt := ff.Term(reg.Value); rt.Op == "make" && rt.Sym == "chan" && len(rt.Args) == 1 {
				capStr = rt.Args[0].String()
				var k int64
				if _, err := fmt.Sscan(capStr, &k); err == nil && rt.Args[0].Op == "const" && k >= 1 {
					capOK = true
				}
			}
		}
		c.Require("C17.R11 channel-has-room-for-the-reply", FuncKey(send)+": registered channel", p.InstrPos(reg), "the registered channel is buffered (capacity >= 1) because the reply is delivered by a non-blocking send", capOK, "capacity: "+capStr)
	}
	// deletes happen under the table's lock: covered by R4 field guard

	// ---- R9 select shape
	{
		var sel *ssa.Select
		for _, b := range blocksDeep(send) {
			for _, in := range b.Instrs {
				if s, ok := in.(*ssa.Select); ok {
					sel = s
				}
			}
		}
		ok := sel != nil && sel.Blocking && len(sel.States) == 3
		detail := ""
		if sel != nil {
			var hasCh, hasTimer, hasCtx bool
			regCh := stripConv(reg.Value)
			for _, st := range sel.States {
				t := ff.Term(st.Chan)
				detail += t.String() + "; "
				if st.Dir != 2 { // types.RecvOnly
					ok = false
				}
				if stripConv(st.Chan) == regCh || t.String() == ff.Term(reg.Value).String() {
					hasCh = true
				}
				if t.Op == "call" && t.Sym == "time.After" && IsField(mp, "timeout").Match(t.Args[0]) {
					hasTimer = true
				}
				if t.Op == "call" && strings.HasSuffix(t.Sym, "context.Context.Done") {
					hasCtx = true
				}
			}
			ok = ok && hasCh && hasTimer && hasCtx
			if ok {
				// the select comes after the registration
				ok = instrDominates(reg, sel)
			}
		}
		c.Require("C17.R9 bounded-wait", FuncKey(send)+": select", p.Pos(send.Pos()), "one blocking select over {registered channel, time.After(mp.timeout), ctx.Done()} after the registration", ok, detail)
		// timeout configured from the constant
		nm := c.Anchor("pkg/p2p.newMessageProtocol")
		if nm != nil {
			okT := false
			for _, b := range blocksDeep(nm) {
				for _, in := range b.Instrs {
					if st, isSt := in.(*ssa.Store); isSt {
						if fa, isFA := st.Addr.(*ssa.FieldAddr); isFA {
							_, s := ownerOfFieldBase(fa.X.Type())
							if s != nil && fieldNameOf(s.Field(fa.Field)) == "timeout" {
								v, _ := p.constValue("pkg/p2p", "messageResponseTimeout")
								okT = T(st.Val).String() == v
							}
						}
					}
				}
			}
			c.Require("C17.R9 bounded-wait", "newMessageProtocol: timeout", p.Pos(nm.Pos()), "timeout field is initialised from messageResponseTimeout", okT, "")
		}
	}
	// retry loop
	{
		rf := factsOf(request)
		maxR, _ := p.constValue("pkg/p2p", "messageMaxRetries")
		calls := CallsIn(request, "(*p2p.MessageProtocol).sendRequestMessage")
		ok := len(calls) == 1
		why := ""
		if ok {
			blk := calls[0].Call.Block()
			// loop counter bound: a dominating fact  i <= messageMaxRetries with i a phi(0, i+1)
			bound := false
			for _, f := range rf.FactsAt(blk) {
				if !f.IsCmp {
					continue
				}
				l := newLin()
				l.add(linOf(f.L), 1)
				l.add(linOf(f.R), -1)
				if len(l.Atom) != 1 {
					continue
				}
				var atom *Term
				var coef int64
				for k, a := range l.Atom {
					atom, coef = a, l.Coef[k]
				}
				if atom.Op != "phi" {
					continue
				}
				rel, d, okc := canonRel(f.Op, l.Const)
				if !okc {
					continue
				}
				if coef == -1 {
					rel, d = flipRel(rel), -d
				}
				var mx int64
				fmt.Sscan(maxR, &mx)
				if rel == LE && d <= mx && isCounterPhi(atom) {
					bound = true
					why = f.String()
				}
			}
			ok = bound
		}
		c.Require("C17.R9 bounded-retries", FuncKey(request)+": loop bound", p.Pos(request.Pos()), "sendRequestMessage is called inside a loop whose counter i (φ(0,i+1)) satisfies i <= messageMaxRetries", ok, why)
		// continue only on errTimeout: the back edge from the error branch is dominated by errors.Is(err, errTimeout)
		okc := false
		for i, e := range rf.Edges {
			f := rf.Facts[i]
			if !f.IsCmp && f.Truth && f.B.Op == "call" && f.B.Sym == "errors.Is" && len(f.B.Args) == 2 && strings.HasSuffix(f.B.Args[1].String(), "p2p.errTimeout") {
				// the true edge must lead back into the loop, the false edge to a return
				ret := false
				for _, in := range rf.Edges[i^1].To.Instrs {
					if _, isRet := in.(*ssa.Return); isRet {
						ret = true
					}
				}
				okc = ret && len(calls) == 1 && reachable(e.To, calls[0].Call.Block())
			}
		}
		c.Require("C17.R9 bounded-retries", FuncKey(request)+": retry only on timeout", p.Pos(request.Pos()), "the loop repeats only when errors.Is(err, errTimeout); any other error returns", okc, "")
	}

	// ---- R10 correlation
	{
		// request side: key of register is reqMsg.ID where reqMsg is the message handed to send
		okKey := keyT.Op == "field" && keyT.Sym == "ID" && keyT.Owner == "p2p.Request" && IsCall("p2p.newRequestMessage").Match(keyT.Args[0])
		sent := false
		for _, s := range CallsIn(send, "(*p2p.MessageProtocol).send") {
			a := s.Call.Common().Args
			if T(a[len(a)-1]).String() == keyT.Args[0].String() {
				sent = true
			}
		}
		c.Require("C17.R10 correlation", FuncKey(send)+": registration key", p.InstrPos(reg), "registered under the ID of the very request message that is sent", okKey && sent, "key: "+keyT.String())
		// responder: respond(…, newMsg.ID, …) with newMsg the decoded request
		for _, s := range CallsIn(onReq, "(*p2p.MessageProtocol).respond") {
			t := T(ArgK(s.Call, 3))
			dec := CallsIn(onReq, "(*p2p.Request).Decode")
			ok := t.Op == "field" && t.Sym == "ID" && t.Owner == "p2p.Request" && len(dec) == 1 && T(ArgK(dec[0].Call, 0)).String() == t.Args[0].String()
			c.Require("C17.R10 correlation", FuncKey(onReq)+": respond(reqID)", p.InstrPos(s.Call), "the response is created with the decoded request's ID", ok, t.String())
		}
		c.MinInstances("C17.R10 response-created", len(CallsIn(respond, "p2p.newResponseMessage")), 1)
		for _, s := range CallsIn(respond, "p2p.newResponseMessage") {
			t := T(ArgK(s.Call, 0))
			if respond == onReq {
				// the responding code written in the request handler itself: the ID is the decoded request's
				dec := CallsIn(onReq, "(*p2p.Request).Decode")
				ok := t.Op == "field" && t.Sym == "ID" && t.Owner == "p2p.Request" && len(dec) == 1 && T(ArgK(dec[0].Call, 0)).String() == t.Args[0].String()
				c.Require("C17.R10 correlation", FuncKey(onReq)+": newResponseMessage(reqID)", p.InstrPos(s.Call), "the response is created with the decoded request's ID", ok, t.String())
				continue
			}
			c.Require("C17.R10 correlation", FuncKey(respond)+": newResponseMessage(reqMsgID)", p.InstrPos(s.Call), "respond forwards its reqMsgID parameter as the response ID", t.Op == "param" && t.Sym == "p3", t.String())
		}
		// newResponseMessage stores param 0 into ID
		okID := false
		for _, b := range blocksDeep(newResp) {
			for _, in := range b.Instrs {
				if st, isSt := in.(*ssa.Store); isSt {
					if fa, isFA := st.Addr.(*ssa.FieldAddr); isFA {
						_, s := ownerOfFieldBase(fa.X.Type())
						if s != nil && fieldNameOf(s.Field(fa.Field)) == "ID" {
							okID = T(st.Val).String() == "p0"
						}
					}
				}
			}
		}
		c.Require("C17.R10 correlation", "newResponseMessage: ID", p.Pos(newResp.Pos()), "responseMsg.ID = reqMsgID", okID, "")
		// receiver: lookup key is decoded response's ID
		n := 0
		rf := factsOf(onResp)
		for _, b := range blocksDeep(onResp) {
			for _, in := range b.Instrs {
				lk, isL := in.(*ssa.Lookup)
				if !isL || !rf.Term(lk.X).Any(IsField(mp, "resCh").F) {
					continue
				}
				n++
				t := rf.Term(lk.Index)
				dec := CallsIn(onResp, "(*p2p.responseMsg).Decode")
				ok := t.Op == "field" && t.Sym == "ID" && t.Owner == "p2p.responseMsg" && len(dec) == 1 && T(ArgK(dec[0].Call, 0)).String() == t.Args[0].String()
				c.Require("C17.R10 correlation", FuncKey(onResp)+": lookup key", p.InstrPos(lk), "pending entry is looked up by the decoded response's ID", ok, t.String())
			}
		}
		c.MinInstances("C17.R10 lookup", n, 1)
		// both IDs are field number 1
		for _, tn := range []string{"Request", "responseMsg"} {
			tag := structTag(p, "pkg/p2p", tn, "ID")
			c.Require("C17.R10 correlation", "p2p."+tn+".ID tag", "-", "ID is codec field 1 on both sides", strings.Contains(tag, `fieldNumber:"1"`), tag)
		}
	}
}

func isCounterPhi(t *Term) bool {
	if t.Op != "phi" || len(t.Args) != 2 {
		return false
	}
	zero, inc := false, false
	for _, a := range t.Args {
		if a.Op == "const" && a.Sym == "0" {
			zero = true
		}
		if a.Op == "binop" && a.Sym == "+" && (a.Args[1].Sym == "1" || a.Args[0].Sym == "1") {
			inc = true
		}
	}
	return zero && inc
}

func retOfPath(p *Program, path []*ssa.BasicBlock) string {
	if len(path) == 0 {
		return ""
	}
	last := path[len(path)-1]
	for _, in := range last.Instrs {
		if r, ok := in.(*ssa.Return); ok {
			return " reaching return at " + p.InstrPos(r)
		}
	}
	return ""
}

var _ = token.ADD

// structTag returns the tag of field `field` of struct type `name` in package pkgRel.
func structTag(p *Program, pkgRel, name, field string) string {
	pk := p.PkgByRel[pkgRel]
	if pk == nil {
		return ""
	}
	o := pk.Types.Scope().Lookup(name)
	if o == nil {
		return ""
	}
	st, ok := o.Type().Underlying().(*types.Struct)
	if !ok {
		return ""
	}
	for i := 0; i < st.NumFields(); i++ {
		if fieldNameOf(st.Field(i)) == field {
			return st.Tag(i)
		}
	}
	return ""
}

func ff0(fn *ssa.Function) *FuncFacts { return factsOf(fn) }

// checkResponsePathNeverQueues — R15. A reply that has arrived must reach the waiting requester
// within the request's timeout whatever else the node is doing; in particular the response
// stream handler must not wait for something that request handlers hold for as long as the
// application's RPC handler runs (a shared slot, a semaphore, a queue) — with enough slow
// request handlers running, every reply would sit in front of onResponse until the requests
// have timed out, and nested requests made by those handlers could never complete. Structural
// condition: between the function value registered with SetStreamHandler for the response
// protocol and onResponse itself there is no potentially unbounded wait (channel send/receive,
// blocking select, Wait): every function on a call path from the registered handler to
// onResponse, onResponse excluded, is free of blocking operations.
func checkResponsePathNeverQueues(c *Ctx, onResp *ssa.Function) {
	p := c.P
	rule := "C17.R15 response-path-never-queues"
	start := c.Anchor("pkg/p2p.(*MessageProtocol).start")
	if start == nil {
		return
	}
	n := 0
	for _, call := range AllCallsDeep(start) {
		if !strings.HasSuffix(CalleeName(call.Common()), "Host.SetStreamHandler") {
			continue
		}
		args := call.Common().Args
		// a handler produced by a wrapping call — wrap(…, mp.onResponse) — runs the function values it
		// was given: they count as called by the closure the wrapper returns
		wrapsResp := false
		if wc, ok := stripConv(args[len(args)-1]).(*ssa.Call); ok {
			for _, a := range wc.Common().Args {
				if _, isFn := a.Type().Underlying().(*types.Signature); !isFn {
					continue
				}
				for _, w := range funcValueTargets(a, 0) {
					w = unwrapBound(w)
					if w == onResp {
						wrapsResp = true
					} else if _, ok := reachableFrom(p, []*ssa.Function{w}, func(g *ssa.Function) bool { return !strings.HasPrefix(FuncKey(g), "pkg/p2p.") })[onResp]; ok {
						wrapsResp = true
					}
				}
			}
		}
		for _, t := range funcValueTargets(args[len(args)-1], 0) {
			t = unwrapBound(t)
			fwd := reachableFrom(p, []*ssa.Function{t}, func(g *ssa.Function) bool { return !strings.HasPrefix(FuncKey(g), "pkg/p2p.") })
			if _, reaches := fwd[onResp]; !reaches && !wrapsResp {
				continue
			}
			if wrapsResp {
				fwd[onResp] = nil
			}
			n++
			bad := ""
			var fs []*ssa.Function
			for g := range fwd {
				fs = append(fs, g)
			}
			sort.Slice(fs, func(i, j int) bool { return FuncKey(fs[i]) < FuncKey(fs[j]) })
			for _, g := range fs {
				if g == onResp {
					continue
				}
				// on a path to onResponse?
				if _, ok := reachableFrom(p, []*ssa.Function{g}, func(h *ssa.Function) bool { return !strings.HasPrefix(FuncKey(h), "pkg/p2p.") })[onResp]; !ok && !(wrapsResp && g == t) {
					continue
				}
				for _, b := range g.Blocks {
					for _, in := range b.Instrs {
						if d := blockingOp(in); d != "" && bad == "" {
							bad = FuncKey(g) + ": " + d + " at " + p.InstrPos(in) + " before the response handler runs"
						}
					}
				}
			}
			c.Require(rule, FuncKey(start)+": response stream handler "+FuncKey(t), p.InstrPos(call.(ssa.Instruction)), "nothing between the registered response handler and onResponse can wait (a delivered reply is never queued behind running request handlers)", bad == "", bad)
		}
	}
	c.MinInstances(rule, n, 1)
}
