package main

import (
	"fmt"
	"go/token"
	"go/types"
	"strings"

	"golang.org/x/tools/go/ssa"
)

// factsOfConv is factsOf with integer conversions kept visible.
func factsOfConv(fn *ssa.Function) *FuncFacts { return factsOfMode(fn, true) }

// lenDerived: the term is built only from non-negative constants, len()/cap()
// of existing values and + * / % (no subtraction, no conversion that can
// change the value): it is bounded by memory that already exists.
func lenDerived(t *Term) bool {
	switch t.Op {
	case "other":
		return t.Sym == "…" // back-reference to an enclosing φ that is itself being validated
	case "const":
		var n int64
		if _, err := fmt.Sscan(t.Sym, &n); err == nil {
			return n >= 0
		}
		return false
	case "call":
		if t.Sym == "builtin:len" || t.Sym == "builtin:cap" {
			return true
		}
		if strings.HasPrefix(t.Sym, "collection/ints.Min") || strings.HasPrefix(t.Sym, "collection/ints.Max") {
			for _, a := range t.Args {
				if a.Op == "list" {
					for _, e := range a.Args {
						if !lenDerived(e) {
							return false
						}
					}
				}
			}
			return true
		}
	case "binop":
		switch t.Sym {
		case "+", "*", "/", "%", ">>":
			return lenDerived(t.Args[0]) && lenDerived(t.Args[1])
		case "-":
			// c − (x % c) is in [1, c]
			l, r := t.Args[0], t.Args[1]
			if l.Op == "const" && r.Op == "binop" && r.Sym == "%" && r.Args[1].Op == "const" && r.Args[1].Sym == l.Sym && lenDerived(r.Args[0]) {
				return true
			}
		}
	case "phi":
		for _, a := range t.Args {
			if !lenDerived(a) {
				return false
			}
		}
		return len(t.Args) > 0
	}
	return false
}

// isCounter: φ(c0, self+1, …) with c0 ∈ {-1, 0} — a loop counter that only grows from a small constant.
func isCounter(t *Term) bool {
	if t.Op != "phi" {
		return false
	}
	base := false
	for _, a := range t.Args {
		switch {
		case a.Op == "const" && (a.Sym == "-1" || a.Sym == "0"):
			base = true
		case a.Op == "other" && a.Sym == "…":
		case a.Op == "binop" && a.Sym == "+" && nonNegStep(a):
		case a.Op == "phi":
			if !isCounter(a) {
				return false
			}
		default:
			return false
		}
	}
	return base
}

func nonNegStep(a *Term) bool {
	// self + k with k a non-negative constant / len-derived / copy() result
	for _, x := range a.Args {
		if x.Op == "other" || x.Op == "phi" {
			continue
		}
		if !(lenDerived(x) || (x.Op == "call" && x.Sym == "builtin:copy")) {
			return false
		}
	}
	return true
}

// nonNegative: the index term cannot be negative.
func nonNegative(t *Term, typ types.Type) bool {
	if b, ok := typ.Underlying().(*types.Basic); ok && b.Info()&types.IsUnsigned != 0 {
		return true
	}
	if lenDerived(t) || isCounter(t) {
		return true
	}
	if t.Op == "other" && t.Sym == "…" {
		return true
	}
	if t.Op == "call" && t.Sym == "builtin:copy" {
		return true
	}
	if t.Op == "binop" && t.Sym == "+" {
		l, r := t.Args[0], t.Args[1]
		if isCounter(l) && r.Op == "const" && (r.Sym == "1" || r.Sym == "0") {
			return true
		}
		return nonNegative(l, typ) && nonNegative(r, typ)
	}
	if t.Op == "binop" && (t.Sym == "*" || t.Sym == "/" || t.Sym == "%" || t.Sym == ">>") {
		return nonNegative(t.Args[0], typ) && nonNegative(t.Args[1], typ)
	}
	if t.Op == "phi" {
		for _, a := range t.Args {
			if a.Op == "other" {
				continue
			}
			if !(a.Op == "const" && a.Sym == "0") && !nonNegative(a, typ) {
				return false
			}
		}
		return true
	}
	return false
}

// lenTermOf gives the length of a base value as a term: len(make(n)) = n.
func lenTermOf(base *Term) *Term {
	if base.Op == "make" && base.Sym == "slice" && len(base.Args) >= 1 {
		return base.Args[0]
	}
	if base.Op == "load" && len(base.Args) == 1 {
		// *alloc holding a slice: length of the loaded value
		return &Term{Op: "call", Sym: "builtin:len", Args: []*Term{base}}
	}
	return &Term{Op: "call", Sym: "builtin:len", Args: []*Term{base}}
}

// upperBoundedBy reports whether some fact gives  x <= B − k (k >= slack) with
// the linear difference B − x having no other atoms; i.e. x + slack <= B.
func factsEntailLE(fs []Fact, x, bound *Term, slack int64) (bool, string) {
	goal := newLin()
	goal.add(linOf(x), 1)
	goal.add(linOf(bound), -1)
	// want: goal + slack <= 0   i.e. goalLin <= -slack - goalConst
	for _, f := range fs {
		if !f.IsCmp {
			continue
		}
		l := newLin()
		l.add(linOf(f.L), 1)
		l.add(linOf(f.R), -1)
		rel, d, ok := canonRel(f.Op, l.Const)
		if !ok {
			continue
		}
		// fact: l' REL d  where l' = l without const
		for _, sign := range []int64{1, -1} {
			if !sameCoef(l, goal, sign) {
				continue
			}
			r, dd := rel, d
			if sign == -1 { // −l' REL d  ⇔  l' flip(REL) −d
				r, dd = flipRel(rel), -d
			}
			// now: goal' r dd ; need goal' <= -slack - goal.Const
			need := -slack - goal.Const
			if (r == LE || r == EQ) && dd <= need {
				return true, f.String()
			}
		}
	}
	return false, ""
}

func sameCoef(a, b *Lin, sign int64) bool {
	if len(a.Coef) != len(b.Coef) || len(a.Coef) == 0 {
		return false
	}
	for k, c := range a.Coef {
		if b.Coef[k] != sign*c {
			return false
		}
	}
	return true
}

// Discharge is the verdict on one panic-capable site.
type Discharge struct {
	OK   bool
	How  string
	Need string
}

// dischargeIndex: 0 <= idx < len(base).
func dischargeIndex(ff *FuncFacts, blk *ssa.BasicBlock, base, idx ssa.Value) Discharge {
	bt, it := ff.Term(base), ff.Term(idx)
	ln := lenTermOf(bt)
	fs := ff.FactsAt(blk)
	// the position delivered by `for i := range s` over a string: 0 <= i < len(s)
	if ex, ok := stripConv(idx).(*ssa.Extract); ok && ex.Index == 1 {
		if nx, ok := ex.Tuple.(*ssa.Next); ok && nx.IsString {
			if rg, ok := nx.Iter.(*ssa.Range); ok {
				sl := &Term{Op: "call", Sym: "builtin:len", Args: []*Term{ff.Term(rg.X)}}
				if sl.String() == ln.String() {
					return Discharge{true, "position of a range over the string whose length sizes the base", ""}
				}
				if ok, why := factsEntailLE(fs, sl, ln, 0); ok {
					return Discharge{true, "position of a range over a string no longer than the base: " + why, ""}
				}
			}
		}
	}
	if !nonNegative(it, idx.Type()) {
		// an explicit lower-bound fact?
		ok := false
		for _, f := range fs {
			if f.Entails(CmpSpec{A: Matcher{"idx", func(t *Term) bool { return t.String() == it.String() }}, NoB: true, Rel: GE, D: 0}) {
				ok = true
			}
		}
		if !ok {
			return Discharge{false, "", "index may be negative: " + it.String()}
		}
	}
	if ok, why := factsEntailLE(fs, it, ln, 1); ok {
		return Discharge{true, "dominating fact " + why + " entails index < " + ln.String(), ""}
	}
	// the length is known to equal another length (len(a) == len(b) checked on entry): a bound
	// on the index by either length serves
	for _, f := range fs {
		if !f.IsCmp || f.Op != token.EQL {
			continue
		}
		for _, pair := range [][2]*Term{{f.L, f.R}, {f.R, f.L}} {
			if pair[0].String() != ln.String() {
				continue
			}
			if !(pair[1].Op == "call" && pair[1].Sym == "builtin:len") {
				continue
			}
			if ok, why := factsEntailLE(fs, it, pair[1], 1); ok {
				return Discharge{true, "dominating facts " + f.String() + " and " + why + " entail index < " + ln.String(), ""}
			}
		}
	}
	// the standard library's search functions return -1 or a position inside their argument
	if it.Op == "call" && len(it.Args) >= 1 && it.Args[0].String() == bt.String() {
		for _, fnName := range []string{"slices.Index", "slices.IndexFunc"} {
			if it.Sym == fnName || strings.HasPrefix(it.Sym, fnName+"[") {
				return Discharge{true, fnName + " returns a position inside its argument (or -1, excluded by the lower-bound fact)", ""}
			}
		}
	}
	// constant index k with a fact len(base) >= k+1 / != 0 for k == 0 / == n
	if it.Op == "const" {
		var k int64
		fmt.Sscan(it.Sym, &k)
		for _, f := range fs {
			m := Matcher{"len(base)", func(t *Term) bool { return t.String() == ln.String() }}
			if f.Entails(CmpSpec{A: m, NoB: true, Rel: GE, D: k + 1}) {
				return Discharge{true, "dominating fact " + f.String() + " gives len > " + it.Sym, ""}
			}
			if k == 0 && f.Entails(CmpSpec{A: m, NoB: true, Rel: NE, D: 0}) {
				return Discharge{true, "dominating fact " + f.String() + " gives a non-empty base", ""}
			}
		}
	}
	return Discharge{false, "", "no dominating fact entails " + it.String() + " < " + ln.String()}
}

// dischargeSlice: 0 <= lo <= hi <= len/cap(base).
func dischargeSlice(ff *FuncFacts, sl *ssa.Slice) Discharge {
	bt := ff.Term(sl.X)
	ln := lenTermOf(bt)
	fs := ff.FactsAt(sl.Block())
	var need []string
	chk := func(v ssa.Value, name string) {
		if v == nil {
			return
		}
		t := ff.Term(v)
		if !nonNegative(t, v.Type()) {
			need = append(need, name+" may be negative: "+t.String())
			return
		}
		if t.Op == "const" && t.Sym == "0" {
			return
		}
		if ok, _ := factsEntailLE(fs, t, ln, 0); ok {
			return
		}
		if t.Op == "const" {
			var k int64
			fmt.Sscan(t.Sym, &k)
			m := Matcher{"len(base)", func(x *Term) bool { return x.String() == ln.String() }}
			for _, f := range fs {
				if f.Entails(CmpSpec{A: m, NoB: true, Rel: GE, D: k}) {
					return
				}
				if k == 1 && f.Entails(CmpSpec{A: m, NoB: true, Rel: NE, D: 0}) {
					return
				}
			}
		}
		need = append(need, "no dominating fact entails "+name+" "+t.String()+" <= "+ln.String())
	}
	chk(sl.High, "high bound")
	if sl.High == nil {
		chk(sl.Low, "low bound")
	} else if sl.Low != nil {
		lt, ht := ff.Term(sl.Low), ff.Term(sl.High)
		if !nonNegative(lt, sl.Low.Type()) {
			need = append(need, "low bound may be negative")
		}
		// lo <= hi: syntactically hi = lo + nonneg, or a fact
		d := newLin()
		d.add(linOf(ht), 1)
		d.add(linOf(lt), -1)
		if !(len(d.Coef) == 0 && d.Const >= 0) {
			rest := true
			for k, c := range d.Coef {
				if c < 0 || !nonNegative(d.Atom[k], types.Typ[types.Int]) {
					rest = false
				}
			}
			if !rest || d.Const < 0 {
				if ok, _ := factsEntailLE(fs, lt, ht, 0); !ok {
					need = append(need, "low <= high not established: "+lt.String()+" vs "+ht.String())
				}
			}
		}
	}
	if len(need) == 0 {
		return Discharge{true, "bounds entailed by dominating facts", ""}
	}
	return Discharge{false, "", strings.Join(need, "; ")}
}

// dischargeMake: the length is bounded by existing memory or by a dominating upper-bound fact on the un-converted value.
func dischargeMake(ff *FuncFacts, mk *ssa.MakeSlice) Discharge {
	d := dischargeMakeOperand(ff, mk, mk.Len)
	if !d.OK {
		return d
	}
	if _, capC := mk.Cap.(*ssa.Const); !capC && mk.Cap != mk.Len {
		if dc := dischargeMakeOperand(ff, mk, mk.Cap); !dc.OK {
			dc.Need = "capacity: " + dc.Need
			return dc
		}
	}
	return d
}

func dischargeMakeOperand(ff *FuncFacts, mk *ssa.MakeSlice, operand ssa.Value) Discharge {
	if _, isC := operand.(*ssa.Const); isC {
		return Discharge{true, "constant", ""}
	}
	t := ff.Term(operand)
	if lenDerived(t) {
		return Discharge{true, "length derived from len() of existing data and non-negative constants", ""}
	}
	// len(X) − i with i a position inside X (i < len(X) is a dominating fact): between 1 and len(X)
	if t.Op == "binop" && t.Sym == "-" && len(t.Args) == 2 && t.Args[0].Op == "call" && t.Args[0].Sym == "builtin:len" {
		if nonNegative(t.Args[1], operand.Type()) || isCounter(t.Args[1]) {
			if ok, why := factsEntailLE(ff.FactsAt(mk.Block()), t.Args[1], t.Args[0], 0); ok {
				return Discharge{true, "length len(X) − i with " + why + ": between 0 and len(X)", ""}
			}
		}
	}
	src := t
	via := ""
	if t.Op == "conv" {
		src = t.Args[0]
		via = " before the " + t.Sym + " conversion"
	}
	for _, f := range ff.FactsAt(mk.Block()) {
		if !f.IsCmp {
			continue
		}
		// src <= B where B mentions a len() and not src
		for _, o := range []struct {
			x, b *Term
			op   string
		}{{f.L, f.R, f.Op.String()}, {f.R, f.L, mirror(f.Op.String())}} {
			if o.x.String() == src.String() && (o.op == "<=" || o.op == "<") && strings.Contains(o.b.String(), "builtin:len(") && !strings.Contains(o.b.String(), src.String()) {
				return Discharge{true, "dominating fact " + f.String() + " bounds the length by existing data" + via, ""}
			}
		}
	}
	return Discharge{false, "", "length " + t.String() + " has no dominating upper bound tied to the size of existing data"}
}

func mirror(op string) string {
	return map[string]string{"<": ">", ">": "<", "<=": ">=", ">=": "<=", "==": "==", "!=": "!="}[op]
}

// unsafeConversions: sign-changing / narrowing conversions whose result feeds
// an index, slice bound, make length or address arithmetic, where the source
// has no dominating upper bound.
func unsafeConversions(p *Program, ff *FuncFacts) []PanicSite {
	var out []PanicSite
	fn := ff.Fn
	for _, b := range fn.Blocks {
		for _, in := range b.Instrs {
			cv, ok := in.(*ssa.Convert)
			if !ok {
				continue
			}
			k := convKind(cv.X.Type(), cv.Type())
			if k == "" || !strings.Contains(k, "64→int") && !strings.Contains(k, "int64→") && !strings.Contains(k, "uint→") {
				continue
			}
			if !feedsBounds(cv, 0) {
				continue
			}
			src := ff.Term(cv.X)
			if lenDerived(src) || src.Op == "const" {
				continue
			}
			bounded := false
			for _, f := range ff.FactsAt(b) {
				if !f.IsCmp {
					continue
				}
				for _, o := range []struct {
					x, bd *Term
					op    string
				}{{f.L, f.R, f.Op.String()}, {f.R, f.L, mirror(f.Op.String())}} {
					if o.x.String() == src.String() && (o.op == "<=" || o.op == "<") && !strings.Contains(o.bd.String(), src.String()) {
						bounded = true
					}
				}
			}
			if !bounded {
				out = append(out, PanicSite{fn, in, "conv", "conversion " + k + " of " + src.String() + " feeds an index/slice bound/make length without a prior upper bound on the source", p.Pos(cv.Pos())})
			}
		}
	}
	return out
}

// feedsBounds: does v (transitively through arithmetic and φ) reach an index,
// slice bound or make length?
func feedsBounds(v ssa.Value, depth int) bool {
	if depth > 4 || v.Referrers() == nil {
		return false
	}
	for _, r := range *v.Referrers() {
		switch u := r.(type) {
		case *ssa.IndexAddr:
			if u.Index == v {
				return true
			}
		case *ssa.Index:
			if u.Index == v {
				return true
			}
		case *ssa.Slice:
			if u.Low == v || u.High == v || u.Max == v {
				return true
			}
		case *ssa.MakeSlice:
			if u.Len == v || u.Cap == v {
				return true
			}
		case *ssa.BinOp:
			if u.Op.String() == "+" || u.Op.String() == "-" || u.Op.String() == "*" {
				if feedsBounds(u, depth+1) {
					return true
				}
			}
		case *ssa.Phi:
			if feedsBounds(u, depth+1) {
				return true
			}
		case *ssa.Store:
			// stored into a struct field used as cursor (r.index += int(size))
			if _, ok := u.Addr.(*ssa.FieldAddr); ok && u.Val == v {
				return true
			}
		}
	}
	return false
}
