package main

import (
	"fmt"
	"go/token"
	"go/types"

	"golang.org/x/tools/go/ssa"
)

// Hang rules of C09: join counters and result channels local to a request handler.
//
// H1 waitgroup-balance: for a sync.WaitGroup declared in a function reachable from
//    untrusted input, every Add is matched by exactly that many goroutines that
//    always call Done:
//      Add(1)       — every path from the Add to a return, or back to the Add,
//                     starts such a goroutine first;
//      Add(len(X))  — a `range X` loop follows whose body starts such a goroutine on
//                     every path through the body (no continue/break/return before it).
// H2 ranged-channel-closed: a `for … range ch` over a channel made in the same
//    function is preceded by the start of a goroutine that closes ch on every path.

func isWaitGroup(t types.Type) bool {
	if pt, ok := t.Underlying().(*types.Pointer); ok {
		t = pt.Elem()
	}
	nt, ok := t.(*types.Named)
	return ok && nt.Obj().Pkg() != nil && nt.Obj().Pkg().Path() == "sync" && nt.Obj().Name() == "WaitGroup"
}

// boundFreeVar: the free variable of closure mc.Fn bound to v (nil if not captured).
func boundFreeVar(mc *ssa.MakeClosure, v ssa.Value) *ssa.FreeVar {
	fn, ok := mc.Fn.(*ssa.Function)
	if !ok {
		return nil
	}
	for i, b := range mc.Bindings {
		if b == v && i < len(fn.FreeVars) {
			return fn.FreeVars[i]
		}
	}
	return nil
}

// alwaysCalls: does every path through fn execute a call matching pred (deferred calls in
// the entry block count: they run on every exit, including a panic)?
func alwaysCalls(fn *ssa.Function, pred func(c *ssa.CallCommon) bool) bool {
	if len(fn.Blocks) == 0 {
		return false
	}
	for _, in := range fn.Blocks[0].Instrs {
		if d, ok := in.(*ssa.Defer); ok && pred(d.Common()) {
			return true
		}
	}
	first := fn.Blocks[0].Instrs[0]
	if cl, ok := first.(ssa.CallInstruction); ok && pred(cl.Common()) {
		return true
	}
	return reachesReturnAvoiding(first, func(in ssa.Instruction) bool {
		cl, ok := in.(*ssa.Call)
		return ok && pred(cl.Common())
	}, nil) == nil
}

// searchAvoiding walks forward from just after `from`; stops along a path at instructions
// satisfying sat; returns the first instruction satisfying bad that is reached.
func searchAvoiding(from ssa.Instruction, sat, bad func(ssa.Instruction) bool) ssa.Instruction {
	blk := from.Block()
	scan := func(ins []ssa.Instruction) (ssa.Instruction, bool) {
		for _, in := range ins {
			if sat(in) {
				return nil, true
			}
			if bad(in) {
				return in, true
			}
		}
		return nil, false
	}
	if r, stop := scan(blk.Instrs[instrIndex(from)+1:]); stop {
		return r
	}
	seen := map[*ssa.BasicBlock]bool{}
	work := append([]*ssa.BasicBlock{}, blk.Succs...)
	for len(work) > 0 {
		b := work[len(work)-1]
		work = work[:len(work)-1]
		if seen[b] {
			continue
		}
		seen[b] = true
		r, stop := scan(b.Instrs)
		if r != nil {
			return r
		}
		if !stop {
			work = append(work, b.Succs...)
		}
	}
	return nil
}

func checkHangRules(c *Ctx, fns []*ssa.Function) {
	p := c.P
	nWG, nCh := 0, 0
	for _, fn := range fns {
		for _, b := range blocksDeep(fn) {
			for _, in := range b.Instrs {
				al, ok := in.(*ssa.Alloc)
				if !ok || !isWaitGroup(al.Type()) {
					continue
				}
				// uses: Add in fn, goroutines binding it
				var adds []*ssa.Call
				var spawns []*ssa.Go
				escapes := false
				for _, r := range *al.Referrers() {
					switch u := r.(type) {
					case *ssa.Call:
						if CalleeName(u.Common()) == "(*sync.WaitGroup).Add" && len(u.Common().Args) == 2 && ArgK(u, 0) == ssa.Value(al) {
							adds = append(adds, u)
						} else if n := CalleeName(u.Common()); n != "(*sync.WaitGroup).Wait" && n != "(*sync.WaitGroup).Done" {
							escapes = true
						}
					case *ssa.MakeClosure:
						fv := boundFreeVar(u, al)
						cf, _ := u.Fn.(*ssa.Function)
						if fv == nil || cf == nil {
							continue
						}
						done := alwaysCalls(cf, func(cc *ssa.CallCommon) bool {
							return CalleeName(cc) == "(*sync.WaitGroup).Done" && len(cc.Args) == 1 && cc.Args[0] == ssa.Value(fv)
						})
						if !done {
							continue
						}
						for _, rr := range *u.Referrers() {
							if g, ok := rr.(*ssa.Go); ok && g.Common().Value == ssa.Value(u) {
								spawns = append(spawns, g)
							}
						}
					case *ssa.Store, *ssa.Defer, *ssa.DebugRef:
					default:
						escapes = true
					}
				}
				if escapes {
					c.Notes = append(c.Notes, "WaitGroup in "+FuncKey(fn)+" is passed to other functions: its balance is not decided here")
					continue
				}
				isSpawn := func(x ssa.Instruction) bool {
					for _, g := range spawns {
						if x == ssa.Instruction(g) {
							return true
						}
					}
					return false
				}
				for i, add := range adds {
					nWG++
					arg := ArgK(add, 1)
					construct := fmt.Sprintf("%s: WaitGroup.Add #%d", FuncKey(fn), i+1)
					want := "the Add is matched by exactly as many goroutines that always call Done"
					if k, isC := arg.(*ssa.Const); isC {
						if k.Int64() != 1 {
							c.Require("C09.H1 waitgroup-balance", construct, p.InstrPos(add), want, false, "Add of a constant other than 1 is not a recognised form")
							continue
						}
						bad := searchAvoiding(add, isSpawn, func(x ssa.Instruction) bool {
							_, isRet := x.(*ssa.Return)
							return isRet || x == ssa.Instruction(add)
						})
						det := ""
						if bad != nil {
							det = "a path from the Add reaches " + p.InstrPos(bad) + " (return, or the Add again) without starting a goroutine that calls Done: Wait() would never return"
						}
						c.Require("C09.H1 waitgroup-balance", construct, p.InstrPos(add), want, bad == nil, det)
						continue
					}
					argT := T(arg).String()
					// Add(len(X)) + range X
					ok2, det := false, "no `range` loop over the same collection starts the Done goroutines"
					for _, g := range spawns {
						for _, h := range blocksDeep(fn) {
							ifi, isIf := h.Instrs[len(h.Instrs)-1].(*ssa.If)
							if !isIf {
								continue
							}
							cmp, isB := ifi.Cond.(*ssa.BinOp)
							if !isB || cmp.Op != token.LSS || T(cmp.Y).String() != argT {
								continue
							}
							body := h.Succs[0]
							if !reachable(body, g.Block()) || !reachable(g.Block(), h) {
								continue
							}
							// every path through the body passes the spawn
							skip := blockSearchAvoiding(body, ssa.Instruction(g), func(b *ssa.BasicBlock) bool { return b == h }, func(x ssa.Instruction) bool {
								_, isRet := x.(*ssa.Return)
								return isRet
							})
							if skip == "" {
								ok2, det = true, ""
							} else {
								det = "the loop over " + argT + " can skip the goroutine start (" + skip + "): fewer Done calls than the Add counted, Wait() never returns"
							}
						}
					}
					if len(spawns) == 0 {
						det = "no goroutine that always calls Done is started"
					}
					c.Require("C09.H1 waitgroup-balance", construct, p.InstrPos(add), want, ok2, det)
				}
			}
		}
		// H2
		for _, b := range blocksDeep(fn) {
			for _, in := range b.Instrs {
				rcv, ok := in.(*ssa.UnOp)
				if !ok || rcv.Op != token.ARROW || !rcv.CommaOk {
					continue
				}
				// the channel: a MakeChan of this function, directly or through a captured local
				var cell *ssa.Alloc
				ch := rcv.X
				if ld, ok := ch.(*ssa.UnOp); ok && ld.Op == token.MUL {
					if a, ok := ld.X.(*ssa.Alloc); ok {
						cell = a
						if st := uniqueStoreTo(a); st != nil {
							ch = st.Val
						}
					}
				}
				if _, isMk := ch.(*ssa.MakeChan); !isMk {
					continue
				}
				// is the receive in a loop (range)?
				if !reachable(succOrSelf(b), b) {
					continue
				}
				nCh++
				closes := false
				det := "no goroutine started before the loop closes the channel on every path"
				for _, bb := range blocksDeep(fn) {
					for _, x := range bb.Instrs {
						g, ok := x.(*ssa.Go)
						if !ok {
							continue
						}
						mc, ok := g.Common().Value.(*ssa.MakeClosure)
						if !ok {
							continue
						}
						var fv *ssa.FreeVar
						if cell != nil {
							fv = boundFreeVar(mc, cell)
						} else {
							fv = boundFreeVar(mc, ch)
						}
						cf, _ := mc.Fn.(*ssa.Function)
						if fv == nil || cf == nil {
							continue
						}
						closesAll := alwaysCalls(cf, func(cc *ssa.CallCommon) bool {
							if CalleeName(cc) != "builtin:close" {
								return false
							}
							a := cc.Args[0]
							if a == ssa.Value(fv) {
								return true
							}
							ld, ok := a.(*ssa.UnOp)
							return ok && ld.X == ssa.Value(fv)
						})
						if closesAll && (g.Block() == b || g.Block().Dominates(b)) {
							closes = true
						}
					}
				}
				if closes {
					det = ""
				}
				c.Require("C09.H2 ranged-channel-closed", fmt.Sprintf("%s: range over local channel #%d", FuncKey(fn), nCh), p.InstrPos(rcv), "the loop over a channel made here ends: a goroutine started before it closes the channel on all of its paths", closes, det)
			}
		}
	}
	c.MinInstances("C09.H1 waitgroup-balance", nWG, 1)
	c.MinInstances("C09.H2 ranged-channel-closed", nCh, 1)
}

func succOrSelf(b *ssa.BasicBlock) *ssa.BasicBlock {
	if len(b.Succs) > 0 {
		return b.Succs[0]
	}
	return b
}

func uniqueStoreTo(a *ssa.Alloc) *ssa.Store {
	var st *ssa.Store
	for _, r := range *a.Referrers() {
		if s, ok := r.(*ssa.Store); ok && s.Addr == ssa.Value(a) {
			if st != nil {
				return nil
			}
			st = s
		}
	}
	return st
}

// blockSearchAvoiding: from the start of block `from`, is there a path that reaches a block
// satisfying badBlk, or an instruction satisfying badIn, without executing `avoid`?
// Returns a description of the offending place, "" if none.
func blockSearchAvoiding(from *ssa.BasicBlock, avoid ssa.Instruction, badBlk func(*ssa.BasicBlock) bool, badIn func(ssa.Instruction) bool) string {
	seen := map[*ssa.BasicBlock]bool{}
	work := []*ssa.BasicBlock{from}
	first := true
	for len(work) > 0 {
		b := work[len(work)-1]
		work = work[:len(work)-1]
		if seen[b] {
			continue
		}
		if !first && badBlk(b) {
			return fmt.Sprintf("back to the loop head b%d", b.Index)
		}
		first = false
		seen[b] = true
		stop := false
		for _, in := range b.Instrs {
			if in == avoid {
				stop = true
				break
			}
			if badIn(in) {
				return "leaves through a return in b" + fmt.Sprint(b.Index)
			}
		}
		if !stop {
			for _, s := range b.Succs {
				if badBlk(s) {
					return fmt.Sprintf("b%d jumps back to the loop head", b.Index)
				}
				work = append(work, s)
			}
		}
	}
	return ""
}

// checkResultUsedAfterError — C09.E1. `v, err := f(…); if err != nil { log }` followed by a
// use of v: the branch that saw the error does not leave, so v — nil by the usual contract —
// is used on that path (a failed websocket upgrade then crashes the process on the first
// dereference; any client can provoke it). A pointer/interface result may be used only where
// control cannot arrive from the error branch.
func checkResultUsedAfterError(c *Ctx, fns []*ssa.Function) {
	p := c.P
	n := 0
	for _, fn := range fns {
		for _, b := range fn.Blocks {
			for _, in := range b.Instrs {
				call, ok := in.(*ssa.Call)
				if !ok {
					continue
				}
				tup, ok := call.Type().(*types.Tuple)
				if !ok || tup.Len() < 2 || !isErrorType(tup.At(tup.Len()-1).Type()) {
					continue
				}
				var errX *ssa.Extract
				var vals []*ssa.Extract
				for _, r := range *call.Referrers() {
					ex, ok := r.(*ssa.Extract)
					if !ok {
						continue
					}
					if ex.Index == tup.Len()-1 {
						errX = ex
					} else if isPointerLike(ex.Type()) {
						vals = append(vals, ex)
					}
				}
				if errX == nil || len(vals) == 0 {
					continue
				}
				for _, r := range *errX.Referrers() {
					bo, ok := r.(*ssa.BinOp)
					if !ok || bo.Op != token.NEQ {
						continue
					}
					for _, rr := range *bo.Referrers() {
						ifi, ok := rr.(*ssa.If)
						if !ok {
							continue
						}
						n++
						errSucc := ifi.Block().Succs[0]
						// blocks reachable from the error branch
						reach := map[*ssa.BasicBlock]bool{}
						var walk func(x *ssa.BasicBlock)
						walk = func(x *ssa.BasicBlock) {
							if reach[x] {
								return
							}
							reach[x] = true
							for _, s := range x.Succs {
								walk(s)
							}
						}
						walk(errSucc)
						bad := ""
						for _, v := range vals {
							for _, u := range *v.Referrers() {
								if _, isDbg := u.(*ssa.DebugRef); isDbg {
									continue
								}
								if u.Block() != nil && reach[u.Block()] && u.Block() != ifi.Block() {
									// comparing the value with nil is not a use
									if cmp, ok := u.(*ssa.BinOp); ok && (cmp.Op == token.EQL || cmp.Op == token.NEQ) {
										continue
									}
									bad = T(v).String() + " used at " + p.InstrPos(u)
								}
							}
						}
						c.Require("C09.E1 result-not-used-after-its-error", FuncKey(fn)+": "+CalleeName(call.Common()), p.InstrPos(ifi), "a pointer result is used only where control cannot come from the branch that saw the call's error", bad == "", bad)
					}
				}
			}
		}
	}
	c.Count("error-checked calls with pointer results in reachable functions", n)
}

func isErrorType(t types.Type) bool {
	n, ok := t.(*types.Named)
	return ok && n.Obj().Pkg() == nil && n.Obj().Name() == "error"
}

func isPointerLike(t types.Type) bool {
	switch t.Underlying().(type) {
	case *types.Pointer, *types.Interface, *types.Map, *types.Chan:
		return true
	}
	return false
}

// checkNilErrorDereferenced — C09.E2, the mirror of E1. On the branch where `err == nil` is
// known, the error value is nil: calling err.Error() there, or handing err to a function that
// calls Error() on that parameter without testing it, panics (the websocket handler answered a
// *successful* unsubscribe with getErrResponse(id, err, …): any client could crash the node).
func checkNilErrorDereferenced(c *Ctx, fns []*ssa.Function) {
	p := c.P
	n := 0
	derefsParam := func(g *ssa.Function, k int) bool {
		if g == nil || !IsOwn(g) || len(g.Blocks) == 0 || k >= len(g.Params) {
			return false
		}
		prm := g.Params[k]
		gf := factsOf(g)
		for _, u := range *prm.Referrers() {
			call, ok := u.(ssa.CallInstruction)
			if !ok || !call.Common().IsInvoke() || call.Common().Value != ssa.Value(prm) || call.Common().Method.Name() != "Error" {
				continue
			}
			guarded := false
			for _, f := range gf.FactsAt(call.Block()) {
				if f.IsCmp && f.Op == token.NEQ && f.R.Sym == "nil" && f.L.V == ssa.Value(prm) {
					guarded = true
				}
			}
			if !guarded {
				return true
			}
		}
		return false
	}
	for _, fn := range fns {
		for _, b := range fn.Blocks {
			ifi, ok := b.Instrs[len(b.Instrs)-1].(*ssa.If)
			if !ok {
				continue
			}
			bo, ok := ifi.Cond.(*ssa.BinOp)
			if !ok || (bo.Op != token.NEQ && bo.Op != token.EQL) || !isErrorType(bo.X.Type()) {
				continue
			}
			cst, ok := bo.Y.(*ssa.Const)
			if !ok || !cst.IsNil() {
				continue
			}
			n++
			nilIdx := 1 // err != nil: the false successor knows err == nil
			if bo.Op == token.EQL {
				nilIdx = 0
			}
			e := Edge{From: b, To: b.Succs[nilIdx], If: ifi}
			bad := ""
			for _, u := range *bo.X.Referrers() {
				call, ok := u.(ssa.CallInstruction)
				if !ok || u.Block() == nil || !edgeDominates(e, u.Block()) {
					continue
				}
				cc := call.Common()
				if cc.IsInvoke() && cc.Value == bo.X && cc.Method.Name() == "Error" {
					bad = "err.Error() at " + p.InstrPos(u) + " where err is nil"
				}
				if !cc.IsInvoke() {
					for k, a := range cc.Args {
						if a == bo.X && derefsParam(cc.StaticCallee(), k) {
							bad = "nil error handed to " + CalleeName(cc) + " at " + p.InstrPos(u) + ", which calls Error() on it"
						}
					}
				}
			}
			c.Require("C09.E2 nil-error-not-dereferenced", FuncKey(fn)+": branch on "+T(bo.X).String(), p.InstrPos(ifi), "where an error is known to be nil it is not dereferenced (no Error() call on it, directly or in the callee it is handed to)", bad == "", bad)
		}
	}
	c.Count("branches on an error value in reachable functions", n)
}
