package main

import (
	"strings"

	"golang.org/x/tools/go/ssa"
)

// checkPruneKeepsEntryInForce — C02.D5 (also C01, C06). BFT parameters and generator keys are
// stored under their activation height and looked up as "latest entry at or below h". Pruning at
// height h may therefore delete every entry at or below h *except the largest one*, which is the
// one in force at h and later. Structural condition, for deleteBFTParams / deleteGeneratorKeys:
// every key handed to Del is an element of the scan over [0, h], and the one element the loop
// cannot reach is the largest key of that scan — the last element of an ascending scan
// (index ≤ len−2 is a fact at the Del, or the slice ends at len−1) or the first element of a
// descending one (index ≥ 1, or the slice starts at 1).
func checkPruneKeepsEntryInForce(c *Ctx, rule string) {
	p := c.P
	n := 0
	for _, key := range []string{"pkg/consensus/liskbft.deleteBFTParams", "pkg/consensus/liskbft.deleteGeneratorKeys"} {
		fn := c.Anchor(key)
		if fn == nil {
			continue
		}
		for _, call := range AllCallsDeep(fn) {
			cc := call.Common()
			if !(cc.IsInvoke() && cc.Method.Name() == "Del") && !strings.HasSuffix(CalleeName(cc), ".Del") {
				continue
			}
			if len(cc.Args) == 0 {
				continue
			}
			n++
			g := call.Parent()
			ff := factsOf(g)
			K := ff.Term(cc.Args[len(cc.Args)-1])
			var idxT *Term
			K.Walk(func(t *Term) bool {
				if idxT == nil && t.Op == "index" && len(t.Args) == 2 && strings.Contains(t.Args[0].String(), "Range(") {
					idxT = t
				}
				return true
			})
			if idxT == nil {
				c.Require(rule, FuncKey(fn)+": Del", p.InstrPos(call.(ssa.Instruction)), "the deleted key is an element of the scan over [0, height]", false, "key "+K.String()+" is not an element of a Range result")
				continue
			}
			base, idx := idxT.Args[0], idxT.Args[1]
			exclFirst, exclLast := false, false
			scan := base
			if base.Op == "slice" && len(base.Args) >= 3 {
				scan = base.Args[0]
				lo, hi := base.Args[1], base.Args[2]
				if lo.Op == "const" && lo.Sym != "_" && lo.Sym != "0" {
					exclFirst = lo.Sym == "1"
				}
				if hi.Op != "const" || hi.Sym != "_" {
					// hi == len(scan) − 1 ?
					l := newLin()
					l.add(linOf(hi), 1)
					l.add(linOf(lenTermOf(scan)), -1)
					exclLast = l.OK && len(nonZero(l.Coef)) == 0 && l.Const == -1
				}
			} else {
				facts := ff.FactsAt(call.Block())
				if ok, _ := factsEntailLE(facts, idx, lenTermOf(scan), 2); ok {
					exclLast = true // idx <= len − 2
				}
				if ok, _ := factsEntailLE(facts, &Term{Op: "const", Sym: "1"}, idx, 0); ok {
					exclFirst = true // 1 <= idx
				}
			}
			// direction of the scan: last argument of Range
			reverse, known := false, false
			if scan.Op == "call" && len(scan.Args) > 0 {
				la := scan.Args[len(scan.Args)-1]
				if la.Op == "const" && (la.Sym == "true" || la.Sym == "false") {
					reverse, known = la.Sym == "true", true
				}
			}
			ok := known && ((!reverse && exclLast && !exclFirst) || (reverse && exclFirst && !exclLast))
			detail := ""
			if !ok {
				dir := "ascending"
				if reverse {
					dir = "descending"
				}
				if !known {
					dir = "unknown direction"
				}
				detail = "scan " + dir + "; loop cannot reach the first element: " + boolStr(exclFirst) + ", the last element: " + boolStr(exclLast) + " — the surviving entry is not the largest key at or below the height (key " + normIter(K.String()) + ")"
			}
			c.Require(rule, FuncKey(fn)+": Del", p.InstrPos(call.(ssa.Instruction)), "pruning deletes every entry at or below the height except the largest one (the entry in force)", ok, detail)
		}
	}
	c.MinInstances(rule, n, 2)
}

func nonZero(m map[string]int64) map[string]int64 {
	out := map[string]int64{}
	for k, v := range m {
		if v != 0 {
			out[k] = v
		}
	}
	return out
}

func boolStr(b bool) string {
	if b {
		return "yes"
	}
	return "no"
}
