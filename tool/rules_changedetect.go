package main

import (
	"fmt"
	"go/token"
	"go/types"
	"reflect"
	"sort"
	"strings"

	"golang.org/x/tools/go/ssa"
)

// checkChangeDetectionComplete — "G change-detection-complete". The functions that persist
// consensus parameters (BFT parameters, generator keys) may skip the write when "nothing
// changed". Such a skip is sound only if the comparison that licenses it looks at every
// stored field of the compared records: a comparator that ignores a field (a key) keeps the
// old record in force after the application changed exactly that field — blocks are then
// checked against a rotated-out generator key (C03), aggregate commits against rotated-out
// BLS keys and a stale validatorsHash (C06).
//
// Instances: every own comparator call whose "equal" answer lies on an edge from which a
// successful return is reachable without executing the persisting call.
func checkChangeDetectionComplete(c *Ctx, rule string, anchors []string) {
	p := c.P
	n := 0
	for _, key := range anchors {
		fn := c.Anchor(key)
		if fn == nil {
			continue
		}
		ff := factsOf(fn)
		isStore := func(in ssa.Instruction) bool {
			cl, ok := in.(ssa.CallInstruction)
			if !ok {
				return false
			}
			name := CalleeName(cl.Common())
			return strings.HasSuffix(name, "diffdb.SetEncodable") || (cl.Common().IsInvoke() && cl.Common().Method.Name() == "Set")
		}
		seen := map[string]bool{}
		for _, blk := range blocksDeep(fn) {
			if len(blk.Instrs) == 0 {
				continue
			}
			ifi, ok := blk.Instrs[len(blk.Instrs)-1].(*ssa.If)
			if !ok {
				continue
			}
			cond, neg := ifi.Cond, false
			for {
				if u, ok := cond.(*ssa.UnOp); ok && u.Op == token.NOT {
					cond, neg = u.X, !neg
					continue
				}
				break
			}
			call, ok := cond.(*ssa.Call)
			if !ok {
				continue
			}
			cmpFn := call.Common().StaticCallee()
			if cmpFn == nil || !IsProd(cmpFn) || len(cmpFn.Blocks) == 0 {
				continue
			}
			pairs := pairComparators(cmpFn, 0)
			if len(pairs) == 0 {
				continue
			}
			eq := blk.Succs[0]
			if neg {
				eq = blk.Succs[1]
			}
			if len(eq.Instrs) == 0 {
				continue
			}
			// does the "equal" edge reach a successful return without the store?
			first := eq.Instrs[0]
			var path []*ssa.BasicBlock
			if r, isRet := first.(*ssa.Return); isRet {
				if k := classifyReturn(ff, r); k == RetNil || k == RetNoErr {
					path = []*ssa.BasicBlock{eq}
				}
			} else if !isStore(first) {
				path = reachesReturnAvoiding(first, isStore, func(r *ssa.Return) bool {
					k := classifyReturn(ff, r)
					return k == RetNil || k == RetNoErr
				})
			}
			if path == nil {
				continue
			}
			for _, cmpFn := range pairs {
				elem := comparedRecord(cmpFn)
				id := FuncKey(fn) + " ⇒ " + FuncKey(cmpFn)
				if seen[id] {
					continue
				}
				seen[id] = true
				n++
				stored := taggedFields(elem)
				read := fieldsRead(cmpFn, elem, 0)
				var missing []string
				for _, s := range stored {
					if !read[s] {
						missing = append(missing, s)
					}
				}
				sort.Strings(missing)
				c.Require(rule, id, p.InstrPos(first), "a comparison that lets the update be skipped reads every stored field of the compared records", len(missing) == 0, fmt.Sprintf("record %s: stored fields %v; not compared: %v", elem.Obj().Name(), stored, missing))
			}
		}
	}
	c.MinInstances(rule, n, 1)
}

// comparedRecord: the named struct type T when the comparator's receiver/first parameter is a
// slice of T or *T (or T / *T itself) declared in this module with fieldNumber tags.
func comparedRecord(fn *ssa.Function) *types.Named {
	if len(fn.Params) == 0 {
		return nil
	}
	t := fn.Params[0].Type()
	for i := 0; i < 4; i++ {
		switch u := t.(type) {
		case *types.Named:
			if st, ok := u.Underlying().(*types.Struct); ok {
				for j := 0; j < st.NumFields(); j++ {
					if reflect.StructTag(st.Tag(j)).Get("fieldNumber") != "" {
						return u
					}
				}
				return nil
			}
			t = u.Underlying()
		case *types.Slice:
			t = u.Elem()
		case *types.Pointer:
			t = u.Elem()
		default:
			return nil
		}
	}
	return nil
}

func taggedFields(n *types.Named) []string {
	st := n.Underlying().(*types.Struct)
	var out []string
	for j := 0; j < st.NumFields(); j++ {
		if reflect.StructTag(st.Tag(j)).Get("fieldNumber") != "" {
			out = append(out, st.Field(j).Name())
		}
	}
	return out
}

// fieldsRead: fields of rec that fn reads, directly or through own callees (accessors,
// element comparators), to a small depth.
func fieldsRead(fn *ssa.Function, rec *types.Named, depth int) map[string]bool {
	out := map[string]bool{}
	if fn == nil || len(fn.Blocks) == 0 || depth > 3 {
		return out
	}
	isRec := func(t types.Type) bool {
		if pt, ok := t.Underlying().(*types.Pointer); ok {
			t = pt.Elem()
		}
		nn, ok := t.(*types.Named)
		return ok && nn.Obj() == rec.Obj()
	}
	for _, b := range blocksDeep(fn) {
		for _, in := range b.Instrs {
			switch x := in.(type) {
			case *ssa.FieldAddr:
				if isRec(x.X.Type()) {
					st := rec.Underlying().(*types.Struct)
					out[st.Field(x.Field).Name()] = true
				}
			case *ssa.Field:
				if isRec(x.X.Type()) {
					st := rec.Underlying().(*types.Struct)
					out[st.Field(x.Field).Name()] = true
				}
			case ssa.CallInstruction:
				if callee := x.Common().StaticCallee(); callee != nil && callee != fn && IsProd(callee) {
					for k := range fieldsRead(callee, rec, depth+1) {
						out[k] = true
					}
				}
			}
		}
	}
	return out
}

// pairComparators: fn itself when it compares two values of one record (or list-of-records)
// type — receiver and first argument of identical type — else the pair comparators among
// the own functions it calls (a helper such as params.unchanged(validators, …) that
// compares a stored record with raw inputs delegates the list comparison).
func pairComparators(fn *ssa.Function, depth int) []*ssa.Function {
	if fn == nil || depth > 2 || len(fn.Blocks) == 0 || !IsProd(fn) {
		return nil
	}
	if len(fn.Params) >= 2 && types.Identical(fn.Params[0].Type(), fn.Params[1].Type()) && comparedRecord(fn) != nil {
		return []*ssa.Function{fn}
	}
	var out []*ssa.Function
	seen := map[*ssa.Function]bool{}
	for _, call := range AllCallsDeep(fn) {
		g := call.Common().StaticCallee()
		if g == nil || seen[g] || g == fn {
			continue
		}
		seen[g] = true
		out = append(out, pairComparators(g, depth+1)...)
	}
	return out
}
