package main

import (
	_ "embed"
	"fmt"
	"go/ast"
	"go/token"
	"go/types"
	"os"
	"sort"
	"strings"
	"time"

	"golang.org/x/tools/go/callgraph"
	"golang.org/x/tools/go/callgraph/cha"
	"golang.org/x/tools/go/callgraph/vta"
	"golang.org/x/tools/go/packages"
	"golang.org/x/tools/go/ssa"
	"golang.org/x/tools/go/ssa/ssautil"
)

const modPrefix = "github.com/LiskHQ/lisk-engine/"

// Program is the resolved view of /repo that every rule works on.
type Program struct {
	Dir       string
	Fset      *token.FileSet
	Pkgs      []*packages.Package // own-module packages
	PkgByRel  map[string]*packages.Package
	Prog      *ssa.Program
	SSAPkg    map[string]*ssa.Package // by rel path ("pkg/consensus")
	Funcs     map[string]*ssa.Function
	OwnFuncs  []*ssa.Function // all own-module functions incl. anonymous ones, sorted
	cg        *callgraph.Graph
	chaCG     *callgraph.Graph
	LoadSecs  float64
	Renames   []string // "new is old renamed" notes
	BuildTags string
}

// relPkg turns an import path into a module-relative path.
func relPkg(path string) string { return strings.TrimPrefix(path, modPrefix) }

// short strips the module prefix from any qualified name.
func short(s string) string {
	s = strings.ReplaceAll(s, modPrefix+"pkg/", "")
	s = strings.ReplaceAll(s, modPrefix, "")
	return s
}

// Load type-checks the module rooted at dir and builds SSA for it.
// Any type error, or fewer than minPkgs packages, is fatal (exit 2): a
// tree that cannot be analysed is never reported as "holds".
func Load(dir string, tags string, env []string) (*Program, error) {
	t0 := time.Now()
	os.Unsetenv("GOWORK")
	cfg := &packages.Config{
		Mode:  packages.LoadAllSyntax,
		Dir:   dir,
		Tests: false,
		Env:   append(append(os.Environ(), "GOWORK=off", "GOFLAGS=-mod=mod", "GOPROXY=off", "GOSUMDB=off", "GOTOOLCHAIN=local"), env...),
	}
	if tags != "" {
		cfg.BuildFlags = []string{"-tags=" + tags}
	}
	pkgs, err := packages.Load(cfg, "./...")
	if err != nil {
		return nil, fmt.Errorf("packages.Load: %v", err)
	}
	var errs []string
	packages.Visit(pkgs, nil, func(p *packages.Package) {
		for _, e := range p.Errors {
			errs = append(errs, fmt.Sprintf("%s: %s", p.PkgPath, e))
		}
	})
	if len(errs) > 0 {
		sort.Strings(errs)
		if len(errs) > 10 {
			errs = errs[:10]
		}
		return nil, fmt.Errorf("type/load errors:\n  %s", strings.Join(errs, "\n  "))
	}
	if len(pkgs) < 40 {
		return nil, fmt.Errorf("only %d packages loaded from %s (expected >= 40)", len(pkgs), dir)
	}
	p := &Program{Dir: dir, PkgByRel: map[string]*packages.Package{}, SSAPkg: map[string]*ssa.Package{}, Funcs: map[string]*ssa.Function{}, BuildTags: tags}
	prog, ssapkgs := ssautil.AllPackages(pkgs, ssa.InstantiateGenerics)
	prog.Build()
	p.Prog = prog
	p.Fset = prog.Fset
	for i, pk := range pkgs {
		if !strings.HasPrefix(pk.PkgPath, modPrefix) {
			continue
		}
		p.Pkgs = append(p.Pkgs, pk)
		p.PkgByRel[relPkg(pk.PkgPath)] = pk
		if ssapkgs[i] != nil {
			p.SSAPkg[relPkg(pk.PkgPath)] = ssapkgs[i]
		}
	}
	for fn := range ssautil.AllFunctions(prog) {
		if fn.Pkg == nil || fn.Pkg.Pkg == nil || !strings.HasPrefix(fn.Pkg.Pkg.Path(), modPrefix) {
			// instantiations of own generics have Pkg nil; include by origin
			if o := fn.Origin(); o == nil || o.Pkg == nil || !strings.HasPrefix(o.Pkg.Pkg.Path(), modPrefix) {
				continue
			}
		}
		if fn.Synthetic != "" && fn.Origin() == nil {
			if !strings.HasPrefix(fn.Synthetic, "package init") {
				continue // wrappers, bound-method thunks
			}
		}
		p.OwnFuncs = append(p.OwnFuncs, fn)
		p.Funcs[FuncKey(fn)] = fn
	}
	// methods of unexported types that nothing calls are not "reachable" for
	// AllFunctions; rules about generated codecs need them all the same
	for _, sp := range p.SSAPkg {
		for _, mem := range sp.Members {
			tm, ok := mem.(*ssa.Type)
			if !ok {
				continue
			}
			for _, t := range []types.Type{tm.Type(), types.NewPointer(tm.Type())} {
				ms := prog.MethodSets.MethodSet(t)
				for i := 0; i < ms.Len(); i++ {
					fn := prog.MethodValue(ms.At(i))
					if fn == nil || fn.Synthetic != "" || len(fn.Blocks) == 0 {
						continue
					}
					if _, dup := p.Funcs[FuncKey(fn)]; !dup {
						p.Funcs[FuncKey(fn)] = fn
						p.OwnFuncs = append(p.OwnFuncs, fn)
					}
				}
			}
		}
	}
	sort.Slice(p.OwnFuncs, func(i, j int) bool { return FuncKey(p.OwnFuncs[i]) < FuncKey(p.OwnFuncs[j]) })
	p.Renames = append(p.applyFieldRenames(), p.applyRenames()...)
	p.LoadSecs = time.Since(t0).Seconds()
	return p, nil
}

// FuncKey is the stable name of a function: "pkg/consensus.(*Executer).process",
// "pkg/db.New", anonymous: "pkg/x.F$1".
var oldKeyOverride = map[*ssa.Function]string{}

func FuncKey(fn *ssa.Function) string {
	if fn == nil {
		return "<nil>"
	}
	if k, ok := oldKeyOverride[fn]; ok {
		return k
	}
	pkg := ""
	if fn.Pkg != nil && fn.Pkg.Pkg != nil {
		pkg = relPkg(fn.Pkg.Pkg.Path())
	} else if o := fn.Origin(); o != nil && o.Pkg != nil {
		pkg = relPkg(o.Pkg.Pkg.Path())
	}
	if fn.Parent() != nil {
		return FuncKey(fn.Parent()) + "$" + strings.TrimPrefix(fn.Name(), fn.Parent().Name()+"$")
	}
	if recv := fn.Signature.Recv(); recv != nil {
		return pkg + ".(" + types.TypeString(recv.Type(), func(*types.Package) string { return "" }) + ")." + fnName(fn)
	}
	return pkg + "." + fnName(fn)
}

// Fn resolves an anchor. A missing anchor makes the run undecided.
func (p *Program) Fn(key string) *ssa.Function {
	return p.Funcs[key]
}

// funcGroup: "pkg/path.(*T)" for methods, "pkg/path" for plain functions.
func funcGroup(key string) string {
	if i := strings.LastIndex(key, ")."); i >= 0 {
		return key[:i+1]
	}
	if i := strings.LastIndex(key, "."); i >= 0 {
		return key[:i]
	}
	return key
}

// oldName: functions of the reference table that live on under another name, with the
// name the table (and therefore every rule) knows them by.
var oldName = map[*ssa.Function]string{}

func fnName(fn *ssa.Function) string {
	if n, ok := oldName[fn]; ok {
		return n
	}
	return fn.Name()
}

// applyRenames: when, among the functions with the same receiver (or the plain functions
// of one package), exactly one entry of the reference table has disappeared and exactly one
// function is new, the new one is the old one renamed. From then on it is called by its old
// name everywhere (FuncKey, FuncName, callee names), so anchors and callee matches hold.
func (p *Program) applyRenames() []string {
	if len(knownFuncsTxt) < 100 {
		return nil
	}
	knownFunc("")
	missing := map[string][]string{}
	for k := range knownFuncs {
		if strings.Contains(k, "$") {
			continue
		}
		if _, ok := p.Funcs[k]; !ok {
			missing[funcGroup(k)] = append(missing[funcGroup(k)], k)
		}
	}
	fresh := map[string][]*ssa.Function{}
	for k, fn := range p.Funcs {
		if strings.Contains(k, "$") || fn.Synthetic != "" || knownFunc(k) || !IsProd(fn) || fn.Parent() != nil {
			continue
		}
		fresh[funcGroup(k)] = append(fresh[funcGroup(k)], fn)
	}
	var notes []string
	pair := func(old string, fn *ssa.Function) {
		notes = append(notes, FuncKey(fn)+" is "+old+" renamed")
		oldName[fn] = old[strings.LastIndex(old, ".")+1:]
	}
	for g, ms := range missing {
		if len(ms) == 1 && len(fresh[g]) == 1 {
			// one gone, one new: the same function under a new name when it kept its
			// signature or is still called from where the old one was; otherwise a function
			// was removed and an unrelated one added
			if fn := fresh[g][0]; knownSigs[ms[0]] == "" || knownSigs[ms[0]] == sigString(fn) || sharesCaller(p, fn, knownCallers[ms[0]]) {
				pair(ms[0], fn)
			}
			continue
		}
		// several at once: pair those whose signature is unique on both sides
		bySigOld := map[string][]string{}
		for _, m := range ms {
			if s := knownSigs[m]; s != "" {
				bySigOld[s] = append(bySigOld[s], m)
			}
		}
		bySigNew := map[string][]*ssa.Function{}
		for _, fn := range fresh[g] {
			bySigNew[sigString(fn)] = append(bySigNew[sigString(fn)], fn)
		}
		for s, olds := range bySigOld {
			if len(olds) == 1 && len(bySigNew[s]) == 1 {
				pair(olds[0], bySigNew[s][0])
			}
		}
	}
	// receiver kind changed (value ↔ pointer receiver) with the name kept: the same method
	toggle := func(g string) string {
		i := strings.LastIndex(g, "(")
		if i < 0 || !strings.HasSuffix(g, ")") {
			return ""
		}
		if strings.HasPrefix(g[i:], "(*") {
			return g[:i] + "(" + g[i+2:]
		}
		return g[:i] + "(*" + g[i+1:]
	}
	for g, ms := range missing {
		tg := toggle(g)
		if tg == "" {
			continue
		}
		for _, m := range ms {
			base := m[strings.LastIndex(m, ".")+1:]
			for _, fn := range fresh[tg] {
				if fn.Name() == base {
					if _, done := oldKeyOverride[fn]; !done {
						oldKeyOverride[fn] = m
						notes = append(notes, FuncKey(fn)+" is "+m+" with the other receiver kind")
					}
				}
			}
		}
	}
	if len(oldName) > 0 || len(oldKeyOverride) > 0 {
		p.Funcs = map[string]*ssa.Function{}
		for _, fn := range p.OwnFuncs {
			p.Funcs[FuncKey(fn)] = fn
		}
		sort.Slice(p.OwnFuncs, func(i, j int) bool { return FuncKey(p.OwnFuncs[i]) < FuncKey(p.OwnFuncs[j]) })
	}
	sort.Strings(notes)
	return notes
}

// sharesCaller: some function that called the old entry (by the reference table) calls fn.
func sharesCaller(p *Program, fn *ssa.Function, old []string) bool {
	was := map[string]bool{}
	for _, k := range old {
		was[k] = true
	}
	for _, caller := range p.OwnFuncs {
		for _, b := range caller.Blocks {
			for _, in := range b.Instrs {
				if cl, ok := in.(ssa.CallInstruction); ok && cl.Common().StaticCallee() == fn {
					root := caller
					for root.Parent() != nil {
						root = root.Parent()
					}
					if was[FuncKey(root)] {
						return true
					}
				}
			}
		}
	}
	return false
}

func (p *Program) Pos(pos token.Pos) string {
	if !pos.IsValid() {
		return "-"
	}
	ps := p.Fset.Position(pos)
	f := strings.TrimPrefix(ps.Filename, p.Dir+"/")
	return fmt.Sprintf("%s:%d:%d", f, ps.Line, ps.Column)
}

// InstrPos gives the best source position for an instruction.
func (p *Program) InstrPos(in ssa.Instruction) string {
	pos := in.Pos()
	if !pos.IsValid() {
		if v, ok := in.(ssa.Value); ok {
			_ = v
		}
		// fall back to the nearest positioned instruction in the block
		if b := in.Block(); b != nil {
			for _, x := range b.Instrs {
				if x.Pos().IsValid() {
					pos = x.Pos()
					if x == in {
						break
					}
				}
			}
		}
	}
	if !pos.IsValid() && in.Parent() != nil {
		pos = in.Parent().Pos()
	}
	return p.Pos(pos)
}

// CHA returns the class-hierarchy call graph (cheap, coarse).
func (p *Program) CHA() *callgraph.Graph {
	if p.chaCG == nil {
		p.chaCG = cha.CallGraph(p.Prog)
	}
	return p.chaCG
}

// CG returns the VTA call graph (most precise one available here).
func (p *Program) CG() *callgraph.Graph {
	if p.cg == nil {
		p.cg = vta.CallGraph(ssautil.AllFunctions(p.Prog), p.CHA())
	}
	return p.cg
}

// IsOwn reports whether fn belongs to the analysed module.
func IsOwn(fn *ssa.Function) bool {
	if fn == nil {
		return false
	}
	if fn.Pkg != nil && fn.Pkg.Pkg != nil {
		return strings.HasPrefix(fn.Pkg.Pkg.Path(), modPrefix)
	}
	if o := fn.Origin(); o != nil && o.Pkg != nil {
		return strings.HasPrefix(o.Pkg.Pkg.Path(), modPrefix)
	}
	if fn.Parent() != nil {
		return IsOwn(fn.Parent())
	}
	return false
}

// IsProd excludes debug commands and test helpers from "production" scope.
func IsProd(fn *ssa.Function) bool {
	k := FuncKey(fn)
	return IsOwn(fn) && strings.HasPrefix(k, "pkg/") && !strings.Contains(k, "/internal/codec_test") && !strings.HasPrefix(k, "pkg/codec/gen")
}

// Callees resolves the possible own-module targets of a call instruction:
// the static callee when there is one, otherwise the VTA targets.
func (p *Program) Callees(call ssa.CallInstruction) []*ssa.Function {
	if f := call.Common().StaticCallee(); f != nil {
		return []*ssa.Function{f}
	}
	n := p.CG().Nodes[call.Parent()]
	if n == nil {
		return nil
	}
	var out []*ssa.Function
	seen := map[*ssa.Function]bool{}
	for _, e := range n.Out {
		if e.Site == call && !seen[e.Callee.Func] {
			seen[e.Callee.Func] = true
			out = append(out, e.Callee.Func)
		}
	}
	sort.Slice(out, func(i, j int) bool { return FuncKey(out[i]) < FuncKey(out[j]) })
	return out
}

// CalleeName is the qualified, module-shortened name of what a call targets:
// static function, interface method ("iface:labi.ABI.Commit"), builtin, or "dyn".
func CalleeName(c *ssa.CallCommon) string {
	if c.IsInvoke() {
		recv := types.TypeString(c.Value.Type(), func(p *types.Package) string { return relPkgName(p) })
		return "iface:" + recv + "." + c.Method.Name()
	}
	switch v := c.Value.(type) {
	case *ssa.Function:
		return FuncName(v)
	case *ssa.Builtin:
		return "builtin:" + v.Name()
	case *ssa.MakeClosure:
		if f, ok := v.Fn.(*ssa.Function); ok {
			return FuncName(f)
		}
	}
	return "dyn"
}

func relPkgName(p *types.Package) string {
	if p == nil {
		return ""
	}
	path := p.Path()
	if strings.HasPrefix(path, modPrefix) {
		return strings.TrimPrefix(strings.TrimPrefix(path, modPrefix), "pkg/")
	}
	return path
}

// FuncName is like FuncKey but also works for foreign functions:
// "(*sync.RWMutex).RLock", "bytes.Equal", "(*blockchain.Chain).AddBlock".
func FuncName(fn *ssa.Function) string {
	if fn == nil {
		return "<nil>"
	}
	if fn.Parent() != nil {
		return FuncName(fn.Parent()) + "$" + strings.TrimPrefix(fn.Name(), fn.Parent().Name()+"$")
	}
	q := func(p *types.Package) string { return relPkgName(p) }
	if recv := fn.Signature.Recv(); recv != nil {
		return "(" + types.TypeString(recv.Type(), q) + ")." + fnName(fn)
	}
	if fn.Pkg != nil && fn.Pkg.Pkg != nil {
		return relPkgName(fn.Pkg.Pkg) + "." + fnName(fn)
	}
	if o := fn.Origin(); o != nil && o.Pkg != nil {
		return relPkgName(o.Pkg.Pkg) + "." + fnName(fn)
	}
	return fnName(fn)
}

// FileOf returns the syntax file containing pos.
func (p *Program) FileOf(pos token.Pos) (*packages.Package, *ast.File) {
	for _, pk := range p.Pkgs {
		for _, f := range pk.Syntax {
			if f.Pos() <= pos && pos <= f.End() {
				return pk, f
			}
		}
	}
	return nil, nil
}

// ---------------------------------------------------------------------------
// Renamed struct fields (same idea as applyRenames, for fields).

//go:embed known_fields.txt
var knownFieldsTxt string

// oldFieldName: fields of the reference table that live on under another name.
var oldFieldName = map[*types.Var]string{}

func fieldNameOf(f *types.Var) string {
	if n, ok := oldFieldName[f]; ok {
		return n
	}
	return f.Name()
}

// structFields lists "pkg/path.Type<TAB>field<TAB>type" for every named struct type of the module.
func (p *Program) structFields() []string {
	var out []string
	for _, pk := range p.Pkgs {
		sc := pk.Types.Scope()
		for _, n := range sc.Names() {
			tn, ok := sc.Lookup(n).(*types.TypeName)
			if !ok {
				continue
			}
			st, ok := tn.Type().Underlying().(*types.Struct)
			if !ok {
				continue
			}
			for i := 0; i < st.NumFields(); i++ {
				f := st.Field(i)
				out = append(out, relPkg(pk.PkgPath)+"."+n+"\t"+f.Name()+"\t"+types.TypeString(f.Type(), func(q *types.Package) string { return relPkgName(q) }))
			}
		}
	}
	// by type; the fields of one type stay in declaration order
	sort.SliceStable(out, func(i, j int) bool {
		return out[i][:strings.Index(out[i], "\t")] < out[j][:strings.Index(out[j], "\t")]
	})
	return out
}

// applyFieldRenames: within one struct type, exactly one table field gone and exactly one new
// field of the very same type: the new one is the old one renamed.
func (p *Program) applyFieldRenames() []string {
	if len(knownFieldsTxt) < 100 {
		return nil
	}
	known := map[string]map[string]string{} // type → field → fieldtype
	knownAt := map[string]map[string]int{}  // type → field → position in the struct
	for _, l := range strings.Split(knownFieldsTxt, "\n") {
		parts := strings.Split(l, "\t")
		if len(parts) != 3 {
			continue
		}
		if known[parts[0]] == nil {
			known[parts[0]] = map[string]string{}
			knownAt[parts[0]] = map[string]int{}
		}
		knownAt[parts[0]][parts[1]] = len(known[parts[0]])
		known[parts[0]][parts[1]] = parts[2]
	}
	var notes []string
	for _, pk := range p.Pkgs {
		sc := pk.Types.Scope()
		for _, n := range sc.Names() {
			tn, ok := sc.Lookup(n).(*types.TypeName)
			if !ok {
				continue
			}
			st, ok := tn.Type().Underlying().(*types.Struct)
			if !ok {
				continue
			}
			key := relPkg(pk.PkgPath) + "." + n
			kf := known[key]
			if kf == nil {
				continue
			}
			cur := map[string]*types.Var{}
			curAt := map[*types.Var]int{}
			for i := 0; i < st.NumFields(); i++ {
				cur[st.Field(i).Name()] = st.Field(i)
				curAt[st.Field(i)] = i
			}
			var gone []string
			for f := range kf {
				if cur[f] == nil {
					gone = append(gone, f)
				}
			}
			sort.Strings(gone)
			var fresh []*types.Var
			for i := 0; i < st.NumFields(); i++ {
				if _, ok := kf[st.Field(i).Name()]; !ok {
					fresh = append(fresh, st.Field(i))
				}
			}
			typeOf := func(v *types.Var) string {
				return types.TypeString(v.Type(), func(q *types.Package) string { return relPkgName(q) })
			}
			// a gone field and a new field of the very same type are one field renamed when
			// they are the only such pair, or when they sit at the same place in the struct
			for _, g := range gone {
				var cands, samePlace []*types.Var
				for _, f := range fresh {
					if typeOf(f) == kf[g] {
						cands = append(cands, f)
						if len(kf) == st.NumFields() && curAt[f] == knownAt[key][g] {
							samePlace = append(samePlace, f)
						}
					}
				}
				nGoneOfType := 0
				for _, g2 := range gone {
					if kf[g2] == kf[g] {
						nGoneOfType++
					}
				}
				var pick *types.Var
				if len(cands) == 1 && nGoneOfType == 1 {
					pick = cands[0]
				} else if len(samePlace) == 1 {
					pick = samePlace[0]
				}
				if pick != nil {
					oldFieldName[pick] = g
					notes = append(notes, key+"."+pick.Name()+" is field "+g+" renamed")
				}
			}
		}
	}
	sort.Strings(notes)
	return notes
}

// sigString: parameter and result types of a function, package paths shortened.
func sigString(fn *ssa.Function) string {
	q := func(pk *types.Package) string { return relPkgName(pk) }
	tup := func(t *types.Tuple, sorted bool) string {
		var parts []string
		for i := 0; i < t.Len(); i++ {
			parts = append(parts, types.TypeString(t.At(i).Type(), q))
		}
		if sorted {
			sort.Strings(parts) // a renamed function may also have its parameters reordered
		}
		return strings.Join(parts, ",")
	}
	s := "(" + tup(fn.Signature.Params(), true) + ")(" + tup(fn.Signature.Results(), false) + ")"
	if fn.Signature.Variadic() {
		s += "..."
	}
	return s
}

// ---------------------------------------------------------------------------
// Reordered parameters: the reference table records the parameter names of every function;
// when a function still has exactly those names in another order, positions are read in
// the old order on both sides (argument k at call sites, parameter pk inside the body).

var knownParams map[string][]string

var permMemo = map[*ssa.Function][]int{} // old index → current index (nil: identity)

func paramPerm(fn *ssa.Function) []int {
	if fn == nil {
		return nil
	}
	if v, ok := permMemo[fn]; ok {
		return v
	}
	permMemo[fn] = nil
	knownFunc("")
	old := knownParams[FuncKey(fn)]
	if len(old) == 0 || len(old) != len(fn.Params) {
		return nil
	}
	cur := map[string]int{}
	for i, p := range fn.Params {
		if p.Name() == "" || p.Name() == "_" {
			return nil
		}
		if _, dup := cur[p.Name()]; dup {
			return nil
		}
		cur[p.Name()] = i
	}
	perm := make([]int, len(old))
	identity := true
	for k, name := range old {
		i, ok := cur[name]
		if !ok {
			return nil
		}
		perm[k] = i
		if i != k {
			identity = false
		}
	}
	if identity {
		return nil
	}
	permMemo[fn] = perm
	return perm
}

// oldParamIndex: the position parameter number cur had when the rules were written.
func oldParamIndex(fn *ssa.Function, cur int) int {
	perm := paramPerm(fn)
	for k, i := range perm {
		if i == cur {
			return k
		}
	}
	return cur
}

// ArgK: the argument of a call that binds what was parameter k of the callee when the rules
// were written (receiver included for static method calls).
func ArgK(c ssa.CallInstruction, k int) ssa.Value {
	args := c.Common().Args
	if g := c.Common().StaticCallee(); g != nil {
		if perm := paramPerm(g); perm != nil && k < len(perm) && perm[k] < len(args) {
			return args[perm[k]]
		}
	}
	return args[k]
}
