package main

import (
	"fmt"
	"go/token"
	"strings"

	"golang.org/x/tools/go/ssa"
)

func init() {
	register("C16", "Structural necessary conditions of atomic transaction execution and state-root bookkeeping, for every path: "+
		"(R1) in ExecuteTransaction the event snapshot and the store snapshot dominate the command's Execute; the error edge — and only it — restores the same snapshot id and then the event log; every path that did not fail to restore reaches DeleteSnapshot; the standard event carrying the success flag post-dominates on non-invalid paths and Fail/OK results follow the flag; "+
		"(R2) revertible vs unrevertible: EventLogger.Add records noRevert=false, AddUnrevertible noRevert=true (a discriminator only ever assigned one constant makes RestoreSnapshot's branch vacuous); restored events are re-indexed consecutively; both block executers re-index (UpdateIndex) after their last append; "+
		"(R3) delete sentinel agreement: the value stateSMTBatch.Del hands to the trie has static length 0 — what the trie's update treats as removal — while Set hands a hash; "+
		"(R4) Commit/revert: state diff, tree nodes and the tree-state marker go into one batch applied once; both write the same marker key; revert reads the diff Commit wrote; "+
		"(R6) the store snapshot restored after a failed command is a faithful deep copy that preserves the not-in-database sentinel; "+
		"(R5) typestate of the recovery path: every dereference of ABIHandler.executionContext reachable from Init is dominated by a non-nil fact (Init runs before any context exists).",
		runC16)
}

func runC16(c *Ctx) {
	p := c.P
	c.Assume = append(c.Assume, "equality of roots and module behaviour are value-level (C10) and not decided")
	exec := c.Anchor("pkg/statemachine.(*Executer).ExecuteTransaction")
	add := c.Anchor("pkg/statemachine.(*EventLogger).Add")
	addU := c.Anchor("pkg/statemachine.(*EventLogger).AddUnrevertible")
	restore := c.Anchor("pkg/statemachine.(*EventLogger).RestoreSnapshot")
	bDel := c.Anchor("pkg/framework.(*stateSMTBatch).Del")
	bSet := c.Anchor("pkg/framework.(*stateSMTBatch).Set")
	commit := c.Anchor("pkg/framework.(*ABIHandler).Commit")
	revert := c.Anchor("pkg/framework.(*ABIHandler).revert")
	initFn := c.Anchor("pkg/framework.(*ABIHandler).Init")
	if exec == nil || add == nil || addU == nil || restore == nil || bDel == nil || bSet == nil || commit == nil || revert == nil || initFn == nil {
		return
	}

	// ---- R1
	{
		ff := factsOf(exec)
		one := func(name string) ssa.CallInstruction {
			s := CallsIn(exec, name)
			if len(s) != 1 {
				c.Require("C16.R1 snapshot-protocol", FuncKey(exec)+": "+name, p.Pos(exec.Pos()), "exactly one call of "+name, false, fmt.Sprint(len(s)))
				return nil
			}
			return s[0].Call
		}
		cmd := one("iface:statemachine.Command.Execute")
		evSnap := one("(*statemachine.EventLogger).CreateSnapshot")
		stSnap := one("(*db/diffdb.Database).Snapshot")
		stRest := one("(*db/diffdb.Database).RestoreSnapshot")
		evRest := one("(*statemachine.EventLogger).RestoreSnapshot")
		stDel := one("(*db/diffdb.Database).DeleteSnapshot")
		if cmd == nil || evSnap == nil || stSnap == nil || stRest == nil || evRest == nil || stDel == nil {
			return
		}
		c.Require("C16.R1 snapshot-protocol", "snapshots ≺ command.Execute", p.InstrPos(cmd), "event snapshot and store snapshot are taken before the command runs", instrDominates(evSnap, cmd) && instrDominates(stSnap, cmd), "")
		// nothing else that can log events or write state runs between the snapshots and the
		// command: a restore rolls back exactly what the command did, not what a module's
		// before-command hook (fee deduction and its event) did just before it
		for _, snap := range []ssa.CallInstruction{evSnap, stSnap} {
			for _, call := range AllCallsDeep(exec) {
				if !call.Common().IsInvoke() || call == cmd {
					continue
				}
				rt := typeName(call.Common().Value.Type())
				if !strings.HasSuffix(rt, "statemachine.Module") && !strings.HasSuffix(rt, "statemachine.Command") {
					continue
				}
				if call.Common().Method.Name() == "Name" || call.Common().Method.Name() == "ID" {
					continue
				}
				between := instrDominates(snap, call) && instrReachesAvoiding(snap.(ssa.Instruction), call.(ssa.Instruction), snap.(ssa.Instruction)) && instrReachesAvoiding(call.(ssa.Instruction), cmd.(ssa.Instruction), call.(ssa.Instruction))
				c.Require("C16.R1 snapshot-protocol", CalleeName(snap.Common())+" … "+CalleeName(call.Common())+" … command.Execute", p.InstrPos(call), "no module or command hook runs between taking the snapshot and executing the command", !between, "")
			}
		}
		// restore only on the error edge
		cmdErr := Matcher{"command.Execute error", func(t *Term) bool { return t.V == cmd.Value() }}
		failed := func(blk *ssa.BasicBlock) bool {
			for _, f := range ff.FactsAt(blk) {
				if f.IsCmp && f.Op.String() == "!=" && cmdErr.Match(f.L) && f.R.Sym == "nil" {
					return true
				}
			}
			return false
		}
		c.Require("C16.R1 snapshot-protocol", "restore only when the command failed", p.InstrPos(stRest), "store and event RestoreSnapshot are control-dependent on command.Execute(...) != nil", failed(stRest.Block()) && failed(evRest.Block()), "")
		// the error edge always restores: from the error edge no return is reached without the store restore,
		// and after a successful store restore the event restore follows
		for i, e := range ff.Edges {
			f := ff.Facts[i]
			if f.IsCmp && f.Op.String() == "!=" && cmdErr.Match(f.L) && f.R.Sym == "nil" {
				// a later test of the same (immutable) result: every run taking it already took
				// the earlier failure edge, whose obligation covers it
				later := false
				for j, e2 := range ff.Edges {
					g := ff.Facts[j]
					if e2.If.Block() != e.If.Block() && g.IsCmp && g.Op.String() == "!=" && cmdErr.Match(g.L) && g.R.Sym == "nil" &&
						e2.If.Parent() == e.If.Parent() && e2.If.Block().Dominates(e.If.Block()) {
						later = true
					}
				}
				if later {
					continue
				}
				first := e.To.Instrs[0]
				path := reachesReturnAvoiding(first, func(in ssa.Instruction) bool { return in == stRest.(ssa.Instruction) }, nil)
				if first == stRest.(ssa.Instruction) {
					path = nil
				}
				c.Require("C16.R1 snapshot-protocol", "failed command ⇒ store restore", p.InstrPos(e.If), "every path from the failure edge restores the store snapshot", path == nil, pathStr(path))
			}
		}
		path := reachesReturnAvoiding(stRest, func(in ssa.Instruction) bool { return in == evRest.(ssa.Instruction) }, func(r *ssa.Return) bool {
			// returns on the restore-error edge are the invalid exit and allowed
			ok, _ := ff.NilErrAt(r.Block(), Matcher{"restore error", func(t *Term) bool { return t.V == stRest.Value() }})
			return ok
		})
		c.Require("C16.R1 snapshot-protocol", "store restore ⇒ event restore", p.InstrPos(evRest), "after the store was restored the command's revertible events are dropped too", path == nil, pathStr(path))
		// same snapshot id
		idArg := stripConv(ArgK(stRest, 1))
		delArg := stripConv(ArgK(stDel, 1))
		c.Require("C16.R1 snapshot-protocol", "snapshot id", p.InstrPos(stRest), "RestoreSnapshot and DeleteSnapshot use the id returned by Snapshot()", idArg == stSnap.Value() && delArg == stSnap.Value(), "")
		// DeleteSnapshot on all non-invalid paths
		path = reachesReturnAvoiding(cmd, func(in ssa.Instruction) bool { return in == stDel.(ssa.Instruction) }, func(r *ssa.Return) bool {
			t := ff.Term(r.Results[0])
			return !strings.Contains(t.String(), "NewExecResultInvalid")
		})
		c.Require("C16.R1 snapshot-protocol", "DeleteSnapshot on every non-invalid exit", p.InstrPos(stDel), "the snapshot is released on every path that does not abort as invalid", path == nil, pathStr(path))
		// standard event
		var std ssa.CallInstruction
		for _, s := range CallsIn(exec, "(*statemachine.EventLogger).Add") {
			if strings.Contains(T(ArgK(s.Call, 3)).String(), "NewStandardTransactionEventData") {
				std = s.Call
			}
		}
		okStd := std != nil
		c.Require("C16.R1 standard-event", FuncKey(exec)+": standard event", p.Pos(exec.Pos()), "the standard transaction event is recorded", okStd, "")
		if okStd {
			path = reachesReturnAvoiding(cmd, func(in ssa.Instruction) bool { return in == std.(ssa.Instruction) }, func(r *ssa.Return) bool {
				return !strings.Contains(ff.Term(r.Results[0]).String(), "NewExecResultInvalid")
			})
			c.Require("C16.R1 standard-event", "standard event on every non-invalid exit", p.InstrPos(std), "both successful and failed commands record the standard event", path == nil, pathStr(path))
			// after the restore (so that it survives), i.e. not dominated by … it must come after evRest on the failure path
			c.Require("C16.R1 standard-event", "standard event after the event restore", p.InstrPos(std), "the standard event is added after the revertible events were dropped", !reachable(std.Block(), evRest.Block()) || std.Block() == evRest.Block() && instrIndex(evRest) < instrIndex(std), "")
			// success flag: φ(true, false) with false from the failure edge
			var flag ssa.Value
			if cl, ok := stripConv(ArgK(std, 3)).(*ssa.Call); ok {
				flag = ArgK(cl, 0)
			}
			okFlag := false
			detail := ""
			// the error value the flag may be computed from: the command's error itself, or a
			// variable that is nil unless it was assigned the command's error
			isCmdErrExpr := func(t *Term) bool {
				if cmdErr.Match(t) || (t.Orig != nil && t.Orig == cmd.Value()) {
					return true
				}
				if t.Op != "phi" {
					return false
				}
				sawErr := false
				for _, a := range t.Args {
					switch {
					case a.Op == "const" && a.Sym == "nil":
					case cmdErr.Match(a) || (a.Orig != nil && a.Orig == cmd.Value()) || (a.Op == "call" && a.Call == cmd):
						sawErr = true
					default:
						return false
					}
				}
				return sawErr
			}
			flagIsErrNil := false
			if ft := ff.Term(flag); ft.Op == "binop" && ft.Sym == "==" && len(ft.Args) == 2 {
				l, r := ft.Args[0], ft.Args[1]
				if l.Op == "const" && l.Sym == "nil" {
					l, r = r, l
				}
				if r.Op == "const" && r.Sym == "nil" && isCmdErrExpr(l) {
					flagIsErrNil, okFlag = true, true
					detail = "flag is (" + ft.String() + ")"
				}
			}
			flagFact := func(blk *ssa.BasicBlock, want bool) bool {
				if ok, _ := ff.BoolHoldsAt(blk, Matcher{"success flag", func(x *Term) bool { return x.V == flag }}, want); ok {
					return true
				}
				if !flagIsErrNil {
					return false
				}
				for _, f := range ff.FactsAt(blk) {
					if f.IsCmp && f.R.Op == "const" && f.R.Sym == "nil" && isCmdErrExpr(f.L) && ((want && f.Op.String() == "==") || (!want && f.Op.String() == "!=")) {
						return true
					}
				}
				return false
			}
			if phi, ok := flag.(*ssa.Phi); ok {
				okFlag = true
				for i, e := range phi.Edges {
					cst, isC := e.(*ssa.Const)
					if !isC {
						okFlag = false
						break
					}
					pred := phi.Block().Preds[i]
					isFail := failed(pred)
					for _, f := range ff.FactsOnEdge(pred, phi.Block()) {
						if f.IsCmp && f.Op.String() == "!=" && cmdErr.Match(f.L) && f.R.Sym == "nil" {
							isFail = true
						}
					}
					val := cst.Value.ExactString() == "true"
					detail += fmt.Sprintf("[edge %d: %v fail=%v] ", i, val, isFail)
					if val == isFail {
						okFlag = false
					}
				}
			}
			c.Require("C16.R1 standard-event", "success flag", p.InstrPos(std), "the flag is true exactly on the edge where the command returned nil", okFlag, detail)
			// result follows the flag
			for _, r := range Returns(exec) {
				if r.Block() == exec.Recover {
					continue
				}
				t := ff.Term(r.Results[0]).String()
				if strings.Contains(t, "NewExecResultFail") {
					ok := flagFact(r.Block(), false)
					c.Require("C16.R1 result-follows-flag", "ExecResultFail", p.InstrPos(r), "Fail is returned only when the command failed", ok, "")
				}
				if strings.Contains(t, "NewExecResultOK") {
					ok := flagFact(r.Block(), true)
					c.Require("C16.R1 result-follows-flag", "ExecResultOK", p.InstrPos(r), "OK is returned only when the command succeeded", ok, "")
				}
			}
		}
	}

	// ---- R2 discriminator
	noRevertOf := func(fn *ssa.Function) (string, ssa.Instruction) {
		for _, b := range blocksDeep(fn) {
			for _, in := range b.Instrs {
				st, ok := in.(*ssa.Store)
				if !ok {
					continue
				}
				fa, ok := st.Addr.(*ssa.FieldAddr)
				if !ok {
					continue
				}
				o, s := ownerOfFieldBase(fa.X.Type())
				if o == "statemachine.loggedEvent" && fieldNameOf(s.Field(fa.Field)) == "noRevert" {
					return T(st.Val).String(), st
				}
			}
		}
		return "false", nil // zero value when the field is not set in the literal
	}
	{
		v1, s1 := noRevertOf(add)
		v2, s2 := noRevertOf(addU)
		site1, site2 := p.Pos(add.Pos()), p.Pos(addU.Pos())
		if s1 != nil {
			site1 = p.InstrPos(s1)
		}
		if s2 != nil {
			site2 = p.InstrPos(s2)
		}
		c.Require("C16.R2 revertible-discriminator", "EventLogger.Add ⇒ loggedEvent.noRevert", site1, "events added with Add are revertible (noRevert = false)", v1 == "false", "noRevert = "+v1)
		c.Require("C16.R2 revertible-discriminator", "EventLogger.AddUnrevertible ⇒ loggedEvent.noRevert", site2, "events added with AddUnrevertible survive a restore (noRevert = true)", v2 == "true", "noRevert = "+v2)
		// RestoreSnapshot keeps exactly noRevert events and re-indexes them snapshotIndex + k
		rf := factsOf(restore)
		okKeep, okIdx := false, false
		// every append that builds the list v happens where the event is known to be noRevert
		var builtUnderNoRevert func(v ssa.Value, seen map[ssa.Value]bool) bool
		builtUnderNoRevert = func(v ssa.Value, seen map[ssa.Value]bool) bool {
			v = stripConv(v)
			if seen[v] {
				return true
			}
			seen[v] = true
			switch x := v.(type) {
			case *ssa.Phi:
				for _, e := range x.Edges {
					if !builtUnderNoRevert(e, seen) {
						return false
					}
				}
				return true
			case *ssa.Call:
				if CalleeName(x.Common()) != "builtin:append" {
					return false
				}
				keep, _ := rf.BoolHoldsAt(x.Block(), IsField("statemachine.loggedEvent", "noRevert"), true)
				return keep && builtUnderNoRevert(x.Common().Args[0], seen)
			case *ssa.Slice:
				_, lit := x.X.(*ssa.Alloc)
				return lit
			case *ssa.Const:
				return true
			}
			return false
		}
		for _, b := range blocksDeep(restore) {
			for _, in := range b.Instrs {
				if st, ok := in.(*ssa.Store); ok {
					if fa, ok := st.Addr.(*ssa.FieldAddr); ok {
						o, s := ownerOfFieldBase(fa.X.Type())
						if o == "blockchain.Event" && fieldNameOf(s.Field(fa.Field)) == "Index" {
							// the value is snapshotIndex + position in the kept list: its length so far
							// while it is built, or the index of a loop over it
							sum, isSum := stripConv(st.Val).(*ssa.BinOp)
							if !isSum || sum.Op != token.ADD {
								continue
							}
							pos := sum.Y
							if !strings.Contains(rf.Term(sum.X).String(), "snapshotIndex") {
								pos = sum.X
								if !strings.Contains(rf.Term(sum.Y).String(), "snapshotIndex") {
									continue
								}
							}
							var list ssa.Value
							if cl, isCl := stripConv(pos).(*ssa.Call); isCl && CalleeName(cl.Common()) == "builtin:len" {
								list = cl.Common().Args[0]
								keep, _ := rf.BoolHoldsAt(b, IsField("statemachine.loggedEvent", "noRevert"), true)
								okKeep = keep && builtUnderNoRevert(list, map[ssa.Value]bool{})
							} else {
								pt := rf.Term(pos).String()
								for _, f := range rf.FactsAt(b) {
									if f.IsCmp && f.Op == token.LSS && f.L.String() == pt && f.R.Op == "call" && f.R.Sym == "builtin:len" && f.R.Call != nil && nonNegative(f.L, pos.Type()) {
										list = f.R.Call.Common().Args[0]
									}
								}
								okKeep = list != nil && builtUnderNoRevert(list, map[ssa.Value]bool{})
							}
							okIdx = list != nil
						}
					}
				}
			}
		}
		c.Require("C16.R2 restore-keeps-unrevertible", FuncKey(restore), p.Pos(restore.Pos()), "only noRevert events are kept, re-indexed snapshotIndex + position", okKeep && okIdx, fmt.Sprintf("keep=%v index=%v", okKeep, okIdx))
	}
	// re-indexing after the last append in both block executers
	for _, key := range []string{"pkg/consensus.(*stateExecuter).Execute", "pkg/consensus.(*genesisStateExecuter).ExecuteGenesis", "pkg/generator.(*blockGenerateABI).Execute"} {
		fn := p.Fn(key)
		if fn == nil {
			continue
		}
		var appends []ssa.Instruction
		for _, w := range fieldWritesAny(fn, "events") {
			appends = append(appends, w)
		}
		upd := CallsIn(fn, "(*blockchain.Events).UpdateIndex")
		ok := len(upd) >= 1
		if ok {
			for _, a := range appends {
				if reachable(upd[len(upd)-1].Call.Block(), a.Block()) && a.Block() != upd[len(upd)-1].Call.Block() {
					ok = false
				}
			}
			// every nil-error return passes UpdateIndex
			ff := factsOf(fn)
			first := fn.Blocks[0].Instrs[0]
			path := reachesReturnAvoiding(first, func(in ssa.Instruction) bool {
				cl, isC := in.(*ssa.Call)
				return isC && CalleeName(cl.Common()) == "(*blockchain.Events).UpdateIndex"
			}, func(r *ssa.Return) bool { k := classifyReturn(ff, r); return k == RetNil })
			if path != nil {
				ok = false
			}
		}
		c.Require("C16.R2 events-reindexed", key, p.Pos(fn.Pos()), "UpdateIndex runs after the last append of events on every successful path", ok, "")
	}

	// ---- R3 delete sentinel
	{
		valueAppended := func(fn *ssa.Function) *Term {
			for _, call := range AllCalls(fn) {
				if CalleeName(call.Common()) != "builtin:append" {
					continue
				}
				if !strings.HasSuffix(T(ArgK(call, 0)).String(), ".values") {
					continue
				}
				l := T(ArgK(call, 1))
				if l.Op == "list" && len(l.Args) == 1 {
					return l.Args[0]
				}
				return l
			}
			return nil
		}
		dv := valueAppended(bDel)
		zero := dv != nil && (dv.String() == "nil" || dv.String() == "[]" || dv.String() == "*framework.emptyBytes" || (dv.Op == "make" && len(dv.Args) > 0 && dv.Args[0].String() == "0"))
		c.Require("C16.R3 delete-sentinel", "stateSMTBatch.Del ⇒ trie value", p.Pos(bDel.Pos()), "a deleted key is handed to the trie with a zero-length value (the trie's removal sentinel), not a 32-byte hash", zero, "value: "+dv.String())
		sv := valueAppended(bSet)
		c.Require("C16.R3 delete-sentinel", "stateSMTBatch.Set ⇒ trie value", p.Pos(bSet.Pos()), "a set key is handed to the trie as Hash(value)", sv != nil && sv.Op == "call" && strings.HasSuffix(sv.Sym, "crypto.Hash") && sv.Args[0].String() == "p2", "value: "+sv.String())
		// the trie does treat zero length as removal
		upd := c.Anchor("pkg/trie/smt.(*trie).updateNode")
		if upd != nil {
			n := 0
			uf := factsOf(upd)
			for _, f := range uf.Facts {
				if f.IsCmp && f.L.Op == "call" && f.L.Sym == "builtin:len" && f.R.String() == "0" && f.L.Any(func(t *Term) bool {
					return t.Op == "param" && strings.Contains(strings.ToLower(t.Owner), "value")
				}) {
					n++
				}
			}
			c.Require("C16.R3 delete-sentinel", "smt updateNode removal test", p.Pos(upd.Pos()), "the trie update branches on len(value) == 0", n >= 1, "")
		}
	}

	// ---- R4 Commit / revert
	{
		markerKey := func(fn *ssa.Function) (string, bool) {
			for _, call := range AllCalls(fn) {
				if CalleeName(call.Common()) == "db/batchdb.NewWithPrefix" && strings.Contains(T(ArgK(call, 2)).String(), "StateDBPrefixTreeState") {
					// the Set on it
					for _, r := range *call.Value().Referrers() {
						if cl, ok := r.(*ssa.Call); ok && CalleeName(cl.Common()) == "(*db/batchdb.Database).Set" {
							k := T(ArgK(cl, 1))
							kk := k.String()
							if kk == "*framework.emptyBytes" || kk == "[]" {
								kk = "<empty>"
							}
							return kk, stripConv(ArgK(call, 1)) != nil
						}
					}
				}
			}
			return "", false
		}
		k1, ok1 := markerKey(commit)
		k2, ok2 := markerKey(revert)
		c.Require("C16.R4 tree-state-marker", "Commit / revert marker key", p.Pos(commit.Pos()), "Commit and revert write the same tree-state marker key", ok1 && ok2 && k1 == k2, k1+" vs "+k2)
		for _, fn := range []*ssa.Function{commit, revert} {
			nb := CallsIn(fn, "(*db.DB).NewBatch")
			wr := CallsIn(fn, "(*db.DB).Write")
			ok := len(nb) == 1 && len(wr) == 1
			if ok {
				bv := nb[0].Call.Value()
				for _, call := range AllCalls(fn) {
					for _, a := range call.Common().Args {
						if isBatchType(a.Type()) && typeName(a.Type()) == "*db.Batch" && stripConv(a) != ssa.Value(bv) {
							ok = false
						}
					}
				}
				// every staging call precedes the write
				for _, call := range AllCalls(fn) {
					n := CalleeName(call.Common())
					if (n == "(*db.Batch).Set" || n == "(*db/batchdb.Database).Set" || strings.HasSuffix(n, "trie).Update") || strings.HasSuffix(n, "Database).Commit") || strings.HasSuffix(n, "Database).RevertDiff")) && !instrDominates(call, wr[0].Call) {
						ok = false
					}
				}
			}
			c.Require("C16.R4 one-batch-one-write", FuncKey(fn), p.Pos(fn.Pos()), "diff, tree nodes and marker are staged in one batch before its single Write", ok, "")
		}
		// revert reads the diff family Commit writes
		var setKey, getKey string
		for _, op := range DBOps(commit) {
			if op.Kind == "Set" && strings.Contains(op.Key.String(), "StateDBPrefixDiff") {
				setKey = strings.ReplaceAll(op.Key.String(), "p0.executionContext.header.Height", "H")
			}
		}
		for _, s := range CallsIn(revert, "(*db.DB).Get") {
			getKey = strings.ReplaceAll(T(ArgK(s.Call, 1)).String(), "p1", "H")
		}
		c.Require("C16.R4 revert-reads-commit-diff", "Commit Set / revert Get", p.Pos(revert.Pos()), "revert reads the diff under the key family Commit wrote it (StateDBPrefixDiff ‖ height)", setKey != "" && setKey == getKey, setKey+" vs "+getKey)
		// dry run writes nothing
		cf := factsOf(commit)
		for _, s := range CallsIn(commit, "(*db.DB).Write") {
			ok, _ := cf.BoolHoldsAt(s.Call.Block(), IsField("labi.CommitRequest", "DryRun"), false)
			c.Require("C16.R4 dry-run-writes-nothing", FuncKey(commit), p.InstrPos(s.Call), "the batch is applied only when DryRun is false", ok, "")
		}
		// expected-root mismatch aborts before the write
		for _, fn := range []*ssa.Function{commit, revert} {
			ff := factsOf(fn)
			for _, s := range CallsIn(fn, "(*db.DB).Write") {
				// the mismatch edge (!Equal(computed root, expected)) exists and cannot reach the Write
				ok := false
				for i, e := range ff.Edges {
					f := ff.Facts[i]
					if !f.IsCmp && !f.Truth && f.B.Op == "call" && strings.HasSuffix(f.B.Sym, "bytes.Equal") && f.B.Args[0].Any(func(t *Term) bool { return t.Op == "call" && strings.HasSuffix(t.Sym, "trie).Update") }) {
						w := edgeReachesInstr(e, func(in ssa.Instruction) bool { return in == s.Call.(ssa.Instruction) })
						ok = w == nil
					}
				}
				c.Require("C16.R4 root-checked-before-write", FuncKey(fn), p.InstrPos(s.Call), "a mismatch between the computed and the expected root aborts before anything is written", ok, "")
			}
		}
	}

	// ---- R6 the store snapshot restored after a failed command is a faithful copy:
	// the not-in-database sentinel survives Snapshot()/RestoreSnapshot()
	if commitFn := c.Anchor("pkg/db/diffdb.(*cacheDB).commit"); commitFn != nil {
		checkSentinelProducers(c, "C16.R6 snapshot-copy-faithful", commitFn)
		// R7: what the application commit writes — and therefore what the state root is computed
		// over — follows the overlay's classification: a staged delete wins over dirty, so a
		// key overwritten and then deleted in one block is absent from the resulting state
		checkCommitAlgebraAs(c, "C16.R7 commit-classification", commitFn)
		// R8: snapshot ids: the rollback point ExecuteTransaction takes on the root store must not
		// be replaced by a snapshot a command takes through a prefix view of the same store
		checkTableAndCounterTogether(c, "C16.R8 snapshot-ids-do-not-collide", "db/diffdb", "Database")
		// R8b: … nor by a later snapshot that is given the id of one released in between (a command's
		// own snapshot is never released unless restored; ExecuteTransaction releases its own)
		checkIDsNeverReused(c, "C16.R8 snapshot-id-never-reused", "db/diffdb", "Database")
		// R9: a read through the staged store (e.g. by a concurrent transaction verification) must
		// not undo what a command wrote: no write to the overlay under a re-acquired lock on the
		// strength of a lookup made before the lock was given up (the E1 rule C20.R11)
		checkDecideAndAct(c, "C16", func(fn *ssa.Function) bool { return IsProd(fn) && strings.HasPrefix(FuncKey(fn), "pkg/db/diffdb.") })
		c.Require("C16.R11 decide-and-act-in-one-critical-section", "pkg/db/diffdb: functions that release and re-take the store's lock", "-", "examined (a finding is reported per write)", true, "")
		snap := c.Anchor("pkg/db/diffdb.(*Database).Snapshot")
		rest := c.Anchor("pkg/db/diffdb.(*Database).RestoreSnapshot")
		if snap != nil && rest != nil {
			okCopy := len(CallsIn(snap, "(*db/diffdb.cacheDB).copy")) == 1
			c.Require("C16.R6 snapshot-copy-faithful", FuncKey(snap), p.Pos(snap.Pos()), "a snapshot is a deep copy of the overlay (later writes must not reach it)", okCopy, "")
			// the overlay's contents become the stored snapshot's: either the cache field is
			// assigned the snapshot, or the shared cache object's contents are (in place)
			okRest := false
			detRest := ""
			for _, b := range blocksDeep(rest) {
				for _, in := range b.Instrs {
					st, isSt := in.(*ssa.Store)
					if !isSt {
						continue
					}
					addr, val := T(st.Addr).String(), T(st.Val).String()
					if strings.Contains(addr, "p0.cache") && strings.Contains(val, "p0.snapshots[p1]") {
						okRest = true
						detRest = addr + " := " + val
					}
				}
			}
			c.Require("C16.R6 snapshot-copy-faithful", FuncKey(rest), p.Pos(rest.Pos()), "restore replaces the overlay (or its contents) with the stored snapshot", okRest, detRest)
		}
	}

	// ---- R5b restart recovery threads the state root through its rollback loop: each
	// revert starts from the root the previous one produced, and the root compared with the
	// engine's at the end is the one the last revert produced
	if initFn := c.Anchor("pkg/framework.(*ABIHandler).Init"); initFn != nil {
		n := 0
		for _, s := range CallsIn(initFn, "(*framework.ABIHandler).revert") {
			call, ok := s.Call.(*ssa.Call)
			if !ok {
				continue
			}
			n++
			phi, isPhi := stripConv(ArgK(call, 2)).(*ssa.Phi)
			carried := false
			if isPhi {
				for _, e := range phi.Edges {
					if ex, ok := stripConv(e).(*ssa.Extract); ok && ex.Tuple == ssa.Value(call) && ex.Index == 0 {
						carried = true
					}
				}
			}
			c.Require("C16.R5 recovery-threads-root", FuncKey(initFn)+" ⇒ revert(height, root, …)", p.InstrPos(call), "the root handed to revert is loop-carried: the result of the previous revert", carried, "root argument: "+T(ArgK(call, 2)).String())
			if carried {
				used := false
				for _, r := range *phi.Referrers() {
					if cl, ok := r.(*ssa.Call); ok && strings.HasSuffix(CalleeName(cl.Common()), "bytes.Equal") {
						used = true
					}
				}
				c.Require("C16.R5 recovery-threads-root", FuncKey(initFn)+": final comparison", p.InstrPos(call), "the root compared with the engine's last state root is the rolled-back one", used, "")
			}
		}
		c.MinInstances("C16.R5 recovery-threads-root", n, 1)
	}

	// ---- R5 recovery typestate
	{
		seen := map[*ssa.Function]bool{}
		var fns []*ssa.Function
		var walk func(f *ssa.Function)
		walk = func(f *ssa.Function) {
			if f == nil || seen[f] || len(f.Blocks) == 0 || !strings.HasPrefix(FuncKey(f), "pkg/framework.") {
				return
			}
			seen[f] = true
			fns = append(fns, f)
			for _, call := range AllCalls(f) {
				if g := call.Common().StaticCallee(); g != nil {
					walk(g)
				}
			}
		}
		walk(initFn)
		n := 0
		for _, f := range fns {
			ff := factsOf(f)
			for _, b := range blocksDeep(f) {
				for _, in := range b.Instrs {
					fa, ok := in.(*ssa.FieldAddr)
					if !ok {
						continue
					}
					// a dereference *through* executionContext: base is the loaded executionContext pointer
					bt := ff.Term(fa.X)
					if !(bt.Op == "field" && bt.Sym == "executionContext" && bt.Owner == "framework.ABIHandler") {
						continue
					}
					n++
					nonNil := false
					for _, fct := range ff.FactsAt(b) {
						if fct.IsCmp && fct.Op.String() == "!=" && fct.L.String() == bt.String() && fct.R.Sym == "nil" {
							nonNil = true
						}
						if fct.IsCmp && fct.Op.String() == "==" && strings.Contains(fct.L.String(), "checkState") && fct.R.Sym == "nil" {
							nonNil = true
						}
					}
					c.Require("C16.R5 recovery-typestate", FuncKey(f)+" dereferences executionContext (reachable from Init)", p.InstrPos(fa),
						"restart recovery runs before any execution context exists: the dereference must be guarded by a non-nil fact", nonNil, "")
				}
			}
		}
		c.Count("functions reachable from ABIHandler.Init", len(fns))
		c.Count("executionContext dereferences on the recovery path", n)
	}
}

// fieldWritesAny: stores to a field named `name` of any struct in fn.
func fieldWritesAny(fn *ssa.Function, name string) []ssa.Instruction {
	var out []ssa.Instruction
	for _, b := range blocksDeep(fn) {
		for _, in := range b.Instrs {
			if st, ok := in.(*ssa.Store); ok {
				if fa, ok := st.Addr.(*ssa.FieldAddr); ok {
					_, s := ownerOfFieldBase(fa.X.Type())
					if s != nil && fieldNameOf(s.Field(fa.Field)) == name {
						out = append(out, st)
					}
				}
			}
		}
	}
	return out
}
