package main

import (
	"strings"

	"golang.org/x/tools/go/ssa"
)

// c09Row is a reviewed panic-capable site the engine cannot discharge by
// itself. A row never suppresses blindly:
//   - it matches one function + kind + a fragment of the site's term (so a
//     changed index/bound expression no longer matches and is reported);
//   - `facts` are fragments of edge facts that must still dominate the site
//     (so removing or weakening the guard the review relied on is reported);
//   - `callerFacts` must dominate every reachable call site of the function
//     (for helpers whose safety is established by their callers).
type c09Row struct {
	fn, kind, desc string
	reason         string
	facts          []string
	callerFacts    []string
}

const (
	algo    = "algorithmic invariant of a pure helper (reviewed): "
	storage = "storage-engine failure, not input dependent: the repository deliberately crashes when pebble reports an unrecoverable error"
)

var c09Table = []c09Row{
	// ---- codec reader: cursor discipline
	{fn: "pkg/codec.(*Reader).readBytes", kind: "slice", desc: "p0.data[p0.index:(p0.index + ",
		reason: "0 <= index <= len(data) is the reader's cursor invariant (index only advances by checked sizes); the size is checked against the remaining bytes in the unsigned domain before it is converted",
		facts:  []string{"(*codec.Reader).readUInt(p0)#0 <= int→uint64((builtin:len(p0.data) - p0.index))"}},
	{fn: "pkg/codec.readUint", kind: "index", desc: "p0[phi(p1,",
		reason: "the loop returns ErrInvalidData as soon as the running index reaches len(data); the start offset is the reader's cursor (non-negative)",
		facts:  []string{" < builtin:len(p0)"}},
	// ---- Lisk32
	{fn: "pkg/codec.Lisk32ToBytes", kind: "slice", desc: "p0[3:35]",
		reason: "ValidateLisk32 accepted the string first: it requires the fixed length 41",
		facts:  []string{"codec.ValidateLisk32(p0) == nil"}},
	{fn: "pkg/codec.uint5ToLisk32", kind: "index", desc: "\"zxvcpmbn3465o978uyrtkqew2adsjhfg\"[",
		reason: algo + "values are 5-bit groups produced by convertUIntArray(…, 8, 5) and createChecksum, always in [0,32)"},
	{fn: "pkg/crypto.GetAddress", kind: "slice", desc: "crypto.Hash(p0)[_:20]",
		reason: "crypto.Hash returns a SHA-256 digest: always 32 bytes"},
	// ---- BLS bitmaps: safety is established by the verifiers before the loop
	{fn: "pkg/crypto.(Bits).read", kind: "index", desc: "p0[",
		reason:      "callers loop i < len(keysList) after rejecting len(bits)*8 < len(keysList)",
		callerFacts: []string{" < builtin:len(p0)", "(builtin:len(p1) * 8) >= builtin:len(p0)"}},
	{fn: "pkg/crypto.(Bits).read", kind: "conv", desc: "float64→int of math.Floor(",
		reason:      "i/8 of a loop counter bounded by len(keysList); see the index row",
		callerFacts: []string{" < builtin:len(p0)"}},
	// ---- rate limiter: counters are registered together with the handlers
	{fn: "pkg/p2p.(*rateLimit).increaseCounter", kind: "nilentry", desc: "p0.rpcMessageCounters[p1]",
		reason:      "RegisterRPCHandler adds the handler and its counter together (and fails when the counter exists); every caller consults rpcHandlers for the same procedure name first and returns when it is not registered",
		callerFacts: []string{"^p0.rpcHandlers["}},
	{fn: "pkg/p2p.(*rateLimit).checkLimit", kind: "nilentry", desc: "p0.rpcMessageCounters[p1]",
		reason:      "as for increaseCounter: called only for a procedure whose handler lookup succeeded",
		callerFacts: []string{"^p0.rpcHandlers["}},
	// ---- transaction pool: index invariant
	{fn: "pkg/txpool.(*TransactionPool).removeLocked", kind: "nilentry", desc: "p0.perAccount[",
		reason: "pool invariant kept by every writer (checked by C14's index co-update rules): a transaction present in allTransactions has a sender list in perAccount; the lookup is reached only after the allTransactions lookup for this ID succeeded, under the pool's write lock",
		facts:  []string{"^p0.allTransactions["}},
	// ---- generic helpers
	{fn: "pkg/collection.BinarySearch[", kind: "index", desc: ">> 1))]", reason: algo + "low < mid < high with low >= -1 and high <= len(list), so 0 <= mid < len(list)"},
	{fn: "pkg/collection.CommonPrefix[", kind: "index", desc: "phi(p0, p1)[", reason: algo + "the loop ranges over the shorter slice and indexes the longer one"},
	{fn: "pkg/collection.Insert[", kind: "index", desc: "", reason: algo + "result has len(list)+1 slots; the caller's index comes from BinarySearch on the same list (0 <= index <= len(list))"},
	{fn: "pkg/collection/bytes.FromBools", kind: "", desc: "", reason: algo + "target is padded to a multiple of 8, res has len(target)/8 bytes, diff = len(target)-len(input) >= 0"},
	{fn: "pkg/collection/bytes.ToBools", kind: "index", desc: "", reason: algo + "res has 8*len(val) slots and is indexed 8*i+j with j < 8"},
	{fn: "pkg/collection/bytes.Join", kind: "slice", desc: "", reason: algo + "b has the summed length; i advances by what copy() wrote, so i <= len(b)"},
	{fn: "pkg/collection/bytes.JoinSize", kind: "slice", desc: "", reason: algo + "i advances by what copy() wrote, so i <= len(b)"},
	{fn: "pkg/collection/bytes.JoinSize", kind: "make", desc: "make with length p0", reason: "every caller passes a sum of len()s and a prefix length fixed at construction (diffdb.getKey, batchdb.prefixedKey, framework.getTreeKey): non-negative and bounded by existing data"},
	{fn: "pkg/blockchain.(*DataAccess).GetBlocksBetweenHeight", kind: "make", desc: "((p2 - p1) + 1)",
		reason:      "uint32 arithmetic; the reachable caller (getBlocksFromId handler) passes from = h+1 and to = min(h+103, tip): at most 103 blocks. h is read before the tip, so a revert in between can leave to < from (the difference would wrap to ~2^32): the function itself must return early for to < from (required fact, F52)",
		facts:       []string{"p2 >= p1"},
		callerFacts: []string{"GetBlockHeader("}},
	// ---- staged store
	{fn: "pkg/db/diffdb.(*Database).Iterate", kind: "slice", desc: "[p0.prefixLength:_]", reason: "keys come back from a scan under getKey(prefix): they start with the view prefix, whose length is prefixLength"},
	{fn: "pkg/db/diffdb.(*Database).Range", kind: "slice", desc: "[p0.prefixLength:_]", reason: "keys come back from a scan between getKey(start) and getKey(end): they start with the view prefix"},
	{fn: "pkg/db/diffdb.(*cacheDB).dataBetween", kind: "slice", desc: "[p3:_]", reason: "entries selected lie between two prefixed bounds, hence are at least prefixLength long", facts: []string{"bytes.Compare("}},
	{fn: "pkg/db/diffdb.(*cacheDB).withPrefix", kind: "slice", desc: "[p2:_]", reason: "entries selected have the prefixed key as prefix, hence are at least prefixLength long", facts: []string{"bytes.HasPrefix("}},
	{fn: "pkg/db/diffdb.(*cacheDB).set", kind: "panic", desc: "it should exist", reason: "Database.Set calls cache.set only under existAny/ensureCache (checked by C12.R3)", callerFacts: []string{"("}},
	{fn: "pkg/framework.getTreeKey", kind: "slice", desc: "p0[7:_]", reason: "state keys are db prefix (1) + module/store prefix (6) + key; they are produced by the state machine, not by peers"},
	// ---- storage panics
	{fn: "pkg/db.(*Batch).Del", kind: "panic", desc: "", reason: storage},
	{fn: "pkg/db.(*Batch).Set", kind: "panic", desc: "", reason: storage},
	{fn: "pkg/db.(*DB).Get", kind: "panic", desc: "", reason: storage},
	{fn: "pkg/db.(*DB).Write", kind: "panic", desc: "", reason: storage},
	{fn: "pkg/db.(*Reader).Get", kind: "panic", desc: "", reason: storage},
	{fn: "pkg/db.iteratePrefix", kind: "panic", desc: "", reason: storage},
	{fn: "pkg/db.iterateKeyPrefix", kind: "panic", desc: "", reason: storage},
	{fn: "pkg/db.iterateRange", kind: "panic", desc: "", reason: storage},
	{fn: "pkg/rpc.(*endpointResponseWriter).Write", kind: "panic", desc: "data has already been written once", reason: "programming-error guard of the response writer: a handler writes at most once per path (handlers return right after Write/Error); not input dependent"},
	// ---- configuration
	{fn: "pkg/engine/endpoint.(*generatorEndpoint).HandleEstimateSafeStatus", kind: "div", desc: "Genesis.BlockTime", reason: "node configuration, not request data: the block time is a positive genesis constant"},
	{fn: "pkg/txpool.calculateFeePriority", kind: "div", desc: "Transaction).Size(", reason: "Size() is len(Encode()) recorded by Init; every transaction reaching the pool went through Init (NewTransaction or the endpoint's Init call) and an encoded transaction is never empty (each field writes its key)"},
	{fn: "pkg/txpool.(*TransactionPool).GetAll", kind: "index", desc: "make:slice(builtin:len(p0.allTransactions)", reason: algo + "one slot per map entry, filled under the pool's read lock"},
	{fn: "pkg/txpool.(*addressTransactions).GetUnprocessables", kind: "assert", desc: "uint64", reason: "NonceMinHeap.Pop returns its uint64 element"},
	// ---- regular Merkle tree helpers
	{fn: "pkg/trie/rmt.calculateRoot", kind: "", desc: "math.Pow(2, math.Floor(math.Log2(", reason: algo + "k = largest power of two < len(data) for len(data) >= 2 (the caller handles 0 and 1), so 1 <= k < len(data)", facts: []string{}},
	{fn: "pkg/trie/rmt.findInsertIndex", kind: "index", desc: ">> 1))]", reason: algo + "binary search: 0 <= middle < len(list)"},
	{fn: "pkg/trie/rmt.(*indexes).insert", kind: "", desc: "findInsertIndex(", reason: algo + "findInsertIndex returns a position in [0, len(list)] and the slice was grown by one element first"},
	{fn: "pkg/trie/rmt.bytesToBoolsWithSize", kind: "", desc: "", reason: algo + "the bit slice has 8*len(val) entries; callers ask for at most that many"},
	{fn: "pkg/trie/rmt.intToBytesWithoutLeadingZero", kind: "slice", desc: "alloc:makeslice[_:8][", reason: algo + "index of the first non-zero byte of an 8-byte buffer, at most 8"},
	{fn: "pkg/trie/rmt.newNodeLocation", kind: "index", desc: "strconv.FormatInt(", reason: "FormatInt never returns an empty string"},
	{fn: "pkg/trie/rmt.newNodeLocation", kind: "conv", desc: "int64→uint64 of strconv.ParseInt(", reason: "ParseInt of binary digits with bitSize 32 is non-negative and below 2^31; its error is checked"},
	{fn: "pkg/trie/rmt.getRightSiblingInfo", kind: "index", desc: "getLayerStructure(p2)[phi(p1,", reason: "layer indexes handed in come from newNodeLocation(idx, height), which rejects indexes outside the tree of the given size", callerFacts: []string{"newNodeLocation("}},
	{fn: "pkg/trie/rmt.CalculateRootFromAppendPath", kind: "", desc: "p1[", reason: "precondition of a local prediction helper (not a verifier): the append path handed in is the tree's own (len = popcount(size)); see DESIGN.md G1 — listed, not proven"},
	// ---- sparse Merkle trie verification: shape validated by Verify before CalculateRoot runs
	{fn: "pkg/trie/smt.Verify", kind: "index", desc: "p1.Queries[", reason: "len(queryKeys) == len(proof.Queries) was checked on entry and the loop ranges over queryKeys", facts: []string{"builtin:len(p0) == builtin:len(p1.Queries)"}},
	{fn: "pkg/trie/smt.(*QueryProof).binaryPath", kind: "slice", desc: "binaryKey(p0)[_:(*trie/smt.QueryProof).height(p0)]",
		reason:      "Verify rejects queries whose bitmap is longer than 8*keyLength or whose key length differs from keyLength before building query proofs",
		callerFacts: []string{"("}},
	{fn: "pkg/trie/smt.(*QueryProof).isSiblingOf", kind: "", desc: "height(p", reason: "called from CalculateRoot only after the height()==0 exit, on queries whose bitmap length Verify bounded by the key length; both bitmaps have equal length", facts: []string{"builtin:len(p0.binaryBitmap) == builtin:len(p1.binaryBitmap)"}},
	{fn: "pkg/trie/smt.(*QueryProof).sliceBinaryBitmap", kind: "slice", desc: "p0.binaryBitmap[p1:_]", reason: "called with 1 after CalculateRoot established height() != 0", callerFacts: []string{"height("}},
	{fn: "pkg/trie/smt.CalculateRoot", kind: "", desc: "binaryBitmap[", reason: "after the height()==0 exit the bitmap is non-empty; the sibling's bitmap has the same length (isSiblingOf)", facts: []string{"(*trie/smt.QueryProof).height("}},
	{fn: "pkg/trie/smt.CalculateRoot", kind: "index", desc: "p0[phi(0,", reason: "guarded by the 'no more sibling hashes available' exit", facts: []string{"builtin:len(p0) != phi(0,"}},
	{fn: "pkg/trie/smt.CalculateRoot", kind: "index", desc: "binaryKey(", reason: "height()-1 indexes the key's bit string: height != 0 here and Verify bounded height by 8*keyLength", facts: []string{"(*trie/smt.QueryProof).height("}},
	{fn: "pkg/trie/smt.insertAndFilterQueries", kind: "index", desc: "BinarySearch[", reason: "the index returned by BinarySearch is compared with len(queries) before use", facts: []string{"builtin:len(p1)"}},
}

func c09FindRow(s PanicSite) (int, *c09Row) {
	k := FuncKey(s.Fn)
	for i := range c09Table {
		r := &c09Table[i]
		if !strings.HasPrefix(k, r.fn) {
			continue
		}
		if r.kind != "" && r.kind != s.Kind {
			continue
		}
		if r.desc != "" && !strings.Contains(s.Desc, r.desc) {
			continue
		}
		return i, r
	}
	return -1, nil
}

// fragMatch: a fragment matches anywhere in the fact; written with a leading ^ it must start
// the fact (so the negated fact "!x" does not satisfy a requirement for "x").
func fragMatch(fact, frag string) bool {
	if strings.HasPrefix(frag, "^") {
		return strings.HasPrefix(fact, frag[1:])
	}
	return strings.Contains(fact, frag)
}

func c09RowHolds(p *Program, ff *FuncFacts, s PanicSite, row *c09Row, via map[*ssa.Function][]string) (bool, string) {
	has := func(fs []Fact, frag string) bool {
		for _, f := range fs {
			if fragMatch(f.String(), frag) {
				return true
			}
		}
		return false
	}
	fs := ff.FactsAt(s.Instr.Block())
	for _, frag := range row.facts {
		if !has(fs, frag) {
			return false, "required dominating fact «" + frag + "» is gone; facts here: " + factsStr(fs)
		}
	}
	if len(row.callerFacts) > 0 {
		n := 0
		// the facts are asked for at each call site; a call made from a new helper that does not
		// establish them itself is a call made by that helper's callers: asked for there (each
		// caller on its own — they need not agree on terms)
		var check func(site Site, depth int) (bool, string)
		check = func(site Site, depth int) (bool, string) {
			cf := factsOfConv(site.Fn)
			cfs := cf.FactsAt(site.Call.Block())
			for _, frag := range row.callerFacts {
				if frag == "(" {
					if len(cfs) == 0 && !cf.EveryPathHas(site.Call.Block(), func(Fact) bool { return true }) {
						return false, "call site " + p.InstrPos(site.Call) + " is unconditional"
					}
					continue
				}
				frag := frag
				if !has(cfs, frag) && !cf.EveryPathHas(site.Call.Block(), func(f Fact) bool { return fragMatch(f.String(), frag) }) {
					if isNewHelper(site.Fn) && depth < 3 {
						outer := p.callSitesOf(site.Fn)
						if len(outer) > 0 {
							for _, o := range outer {
								if ok, why := check(o, depth+1); !ok {
									return false, why
								}
							}
							continue
						}
					}
					return false, "call site " + p.InstrPos(site.Call) + " in " + FuncKey(site.Fn) + " lacks the fact «" + frag + "»; facts there: " + factsStr(cfs)
				}
			}
			return true, ""
		}
		for _, site := range p.callSitesOf(s.Fn) {
			if _, reach := via[site.Fn]; !reach {
				continue
			}
			n++
			if ok, why := check(site, 0); !ok {
				return false, why
			}
		}
		if n == 0 {
			return false, "no reachable call site found for the caller facts"
		}
	}
	if len(row.facts) > 0 || len(row.callerFacts) > 0 {
		return true, " (required facts re-verified)"
	}
	return true, ""
}
