package main

import (
	"fmt"
	"go/types"
	"sort"
	"strings"

	"golang.org/x/tools/go/ssa"
)

// In-memory state follows reverts (R12, registered under the properties that talk about
// reverts and branch switches).
//
// Whatever a node remembers *outside the store* about the blocks it has applied must be
// undone when a block is reverted: the store is restored from the diff, memory is not.
// Rule: a container (map / slice) field of an object that lives across blocks — a type
// reachable through fields from consensus.Executer — which is written by a function
// reachable from the block-apply entry (Executer.processValidated) must also be written by
// a function reachable from the block-revert entry (Executer.deleteBlock). A cache filled
// while applying and never touched while reverting keeps serving the abandoned branch.
//
// Objects created per block (the diff store, batches, ABI contexts) are not reachable from
// the Executer type and are not subjects. Calls into the application (ABI) are a boundary.

type memField struct {
	owner, name string
}

func longLivedTypes(p *Program, root types.Type) map[string]bool {
	out := map[string]bool{}
	var walk func(t types.Type, depth int)
	walk = func(t types.Type, depth int) {
		if depth > 6 {
			return
		}
		switch u := t.(type) {
		case *types.Pointer:
			walk(u.Elem(), depth)
			return
		case *types.Slice:
			walk(u.Elem(), depth+1)
			return
		case *types.Map:
			walk(u.Elem(), depth+1)
			return
		}
		n, ok := t.(*types.Named)
		if !ok || n.Obj().Pkg() == nil || !strings.HasPrefix(n.Obj().Pkg().Path(), modPrefix) {
			return
		}
		st, ok := n.Underlying().(*types.Struct)
		if !ok {
			return
		}
		key := relPkgName(n.Obj().Pkg()) + "." + n.Obj().Name()
		if out[key] {
			return
		}
		// encodable records (blocks, headers, stored schemas) are values that are read and written
		// whole, not memory of the node: only their holders are subjects
		if hasMethod(n, "DecodeFromReader") {
			for i := 0; i < st.NumFields(); i++ {
				walk(st.Field(i).Type(), depth+1)
			}
			return
		}
		out[key] = true
		for i := 0; i < st.NumFields(); i++ {
			walk(st.Field(i).Type(), depth+1)
		}
	}
	walk(root, 0)
	return out
}

func containerFieldWrites(fn *ssa.Function, owners map[string]bool) map[memField]ssa.Instruction {
	out := map[memField]ssa.Instruction{}
	for _, b := range fn.Blocks {
		for _, in := range b.Instrs {
			fa, ok := in.(*ssa.FieldAddr)
			if !ok {
				continue
			}
			o, st := ownerOfFieldBase(fa.X.Type())
			if st == nil || !owners[o] {
				continue
			}
			f := st.Field(fa.Field)
			switch f.Type().Underlying().(type) {
			case *types.Map, *types.Slice:
			default:
				continue
			}
			k := memField{o, fieldNameOf(f)}
			for _, r := range *fa.Referrers() {
				switch u := r.(type) {
				case *ssa.Store:
					if u.Addr == ssa.Value(fa) {
						out[k] = u
					}
				case *ssa.UnOp:
					for _, rr := range *u.Referrers() {
						switch w := rr.(type) {
						case *ssa.MapUpdate:
							if w.Map == ssa.Value(u) {
								out[k] = w
							}
						case *ssa.Call:
							if CalleeName(w.Common()) == "builtin:delete" && len(w.Common().Args) > 0 && w.Common().Args[0] == ssa.Value(u) {
								out[k] = w
							}
						}
					}
				}
			}
		}
	}
	return out
}

func reachableOwn(p *Program, root *ssa.Function, stop func(*ssa.Function) bool) []*ssa.Function {
	seen := map[*ssa.Function]bool{}
	var order []*ssa.Function
	var rec func(f *ssa.Function, d int)
	rec = func(f *ssa.Function, d int) {
		if f == nil || seen[f] || len(f.Blocks) == 0 || !IsOwn(f) || d > 12 || (stop != nil && stop(f)) {
			return
		}
		seen[f] = true
		order = append(order, f)
		for _, c := range AllCalls(f) {
			for _, g := range p.Callees(c) {
				rec(g, d+1)
			}
		}
		for _, af := range f.AnonFuncs {
			rec(af, d+1)
		}
	}
	rec(root, 0)
	return order
}

func checkMemoryFollowsReverts(c *Ctx, rule string) {
	p := c.P
	apply := c.Anchor("pkg/consensus.(*Executer).processValidated")
	revert := c.Anchor("pkg/consensus.(*Executer).deleteBlock")
	if apply == nil || revert == nil {
		return
	}
	recv := apply.Signature.Recv()
	if recv == nil {
		c.Undecided(rule, FuncKey(apply), "no receiver")
		return
	}
	owners := longLivedTypes(p, recv.Type())
	// the application side and the network are boundaries: what they remember is not the engine's
	stop := func(f *ssa.Function) bool {
		k := FuncKey(f)
		return strings.HasPrefix(k, "pkg/labi") || strings.HasPrefix(k, "pkg/framework") || strings.HasPrefix(k, "pkg/p2p") || strings.HasPrefix(k, "pkg/statemachine")
	}
	type wr struct {
		fn *ssa.Function
		in ssa.Instruction
	}
	aw := map[memField]wr{}
	for _, f := range reachableOwn(p, apply, stop) {
		for k, in := range containerFieldWrites(f, owners) {
			if _, ok := aw[k]; !ok {
				aw[k] = wr{f, in}
			}
		}
	}
	rw := map[memField]wr{}
	for _, f := range reachableOwn(p, revert, stop) {
		for k, in := range containerFieldWrites(f, owners) {
			if _, ok := rw[k]; !ok {
				rw[k] = wr{f, in}
			}
		}
	}
	var keys []memField
	for k := range aw {
		keys = append(keys, k)
	}
	sort.Slice(keys, func(i, j int) bool { return keys[i].owner+keys[i].name < keys[j].owner+keys[j].name })
	n := 0
	for _, k := range keys {
		if row, ok := memoryRevertTable[k.owner+"."+k.name]; ok {
			n++
			c.Require(rule, k.owner+"."+k.name+" (reviewed: "+row+")", p.InstrPos(aw[k].in), "a container written while applying a block is also written while reverting one", true, "")
			continue
		}
		n++
		c.Count(rule+": subject "+k.owner+"."+k.name, 1)
		r, ok := rw[k]
		det := ""
		if ok {
			det = "reverted in " + FuncKey(r.fn)
		} else {
			det = "written in " + FuncKey(aw[k].fn) + " (reached from processValidated); nothing reachable from deleteBlock writes it: it keeps what the reverted block left"
		}
		c.Require(rule, k.owner+"."+k.name, p.InstrPos(aw[k].in), "a container field of an object that lives across blocks, written while applying a block, is also written while reverting one", ok, det)
	}
	c.Count(rule+": long-lived types", len(owners))
	c.MinInstances(rule, n, 2)
	_ = fmt.Sprint
}

// fields whose content is not derived from the applied blocks (reviewed)
var memoryRevertTable = map[string]string{}

func hasMethod(n *types.Named, name string) bool {
	for i := 0; i < n.NumMethods(); i++ {
		if n.Method(i).Name() == name {
			return true
		}
	}
	return false
}
