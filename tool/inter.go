package main

import (
	_ "embed"
	"fmt"
	"go/types"
	"sort"
	"strings"

	"golang.org/x/tools/go/ssa"
)

// New-helper transparency.
//
// The rules name the functions that carried each mechanism when the rules were written
// (known_funcs.txt: every function of the module at that time). A maintainer who extracts
// part of such a function into a *new* function of the same package has not changed any
// behaviour; the engines therefore look through calls to functions that are not in the
// table ("new helpers"):
//   - the term of a call to a new helper is the term of what it returns (parameters
//     replaced by the arguments);
//   - the facts known at a point inside a new helper are the helper's own edge facts plus
//     the facts at its call site(s), in the caller's vocabulary;
//   - on the edge where a new helper's error result is nil (bool result true/false) the
//     facts that hold at every such return of the helper are known;
//   - call searches, return lists, field-write lists, dominance and must-pass-through path
//     searches descend into new helpers.
// On the tree the rules were written for there is no new helper, so none of this is active.

//go:embed known_funcs.txt
var knownFuncsTxt string

var knownFuncs map[string]bool
var knownSigs map[string]string
var knownCallers map[string][]string

var theProgram *Program

func knownFunc(key string) bool {
	if knownFuncs == nil {
		knownFuncs = map[string]bool{}
		knownSigs = map[string]string{}
		for _, l := range strings.Split(knownFuncsTxt, "\n") {
			l = strings.TrimSpace(l)
			if l == "" {
				continue
			}
			// "FuncKey<TAB>signature" (the signature is used to pair renamed functions)
			if k := strings.Index(l, "\t"); k >= 0 {
				knownFuncs[l[:k]] = true
				rest := strings.Split(l[k+1:], "\t")
				knownSigs[l[:k]] = rest[0]
				if len(rest) > 1 && rest[1] != "" {
					if knownParams == nil {
						knownParams = map[string][]string{}
					}
					knownParams[l[:k]] = strings.Split(rest[1], ",")
				}
				if len(rest) > 2 && rest[2] != "" {
					if knownCallers == nil {
						knownCallers = map[string][]string{}
					}
					knownCallers[l[:k]] = strings.Split(rest[2], ";")
				}
			} else {
				knownFuncs[l] = true
			}
		}
	}
	return knownFuncs[key]
}

var newHelperMemo = map[*ssa.Function]bool{}

func isNewHelper(g *ssa.Function) bool {
	if g == nil {
		return false
	}
	if v, ok := newHelperMemo[g]; ok {
		return v
	}
	// an instantiation of a generic function stands for the generic function
	key, plain := FuncKey(g), g.Synthetic == ""
	if o := g.Origin(); o != nil && o != g {
		key, plain = FuncKey(o), o.Synthetic == ""
	}
	r := len(g.Blocks) > 0 && plain && IsOwn(g) && IsProd(g) && len(knownFuncsTxt) > 100 && !knownFunc(key)
	if r && g.Parent() != nil {
		// a function literal counts only when it is called on the spot (func(){…}()), or handed
		// straight to a new helper that calls it synchronously (withLock(func(){…})); never
		// when stored, deferred or started as a goroutine
		r = immediatelyInvoked(g) || len(runByNewHelper(g)) > 0
	}
	newHelperMemo[g] = r
	return r
}

// newHelperCallee: the new helper a plain (not go/defer) static call invokes, or nil.
func newHelperCallee(in ssa.Instruction) *ssa.Function {
	c, ok := in.(*ssa.Call)
	if !ok {
		return nil
	}
	g := c.Common().StaticCallee()
	if g == nil {
		if mc, ok := c.Common().Value.(*ssa.MakeClosure); ok {
			g, _ = mc.Fn.(*ssa.Function)
		}
	}
	if isNewHelper(g) {
		return g
	}
	return nil
}

// immediatelyInvoked: every use of the function literal g in its parent is a plain call of it.
func immediatelyInvoked(g *ssa.Function) bool {
	par := g.Parent()
	if par == nil {
		return false
	}
	n := 0
	for _, b := range par.Blocks {
		for _, in := range b.Instrs {
			var val ssa.Value
			if mc, ok := in.(*ssa.MakeClosure); ok && mc.Fn == ssa.Value(g) {
				val = mc
			}
			if val != nil {
				for _, r := range *val.Referrers() {
					c, ok := r.(*ssa.Call)
					if !ok || c.Common().Value != val {
						return false
					}
					n++
				}
			}
			if c, ok := in.(ssa.CallInstruction); ok && c.Common().Value == ssa.Value(g) {
				if _, plain := in.(*ssa.Call); !plain {
					return false
				}
				n++
			}
		}
	}
	return n > 0
}

const maxHelperDepth = 4

type chainKey struct{ root, target *ssa.Function }

var chainMemo = map[chainKey][][]*ssa.Call{}

// helperChains: every chain of calls root → … → target that passes through new helpers only.
func helperChains(root, target *ssa.Function) [][]*ssa.Call {
	k := chainKey{root, target}
	if v, ok := chainMemo[k]; ok {
		return v
	}
	var out [][]*ssa.Call
	var rec func(f *ssa.Function, pre []*ssa.Call)
	rec = func(f *ssa.Function, pre []*ssa.Call) {
		if len(pre) >= maxHelperDepth {
			return
		}
		for _, b := range f.Blocks {
			for _, in := range b.Instrs {
				g := newHelperCallee(in)
				if g == nil || g == f {
					continue
				}
				rec2 := false
				for _, c := range pre {
					if c.Parent() == g {
						rec2 = true
					}
				}
				if rec2 {
					continue
				}
				ch := append(append([]*ssa.Call{}, pre...), in.(*ssa.Call))
				if g == target {
					out = append(out, ch)
				}
				rec(g, ch)
				for _, cl := range closuresRunAt(in) {
					if cl == target {
						out = append(out, ch)
					}
					rec(cl, ch)
				}
			}
		}
	}
	if root != nil && target != nil && root != target {
		rec(root, nil)
	}
	chainMemo[k] = out
	return out
}

var helpersMemo = map[*ssa.Function][]*ssa.Function{}

// funcAndHelpers: root followed by the new helpers it reaches (call order, each once).
func funcAndHelpers(root *ssa.Function) []*ssa.Function {
	if root != nil && !isNewHelper(root) {
		termRoot = root
	}
	if v, ok := helpersMemo[root]; ok {
		return v
	}
	out := []*ssa.Function{root}
	seen := map[*ssa.Function]bool{root: true}
	var rec func(f *ssa.Function, d int)
	rec = func(f *ssa.Function, d int) {
		if d >= maxHelperDepth {
			return
		}
		for _, b := range f.Blocks {
			for _, in := range b.Instrs {
				if g := newHelperCallee(in); g != nil && !seen[g] {
					seen[g] = true
					out = append(out, g)
					rec(g, d+1)
				}
				for _, cl := range closuresRunAt(in) {
					if !seen[cl] {
						seen[cl] = true
						out = append(out, cl)
						rec(cl, d+1)
					}
				}
			}
		}
	}
	if root != nil {
		rec(root, 0)
	}
	helpersMemo[root] = out
	return out
}

// instrFunc: the function an instruction / value belongs to.
func valueFunc(v ssa.Value) *ssa.Function {
	switch x := v.(type) {
	case ssa.Instruction:
		return x.Parent()
	case *ssa.Parameter:
		return x.Parent()
	case *ssa.FreeVar:
		return x.Parent()
	}
	return nil
}

// argTerms: the terms of a static call's arguments, built in the caller.
func argTerms(tb *termBuilder, c *ssa.Call) []*Term {
	var out []*Term
	for _, a := range c.Common().Args {
		out = append(out, tb.of(a, 1))
	}
	return out
}

// markParams renames the parameters of a term that could not be expressed in the root's
// vocabulary, so that they are never mistaken for the root's own parameters.
func markParams(t *Term, owner string) *Term {
	if t == nil {
		return nil
	}
	if t.Op == "param" {
		c := *t
		c.Sym = owner + "·" + t.Sym
		return &c
	}
	if len(t.Args) == 0 {
		return t
	}
	c := *t
	c.Args = make([]*Term, len(t.Args))
	for i, a := range t.Args {
		c.Args[i] = markParams(a, owner)
	}
	return &c
}

// liftTerm rewrites a term of `from` (a new helper) into root's vocabulary along the call
// chains; when the chains disagree the helper's parameters are marked as foreign.
func liftTerm(root, from *ssa.Function, t *Term, conv bool) *Term {
	if root == from || from == nil || root == nil {
		return t
	}
	chains := helperChains(root, from)
	if len(chains) == 0 {
		return markParams(t, FuncName(from))
	}
	var res *Term
	for _, ch := range chains {
		x := substAlong(ch, from, t, conv)
		if res == nil {
			res = x
		} else if res.String() != x.String() {
			return markParams(t, FuncName(from))
		}
	}
	return res
}

func liftFact(root, from *ssa.Function, f Fact, conv bool) Fact {
	if f.IsCmp {
		f.L, f.R = liftTerm(root, from, f.L, conv), liftTerm(root, from, f.R, conv)
	} else {
		f.B = liftTerm(root, from, f.B, conv)
		f = renormFact(f)
	}
	return f
}

// renormFact: a boolean fact whose term turned into a comparison (a call of a predicate
// parameter resolved to the literal bound to it) is read as that comparison.
func renormFact(f Fact) Fact {
	if !f.IsCmp && f.B != nil && (f.B.Op == "binop" || f.B.Op == "unop") {
		return factOf(f.B, f.Truth)
	}
	return f
}

// inlineCallTerm: the term of a call to a new helper, as the term(s) of what it returns.
// Returns nil when the call is not to a new helper.
func (b *termBuilder) inlineCallTerm(c *ssa.Call, d int) *Term {
	g := c.Common().StaticCallee()
	if !isNewHelper(g) || d > maxTermDepth-4 || b.inlining[g] {
		return nil
	}
	rets := Returns1(g)
	if len(rets) == 0 || len(rets[0].Results) == 0 {
		return nil
	}
	if b.inlining == nil {
		b.inlining = map[*ssa.Function]bool{}
	}
	b.inlining[g] = true
	defer delete(b.inlining, g)
	args := argTerms(b, c)
	n := len(rets[0].Results)
	res := make([]*Term, n)
	origOf := make([]ssa.Value, n)
	errIdx := errResultIndex(g)
	var gf *FuncFacts
	if errIdx >= 0 {
		gf = factsOfMode(g, b.keepConv)
	}
	// the comma-ok idiom: a return handing back `false` as its last result and zero values for
	// all others is the "nothing found" exit, whose values are not alternatives either
	okIdx := -1
	for k := n - 1; k >= 0 && n >= 2; k-- {
		if bt, isBasic := rets[0].Results[k].Type().Underlying().(*types.Basic); isBasic && bt.Kind() == types.Bool && k != errIdx {
			okIdx = k
			break
		}
	}
	notFound := func(r *ssa.Return) bool {
		if okIdx < 0 {
			return false
		}
		for k, v := range r.Results {
			cst, isC := v.(*ssa.Const)
			if !isC {
				return false
			}
			switch {
			case k == okIdx:
				if cst.Value == nil || cst.Value.ExactString() != "false" {
					return false
				}
			case k == errIdx:
				if cst.Value != nil {
					return false
				}
			default:
				if cst.Value != nil && cst.Value.ExactString() != "0" && cst.Value.ExactString() != `""` && cst.Value.ExactString() != "false" {
					return false
				}
			}
		}
		return true
	}
	for i := 0; i < n; i++ {
		var alts []*Term
		seen := map[string]bool{}
		for _, r := range rets {
			// a value result is only looked at when the helper did not fail: what a
			// failing return hands back beside its error (nil, 0) is not an alternative
			if errIdx >= 0 && i != errIdx && len(rets) > 1 && classifyErrValue(gf, r.Results[errIdx], r.Block(), 0) == RetErr {
				continue
			}
			if i != okIdx && i != errIdx && len(rets) > 1 && notFound(r) {
				continue
			}
			sub := newTB()
			sub.inlining = b.inlining
			sub.keepConv = b.keepConv
			t := substParams(sub.of(r.Results[i], d+2), args)
			if s := t.String(); !seen[s] {
				seen[s] = true
				alts = append(alts, t)
				origOf[i] = r.Results[i]
			}
		}
		switch {
		case len(alts) == 1:
			cp := *alts[0]
			if cp.Orig == nil {
				cp.Orig = origOf[i]
			}
			res[i] = &cp
		case len(alts) == 0:
			res[i] = &Term{Op: "other", Sym: "no-successful-return"}
		default:
			res[i] = &Term{Op: "phi", Args: alts}
		}
	}
	if n == 1 {
		return res[0]
	}
	return &Term{Op: "tuple", Sym: CalleeName(c.Common()), Args: res, Call: c}
}

// Returns1 lists the Return instructions of fn itself (no descent).
func Returns1(fn *ssa.Function) []*ssa.Return {
	var out []*ssa.Return
	for _, b := range fn.Blocks {
		for _, in := range b.Instrs {
			if r, ok := in.(*ssa.Return); ok {
				out = append(out, r)
			}
		}
	}
	return out
}

// tailHelper: when a return hands back exactly the results of a call to a new helper made
// in the same block (a tail call), that helper.
func tailHelper(r *ssa.Return) *ssa.Function {
	if len(r.Results) == 0 {
		return nil
	}
	var call *ssa.Call
	for i, v := range r.Results {
		var c *ssa.Call
		// results spilled to a cell because the function defers (store; rundefers; load)
		if ld, ok := v.(*ssa.UnOp); ok {
			if al, ok := ld.X.(*ssa.Alloc); ok {
				if sv := lastStoreInBlock(al, ld); sv != nil {
					v = sv
				}
			}
		}
		switch x := v.(type) {
		case *ssa.Call:
			c = x
		case *ssa.Extract:
			if cc, ok := x.Tuple.(*ssa.Call); ok && x.Index == i {
				c = cc
			}
		}
		if c == nil || (call != nil && c != call) {
			return nil
		}
		call = c
	}
	if call == nil || call.Block() != r.Block() {
		return nil
	}
	return newHelperCallee(call)
}

// helperReturnFacts: the facts that hold at every return of new helper g whose result k
// may have the wanted value (want: "nil", "true", "false"), in g's vocabulary.
// resCon: result K of a helper call is known to be Want ("nil", "true", "false").
type resCon struct {
	K    int
	Want string
}

func helperReturnFacts(g *ssa.Function, k int, want string, depth int, conv bool) []Fact {
	return helperReturnFactsC(g, k, want, nil, depth, conv)
}

// helperReturnFactsC: as helperReturnFacts, restricted to the returns that are also compatible
// with what is known about other results of the same call (err == nil and found == true …).
func helperReturnFactsC(g *ssa.Function, k int, want string, also []resCon, depth int, conv bool) []Fact {
	if depth > maxHelperDepth {
		return nil
	}
	gf := factsOfMode(g, conv)
	mayBe := func(r *ssa.Return, k int, want string) bool {
		if k >= len(r.Results) {
			return false
		}
		v := r.Results[k]
		switch want {
		case "nil":
			return classifyErrValue(gf, v, r.Block(), 0) != RetErr
		case "non-nil":
			return classifyErrValue(gf, v, r.Block(), 0) != RetNil
		case "true", "false":
			if c, ok := v.(*ssa.Const); ok && c.Value != nil {
				return c.Value.ExactString() == want
			}
		}
		return true
	}
	var common map[string]Fact
	for _, r := range Returns1(g) {
		if k >= len(r.Results) {
			return nil
		}
		v := r.Results[k]
		may := mayBe(r, k, want)
		for _, c := range also {
			if !mayBe(r, c.K, c.Want) {
				may = false
			}
		}
		if !may {
			continue
		}
		here := map[string]Fact{}
		for _, f := range gf.FactsAt(r.Block()) {
			here[f.String()] = f
		}
		// a boolean result that is a φ of short-circuit operands (a && b, a || b): the wanted
		// value can only arrive over the edges whose operand may have that value, and when
		// there is exactly one such edge its facts — and the operand itself — are known
		if want == "true" || want == "false" {
			if phi, ok := v.(*ssa.Phi); ok && phi.Block() == r.Block() {
				var cands []int
				for e, ev := range phi.Edges {
					if c, isC := ev.(*ssa.Const); isC && c.Value != nil && c.Value.ExactString() != want {
						continue
					}
					cands = append(cands, e)
				}
				if len(cands) == 1 {
					e := cands[0]
					for _, f := range gf.FactsOnEdge(phi.Block().Preds[e], phi.Block()) {
						here[f.String()] = f
					}
					if _, isC := phi.Edges[e].(*ssa.Const); !isC {
						f := factOf(gf.Term(phi.Edges[e]), want == "true")
						here[f.String()] = f
						if m, ok := f.Mirror(); ok {
							here[m.String()] = m
						}
					}
				}
			}
			// a plain comparison returned as the result
			if bo, ok := v.(*ssa.BinOp); ok {
				f := factOf(gf.Term(bo), want == "true")
				here[f.String()] = f
				if m, ok := f.Mirror(); ok {
					here[m.String()] = m
				}
			}
		}
		// a tail call of another new helper contributes that helper's return facts
		if h := tailHelper(r); h != nil && h != g {
			for _, f := range helperReturnFacts(h, k, want, depth+1, conv) {
				lf := liftFact(g, h, f, conv)
				here[lf.String()] = lf
			}
		}
		if common == nil {
			common = here
		} else {
			for s := range common {
				if _, ok := here[s]; !ok {
					delete(common, s)
				}
			}
		}
	}
	var keys []string
	for s := range common {
		keys = append(keys, s)
	}
	sort.Strings(keys)
	var out []Fact
	for _, s := range keys {
		out = append(out, common[s])
	}
	return out
}

// edgeHelperFacts: facts contributed by a branch on the result of a new helper
// (err == nil, ok, !ok), in the vocabulary of the branching function.
// helperTest: the branch e tests result k of a call (to anything), which on e is `want`
// ("nil" / "non-nil" / "true" / "false"); call == nil when it does not.
func helperTest(e Edge) (call *ssa.Call, k int, want string) {
	cond := e.If.Cond
	truth := e.Truth
	for {
		u, ok := cond.(*ssa.UnOp)
		if !ok || u.Op.String() != "!" {
			break
		}
		cond, truth = u.X, !truth
	}
	resultOf := func(v ssa.Value) (*ssa.Call, int) {
		switch x := v.(type) {
		case *ssa.Call:
			return x, 0
		case *ssa.Extract:
			if c, ok := x.Tuple.(*ssa.Call); ok {
				return c, x.Index
			}
		}
		return nil, 0
	}
	if bo, ok := cond.(*ssa.BinOp); ok {
		isNil := func(v ssa.Value) bool { c, ok := v.(*ssa.Const); return ok && c.Value == nil }
		x, y := bo.X, bo.Y
		if isNil(x) {
			x, y = y, x
		}
		if !isNil(y) {
			return nil, 0, ""
		}
		eq := bo.Op.String() == "=="
		if bo.Op.String() != "==" && bo.Op.String() != "!=" {
			return nil, 0, ""
		}
		call, k = resultOf(x)
		want = "nil"
		if eq != truth {
			want = "non-nil"
		}
	} else {
		call, k = resultOf(cond)
		want = fmt.Sprint(truth)
	}
	if call == nil {
		return nil, 0, ""
	}
	return call, k, want
}

// edgeHelperFacts: facts contributed by a branch on the result of a new helper
// (err == nil, ok, !ok), in the vocabulary of the branching function.
func edgeHelperFacts(e Edge, conv bool) []Fact {
	return edgeHelperFactsC(e, nil, conv)
}

// edgeHelperFactsC: the same, given what dominating branches already established about other
// results of the same call.
func edgeHelperFactsC(e Edge, also []resCon, conv bool) []Fact {
	call, k, want := helperTest(e)
	if call == nil || (want == "non-nil" && len(also) == 0) {
		return nil // the non-nil edge alone carries nothing
	}
	g := newHelperCallee(call)
	if g == nil {
		return nil
	}
	var out []Fact
	args := argTerms(newTBMode(conv), call)
	for _, f := range helperReturnFactsC(g, k, want, also, 0, conv) {
		if f.IsCmp {
			f.L, f.R = substParams(f.L, args), substParams(f.R, args)
		} else {
			f.B = substParams(f.B, args)
			f = renormFact(f)
		}
		out = append(out, f)
		if m, ok := f.Mirror(); ok && !f.IsCmp == false {
			out = append(out, m)
		}
	}
	return out
}

// blocksDeep: the blocks of fn followed by those of the new helpers it reaches.
func blocksDeep(fn *ssa.Function) []*ssa.BasicBlock {
	if fn == nil {
		return nil
	}
	hs := funcAndHelpers(fn)
	if len(hs) == 1 {
		return fn.Blocks
	}
	var out []*ssa.BasicBlock
	for _, f := range hs {
		out = append(out, f.Blocks...)
	}
	return out
}

var subjectsMemo []*ssa.Function

// Subjects: the functions a whole-program rule looks at one by one. A new helper that is
// called from production code is not a subject of its own: what it does is attributed to
// the functions that call it (blocksDeep, CallsIn, DBOps, …).
func (p *Program) Subjects() []*ssa.Function {
	if subjectsMemo != nil {
		return subjectsMemo
	}
	for _, fn := range p.OwnFuncs {
		if isNewHelper(fn) && len(callSitesOfHelper(fn)) > 0 {
			continue
		}
		subjectsMemo = append(subjectsMemo, fn)
	}
	return subjectsMemo
}

// valueRoot follows a value to where it comes from across new-helper boundaries: a
// parameter of a new helper with one call site is the argument passed there; the result of
// a call to a new helper is the value the helper returns.
func valueRoot(v ssa.Value) ssa.Value {
	for i := 0; i < 2*maxHelperDepth && v != nil; i++ {
		v = stripConv(v)
		if pr, ok := v.(*ssa.Parameter); ok && isNewHelper(pr.Parent()) {
			sites := callSitesOfHelper(pr.Parent())
			idx := -1
			for k, q := range pr.Parent().Params {
				if q == pr {
					idx = k
				}
			}
			if len(sites) == 1 && idx >= 0 && idx < len(sites[0].Common().Args) {
				v = sites[0].Common().Args[idx]
				continue
			}
			return v
		}
		if o := valueOrigin(v); o != v {
			v = o
			continue
		}
		return v
	}
	return v
}

// lastStoreInBlock: the value most recently stored to cell al before instruction `before`
// within the same block.
func lastStoreInBlock(al *ssa.Alloc, before ssa.Instruction) ssa.Value {
	b := before.Block()
	for k := instrIndex(before) - 1; k >= 0; k-- {
		if st, ok := b.Instrs[k].(*ssa.Store); ok && st.Addr == ssa.Value(al) {
			return st.Val
		}
	}
	return nil
}

// eachCallCtx visits every call of fn and, context-sensitively, of the new helpers it calls:
// lift rewrites a term of the function the call sits in into fn's vocabulary for exactly
// the chain of call sites that led there (unlike T, which gives up when a helper has several
// call sites).
func eachCallCtx(fn *ssa.Function, visit func(call ssa.CallInstruction, lift func(*Term) *Term, inLoop bool)) {
	var rec func(f *ssa.Function, lift func(*Term) *Term, inLoop bool, depth int)
	rec = func(f *ssa.Function, lift func(*Term) *Term, inLoop bool, depth int) {
		tb := newTB()
		for _, call := range AllCalls(f) {
			loop := inLoop || reachable2(call.Block(), call.Block())
			visit(call, lift, loop)
			if g := newHelperCallee(call); g != nil && g != f && depth < maxHelperDepth {
				var args []*Term
				for _, a := range call.Common().Args {
					args = append(args, lift(tb.of(a, 1)))
				}
				rec(g, func(t *Term) *Term { return substParams(t, args) }, loop, depth+1)
			}
		}
	}
	rec(fn, func(t *Term) *Term { return t }, false, 0)
}

// knownRootOf: the known function a new helper belongs to (following single call sites
// upwards); the function itself when it is known or has several callers.
func knownRootOf(fn *ssa.Function) *ssa.Function {
	for d := 0; d < maxHelperDepth && isNewHelper(fn); d++ {
		sites := callSitesOfHelper(fn)
		if len(sites) != 1 {
			return fn
		}
		fn = sites[0].Parent()
	}
	return fn
}

var runByMemo = map[*ssa.Function][]*ssa.Call{}

// runByNewHelper: the calls `helper(…, func(){…}, …)` through which function literal g runs:
// every use of the literal is such an argument, the helper is a new helper (not in the
// reference table) and calls that parameter directly (not via go/defer).
func runByNewHelper(g *ssa.Function) []*ssa.Call {
	if v, ok := runByMemo[g]; ok {
		return v
	}
	runByMemo[g] = nil
	par := g.Parent()
	if par == nil {
		return nil
	}
	var out []*ssa.Call
	for _, b := range par.Blocks {
		for _, in := range b.Instrs {
			mc, ok := in.(*ssa.MakeClosure)
			if !ok || mc.Fn != ssa.Value(g) {
				continue
			}
			for _, r := range *mc.Referrers() {
				call, ok := r.(*ssa.Call)
				if !ok {
					return nil
				}
				h := call.Common().StaticCallee()
				if h == nil || h.Parent() != nil || !isNewHelper(h) {
					return nil
				}
				k := -1
				for i, a := range call.Common().Args {
					if a == ssa.Value(mc) {
						k = i
					}
				}
				if k < 0 || k >= len(h.Params) {
					return nil
				}
				invoked := false
				for _, hb := range h.Blocks {
					for _, hin := range hb.Instrs {
						switch x := hin.(type) {
						case *ssa.Call:
							if x.Common().Value == ssa.Value(h.Params[k]) {
								invoked = true
							}
						case *ssa.Go:
							if x.Common().Value == ssa.Value(h.Params[k]) {
								return nil
							}
						}
					}
				}
				if !invoked {
					return nil
				}
				out = append(out, call)
			}
		}
	}
	runByMemo[g] = out
	return out
}

// closuresRunAt: the function literals a call hands to a new helper that runs them.
func closuresRunAt(in ssa.Instruction) []*ssa.Function {
	c, ok := in.(*ssa.Call)
	if !ok {
		return nil
	}
	var out []*ssa.Function
	for _, a := range c.Common().Args {
		if mc, ok := a.(*ssa.MakeClosure); ok {
			if g, ok := mc.Fn.(*ssa.Function); ok {
				for _, rc := range runByNewHelper(g) {
					if rc == c {
						out = append(out, g)
					}
				}
			}
		}
	}
	return out
}

// calleeOf: the function a call invokes directly (static callee or the literal being called).
func calleeOf(c *ssa.Call) *ssa.Function {
	if g := c.Common().StaticCallee(); g != nil {
		return g
	}
	if mc, ok := c.Common().Value.(*ssa.MakeClosure); ok {
		g, _ := mc.Fn.(*ssa.Function)
		return g
	}
	return nil
}

// substAlong rewrites a term of `target` into the vocabulary of the function containing
// ch[0], innermost call first. A call that merely runs a function literal handed to it
// (withLock(func(){…})) binds no parameters of the literal: the literal speaks its
// creator's vocabulary already, so that step is skipped.
func substAlong(ch []*ssa.Call, target *ssa.Function, t *Term, conv bool) *Term {
	for i := len(ch) - 1; i >= 0; i-- {
		next := target
		if i+1 < len(ch) {
			next = ch[i+1].Parent()
		}
		if g := calleeOf(ch[i]); g != next {
			// a function literal run by the helper this call invokes: the literal's own
			// parameters are what the helper passes when it calls it (read with this call's
			// arguments for the helper's parameters); what it captured is its creator's already
			if g != nil && next != nil && next.Parent() != nil {
				t = substLiteralParams(t, next, g, ch[i], conv)
			}
			continue
		}
		t = substParams(t, argTerms(newTBMode(conv), ch[i]))
	}
	return t
}

// substLiteralParams: lit is handed to helper h at call c and h calls that parameter exactly
// once; lit's parameters in t are replaced by the arguments of that inner call, themselves
// written with c's arguments for h's parameters. Only parameters carrying lit's own parameter
// names are touched (the creator's parameters print the same way).
func substLiteralParams(t *Term, lit, h *ssa.Function, c *ssa.Call, conv bool) *Term {
	k := -1
	for i, a := range c.Common().Args {
		switch x := a.(type) {
		case *ssa.MakeClosure:
			if x.Fn == ssa.Value(lit) {
				k = i
			}
		case *ssa.Function:
			if x == lit {
				k = i
			}
		}
	}
	if k < 0 || k >= len(h.Params) {
		return t
	}
	var inner *ssa.Call
	for _, b := range h.Blocks {
		for _, in := range b.Instrs {
			if dc, ok := in.(*ssa.Call); ok && dc.Common().Value == ssa.Value(h.Params[k]) {
				if inner != nil {
					return t
				}
				inner = dc
			}
		}
	}
	if inner == nil || len(inner.Common().Args) != len(lit.Params) {
		return t
	}
	outer := argTerms(newTBMode(conv), c)
	args := argTerms(newTBMode(conv), inner)
	names := map[string]int{}
	for i, prm := range lit.Params {
		args[i] = substParams(args[i], outer)
		names[prm.Name()] = i
	}
	var rec func(x *Term) *Term
	rec = func(x *Term) *Term {
		if x == nil {
			return nil
		}
		if x.Op == "param" {
			var i int
			if _, err := fmt.Sscanf(x.Sym, "p%d", &i); err == nil {
				if j, own := names[x.Owner]; own && j == i && i < len(args) {
					return args[i]
				}
			}
			return x
		}
		if x.Op == "free" || len(x.Args) == 0 {
			return x // captured values belong to the creator
		}
		cp := *x
		cp.Args = make([]*Term, len(x.Args))
		for i, a := range x.Args {
			cp.Args[i] = rec(a)
		}
		return &cp
	}
	return rec(t)
}

// knownRootsOf: the known functions from which new helper fn is reached (through new helpers only).
func knownRootsOf(fn *ssa.Function) []*ssa.Function {
	seen := map[*ssa.Function]bool{}
	var out []*ssa.Function
	var rec func(f *ssa.Function, d int)
	rec = func(f *ssa.Function, d int) {
		if d > maxHelperDepth || seen[f] {
			return
		}
		seen[f] = true
		if !isNewHelper(f) {
			out = append(out, f)
			return
		}
		for _, c := range callSitesOfHelper(f) {
			rec(c.Parent(), d+1)
		}
	}
	rec(fn, 0)
	if len(out) == 1 && out[0] == fn {
		return nil
	}
	return out
}

// deepFacts: the branch facts of root and of its new helpers, the latter rewritten into root's
// vocabulary (for rules that look for a comparison wherever it is made).
func deepFacts(root *ssa.Function) []Fact {
	var out []Fact
	for _, hf := range funcAndHelpers(root) {
		hff := factsOf(hf)
		for _, f := range hff.Facts {
			if hf != root {
				f = liftFact(root, hf, f, false)
			}
			out = append(out, f)
		}
	}
	return out
}

// DeepEdge: a branch edge of root or of one of its new helpers, with its fact (and the fact of
// the opposite edge) in root's vocabulary; FF are the facts of the function owning the edge.
type DeepEdge struct {
	E        Edge
	F, Other Fact
	FF       *FuncFacts
}

func deepEdges(root *ssa.Function) []DeepEdge {
	var out []DeepEdge
	for _, hf := range funcAndHelpers(root) {
		hff := factsOf(hf)
		for i, e := range hff.Edges {
			f, o := hff.Facts[i], hff.Facts[i^1]
			if hf != root {
				f, o = liftFact(root, hf, f, false), liftFact(root, hf, o, false)
			}
			out = append(out, DeepEdge{e, f, o, hff})
		}
	}
	return out
}
