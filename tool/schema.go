package main

import (
	"fmt"
	"go/types"
	"reflect"
	"sort"
	"strconv"
	"strings"

	"golang.org/x/tools/go/ssa"
)

// ---------------------------------------------------------------------------
// E5: schema tables.

type SchemaField struct {
	Num    int
	Name   string
	GoType string // normalised Go type
	Kind   string // dual family: "string" "strings" "uint" "uint32" "uints" "uint32s" "int" "int32" "ints" "int32s" "bool" "bools" "bytes" "bytesarray" "msg" "msgs" "?"
	Elem   string // nested message type for msg/msgs
}

type Schema struct {
	Owner  string // "blockchain.Transaction"
	Named  *types.Named
	Fields []SchemaField // declaration order
	TagErr []string
}

func goKind(t types.Type) (kind, elem string) {
	qs := typeName(t)
	switch qs {
	case "string":
		return "string", ""
	case "[]string":
		return "strings", ""
	case "uint64":
		return "uint", ""
	case "uint32":
		return "uint32", ""
	case "[]uint64":
		return "uints", ""
	case "[]uint32":
		return "uint32s", ""
	case "int64":
		return "int", ""
	case "int32":
		return "int32", ""
	case "[]int64":
		return "ints", ""
	case "[]int32":
		return "int32s", ""
	case "bool":
		return "bool", ""
	case "[]bool":
		return "bools", ""
	case "[]byte", "codec.Hex", "codec.Lisk32", "[]uint8":
		return "bytes", ""
	case "[][]byte", "[]codec.Hex", "[]codec.Lisk32", "[][]uint8":
		return "bytesarray", ""
	}
	// named byte slices
	if s, ok := t.Underlying().(*types.Slice); ok {
		if b, ok := s.Elem().Underlying().(*types.Basic); ok && b.Kind() == types.Byte {
			return "bytes", ""
		}
		// slice of byte slices
		if s2, ok := s.Elem().Underlying().(*types.Slice); ok {
			if b, ok := s2.Elem().Underlying().(*types.Basic); ok && b.Kind() == types.Byte {
				return "bytesarray", ""
			}
		}
		// slice of messages
		et := s.Elem()
		if p, ok := et.Underlying().(*types.Pointer); ok {
			et = p.Elem()
		}
		if _, ok := et.Underlying().(*types.Struct); ok {
			return "msgs", typeName(et)
		}
	}
	et := t
	if p, ok := t.Underlying().(*types.Pointer); ok {
		et = p.Elem()
	}
	if _, ok := et.Underlying().(*types.Struct); ok {
		return "msg", typeName(et)
	}
	return "?", ""
}

// schemas lists every tagged struct of the module's prod packages.
func (p *Program) schemas() []*Schema {
	var out []*Schema
	for _, pk := range p.Pkgs {
		rel := relPkg(pk.PkgPath)
		if !strings.HasPrefix(rel, "pkg/") || strings.Contains(rel, "/codec/gen") || strings.Contains(rel, "codec_test") {
			continue
		}
		sc := pk.Types.Scope()
		for _, n := range sc.Names() {
			tn, ok := sc.Lookup(n).(*types.TypeName)
			if !ok || tn.IsAlias() {
				continue
			}
			named, ok := tn.Type().(*types.Named)
			if !ok {
				continue
			}
			st, ok := named.Underlying().(*types.Struct)
			if !ok {
				continue
			}
			s := &Schema{Owner: relPkgName(pk.Types) + "." + n, Named: named}
			seen := map[int]string{}
			for i := 0; i < st.NumFields(); i++ {
				tag := reflect.StructTag(st.Tag(i)).Get("fieldNumber")
				if tag == "" {
					continue
				}
				num, err := strconv.Atoi(tag)
				if err != nil || num < 1 {
					s.TagErr = append(s.TagErr, fmt.Sprintf("field %s has invalid fieldNumber %q", fieldNameOf(st.Field(i)), tag))
					continue
				}
				if prev, dup := seen[num]; dup {
					s.TagErr = append(s.TagErr, fmt.Sprintf("fieldNumber %d used by both %s and %s", num, prev, fieldNameOf(st.Field(i))))
				}
				seen[num] = fieldNameOf(st.Field(i))
				k, e := goKind(st.Field(i).Type())
				s.Fields = append(s.Fields, SchemaField{Num: num, Name: fieldNameOf(st.Field(i)), GoType: typeName(st.Field(i).Type()), Kind: k, Elem: e})
			}
			if len(s.Fields) > 0 {
				out = append(out, s)
			}
		}
	}
	sort.Slice(out, func(i, j int) bool { return out[i].Owner < out[j].Owner })
	return out
}

// codecCall is one reader/writer call found in a generated method.
type codecCall struct {
	Method string // WriteUInt32 / ReadUInt32 …
	Num    int
	Strict string // "true" "false" "" (n/a)
	Field  string // receiver field written from / stored into ("" when unknown)
	Call   *ssa.Call
	InLoop bool
}

var writerKind = map[string]string{
	"WriteString": "string", "WriteStrings": "strings", "WriteUInt": "uint", "WriteUInt32": "uint32", "WriteUInts": "uints", "WriteUInt32s": "uint32s",
	"WriteInt": "int", "WriteInt32": "int32", "WriteInts": "ints", "WriteInt32s": "int32s", "WriteBool": "bool", "WriteBools": "bools",
	"WriteBytes": "bytes", "WriteBytesArray": "bytesarray", "WriteEncodable": "msg",
}
var readerKind = map[string]string{
	"ReadString": "string", "ReadStrings": "strings", "ReadUInt": "uint", "ReadUInt32": "uint32", "ReadUInts": "uints", "ReadUInt32s": "uint32s",
	"ReadInt": "int", "ReadInt32": "int32", "ReadInts": "ints", "ReadBool": "bool", "ReadBools": "bools",
	"ReadBytes": "bytes", "ReadBytesArray": "bytesarray", "ReadDecodable": "msg", "ReadDecodables": "msgs",
}

// codecCalls extracts the ordered codec calls of a generated method.
func codecCalls(fn *ssa.Function, recvKind string) []codecCall {
	var out []codecCall
	tb := newTB()
	for _, b := range fn.Blocks {
		for _, in := range b.Instrs {
			call, ok := in.(*ssa.Call)
			if !ok {
				continue
			}
			name := CalleeName(call.Common())
			if !strings.HasPrefix(name, "(*codec."+recvKind+").") {
				continue
			}
			m := strings.TrimPrefix(name, "(*codec."+recvKind+").")
			if recvKind == "Writer" && writerKind[m] == "" || recvKind == "Reader" && readerKind[m] == "" {
				continue
			}
			args := call.Common().Args
			cc := codecCall{Method: m, Call: call, InLoop: reachable2(b, b)}
			if c, ok := args[1].(*ssa.Const); ok {
				cc.Num = int(c.Int64())
			} else {
				cc.Num = -1
			}
			if recvKind == "Reader" {
				last := args[len(args)-1]
				if c, ok := last.(*ssa.Const); ok && c.Value != nil && (c.Value.ExactString() == "true" || c.Value.ExactString() == "false") {
					cc.Strict = c.Value.ExactString()
				}
				cc.Field = storedField(call)
			} else {
				// the field written: first receiver field in the value term
				vt := tb.of(args[2], 0)
				vt.Walk(func(t *Term) bool {
					if cc.Field == "" && t.Op == "field" && len(t.Args) == 1 && t.Args[0].Op == "param" && t.Args[0].Sym == "p0" {
						cc.Field = t.Sym
						return false
					}
					return true
				})
			}
			out = append(out, cc)
		}
	}
	sort.SliceStable(out, func(i, j int) bool { return out[i].Call.Pos() < out[j].Call.Pos() })
	return out
}

// storedField finds which receiver field the result of a reader call ends up in.
func storedField(call *ssa.Call) string {
	seen := map[ssa.Value]bool{}
	var res string
	var rec func(v ssa.Value, depth int)
	rec = func(v ssa.Value, depth int) {
		if v == nil || seen[v] || depth > 8 || res != "" || v.Referrers() == nil {
			return
		}
		seen[v] = true
		for _, r := range *v.Referrers() {
			switch u := r.(type) {
			case *ssa.Store:
				if fa, ok := u.Addr.(*ssa.FieldAddr); ok && u.Val == v {
					if t := T(fa.X); t.Op == "param" && t.Sym == "p0" {
						_, st := ownerOfFieldBase(fa.X.Type())
						res = fieldNameOf(st.Field(fa.Field))
						return
					}
				}
				// stored into an element of a local slice that is later stored to the field
				if ia, ok := u.Addr.(*ssa.IndexAddr); ok && u.Val == v {
					rec(ia.X, depth+1)
				}
			case *ssa.Extract:
				if u.Index == 0 {
					rec(u, depth+1)
				}
			case *ssa.Phi, *ssa.ChangeType, *ssa.Convert, *ssa.TypeAssert, *ssa.MakeInterface, *ssa.Slice, *ssa.Index, *ssa.Lookup, *ssa.Range, *ssa.Next:
				rec(u.(ssa.Value), depth+1)
			case *ssa.Call:
				// conversion helpers (BytesArrayToHexArray …) and append
				rec(u, depth+1)
			case *ssa.UnOp:
				rec(u, depth+1)
			case *ssa.IndexAddr:
				rec(u, depth+1)
			}
		}
	}
	rec(call, 0)
	return res
}

func (s *Schema) method(p *Program, name string) *ssa.Function {
	pkgPath := s.Named.Obj().Pkg().Path()
	return p.Funcs[relPkg(pkgPath)+".(*"+s.Named.Obj().Name()+")."+name]
}

// wireCompatible: two schemas describe the same bytes (requester-side vs
// handler-side structs). Nested messages are compatible with bytes.
func wireFamily(k string) string {
	switch k {
	case "string", "bytes", "msg":
		return "len-delimited"
	case "strings", "bytesarray", "msgs":
		return "repeated len-delimited"
	case "uint", "uint32", "int", "int32", "bool":
		return "varint:" + map[string]string{"uint": "u", "uint32": "u", "int": "s", "int32": "s", "bool": "b"}[k]
	case "uints", "uint32s", "ints", "int32s", "bools":
		return "packed:" + map[string]string{"uints": "u", "uint32s": "u", "ints": "s", "int32s": "s", "bools": "b"}[k]
	}
	return "?"
}
