package main

import (
	"go/types"
	"strings"

	"golang.org/x/tools/go/ssa"
)

func typeName(t types.Type) string {
	return types.TypeString(t, func(p *types.Package) string { return relPkgName(p) })
}

func isBatchType(t types.Type) bool {
	n := typeName(t)
	return n == "*db.Batch" || n == "db/diffdb.DatabaseWriter"
}

func init() {
	register("C13", "Structural necessary conditions of crash-atomic block commit/removal, for every path: "+
		"(R1) durability point: (*db.DB).Write hands the batch to pebble Apply with the pebble.Sync option object and Batch.Set/Del only stage; "+
		"(R2) who-may-write: in the consensus/blockchain packages (*db.DB).Write is called only by Chain.AddBlock, Chain.RemoveBlock and ClearTempBlocks (temp family only), unbatched DB.Set/Del/DropAll have no production caller, and the block pipeline reaches Write only through AddBlock/RemoveBlock; "+
		"(R3) single batch: each pipeline function creates exactly one batch and every writer it calls (consensus-store Commit, RevertDiff, Batch.Set/Del, AddBlock/RemoveBlock) receives that very value; "+
		"(R4) staging order: consensus-store commit and the revert diff are staged before AddBlock, diff reversal and diff delete before RemoveBlock, inside AddBlock/RemoveBlock the index writes are staged before the single Write and the cache is touched only after it; "+
		"(R5) restart derives the tip from the height index only; (R6) every other production user of (*db.DB).Write has one batch, one Write per path.",
		runC13)
}

func runC13(c *Ctx) {
	p := c.P
	c.Assume = append(c.Assume,
		"pebble Apply with Sync is atomic and durable (third-party, trusted)",
		"the engine/application two-store window is by design recovered by ABIHandler.Init (see C16)",
		"DB instances are abstracted to the package that owns the call site (no points-to analysis available)")
	write := c.Anchor("pkg/db.(*DB).Write")
	addBlock := c.Anchor("pkg/blockchain.(*Chain).AddBlock")
	removeBlock := c.Anchor("pkg/blockchain.(*Chain).RemoveBlock")
	clearTemp := c.Anchor("pkg/blockchain.(*DataAccess).ClearTempBlocks")
	procV := c.Anchor("pkg/consensus.(*Executer).processValidated")
	procG := c.Anchor("pkg/consensus.(*Executer).processGenesisBlock")
	del := c.Anchor("pkg/consensus.(*Executer).deleteBlock")
	prep := c.Anchor("pkg/blockchain.(*Chain).PrepareCache")
	if write == nil || addBlock == nil || removeBlock == nil || clearTemp == nil || procV == nil || procG == nil || del == nil || prep == nil {
		return
	}

	// ---- R1 durability point
	n := 0
	for _, s := range AllCalls(write) {
		name := CalleeName(s.Common())
		if strings.HasSuffix(name, "pebble.DB).Apply") {
			n++
			t := T(s.Common().Args[len(s.Common().Args)-1])
			ok := t.Op == "load" && t.Args[0].Op == "global" && strings.HasSuffix(t.Args[0].Sym, "pebble.Sync")
			c.Require("C13.R1 write-is-synced", "db.(*DB).Write ⇒ pebble Apply", p.InstrPos(s), "write option is the pebble.Sync object", ok, "option: "+t.String())
			bt := T(ArgK(s, 1))
			c.Require("C13.R1 write-applies-the-batch", "db.(*DB).Write ⇒ pebble Apply", p.InstrPos(s), "applies the batch parameter's inner pebble batch", bt.String() == "p1.inner", "batch: "+bt.String())
		} else if strings.Contains(name, "pebble.DB)") {
			c.Require("C13.R1 write-is-single-apply", "db.(*DB).Write ⇒ "+name, p.InstrPos(s), "Write performs nothing on the pebble DB except one Apply", false, "")
		}
	}
	c.MinInstances("C13.R1 write-is-synced", n, 1)
	for _, key := range []string{"pkg/db.(*Batch).Set", "pkg/db.(*Batch).Del"} {
		fn := c.Anchor(key)
		if fn == nil {
			continue
		}
		w := p.Reaches(fn, func(name string, _ ssa.CallInstruction) bool {
			if !strings.Contains(name, "cockroachdb/pebble") {
				return false
			}
			// the only pebble operations a staging call may perform: staging on the inner batch
			for _, okName := range []string{"pebble.Batch).Set", "pebble.Batch).Delete", "pebble.Batch).Len", "pebble.Batch).Count", "pebble.Batch).Empty"} {
				if strings.HasSuffix(name, okName) {
					return false
				}
			}
			return true
		}, 3)
		c.Require("C13.R1 batch-ops-only-stage", key, p.Pos(fn.Pos()), "Batch.Set/Del only stage on the inner pebble batch: no commit, apply, reset or direct DB operation", w == nil, strings.Join(w, " → "))
	}

	// ---- R2 who may call Write / unbatched mutators
	allowed := map[*ssa.Function]bool{addBlock: true, removeBlock: true, clearTemp: true}
	nW := 0
	for _, fn := range p.Subjects() {
		if !IsProd(fn) {
			continue
		}
		k := FuncKey(fn)
		inChainPkgs := strings.HasPrefix(k, "pkg/consensus") || strings.HasPrefix(k, "pkg/blockchain") || strings.HasPrefix(k, "pkg/db/diffdb")
		for _, op := range DBOps(fn) {
			if !strings.HasPrefix(op.Recv, "(*db.DB).") {
				continue
			}
			if op.Kind == "Write" {
				nW++
				if inChainPkgs {
					c.Require("C13.R2 who-may-write", k+" ⇒ (*db.DB).Write", p.InstrPos(op.Call),
						"on the chain database only AddBlock, RemoveBlock and ClearTempBlocks apply a batch", allowed[fn], "")
				}
			} else {
				c.Require("C13.R2 no-unbatched-mutation", k+" ⇒ "+op.Recv, p.InstrPos(op.Call), "no production caller of (*db.DB).Set/Del/DropAll", false, "")
			}
		}
	}
	c.MinInstances("C13.R2 who-may-write", nW, 3)
	// ClearTempBlocks touches the temp family only
	{
		iter := CallsIn(clearTemp, "(*db.DB).Iterate")
		okIter := len(iter) == 1 && keyFamily(T(ArgK(iter[0].Call, 1))) == "blockchain.dbPrefixTemp"
		c.Require("C13.R2 cleartemp-temp-only", "ClearTempBlocks ⇒ Iterate", p.Pos(clearTemp.Pos()), "iterates the temp-block family", okIter, "")
		for _, op := range DBOps(clearTemp) {
			if op.Kind == "Write" {
				continue
			}
			ok := op.Kind == "Del" && op.Key.Any(func(t *Term) bool {
				return t.Op == "call" && strings.HasSuffix(t.Sym, "KeyValue.Key") && t.Args[0].Any(IsCall("(*db.DB).Iterate").F)
			})
			c.Require("C13.R2 cleartemp-temp-only", "ClearTempBlocks "+op.Kind, p.InstrPos(op.Call), "only deletes keys returned by the temp-family scan", ok, "key: "+op.Key.String())
		}
	}
	// pipeline reaches Write only via AddBlock/RemoveBlock
	for _, f := range []*ssa.Function{procV, procG, del} {
		w := reachesAvoidingFuncs(p, f, map[*ssa.Function]bool{addBlock: true, removeBlock: true}, func(name string) bool {
			return name == "(*db.DB).Write" || name == "(*db.DB).Set" || name == "(*db.DB).Del" || name == "(*db.DB).DropAll"
		})
		c.Require("C13.R2 single-durability-point", FuncKey(f), p.Pos(f.Pos()), "no chain-DB write is reachable except through Chain.AddBlock/RemoveBlock", w == nil, strings.Join(w, " → "))
	}

	// ---- R3 single batch
	for _, f := range []*ssa.Function{procV, procG, del} {
		nb := CallsIn(f, "(*db.DB).NewBatch")
		c.Require("C13.R3 one-batch", FuncKey(f), p.Pos(f.Pos()), "exactly one NewBatch() in the function", len(nb) == 1, "")
		if len(nb) != 1 {
			continue
		}
		bv := nb[0].Call.Value()
		uses := 0
		for _, call := range AllCallsDeep(f) {
			if newHelperCallee(call) != nil {
				continue // what the helper does with the batch is examined inside it
			}
			args := call.Common().Args
			for _, a := range args {
				if !isBatchType(a.Type()) {
					continue
				}
				uses++
				src := valueRoot(a)
				c.Require("C13.R3 same-batch", FuncKey(f)+" ⇒ "+CalleeName(call.Common()), p.InstrPos(call),
					"every writer receives the function's single NewBatch() value", src == ssa.Value(bv), "argument: "+T(a).String())
			}
		}
		c.MinInstances("C13.R3 same-batch in "+FuncKey(f), uses, 3)
	}

	// ---- R4 staging order
	type stage struct {
		fn     *ssa.Function
		final  string
		before []string
	}
	for _, st := range []stage{
		{procV, "(*blockchain.Chain).AddBlock", []string{"(*db/diffdb.Database).Commit", "stateDiffSet"}},
		{procG, "(*blockchain.Chain).AddBlock", []string{"(*db/diffdb.Database).Commit", "stateDiffSet"}},
		{del, "(*blockchain.Chain).RemoveBlock", []string{"(*db/diffdb.Database).RevertDiff", "stateDiffDel"}},
	} {
		fin := CallsIn(st.fn, st.final)
		c.Require("C13.R4 one-commit-call", FuncKey(st.fn)+" ⇒ "+st.final, p.Pos(st.fn.Pos()), "exactly one call of "+st.final, len(fin) == 1, "")
		if len(fin) != 1 {
			continue
		}
		for _, b := range st.before {
			var sites []ssa.CallInstruction
			switch b {
			case "stateDiffSet", "stateDiffDel":
				for _, op := range DBOps(st.fn) {
					if op.Family == "blockchain.DBPrefixStateDiff" && ((b == "stateDiffSet" && op.Kind == "Set") || (b == "stateDiffDel" && op.Kind == "Del")) {
						// the pruning Del of old diffs inside the finality branch is not the staging of this block's diff
						if b == "stateDiffSet" || !op.Key.Any(func(t *Term) bool { return t.Op == "index" || t.Op == "next" }) {
							sites = append(sites, op.Call)
						}
					}
				}
			default:
				for _, s := range CallsIn(st.fn, b) {
					sites = append(sites, s.Call)
				}
			}
			ok := false
			for _, s := range sites {
				if instrDominates(s, fin[0].Call) {
					ok = true
				}
			}
			c.Require("C13.R4 staged-before-commit", FuncKey(st.fn)+": "+b+" before "+st.final, p.InstrPos(fin[0].Call),
				b+" dominates the call that applies the batch", ok, "")
		}
	}
	// the diff value staged is the one Commit returned; key carries this block's height
	for _, f := range []*ssa.Function{procV, procG} {
		for _, op := range DBOps(f) {
			if op.Family == "blockchain.DBPrefixStateDiff" && op.Kind == "Set" {
				okV := op.Val.Op == "call" && strings.HasSuffix(op.Val.Sym, "Diff).Encode") && op.Val.Args[0].Any(IsCall("(*db/diffdb.Database).Commit").F)
				c.Require("C13.R4 diff-is-commit-result", FuncKey(f)+" Set StateDiff", p.InstrPos(op.Call), "value is Encode() of the Diff returned by the consensus-store Commit", okV, "value: "+op.Val.String())
				okK := op.Key.Any(IsField("blockchain.BlockHeader", "Height").F)
				c.Require("C13.R4 diff-key-is-block-height", FuncKey(f)+" Set StateDiff", p.InstrPos(op.Call), "key is StateDiff ‖ block.Header.Height", okK, "key: "+op.Key.String())
			}
		}
	}
	// inside AddBlock / RemoveBlock
	for _, x := range []struct {
		fn          *ssa.Function
		stage, post string
	}{{addBlock, "(*blockchain.DataAccess).saveBlock", "(*blockchain.DataAccess).Cache"}, {removeBlock, "(*blockchain.DataAccess).removeBlock", "(*blockchain.DataAccess).RemoveCache"}} {
		st, wr, po := CallsIn(x.fn, x.stage), CallsIn(x.fn, "(*db.DB).Write"), CallsIn(x.fn, x.post)
		ok := len(st) == 1 && len(wr) == 1 && len(po) == 1
		c.Require("C13.R4 stage-write-cache", FuncKey(x.fn), p.Pos(x.fn.Pos()), "exactly one stage call, one Write, one cache update", ok, "")
		if !ok {
			continue
		}
		c.Require("C13.R4 stage-write-cache", FuncKey(x.fn)+": stage ≺ Write", p.InstrPos(wr[0].Call), "index writes are staged before the Write", instrDominates(st[0].Call, wr[0].Call), "")
		c.Require("C13.R4 stage-write-cache", FuncKey(x.fn)+": Write ≺ cache", p.InstrPos(po[0].Call), "the in-memory tip changes only after the Write", instrDominates(wr[0].Call, po[0].Call), "")
		b1, b2 := T(ArgK(st[0].Call, 1)), T(ArgK(wr[0].Call, 1))
		c.Require("C13.R4 stage-write-cache", FuncKey(x.fn)+": same batch", p.InstrPos(wr[0].Call), "the staged batch is the written batch (the batch parameter)", b1.Op == "param" && b1.String() == b2.String(), b1.String()+" vs "+b2.String())
	}

	// ---- R5 restart
	{
		glb := c.Anchor("pkg/blockchain.(*DataAccess).getLastBlock")
		if glb != nil {
			okCall := len(CallsIn(prep, "(*blockchain.DataAccess).getLastBlock")) >= 1
			c.Require("C13.R5 restart-tip-from-height-index", "PrepareCache ⇒ getLastBlock", p.Pos(prep.Pos()), "the restart tip comes from getLastBlock", okCall, "")
			it := CallsIn(glb, "(*db.DB).Iterate")
			ok := false
			detail := ""
			if len(it) == 1 {
				a := it[0].Call.Common().Args
				fam := keyFamily(T(a[1]))
				lim, rev := T(a[2]), T(a[3])
				ok = fam == "blockchain.dbPrefixBlockHeightToBlockID" && lim.String() == "1" && rev.String() == "true"
				detail = fam + " limit=" + lim.String() + " reverse=" + rev.String()
			}
			c.Require("C13.R5 restart-tip-from-height-index", "getLastBlock ⇒ Iterate", p.Pos(glb.Pos()), "highest entry of the height→ID index (limit 1, reverse)", ok, detail)
			// … and it is the block cached last: the cache's tip is whatever was pushed last, so
			// after any other block is cached, every successful way out caches getLastBlock's
			pf := factsOf(prep)
			var tip ssa.Value
			for _, s := range CallsIn(prep, "(*blockchain.DataAccess).getLastBlock") {
				tip = s.Call.Value()
			}
			isTipArg := func(v ssa.Value) bool {
				t := pf.Term(v)
				return tip != nil && (t.V == tip || t.String() == pf.Term(tip).String()+"#0" || (t.Op == "extract" && t.Sym == "#0" && len(t.Args) == 1 && t.Args[0].V == tip))
			}
			isTipCache := func(in ssa.Instruction) bool {
				cl, ok := in.(ssa.CallInstruction)
				return ok && CalleeName(cl.Common()) == "(*blockchain.DataAccess).Cache" && isTipArg(ArgK(cl, 1))
			}
			nOther := 0
			for _, s := range CallsIn(prep, "(*blockchain.DataAccess).Cache") {
				if isTipCache(s.Call) {
					continue
				}
				nOther++
				path := reachesReturnAvoiding(s.Call, isTipCache, func(r *ssa.Return) bool { return classifyReturn(pf, r) != RetErr })
				c.Require("C13.R5 restart-tip-cached-last", "PrepareCache ⇒ Cache("+pf.Term(ArgK(s.Call, 1)).String()+")", p.InstrPos(s.Call), "after an earlier block is cached, every successful exit still caches the block getLastBlock returned (the tip)", path == nil, pathStr(path))
			}
			c.MinInstances("C13.R5 restart-tip-cached-last", nOther, 1)
		}
	}

	// ---- R6 other users of Write: one batch, one Write per path
	for _, fn := range p.Subjects() {
		if !IsProd(fn) || allowed[fn] {
			continue
		}
		wr := CallsIn(fn, "(*db.DB).Write")
		if len(wr) == 0 {
			continue
		}
		k := FuncKey(fn)
		for i, w := range wr {
			src := stripConv(ArgK(w.Call, 1))
			call, isCall := src.(*ssa.Call)
			ok := isCall && CalleeName(call.Common()) == "(*db.DB).NewBatch"
			c.Require("C13.R6 write-own-batch", k+" ⇒ (*db.DB).Write", p.InstrPos(w.Call), "the applied batch is one this function created with NewBatch()", ok, "batch: "+T(src).String())
			for j, w2 := range wr {
				if i != j && (w.Call.Block() == w2.Call.Block() || reachable(w.Call.Block(), w2.Call.Block())) && i < j {
					c.Require("C13.R6 one-write-per-path", k, p.InstrPos(w2.Call), "no path applies two batches", false, "second Write reachable from the first")
				}
			}
		}
		c.Count("other Write users", 1)
	}
	// ---- R7 the removal batch undoes every index entry the commit batch made: the height →
	// ID index is what a restart reads first (PrepareCache takes its highest entry as the tip);
	// an entry left behind by a removal points at a block that is gone if the node stops
	// before a replacement block overwrites it
	if sb, rb := c.Anchor("pkg/blockchain.(*DataAccess).saveBlock"), c.Anchor("pkg/blockchain.(*DataAccess).removeBlock"); sb != nil && rb != nil {
		checkKeyFamilySymmetry(c, "C13.R7", sb, rb)
	}
}

func stripConv(v ssa.Value) ssa.Value {
	for {
		switch x := v.(type) {
		case *ssa.MakeInterface:
			v = x.X
		case *ssa.ChangeInterface:
			v = x.X
		case *ssa.ChangeType:
			v = x.X
		case *ssa.Convert:
			v = x.X
		default:
			return v
		}
	}
}

// reachesAvoidingFuncs: does f transitively (own-module callees, closures
// included) reach a call satisfying bad, without going through any function in cut?
func reachesAvoidingFuncs(p *Program, f *ssa.Function, cut map[*ssa.Function]bool, bad func(name string) bool) []string {
	seen := map[*ssa.Function]bool{}
	var rec func(g *ssa.Function, depth int) []string
	rec = func(g *ssa.Function, depth int) []string {
		if g == nil || seen[g] || cut[g] || depth > 12 || len(g.Blocks) == 0 {
			return nil
		}
		seen[g] = true
		for _, call := range AllCalls(g) {
			name := CalleeName(call.Common())
			if bad(name) {
				return []string{FuncKey(g) + " calls " + name + " @" + p.InstrPos(call)}
			}
		}
		for _, call := range AllCalls(g) {
			if strings.HasPrefix(CalleeName(call.Common()), "iface:labi.ABI.") {
				continue // application boundary: a different store, by design (see assumptions)
			}
			for _, h := range p.Callees(call) {
				if IsOwn(h) {
					if w := rec(h, depth+1); w != nil {
						return append([]string{FuncKey(g)}, w...)
					}
				}
			}
		}
		for _, af := range g.AnonFuncs {
			if w := rec(af, depth+1); w != nil {
				return append([]string{FuncKey(g) + "(closure)"}, w...)
			}
		}
		return nil
	}
	return rec(f, 0)
}
