package main

import (
	"go/types"
	"fmt"
	"strings"

	"golang.org/x/tools/go/ssa"
)

func init() {
	register("C18", "Structural necessary conditions of 'penalties accumulate into enforced, expiring bans', for every path: "+
		"(R1–R4) lock rules on the connection gater and the rate limiter (score and blacklist maps only under the gater mutex); "+
		"(R7) every Intercept* gate that receives an address answers through isPeerConnectionAllowed (documented exceptions: peer-ID dial, outbound secured, upgraded); "+
		"(R8) the predicate's truth table over {blacklisted, has score entry, entry has an expiry} equals ¬blacklisted ∧ ¬(entry ∧ expiry) — exhaustive abstract interpretation; "+
		"(R9) addPenalty accumulates old+score, stores a future expiry exactly under newScore >= MaxPenaltyScore, fresh entries carry no expiry; the sweep deletes an entry exactly under expiry set ∧ now > expiry; "+
		"(R10) ban ⇒ disconnect: the ban edge of Peer.addPenalty/banPeer reaches Disconnect, and every multiaddr handed to them carries the /p2p/<id> component they parse; "+
		"(R12) every access of the score and blacklist maps uses the same key function (net.IP.String()); "+
		"(R11) penalty coverage in the message protocol: malformed envelope, unknown procedure and rate excess each reach a penalty, and every penalty call is control-dependent on a failure fact.",
		runC18)
}

func runC18(c *Ctx) {
	p := c.P
	c.Assume = append(c.Assume, "libp2p consults the connection gater for every dial/accept (third-party behaviour)", "wall-clock behaviour around the expiry instant is not decided")
	// well-formed traffic never leads to a penalty: the syncers ban the peer that served the bad
	// data, not the peer whose block happened to start the sync (the rule of C19.R8)
	checkBanThePeerThatServed(c, "C18.R15 ban-names-the-offender")
	allowed := c.Anchor("pkg/p2p.(*connectionGater).isPeerConnectionAllowed")
	addPen := c.Anchor("pkg/p2p.(*connectionGater).addPenalty")
	start := c.Anchor("pkg/p2p.(*connectionGater).start")
	peerAdd := c.Anchor("pkg/p2p.(*Peer).addPenalty")
	peerBan := c.Anchor("pkg/p2p.(*Peer).banPeer")
	onReq := c.Anchor("pkg/p2p.(*MessageProtocol).onRequest")
	onResp := c.Anchor("pkg/p2p.(*MessageProtocol).onResponse")
	check := c.Anchor("pkg/p2p.(*rateLimit).checkLimit")
	if allowed == nil || addPen == nil || start == nil || peerAdd == nil || peerBan == nil || onReq == nil || onResp == nil || check == nil {
		return
	}
	runLockRulesFuncs(c, "C18", func(fn *ssa.Function) bool {
		k := FuncKey(fn)
		return strings.HasPrefix(k, "pkg/p2p.(*connectionGater).") || strings.HasPrefix(k, "pkg/p2p.(*rateLimit).") || strings.HasPrefix(k, "pkg/p2p.rateLimiterHandler")
	}, []string{"p2p.connectionGater", "p2p.rpcMessageCounter"})

	// ---- R7 gates
	gate := func(key string, exceptionOK func(ff *FuncFacts, r *ssa.Return) bool) {
		fn := c.Anchor(key)
		if fn == nil {
			return
		}
		ff := factsOf(fn)
		for _, r := range Returns(fn) {
			if r.Block() == fn.Recover {
				continue
			}
			t := ff.Term(r.Results[0])
			ok := t.Op == "call" && t.Sym == "(*p2p.connectionGater).isPeerConnectionAllowed"
			if ok {
				a := t.Args[1]
				ok = a.Op == "param" || (a.Op == "call" && strings.HasSuffix(a.Sym, "ConnMultiaddrs.RemoteMultiaddr"))
			}
			if !ok && exceptionOK != nil {
				ok = exceptionOK(ff, r)
			}
			c.Require("C18.R7 gates-consult-predicate", key, p.InstrPos(r), "the gate's answer is isPeerConnectionAllowed(<the remote address>)", ok, "returns "+t.String())
		}
	}
	gate("pkg/p2p.(*connectionGater).InterceptAddrDial", nil)
	gate("pkg/p2p.(*connectionGater).InterceptAccept", nil)
	gate("pkg/p2p.(*connectionGater).InterceptSecured", func(ff *FuncFacts, r *ssa.Return) bool {
		// outbound connections were filtered at dial time: `true` only under dir == DirOutbound
		t := ff.Term(r.Results[0])
		if t.String() != "true" {
			return false
		}
		out, _ := p.constValue("github.com/libp2p/go-libp2p/core/network", "DirOutbound")
		for _, f := range ff.FactsAt(r.Block()) {
			if f.IsCmp && f.Op.String() == "==" && f.L.Op == "param" && (f.R.Sym == out || f.R.Sym == "2") {
				return true
			}
		}
		return false
	})

	// ---- R8 the gate answers from the tables alone. An entry that is banned stays refused until
	// the sweep has removed it (and with it the old score): a gate that lets a peer in by the
	// clock while the entry is still there makes the next small penalty add to the old score —
	// the peer is banned again for a full period instead of starting from a clean score.
	{
		var clock []ssa.CallInstruction
		for _, call := range AllCallsDeep(allowed) {
			n := CalleeName(call.Common())
			if n == "time.Now" || n == "time.Since" || n == "time.Until" {
				clock = append(clock, call)
			}
		}
		site := p.Pos(allowed.Pos())
		if len(clock) > 0 {
			site = p.InstrPos(clock[0])
		}
		c.Require("C18.R8 gate-answers-from-the-tables", FuncKey(allowed), site, "the connection predicate consults only the blacklist and the score table (expiry is applied by the sweep, which also clears the score)", len(clock) == 0, fmt.Sprintf("%d clock reads", len(clock)))
		if len(clock) > 0 {
			goto afterR8
		}
	}
	{
		k := func(e *Env) (bool, string) {
			r := &pathRun{env: e, special: func(v ssa.Value, eval func(ssa.Value) AVal) (AVal, bool) {
				t := T(v)
				s := t.String()
				switch {
				case t.Op == "binop" && strings.Contains(s, "ToIP") && strings.HasSuffix(s, "#1 != nil)"):
					return AVal{K: 'b', B: false}, true
				case t.Op == "extract" && t.Sym == "#1" && t.Args[0].Op == "lookup" && strings.Contains(s, ".blockedAddrs["):
					return AVal{K: 'b', B: e.B("blacklisted")}, true
				case t.Op == "extract" && t.Sym == "#1" && t.Args[0].Op == "lookup" && strings.Contains(s, ".peerScore["):
					return AVal{K: 'b', B: e.B("entry")}, true
				case t.Op == "binop" && (t.Sym == "!=" || t.Sym == "==") && strings.HasSuffix(t.Args[0].String(), ".expiration") && t.Args[1].String() == "-1":
					b := e.B("hasExpiry")
					if t.Sym == "==" {
						b = !b
					}
					return AVal{K: 'b', B: b}, true
				}
				return AVal{}, false
			}}
			res := r.run(allowed, objArgs(2))
			if r.err != "" || len(res) != 1 || res[0].K != 'b' {
				return false, "cannot interpret: " + r.err
			}
			return res[0].B, ""
		}
		spec := func(e *Env) bool { return !e.B("blacklisted") && !(e.B("entry") && e.B("hasExpiry")) }
		ev, atoms, dis, err := exhaust(k, spec, 0, nil)
		if err != "" {
			c.Undecided("C18.R8 predicate-table", FuncKey(allowed), err)
		} else {
			c.Require("C18.R8 predicate-table", FuncKey(allowed)+" = ¬blacklisted ∧ ¬(entry ∧ expiry)", p.Pos(allowed.Pos()), fmt.Sprintf("truth table over %v (%d abstract inputs) equals the specification", atoms, ev), dis == "" && len(atoms) == 3, dis)
		}
	}

afterR8:
	// ---- R14 a penalty (or ban) for a peer reaches every address the peer is connected from:
	// no way round the loop over the peer's connections skips the penalty call — a connection
	// the first penalty's own disconnect has just closed still names an IP that must be charged
	for _, x := range []struct{ fn, callee string }{
		{"pkg/p2p.(*Connection).ApplyPenalty", "addPenalty"},
		{"pkg/p2p.(*Connection).BanPeer", "banPeer"},
	} {
		fn := c.Anchor(x.fn)
		if fn == nil {
			continue
		}
		// the penalty call, or — when the loop lives in a helper that is handed the action as a
		// function literal — the call of that function parameter, the literal containing it
		litHasPen := false
		for _, call := range AllCalls(fn) {
			for _, a := range call.Common().Args {
				if mc, ok := a.(*ssa.MakeClosure); ok {
					if lf, ok := mc.Fn.(*ssa.Function); ok {
						for _, c2 := range AllCallsDeep(lf) {
							if strings.HasSuffix(CalleeName(c2.Common()), "."+x.callee) {
								litHasPen = true
							}
						}
					}
				}
			}
		}
		isPen := func(in ssa.Instruction) bool {
			cl, ok := in.(ssa.CallInstruction)
			if !ok {
				return false
			}
			if strings.HasSuffix(CalleeName(cl.Common()), "."+x.callee) {
				return true
			}
			if pv, isParam := cl.Common().Value.(*ssa.Parameter); isParam && litHasPen {
				_, isFn := pv.Type().Underlying().(*types.Signature)
				return isFn
			}
			return false
		}
		n := 0
		cands := []*ssa.Function{fn}
		for _, call := range AllCalls(fn) {
			if h := newHelperCallee(call); h != nil {
				cands = append(cands, h)
			}
		}
		for _, g := range cands {
			for _, li := range naturalLoops(g) {
				hdr := li.Header
				for _, sx := range hdr.Succs {
					if !li.Blocks[sx] {
						continue
					}
					n++
					skip := reachesBlockAvoiding(sx, hdr, isPen)
					c.Require("C18.R14 every-connection-penalised", FuncKey(fn)+": loop over the peer's connections", p.Pos(fn.Pos()), "no iteration gets back to the loop head without having called "+x.callee, !skip, "")
				}
			}
		}
		c.MinInstances("C18.R14 every-connection-penalised "+x.callee, n, 1)
	}
	// ---- R12 one key function for the score/blacklist maps (writers and readers must agree)
	{
		n := 0
		kinds := map[string]bool{} // distinct (function, access kind, map)
		for _, fn := range p.Subjects() {
			if !strings.HasPrefix(FuncKey(fn), "pkg/p2p.(*connectionGater).") || len(fn.Blocks) == 0 {
				continue
			}
			tb := newTB()
			kf := factsOf(fn)
			chk := func(in ssa.Instruction, m, k ssa.Value, what string) {
				mt := tb.of(m, 0)
				if !(mt.Op == "field" && (mt.Sym == "peerScore" || mt.Sym == "blockedAddrs")) {
					return
				}
				n++
				kinds[FuncKey(fn)+" "+what+" "+mt.Sym] = true
				kt := kf.Term(k) // read in the function's own vocabulary also when the access sits in a helper
				ok := kt.Op == "call" && kt.Sym == "(net.IP).String"
				if !ok && (kt.Op == "extract" && kt.Args[0].Op == "next") {
					ok = true // key obtained by ranging over the same map
				}
				c.Require("C18.R12 one-key-function", FuncKey(fn)+": "+what+" "+mt.Sym, p.InstrPos(in), "score and blacklist maps are keyed by net.IP.String() everywhere (a reader keyed differently from the writer never finds the ban)", ok, "key: "+kt.String())
			}
			for _, b := range blocksDeep(fn) {
				for _, in := range b.Instrs {
					switch x := in.(type) {
					case *ssa.Lookup:
						chk(x, x.X, x.Index, "lookup")
					case *ssa.MapUpdate:
						chk(x, x.Map, x.Key, "update")
					case *ssa.Call:
						if CalleeName(x.Common()) == "builtin:delete" {
							chk(x, ArgK(x, 0), ArgK(x, 1), "delete")
						}
					}
				}
			}
		}
		c.Count("map accesses checked for the key function", n)
		c.MinInstances("C18.R12 one-key-function", len(kinds), 7)
	}

	// ---- R9 accumulation, ban threshold, sweep
	{
		ff := factsOf(addPen)
		maxV, _ := p.constValue("pkg/p2p", "MaxPenaltyScore")
		var mx int64
		fmt.Sscan(maxV, &mx)
		// accumulation: a store to peerInfo.score of  old.score + p2
		okAcc := false
		var newScore ssa.Value
		for _, b := range blocksDeep(addPen) {
			for _, in := range b.Instrs {
				if st, ok := in.(*ssa.Store); ok {
					if fa, ok := st.Addr.(*ssa.FieldAddr); ok {
						o, s := ownerOfFieldBase(fa.X.Type())
						if o == "p2p.peerInfo" && fieldNameOf(s.Field(fa.Field)) == "score" {
							t := ff.Term(st.Val)
							// stored value may be the φ(new, score): look through
							if strings.Contains(t.String(), ".score + p2)") {
								okAcc = true
							}
						}
					}
				}
			}
		}
		c.Require("C18.R9 accumulate", FuncKey(addPen)+": score", p.Pos(addPen.Pos()), "an existing entry's score becomes old + penalty", okAcc, "")
		// the value returned as new score
		for _, r := range Returns(addPen) {
			if classifyReturn(ff, r) == RetNil {
				newScore = r.Results[0]
			}
		}
		// the new score is the value computed as old + penalty (or the φ joining it with the
		// fresh entry's), or the score field read back after that sum was stored into it
		var accStores []*ssa.Store
		for _, b := range blocksDeep(addPen) {
			for _, in := range b.Instrs {
				if st, ok := in.(*ssa.Store); ok {
					if fa, ok := st.Addr.(*ssa.FieldAddr); ok {
						o, s := ownerOfFieldBase(fa.X.Type())
						if o == "p2p.peerInfo" && fieldNameOf(s.Field(fa.Field)) == "score" && strings.Contains(ff.Term(st.Val).String(), ".score + p2)") {
							accStores = append(accStores, st)
						}
					}
				}
			}
		}
		isNewScore := Matcher{"new score", func(t *Term) bool {
			if t.Op == "phi" || strings.Contains(t.String(), ".score + p2") {
				return true
			}
			if ld, ok := t.V.(*ssa.UnOp); ok && t.Op == "field" && t.Sym == "score" && len(accStores) == 1 {
				if fa, ok := ld.X.(*ssa.FieldAddr); ok {
					if fa.X == accStores[0].Addr.(*ssa.FieldAddr).X && instrDominates(accStores[0], ld) {
						return true
					}
					// the entry is either the stored one the penalty was just added to, or a fresh one
					// created with this penalty as its score: its score is the new score either way
					if phi, ok := fa.X.(*ssa.Phi); ok {
						good := len(phi.Edges) > 0
						for _, e := range phi.Edges {
							if e == accStores[0].Addr.(*ssa.FieldAddr).X {
								continue
							}
							if cl, ok := e.(*ssa.Call); ok && CalleeName(cl.Common()) == "p2p.newPeerInfo" && len(cl.Call.Args) == 2 && T(cl.Call.Args[1]).String() == "p2" {
								continue
							}
							good = false
						}
						return good
					}
				}
			}
			return false
		}}
		// expiry stores
		nExp := 0
		checkExpiry := func(site ssa.Instruction, val *Term, blk *ssa.BasicBlock) {
			if val.String() == "-1" {
				return // a fresh entry without expiry
			}
			nExp++
			future := strings.Contains(val.String(), "time.Now") && strings.Contains(val.String(), "+") && strings.Contains(val.String(), ".expiration")
			banEdge := false
			for _, f := range ff.FactsAt(blk) {
				if f.Entails(CmpSpec{A: isNewScore, NoB: true, Rel: GE, D: mx}) {
					banEdge = true
				}
			}
			c.Require("C18.R9 ban-threshold", FuncKey(addPen)+": expiry set", p.InstrPos(site), "a ban expiry (now + expiration) is stored exactly under newScore >= MaxPenaltyScore", future && banEdge, fmt.Sprintf("future=%v banEdge=%v value=%s", future, banEdge, val))
		}
		for _, b := range blocksDeep(addPen) {
			for _, in := range b.Instrs {
				switch x := in.(type) {
				case *ssa.Store:
					if fa, ok := x.Addr.(*ssa.FieldAddr); ok {
						o, s := ownerOfFieldBase(fa.X.Type())
						if o == "p2p.peerInfo" && fieldNameOf(s.Field(fa.Field)) == "expiration" {
							checkExpiry(x, ff.Term(x.Val), b)
						}
					}
				case *ssa.Call:
					if CalleeName(x.Common()) == "p2p.newPeerInfo" {
						ex := ff.Term(ArgK(x, 0))
						if ex.String() == "-1" {
							// fresh entry without expiry: must not be on the ban edge only
							continue
						}
						checkExpiry(x, ex, b)
					}
				}
			}
		}
		c.MinInstances("C18.R9 ban-threshold", nExp, 1)
		_ = newScore
		// no ban below the threshold: on the edge newScore < Max no expiry store is reachable
		for i, e := range ff.Edges {
			f := ff.Facts[i]
			if f.IsCmp && f.Entails(CmpSpec{A: isNewScore, NoB: true, Rel: LE, D: mx - 1}) {
				w := edgeReachesInstr(e, func(in ssa.Instruction) bool {
					if st, ok := in.(*ssa.Store); ok {
						if fa, ok := st.Addr.(*ssa.FieldAddr); ok {
							o, s := ownerOfFieldBase(fa.X.Type())
							return o == "p2p.peerInfo" && fieldNameOf(s.Field(fa.Field)) == "expiration"
						}
					}
					return false
				})
				c.Require("C18.R9 ban-threshold", FuncKey(addPen)+": below threshold", p.InstrPos(e.If), "no expiry is stored while the score is below MaxPenaltyScore", w == nil, "")
			}
		}
		// sweep
		var sweep *ssa.Function
		for _, sp := range spawnsIn(start) {
			sweep = sp.Closure
		}
		if sweep == nil {
			c.Require("C18.R9 sweep", FuncKey(start), p.Pos(start.Pos()), "the expiry sweep goroutine exists", false, "")
		} else {
			sf := factsOf(sweep)
			n := 0
			for _, call := range AllCallsDeep(sweep) {
				if CalleeName(call.Common()) != "builtin:delete" || !strings.Contains(T(ArgK(call, 0)).String(), "peerScore") {
					continue
				}
				n++
				hasExp, expired := false, false
				for _, f := range sf.FactsAt(call.Block()) {
					if f.IsCmp && f.Op.String() == "!=" && strings.HasSuffix(f.L.String(), ".expiration") && f.R.String() == "-1" {
						hasExp = true
					}
					// the expiry compared with the clock is the one stored in the score map for this entry —
					// not a copy kept elsewhere (a queue of (ip, expiry) pairs goes stale when a ban is renewed)
					if f.IsCmp && f.Op.String() == ">" && strings.Contains(f.L.String(), "time.Now") && strings.HasSuffix(f.R.String(), ".expiration") && strings.Contains(f.R.String(), "peerScore") {
						expired = true
					}
				}
				c.Require("C18.R9 sweep", FuncKey(start)+": delete(peerScore)", p.InstrPos(call), "an entry is forgotten exactly when it has an expiry and now > the expiry stored for it in the score map (clean score afterwards)", hasExp && expired, fmt.Sprintf("hasExpiry=%v expired=%v", hasExp, expired))
			}
			c.MinInstances("C18.R9 sweep", n, 1)
		}
	}

	// ---- R10 ban ⇒ disconnect, address shape
	{
		pf := factsOf(peerAdd)
		for i, e := range pf.Edges {
			f := pf.Facts[i]
			if f.IsCmp && f.Op.String() == ">=" && strings.Contains(f.L.String(), "connectionGater).addPenalty") {
				first := e.To.Instrs[0]
				path := reachesReturnAvoiding(first, func(in ssa.Instruction) bool {
					cl, ok := in.(ssa.CallInstruction)
					return ok && CalleeName(cl.Common()) == "(*p2p.Peer).Disconnect"
				}, func(r *ssa.Return) bool { return classifyReturn(pf, r) != RetErr })
				c.Require("C18.R10 ban-disconnects", FuncKey(peerAdd)+": ban edge", p.InstrPos(e.If), "reaching the ban threshold disconnects the peer (or reports an error)", path == nil, pathStr(path))
			}
		}
		bf := factsOf(peerBan)
		first := peerBan.Blocks[0].Instrs[0]
		path := reachesReturnAvoiding(first, func(in ssa.Instruction) bool {
			cl, ok := in.(ssa.CallInstruction)
			return ok && CalleeName(cl.Common()) == "(*p2p.Peer).Disconnect"
		}, func(r *ssa.Return) bool { return classifyReturn(bf, r) != RetErr })
		c.Require("C18.R10 ban-disconnects", FuncKey(peerBan), p.Pos(peerBan.Pos()), "banPeer disconnects on every non-error path", path == nil, pathStr(path))
		// banPeer penalises with the full threshold
		for _, s := range CallsIn(peerBan, "(*p2p.connectionGater).addPenalty") {
			t := T(ArgK(s.Call, 2))
			mv, _ := p.constValue("pkg/p2p", "MaxPenaltyScore")
			c.Require("C18.R10 ban-disconnects", FuncKey(peerBan)+": score", p.InstrPos(s.Call), "banPeer applies MaxPenaltyScore at once", t.String() == mv, t.String())
		}
		// both parse the peer id out of the multiaddr ⇒ callers must supply /p2p/<id>
		needs := len(CallsIn(peerBan, "p2p.AddrInfoFromMultiAddr")) > 0
		n := 0
		for _, target := range []*ssa.Function{peerBan, peerAdd} {
			for _, s := range p.callSitesOf(target) {
				if !IsProd(s.Fn) {
					continue
				}
				n++
				a := T(ArgK(s.Call, 1))
				ok := !needs || (a.Op == "extract" && a.Args[0].Op == "call" && strings.HasSuffix(a.Args[0].Sym, "multiaddr.NewMultiaddr") && strings.Contains(a.Args[0].String(), `"/p2p/"`))
				c.Require("C18.R10 penalty-address-has-peer-id", FuncKey(s.Fn)+" ⇒ "+FuncKey(target), p.InstrPos(s.Call),
					"the multiaddr carries the /p2p/<id> component that the callee parses to disconnect the peer", ok, "address: "+a.String())
			}
		}
		c.MinInstances("C18.R10 penalty-address-has-peer-id", n, 4)
	}

	// ---- R11 coverage
	{
		for _, fn := range []*ssa.Function{onReq, onResp} {
			decErr, unknown := false, false
			for _, de := range deepEdges(fn) { // reading and checking may be a helper's job
				e, f := de.E, de.F
				leadsToBan := func() bool {
					first := e.To.Instrs[0]
					isBan := func(in ssa.Instruction) bool {
						cl, ok := in.(ssa.CallInstruction)
						if !ok {
							return false
						}
						if CalleeName(cl.Common()) == "(*p2p.Peer).banPeer" {
							return true
						}
						// a same-package helper whose every non-error path calls banPeer
						if g := cl.Common().StaticCallee(); g != nil && strings.HasPrefix(FuncKey(g), "pkg/p2p.") && len(g.Blocks) > 0 {
							if len(CallsIn(g, "(*p2p.Peer).banPeer")) == 0 {
								return false
							}
							gf := factsOf(g)
							first := g.Blocks[0].Instrs[0]
							path := reachesReturnAvoiding(first, func(x ssa.Instruction) bool {
								c2, ok2 := x.(ssa.CallInstruction)
								return ok2 && CalleeName(c2.Common()) == "(*p2p.Peer).banPeer"
							}, func(r *ssa.Return) bool {
								// returns on the address-construction error edge are allowed
								for _, f := range gf.FactsAt(r.Block()) {
									if f.IsCmp && f.Op.String() == "!=" && f.R.Sym == "nil" && strings.Contains(f.L.String(), "NewMultiaddr") {
										return false
									}
								}
								return true
							})
							return path == nil
						}
						return false
					}
					if isBan(first) {
						return true
					}
					return reachesReturnAvoiding(first, isBan, nil) == nil
				}
				if f.IsCmp && f.Op.String() == "!=" && strings.Contains(f.L.String(), ").Decode(") && f.R.Sym == "nil" && leadsToBan() {
					decErr = true
				}
				if !f.IsCmp && !f.Truth && f.B.Op == "extract" && f.B.Args[0].Op == "lookup" && strings.Contains(f.B.String(), ".rpcHandlers[") && leadsToBan() {
					unknown = true
				}
			}
			c.Require("C18.R11 penalty-coverage", FuncKey(fn)+": malformed envelope", p.Pos(fn.Pos()), "a decode error always reaches banPeer", decErr, "")
			c.Require("C18.R11 penalty-coverage", FuncKey(fn)+": unknown procedure", p.Pos(fn.Pos()), "an unregistered procedure always reaches banPeer", unknown, "")
			rl := CallsIn(fn, "(*p2p.rateLimit).checkLimit")
			inc := CallsIn(fn, "(*p2p.rateLimit).increaseCounter")
			c.Require("C18.R11 penalty-coverage", FuncKey(fn)+": rate limit", p.Pos(fn.Pos()), "every handled message is counted and checked against the limit", len(rl) == 1 && len(inc) == 1 && instrDominates(inc[0].Call, rl[0].Call), "")
		}
		cf := factsOf(check)
		for _, s := range CallsIn(check, "(*p2p.Peer).addPenalty") {
			ok := false
			for _, f := range cf.FactsAt(s.Call.Block()) {
				if f.IsCmp && f.Op.String() == ">" && strings.Contains(f.L.String(), ".counters[") && strings.HasSuffix(f.R.String(), ".limit") {
					ok = true
				}
			}
			c.Require("C18.R11 penalty-coverage", FuncKey(check)+": excess ⇒ penalty", p.InstrPos(s.Call), "the penalty is applied exactly when counter > limit", ok, "")
		}
		// no unconditional penalties anywhere in pkg/p2p, consensus sync, txpool
		n := 0
		for _, fn := range p.Subjects() {
			if !IsProd(fn) || len(fn.Blocks) == 0 {
				continue
			}
			k := FuncKey(fn)
			if strings.HasPrefix(k, "pkg/p2p.(*Connection).") || strings.HasPrefix(k, "pkg/p2p.(*Peer).") {
				continue // the penalty API itself
			}
			ff := factsOf(fn)
			for _, call := range AllCalls(fn) {
				nm := CalleeName(call.Common())
				if !(strings.HasSuffix(nm, ".banPeer") || strings.HasSuffix(nm, ".BanPeer") || strings.HasSuffix(nm, ".ApplyPenalty") || strings.HasSuffix(nm, "Peer).addPenalty")) {
					continue
				}
				n++
				c.Require("C18.R11 penalty-is-conditional", k+" ⇒ "+nm, p.InstrPos(call), "every penalty is control-dependent on some failure condition (well-formed traffic never reaches it unconditionally)", len(ff.FactsAt(call.Block())) >= 1, "")
			}
		}
		c.MinInstances("C18.R11 penalty-is-conditional", n, 8)
	}

	// ---- R13 the per-interval message counts really are per interval: on every tick every
	// procedure's counter table is reset — an iteration of the reset loop cannot skip it (a
	// skipped reset lets counts span two intervals, and traffic within the limit is penalised)
	if h := c.Anchor("pkg/p2p.rateLimiterHandler"); h != nil {
		ws := fieldWrites(h, "p2p.rpcMessageCounter", "counters")
		loops := naturalLoops(h)
		n := 0
		for _, w := range ws {
			// where the handler does it: the store itself, or the call through which a helper
			// (counter.reset()) that always performs it is reached
			at := []ssa.Instruction{w}
			if w.Parent() != h {
				at = nil
				if completesThrough(w) {
					for _, ch := range helperChains(h, w.Parent()) {
						at = append(at, ch[0])
					}
				}
				if len(at) == 0 && isNewHelper(w.Parent()) {
					at = []ssa.Instruction{w} // the reset loop itself sits in the new helper
				}
			}
			for _, site := range at {
				// the innermost loop around the reset
				var inner *loopInfo
				for _, li := range loops {
					if li.Blocks[site.Block()] && (inner == nil || len(li.Blocks) < len(inner.Blocks)) {
						inner = li
					}
				}
				if inner == nil && w.Parent() != h && isNewHelper(w.Parent()) {
					// the whole reset loop moved into the helper: judge it there
					site = w
					for _, li := range naturalLoops(w.Parent()) {
						if li.Blocks[site.Block()] && (inner == nil || len(li.Blocks) < len(inner.Blocks)) {
							inner = li
						}
					}
				}
				if inner == nil {
					continue
				}
				n++
				every := true
				for _, l := range inner.Latch {
					if !(site.Block() == l || site.Block().Dominates(l)) {
						every = false
					}
				}
				c.Require("C18.R13 counters-reset-every-tick", FuncKey(h)+": reset of rpcMessageCounter.counters", p.InstrPos(w), "every iteration of the reset loop resets its counter table (none is skipped)", every, "")
			}
		}
		c.MinInstances("C18.R13 counters-reset-every-tick", n, 1)
	}
}
