package main

import (
	"fmt"
	"go/token"
	"go/types"
	"sort"
	"strings"

	"golang.org/x/tools/go/ssa"
)

func init() {
	register("C19", "Structural necessary conditions of best-peer selection, RPC segment serving and safe fast-sync recovery, for every path: "+
		"(R1) the best-peer filters are chained (largest maxHeightPrevoted → largest height → most frequent block ID) and each is a correct running extremum: the compared maximum is a loop-carried value that is assigned the candidate on the 'greater' edge, ties are kept, a new maximum resets the group; "+
		"(R2) requester-side and handler-side schemas of the three sync RPCs are wire-compatible field by field; "+
		"(R3) handlers: every malformed-request edge reaches BanPeer before returning; blocks-from-ID serves (requested.height+1 … min(requested.height+K, tip)] from the node's own chain in ascending order; highest-common-block answers the element with the largest height; "+
		"(R4) fast sync: a common block below the finalized block ⇒ ban + error before anything is reverted; a processing failure ⇒ restoreBlocks then ban; restoreBlocks = revert to the common block, re-read the saved blocks, ascending, re-apply with removeTemp=true; reverts performed while restoring must not overwrite the saved originals; success ⇒ ClearTempBlocks; "+
		"(R5) block sync starts the common-block search no lower than the finalized height and the peer-polling goroutines do not race on shared results; "+
		"(R6) the downloader delivers blocks in ascending height order and stops at the target ID.",
		runC19)
}

// resolveBoolArg: the constant a bool argument carries at a call, looking one
// level through a parameter of the enclosing function (all call sites from `from`).
func resolveBoolArg(p *Program, fn *ssa.Function, v ssa.Value, from *ssa.Function) (string, bool) {
	t := T(v)
	if t.Op == "const" {
		return t.Sym, true
	}
	if t.Op == "param" {
		idx := 0
		fmt.Sscanf(t.Sym, "p%d", &idx)
		val := ""
		for _, s := range p.callSitesOf(fn) {
			if from != nil && s.Fn != from {
				continue
			}
			a := s.Call.Common().Args
			if idx >= len(a) {
				return "", false
			}
			at := T(a[idx])
			if at.Op != "const" {
				return "", false
			}
			if val != "" && val != at.Sym {
				return "", false
			}
			val = at.Sym
		}
		return val, val != ""
	}
	return "", false
}

func runC19(c *Ctx) {
	// U1: height / round arithmetic on unsigned integers never wraps into a comparison
	checkUnsignedDifferences(c, "C19.U1 unsigned-difference-guarded", func(fn *ssa.Function) bool { return strings.HasPrefix(FuncKey(fn), "pkg/consensus/sync.") }, c19UnsignedTable, 0)
	p := c.P
	c.Assume = append(c.Assume, "convergence, gap arithmetic and behaviour against stalling peers are not decided")
	best := c.Anchor("pkg/consensus/sync.getBestNodeInfo")
	fsync := c.Anchor("pkg/consensus/sync.(*fastSyncer).Sync")
	restore := c.Anchor("pkg/consensus/sync.(*fastSyncer).restoreBlocks")
	bsync := c.Anchor("pkg/consensus/sync.(*blockSyncer).Sync")
	common := c.Anchor("pkg/consensus/sync.(*blockSyncer).getCommonBlockHeader")
	dl := c.Anchor("pkg/consensus/sync.(*Downloader).Start")
	if best == nil || fsync == nil || restore == nil || bsync == nil || common == nil || dl == nil {
		return
	}
	const NI = "consensus/sync.NodeInfo"
	checkCacheIndexesCoUpdated(c, "C19.R6 cache-indexes-co-updated")
	checkHandlersServeTheChain(c)
	checkBanThePeerThatServed(c, "C19.R8 ban-the-peer-that-served")

	// ---- R1
	{
		// chaining
		f1 := CallsIn(best, "consensus/sync.getLargestMaxHeightPrevotedNodeInfo")
		f2 := CallsIn(best, "consensus/sync.getLargestHeightNodeInfo")
		f3 := CallsIn(best, "consensus/sync.getMostFrequesntBlockIDNodeInfo")
		ok := len(f1) == 1 && len(f2) == 1 && len(f3) == 1
		if ok {
			ok = T(ArgK(f1[0].Call, 0)).String() == "p0" &&
				stripConv(ArgK(f2[0].Call, 0)) == f1[0].Call.Value() &&
				stripConv(ArgK(f3[0].Call, 0)) == f2[0].Call.Value()
		}
		c.Require("C19.R1 filters-chained", FuncKey(best), p.Pos(best.Pos()), "prevoted-filter → height-filter → frequency-filter, each fed by the previous result", ok, "")
		if ok {
			// the pick comes from the last group
			okPick := false
			for _, r := range Returns(best) {
				if classifyReturn(factsOf(best), r) == RetNil {
					okPick = strings.Contains(T(r.Results[0]).String(), "getMostFrequesntBlockIDNodeInfo(")
				}
			}
			c.Require("C19.R1 filters-chained", FuncKey(best)+": pick", p.Pos(best.Pos()), "the selected peer is a member of the final group", okPick, "")
		}
		// running extremum in each filter
		for _, x := range []struct{ fn, field string }{
			{"pkg/consensus/sync.getLargestMaxHeightPrevotedNodeInfo", "maxHeightPrevoted"},
			{"pkg/consensus/sync.getLargestHeightNodeInfo", "height"},
		} {
			fn := c.Anchor(x.fn)
			if fn == nil {
				continue
			}
			checkRunningMax(c, fn, func(t *Term) bool { return t.Op == "field" && t.Sym == x.field && t.Owner == NI }, x.field, true)
		}
		if fn := c.Anchor("pkg/consensus/sync.getMostFrequesntBlockIDNodeInfo"); fn != nil {
			checkRunningMax(c, fn, func(t *Term) bool { return t.Op == "extract" && t.Args[0].Op == "next" }, "frequency count", false)
			// counts keyed by the block ID, final group = entries equal to the chosen ID
			okKey := false
			for _, b := range blocksDeep(fn) {
				for _, in := range b.Instrs {
					if mu, ok := in.(*ssa.MapUpdate); ok {
						if strings.Contains(T(mu.Key).String(), ".lastBlockID") {
							okKey = true
						}
					}
				}
			}
			c.Require("C19.R1 frequency-keyed-by-block-id", FuncKey(fn), p.Pos(fn.Pos()), "frequencies are counted per lastBlockID", okKey, "")
		}
	}

	// ---- R2 schema pairs
	{
		byName := map[string]*Schema{}
		for _, s := range p.schemas() {
			byName[s.Owner] = s
		}
		pairs := [][2]string{
			{"consensus/sync.getHighestCommonBlockRequest", "consensus/sync.GetHighestCommonBlockRequest"},
			{"consensus/sync.getHighestCommonBlockResponse", "consensus/sync.GetHighestCommonBlockResponse"},
			{"consensus/sync.getBlocksFromIDRequest", "consensus/sync.GetBlocksFromIDRequest"},
			{"consensus/sync.getBlocksFromIDResponse", "consensus/sync.GetBlocksFromIDResponse"},
		}
		for _, pr := range pairs {
			a, b := byName[pr[0]], byName[pr[1]]
			if a == nil || b == nil {
				c.Require("C19.R2 rpc-schema-pairs", pr[0]+" ≍ "+pr[1], "-", "both sides of the RPC schema exist", false, "")
				continue
			}
			ok := len(a.Fields) == len(b.Fields)
			det := ""
			if ok {
				am := map[int]SchemaField{}
				for _, f := range a.Fields {
					am[f.Num] = f
				}
				for _, g := range b.Fields {
					f, has := am[g.Num]
					if !has || wireFamily(f.Kind) != wireFamily(g.Kind) {
						ok = false
						det += fmt.Sprintf("field %d: %s(%s) vs %s(%s); ", g.Num, f.Name, f.Kind, g.Name, g.Kind)
					}
				}
			} else {
				det = "different number of fields"
			}
			c.Require("C19.R2 rpc-schema-pairs", pr[0]+" ≍ "+pr[1], "-", "same field numbers with wire-compatible kinds on requester and handler side", ok, det)
		}
		// getLastBlock: handler writes an encoded Block, requester decodes a Block
		if h := p.Fn("pkg/consensus/sync.(*Syncer).HandleRPCEndpointGetLastBlock$1"); h != nil {
			okEnc := len(CallsIn(h, "(*blockchain.Block).Encode")) == 1
			rq := p.Fn("pkg/consensus/sync.requestLastBlockHeader")
			okDec := rq != nil && len(CallsIn(rq, "blockchain.NewBlock")) == 1
			c.Require("C19.R2 rpc-schema-pairs", "getLastBlock: Block.Encode ≍ NewBlock", p.Pos(h.Pos()), "the last-block RPC carries an encoded Block on both sides", okEnc && okDec, "")
		}
	}

	// ---- R3 handlers
	for _, hk := range []string{"pkg/consensus/sync.(*Syncer).HandleRPCEndpointGetHighestCommonBlock$1", "pkg/consensus/sync.(*Syncer).HandleRPCEndpointGetBlocksFromID$1"} {
		h := c.Anchor(hk)
		if h == nil {
			continue
		}
		ff := factsOf(h)
		isBan := func(in ssa.Instruction) bool {
			cl, ok := in.(ssa.CallInstruction)
			return ok && CalleeName(cl.Common()) == "(*p2p.Connection).BanPeer"
		}
		nEdges := 0
		_ = ff
		for _, de := range deepEdges(h) { // the request may be parsed and checked in a helper
			e, f := de.E, de.F
			malformed := ""
			switch {
			case f.IsCmp && f.Op.String() == "==" && strings.HasSuffix(f.L.String(), ".Data") && f.R.Sym == "nil":
				malformed = "missing request body"
			case f.IsCmp && f.Op.String() == "!=" && strings.Contains(f.L.String(), ").Decode(") && f.R.Sym == "nil":
				malformed = "undecodable request"
			case f.Entails(CmpSpec{A: LenOf(Matcher{"request.IDs", func(t *Term) bool { return t.Op == "field" && t.Sym == "IDs" }}), NoB: true, Rel: LE, D: 0}):
				malformed = "empty ID list"
			case f.IsCmp && f.Op.String() == "!=" && strings.HasPrefix(f.L.String(), "builtin:len(") && (f.R.String() == "32" || strings.HasSuffix(f.R.String(), "blockchain.IDLength")):
				malformed = "ID of wrong length"
			}
			if malformed == "" {
				continue
			}
			nEdges++
			first := e.To.Instrs[0]
			path := reachesReturnAvoiding(first, isBan, nil)
			if isBan(first) {
				path = nil
			}
			c.Require("C19.R3 malformed-request-banned", hk+": "+malformed, p.InstrPos(e.If), "every path from this edge reaches BanPeer before returning", path == nil, pathStr(path))
		}
		min := 3
		if strings.Contains(hk, "HighestCommon") {
			min = 4
		}
		c.MinInstances("C19.R3 malformed-request edges in "+hk, nEdges, min)
	}
	if h := p.Fn("pkg/consensus/sync.(*Syncer).HandleRPCEndpointGetBlocksFromID$1"); h != nil {
		for _, s := range CallsIn(h, "(*blockchain.DataAccess).GetBlocksBetweenHeight") {
			from, to := T(ArgK(s.Call, 1)).String(), T(ArgK(s.Call, 2))
			okFrom := strings.HasSuffix(from, ".Height + 1)") && strings.Contains(from, "GetBlockHeader(")
			okTo := to.Op == "call" && strings.HasPrefix(to.Sym, "collection/ints.Min") && strings.Contains(to.String(), "GetBlockHeader(") && strings.Contains(to.String(), "Chain).LastBlock(")
			// constant cap
			capOK := false
			to.Walk(func(t *Term) bool {
				if t.Op == "binop" && t.Sym == "+" && t.Args[1].Op == "const" && strings.HasSuffix(t.Args[0].String(), ".Height") {
					capOK = true
				}
				return true
			})
			c.Require("C19.R3 served-segment", "GetBlocksFromID: range", p.InstrPos(s.Call), "serves (requested.height+1 … min(requested.height+K, tip)] with constant K", okFrom && okTo && capOK, "from="+from+" to="+to.String())
			// the requested header is looked up by the request's ID on the node's own chain
		}
		gb := p.Fn("pkg/blockchain.(*DataAccess).GetBlocksBetweenHeight")
		if gb != nil {
			// one block per height or an error: what is returned with a nil error is either a
			// slice made with to-from+1 places, or built by appends none of which an iteration
			// of its loop can skip (a height that cannot be read is an error, never a gap —
			// the requester applies the blocks one after the other)
			gf := factsOf(gb)
			nRet := 0
			for _, r := range Returns(gb) {
				if classifyReturn(gf, r) != RetNil {
					continue
				}
				nRet++
				// the empty range (to < from) has no height to serve
				if gf.EveryPathHas(r.Block(), func(f Fact) bool {
					return f.IsCmp && f.Entails(CmpSpec{A: IsParam(1), B: IsParam(2), Rel: GE, D: 1})
				}) {
					c.Require("C19.R3 served-segment", "GetBlocksBetweenHeight: empty range", p.InstrPos(r), "under to < from nothing is served", true, "")
					continue
				}
				ok, why := completeRange(gb, gf, r.Results[0])
				c.Require("C19.R3 served-segment", "GetBlocksBetweenHeight: one block per height", p.InstrPos(r), "the slice returned on success has a block for every height from..to", ok, why)
			}
			c.MinInstances("C19.R3 served-segment returns", nRet, 1)
			c.Require("C19.R3 served-segment", "GetBlocksBetweenHeight: ascending", p.Pos(gb.Pos()), "blocks are returned in ascending height order", len(CallsIn(gb, "blockchain.SortBlockByHeightAsc")) == 1, "")
		}
	}
	if h := p.Fn("pkg/consensus/sync.(*Syncer).HandleRPCEndpointGetHighestCommonBlock$1"); h != nil {
		cl := sortClosure(h)
		ok := false
		det := ""
		if cl != nil {
			d, key, k := sortDirection(cl)
			ok = k && d == "desc" && strings.HasSuffix(key, ".Height")
			det = d + " on " + key
		}
		c.Require("C19.R3 highest-common-block", "GetHighestCommonBlock: sort", p.Pos(h.Pos()), "known headers are sorted by height descending", ok, det)
		okFirst := false
		for _, st := range storesToField(h, "consensus/sync.GetHighestCommonBlockResponse", "ID") {
			t := T(st.Val).String()
			okFirst = strings.HasSuffix(t, "[0].ID")
		}
		c.Require("C19.R3 highest-common-block", "GetHighestCommonBlock: answer", p.Pos(h.Pos()), "the answer is element 0 after the descending sort", okFirst, "")
	}

	// ---- R4 fast sync
	{
		ff := factsOf(fsync)
		// common < finalized ⇒ ban + error, before any revert
		found := false
		for i, e := range ff.Edges {
			f := ff.Facts[i]
			if f.IsCmp && f.Op.String() == "<" && strings.Contains(f.L.String(), "getCommonBlock(") && strings.HasSuffix(f.L.String(), ".Height") && strings.HasSuffix(f.R.String(), ".FinalizedBlockHeader.Height") {
				found = true
				first := e.To.Instrs[0]
				isBan := func(in ssa.Instruction) bool {
					cl, ok := in.(ssa.CallInstruction)
					return ok && CalleeName(cl.Common()) == "(*p2p.Connection).BanPeer"
				}
				path := reachesReturnAvoiding(first, isBan, nil)
				if isBan(first) {
					path = nil
				}
				errRet := true
				for _, in := range e.To.Instrs {
					if r, isR := in.(*ssa.Return); isR && classifyReturn(ff, r) != RetErr {
						errRet = false
					}
				}
				c.Require("C19.R4 common-below-finalized", FuncKey(fsync), p.InstrPos(e.If), "a common block below the finalized block bans the peer and fails", path == nil && errRet, pathStr(path))
			}
		}
		c.Require("C19.R4 common-below-finalized", FuncKey(fsync)+": check exists", p.Pos(fsync.Pos()), "the common block's height is compared with the finalized height", found, "")
		for _, s := range CallsIn(fsync, "(*consensus/sync.fastSyncer).deleteTillCommonBlock") {
			ok := false
			for _, f := range ff.FactsAt(s.Call.Block()) {
				if f.IsCmp && f.Op.String() == ">=" && strings.Contains(f.L.String(), "getCommonBlock(") && strings.HasSuffix(f.R.String(), ".FinalizedBlockHeader.Height") {
					ok = true
				}
			}
			c.Require("C19.R4 common-below-finalized", FuncKey(fsync)+": revert guarded", p.InstrPos(s.Call), "nothing is reverted unless common.height >= finalized.height", ok, "")
		}
		// failure ⇒ restore then ban; success ⇒ clear temp
		okRestore := false
		for _, de := range deepEdges(fsync) {
			e, f := de.E, de.F
			if f.IsCmp && f.Op.String() == "!=" && f.R.Sym == "nil" && (f.L.Op == "call" && (strings.HasPrefix(f.L.Sym, "dyn") || strings.Contains(f.L.Sym, "applyBlocks") || strings.Contains(f.L.String(), ".processor("))) {
				first := e.To.Instrs[0]
				isRestore := func(in ssa.Instruction) bool {
					cl, ok := in.(ssa.CallInstruction)
					return ok && CalleeName(cl.Common()) == "(*consensus/sync.fastSyncer).restoreBlocks"
				}
				path := reachesReturnAvoiding(first, isRestore, nil)
				if isRestore(first) {
					path = nil
				}
				okRestore = path == nil
				c.Require("C19.R4 failure-restores", FuncKey(fsync), p.InstrPos(e.If), "a block that fails processing leads to restoreBlocks on every path", path == nil, pathStr(path))
			}
		}
		c.Require("C19.R4 failure-restores", FuncKey(fsync)+": edge exists", p.Pos(fsync.Pos()), "the processing-failure edge exists", okRestore, "")
		for _, s := range CallsIn(fsync, "(*p2p.Connection).BanPeer") {
			_ = s
		}
		// after a successful restore the peer is banned
		for _, s := range CallsIn(fsync, "(*consensus/sync.fastSyncer).restoreBlocks") {
			path := reachesReturnAvoiding(s.Call, func(in ssa.Instruction) bool {
				cl, ok := in.(ssa.CallInstruction)
				return ok && CalleeName(cl.Common()) == "(*p2p.Connection).BanPeer"
			}, func(r *ssa.Return) bool {
				ok, _ := ff.NilErrAt(r.Block(), Matcher{"restore", func(t *Term) bool { return t.V == s.Call.Value() }})
				return ok
			})
			c.Require("C19.R4 failure-bans", FuncKey(fsync), p.InstrPos(s.Call), "after the originals were restored the peer is banned", path == nil, pathStr(path))
		}
		// parking sites: reverts of this function that save the reverted block in the temp table
		var parks []Site
		for _, s := range CallsIn(fsync, "(*consensus/sync.fastSyncer).deleteTillCommonBlock") {
			a := s.Call.Common().Args
			if val, ok := resolveBoolArg(p, fsync, a[len(a)-1], nil); !ok || val == "true" {
				parks = append(parks, s)
			}
		}
		for _, call := range AllCalls(fsync) {
			if t := T(call.Common().Value); t.Op == "field" && t.Sym == "reverter" {
				a := call.Common().Args
				if val, ok := resolveBoolArg(p, fsync, a[len(a)-1], nil); !ok || val == "true" {
					parks = append(parks, Site{fsync, call})
				}
			}
		}
		// the revert loop written in a new helper that is handed the syncer's reverter
		for _, call := range AllCalls(fsync) {
			if newHelperCallee(call) == nil {
				continue
			}
			handed := false
			for _, a := range call.Common().Args {
				if t := T(a); t.Op == "field" && t.Sym == "reverter" {
					handed = true
				}
			}
			if !handed {
				continue
			}
			a := call.Common().Args
			if t := T(a[len(a)-1]); t.Op != "const" || t.Sym == "true" {
				parks = append(parks, Site{fsync, call})
			}
		}
		restores := CallsIn(fsync, "(*consensus/sync.fastSyncer).restoreBlocks")
		clears := CallsIn(fsync, "(*blockchain.DataAccess).ClearTempBlocks")
		nSuccess := 0
		for _, s := range clears {
			// a clear either precedes every parking of this run (it discards what an earlier,
			// abandoned sync left behind) or follows the last use of the parked blocks: once
			// something is parked, no clear may lie on a way to restoreBlocks
			before := len(parks) > 0
			for _, pk := range parks {
				if !instrDominates(s.Call, pk.Call) || instrReachesAvoiding(pk.Call, s.Call, nil) {
					before = false
				}
			}
			if before {
				continue
			}
			nSuccess++
			bad := ""
			for _, r := range restores {
				if instrReachesAvoiding(s.Call, r.Call, nil) {
					bad = "restoreBlocks at " + p.InstrPos(r.Call) + " is reachable after this clear"
				}
			}
			c.Require("C19.R4 success-clears-temp", FuncKey(fsync), p.InstrPos(s.Call), "saved originals are discarded only where they can no longer be needed: no restoreBlocks is reachable after the clear", bad == "", bad)
		}
		c.MinInstances("C19.R4 success-clears-temp", nSuccess, 1)
		// restoreBlocks re-applies *every* block it finds in the temp table, so the table must hold
		// only what this run parked: each parking site is preceded, on every path, by a clear
		// (block sync parks too and leaves its blocks behind when its download fails)
		for _, pk := range parks {
			ok := false
			for _, s := range clears {
				if instrDominates(s.Call, pk.Call) {
					ok = true
				}
			}
			c.Require("C19.R4 restore-reads-own-parking", FuncKey(fsync)+": parking revert", p.InstrPos(pk.Call), "the temp table is emptied before this run parks its own blocks, so that restoreBlocks re-applies only those", ok || len(restores) == 0, "no ClearTempBlocks dominates the parking revert; restoreBlocks would also re-apply blocks an abandoned sync left in the table")
		}
		c.MinInstances("C19.R4 restore-reads-own-parking", len(parks), 1)
		checkParkedBlocksSurvive(c, "C19.R4 parked-blocks-survive")

		// restoreBlocks shape
		del := CallsIn(restore, "(*consensus/sync.fastSyncer).deleteTillCommonBlock")
		if len(del) == 0 {
			// the revert loop written elsewhere (a shared helper): found by what it does — it
			// is handed the syncer's reverter
			for _, call := range AllCalls(restore) {
				if newHelperCallee(call) == nil {
					continue
				}
				for _, a := range call.Common().Args {
					if t := T(a); t.Op == "field" && t.Sym == "reverter" {
						del = append(del, Site{restore, call})
					}
				}
			}
		}
		get := CallsIn(restore, "(*blockchain.DataAccess).GetTempBlocks")
		srt := CallsIn(restore, "blockchain.SortBlockByHeightAsc")
		okShape := len(del) == 1 && len(get) == 1 && len(srt) == 1 && instrDominates(del[0].Call, get[0].Call) && instrDominates(get[0].Call, srt[0].Call)
		c.Require("C19.R4 restore-shape", FuncKey(restore), p.Pos(restore.Pos()), "revert to the common block → read the saved blocks → sort ascending", okShape, "")
		// every processor call reachable from restoreBlocks passes removeTemp=true
		n := 0
		seen := map[*ssa.Function]bool{}
		var walk func(fn, from *ssa.Function)
		walk = func(fn, from *ssa.Function) {
			if fn == nil || seen[fn] || !strings.HasPrefix(FuncKey(fn), "pkg/consensus/sync.") {
				return
			}
			seen[fn] = true
			for _, call := range AllCalls(fn) {
				t := T(call.Common().Value)
				if t.Op == "field" && t.Sym == "processor" {
					n++
					a := call.Common().Args
					val, ok := resolveBoolArg(p, fn, a[len(a)-1], from)
					c.Require("C19.R4 restore-removes-temp", FuncKey(fn)+" ⇒ processor (reached from restoreBlocks)", p.InstrPos(call), "re-applied originals are removed from the temp table (removeTemp=true), or a later failed sync finds stale entries", ok && val == "true", "removeTemp = "+val)
					if srtOK := len(srt) == 1; srtOK && fn == restore {
						c.Require("C19.R4 restore-shape", FuncKey(restore)+": apply after sort", p.InstrPos(call), "saved blocks are re-applied in ascending order", reachable(srt[0].Call.Block(), call.Block()), "")
					}
				}
				if t.Op == "field" && t.Sym == "reverter" {
					a := call.Common().Args
					val, ok := resolveBoolArg(p, fn, a[len(a)-1], from)
					c.Require("C19.R4 restore-keeps-originals", FuncKey(fn)+" ⇒ reverter (reached from restoreBlocks)", p.InstrPos(call), "blocks reverted while restoring (the failed fork) must not be saved over the originals in the temp table (saveTemp=false on this path)", ok && val == "false", "saveTemp = "+val)
				}
				if g := call.Common().StaticCallee(); g != nil {
					walk(g, fn)
				}
			}
		}
		walk(restore, nil)
		c.MinInstances("C19.R4 restore-removes-temp", n, 1)
	}

	// ---- R5 block sync
	{
		// sibling of R4 common-below-finalized: both syncers revert down to a common block that the
		// PEER names; each must refuse one below the finalized block before anything is reverted (the
		// finality guard of deleteBlock stops the loop only after every non-finalized block is gone,
		// and block sync never restores what it reverted)
		bf := factsOf(bsync)
		nd := 0
		revertSites := CallsIn(bsync, "(*consensus/sync.blockSyncer).deleteTillCommonBlock")
		for _, call := range AllCalls(bsync) {
			// the revert loop written in a new helper that is handed the syncer's reverter, or the
			// reverter called on the spot
			direct := false
			if t := T(call.Common().Value); t.Op == "field" && t.Sym == "reverter" {
				direct = true
			}
			handed := false
			if newHelperCallee(call) != nil {
				for _, a := range call.Common().Args {
					if t := T(a); t.Op == "field" && t.Sym == "reverter" {
						handed = true
					}
				}
			}
			if direct || handed {
				revertSites = append(revertSites, Site{bsync, call})
			}
		}
		for _, sc := range revertSites {
			nd++
			ok := false
			for _, f := range bf.FactsAt(sc.Call.Block()) {
				if f.IsCmp && f.Op.String() == ">=" && strings.Contains(f.L.String(), "getCommonBlockHeader(") && strings.HasSuffix(f.L.String(), ".Height") && strings.HasSuffix(f.R.String(), ".FinalizedBlockHeader.Height") {
					ok = true
				}
			}
			c.Require("C19.R5 common-below-finalized", FuncKey(bsync)+": revert guarded", p.InstrPos(sc.Call), "nothing is reverted unless common.height >= finalized.height (as in the fast syncer)", ok, "")
		}
		c.MinInstances("C19.R5 common-below-finalized", nd, 1)
		for i, e := range bf.Edges {
			f := bf.Facts[i]
			if f.IsCmp && f.Op.String() == "<" && strings.Contains(f.L.String(), "getCommonBlockHeader(") && strings.HasSuffix(f.L.String(), ".Height") && strings.HasSuffix(f.R.String(), ".FinalizedBlockHeader.Height") {
				isBan := func(in ssa.Instruction) bool {
					cl, ok := in.(ssa.CallInstruction)
					return ok && CalleeName(cl.Common()) == "(*p2p.Connection).BanPeer"
				}
				first := e.To.Instrs[0]
				path := reachesReturnAvoiding(first, isBan, nil)
				if isBan(first) {
					path = nil
				}
				c.Require("C19.R5 common-below-finalized", FuncKey(bsync)+": ban", p.InstrPos(e.If), "a common block below the finalized block bans the peer", path == nil, pathStr(path))
			}
		}
		for _, s := range CallsIn(common, "consensus/sync.getHeightWithGap") {
			t := T(ArgK(s.Call, 1)).String()
			c.Require("C19.R5 search-not-below-finalized", FuncKey(common), p.InstrPos(s.Call), "the common-block search is bounded below by the finalized height", strings.HasSuffix(t, ".FinalizedBlockHeader.Height"), t)
		}
		c.MinInstances("C19.R5 search-not-below-finalized", len(CallsIn(common, "consensus/sync.getHeightWithGap")), 1)
		// "no common block among these" means "look further down", down to the finalized block that
		// every honest peer shares: the not-found answer always leads to another round of the
		// search (with a lower window), never out of it
		{
			cf := factsOf(common)
			loops := naturalLoops(common)
			nf := 0
			for i, e := range cf.Edges {
				f := cf.Facts[i]
				if f.IsCmp || !f.Truth || f.B.Op != "call" || f.B.Sym != "errors.Is" || !strings.Contains(f.B.String(), "errCommonBlockNotFound") {
					continue
				}
				nf++
				var li *loopInfo
				for _, l := range loops {
					if l.Blocks[e.From] {
						li = l
					}
				}
				leaves := false
				if li == nil {
					leaves = true
				} else {
					seen := map[*ssa.BasicBlock]bool{}
					var walk func(b *ssa.BasicBlock)
					walk = func(b *ssa.BasicBlock) {
						if seen[b] || b == li.Header {
							return
						}
						seen[b] = true
						if !li.Blocks[b] {
							leaves = true
							return
						}
						for _, sx := range b.Succs {
							walk(sx)
						}
					}
					walk(e.To)
				}
				c.Require("C19.R5 not-found-searches-further", FuncKey(common)+": peer reports no common block", p.InstrPos(e.If), "the not-found answer leads to the next round of the search on every path (the search ends only by its own trial count or an error)", !leaves, "")
			}
			c.MinInstances("C19.R5 not-found-searches-further", nf, 1)
		}
		// capture rule on the polling goroutines
		for _, sp := range spawnsIn(bsync) {
			bad := 0
			for _, w := range sharedWrites(sp) {
				if w.Locked || w.Kind == "element" {
					continue
				}
				if sp.InLoop {
					bad++
					c.Require("C19.R5 peer-polling-race-free", FuncKey(bsync)+": go body "+w.Kind+" of captured "+w.Var, p.InstrPos(w.Instr), "results of concurrent peer polls are collected without a data race", false, "several instances append to one slice")
				}
			}
			if bad == 0 {
				c.Require("C19.R5 peer-polling-race-free", FuncKey(bsync)+": go body", p.InstrPos(sp.Instr), "results of concurrent peer polls are collected without a data race", true, "")
			}
		}
	}

	// ---- R6 downloader
	{
		srt := CallsIn(dl, "blockchain.SortBlockByHeightAsc")
		var send ssa.Instruction
		for _, b := range blocksDeep(dl) {
			for _, in := range b.Instrs {
				if s, ok := in.(*ssa.Send); ok && strings.Contains(T(s.X).String(), "block") || (ok && s != nil && send == nil && strings.Contains(typeName(s.X.Type()), "downloadedContent")) {
					// prefer the send that carries a block (inside the range loop)
					if reachable2(b, b) {
						send = in
					}
				}
			}
		}
		ok := len(srt) == 1 && send != nil && ((send.Parent() == srt[0].Call.Parent() && reachable(srt[0].Call.Block(), send.Block())) || (send.Parent() != srt[0].Call.Parent() && instrDominates(srt[0].Call, send)))
		c.Require("C19.R6 download-order", FuncKey(dl), p.Pos(dl.Pos()), "each fetched batch is sorted ascending before its blocks are delivered", ok, "")
		df := factsOf(dl)
		okStop := false
		for _, de := range deepEdges(dl) {
			e, f := de.E, de.F
			if !f.IsCmp && f.Truth && strings.Contains(f.B.String(), "bytes.Equal(") && strings.Contains(f.B.String(), ".end") {
				for _, in := range e.To.Instrs {
					if _, isR := in.(*ssa.Return); isR {
						okStop = true
					}
				}
				if !okStop {
					// return may be via RunDefers block
					okStop = reachesReturnAvoiding(e.To.Instrs[0], func(in ssa.Instruction) bool { _, s := in.(*ssa.Send); return s }, nil) != nil
				}
			}
		}
		c.Require("C19.R6 download-order", FuncKey(dl)+": stop at target", p.Pos(dl.Pos()), "the download stops after the block with the target ID", okStop, "")
		// The channel closing without an error is the only "download complete" signal the syncers
		// get (they never compare the last block with the announced one): the downloader ends only
		// (a) after delivering the block with the announced ID, (b) after delivering an error, or
		// (c) when it is cancelled. A peer answering with a short batch must not end it silently.
		{
			nr := 0
			for _, r := range Returns(dl) {
				if r.Parent().Recover != nil && r.Block() == r.Parent().Recover {
					continue // the exit taken after a recovered panic: not a path of the algorithm
				}
				nr++
				why := ""
				for _, f := range df.FactsAt(r.Block()) {
					if !f.IsCmp && f.Truth && strings.Contains(f.B.String(), "bytes.Equal(") && strings.Contains(f.B.String(), ".end") {
						why = "announced block delivered"
					}
					if f.IsCmp && f.Op == token.EQL && strings.HasPrefix(f.L.String(), "select#") && f.R.String() == "0" {
						why = "cancelled"
					}
				}
				if why == "" {
					// an error was delivered on every way here: a send of a content whose err is set
					isErrSend := func(in ssa.Instruction) bool {
						sd, ok := in.(*ssa.Send)
						if !ok {
							return false
						}
						al, ok := valueRoot(sd.X).(*ssa.Alloc)
						if !ok {
							return false
						}
						for _, ref := range *al.Referrers() {
							if fa, ok := ref.(*ssa.FieldAddr); ok {
								if _, st := ownerOfFieldBase(fa.X.Type()); st != nil && fieldNameOf(st.Field(fa.Field)) == "err" {
									for _, u := range *fa.Referrers() {
										if _, isSt := u.(*ssa.Store); isSt {
											return true
										}
									}
								}
							}
						}
						return false
					}
					sent := false
					for _, in := range r.Block().Instrs {
						if isErrSend(in) {
							sent = true
						}
					}
					if !sent {
						for _, b := range blocksDeep(dl) {
							for _, in := range b.Instrs {
								if isErrSend(in) && instrDominates(in, r) {
									sent = true
								}
							}
						}
					}
					if sent {
						why = "error delivered"
					}
				}
				c.Require("C19.R6 download-ends-at-target-or-error", FuncKey(dl)+": return", p.InstrPos(r), "the download ends only after the announced block, after an error was delivered, or on cancellation", why != "", why)
			}
			c.MinInstances("C19.R6 download-ends-at-target-or-error", nr, 3)
		}
	}
}

// checkRunningMax verifies the arg-max loop shape: `if cand REL max { max = cand; … }`.
func checkRunningMax(c *Ctx, fn *ssa.Function, isCand func(*Term) bool, what string, needTie bool) {
	p := c.P
	ff := factsOf(fn)
	found := false
	for i, e := range ff.Edges {
		f := ff.Facts[i]
		if !f.IsCmp || f.Op.String() != ">" || !isCand(f.L) {
			continue
		}
		found = true
		// the right operand must be loop-carried and receive the candidate on this edge
		ok := false
		detail := "compared against " + f.R.String()
		if phi, isPhi := f.R.V.(*ssa.Phi); isPhi {
			for k, edge := range phi.Edges {
				et := ff.Term(edge)
				if isCand(et) || et.String() == f.L.String() {
					// that φ edge must come from the 'greater' branch
					pred := phi.Block().Preds[k]
					if pred == e.To || e.To.Dominates(pred) {
						ok = true
					}
				}
			}
			if !ok {
				detail = "the maximum is loop-carried but never receives the candidate on the 'greater' edge"
			}
		} else {
			detail = "the value compared against (" + f.R.String() + ") is not updated inside the loop: the running maximum is never assigned"
		}
		c.Require("C19.R1 running-extremum", FuncKey(fn)+": "+what, p.InstrPos(e.If), "the maximum compared against is assigned the candidate when the candidate is greater", ok, detail)
	}
	c.Require("C19.R1 running-extremum", FuncKey(fn)+": comparison exists", p.Pos(fn.Pos()), "the filter compares each candidate with the running maximum", found, "")
	if needTie {
		tie := false
		for _, f := range ff.Facts {
			if f.IsCmp && f.Op.String() == "==" && isCand(f.L) {
				tie = true
			}
		}
		c.Require("C19.R1 running-extremum", FuncKey(fn)+": ties kept", p.Pos(fn.Pos()), "candidates equal to the maximum stay in the group", tie, "")
	}
}

var c19UnsignedTable = []unsignedRow{
	{fn: "pkg/consensus/sync.(*fastSyncer).Sync", frag: "(*blockchain.Chain).LastBlock(p0.chain).Header.Height − ", reason: "the common block header is looked up in the node's own chain by getCommonBlock (GetBlockHeader of the returned ID), so its height is at most the tip's"},
	{fn: "pkg/consensus/sync.(*fastSyncer).Sync", frag: "(p1.Block.Header.Height − ", reason: "a peer tip below the common block it named wraps the difference above two rounds, which is the abort branch: the safe outcome"},
}

// completeRange: v is make([]T, p2-p1+1) (filled by index), or grows by appends that every
// iteration of the enclosing loop executes.
func completeRange(fn *ssa.Function, ff *FuncFacts, v ssa.Value) (bool, string) {
	seen := map[ssa.Value]bool{}
	var appends []*ssa.Call
	var bases []ssa.Value
	var walk func(x ssa.Value)
	walk = func(x ssa.Value) {
		x = stripConv(x)
		if seen[x] {
			return
		}
		seen[x] = true
		switch y := x.(type) {
		case *ssa.Phi:
			for _, e := range y.Edges {
				walk(e)
			}
		case *ssa.Call:
			if CalleeName(y.Common()) == "builtin:append" {
				appends = append(appends, y)
				walk(y.Common().Args[0])
				return
			}
			bases = append(bases, x)
		case *ssa.UnOp:
			if al, ok := y.X.(*ssa.Alloc); ok {
				if sv := uniqueStore(al); sv != nil {
					walk(sv)
					return
				}
			}
			bases = append(bases, x)
		default:
			bases = append(bases, x)
		}
	}
	walk(v)
	for _, b := range bases {
		mk, ok := b.(*ssa.MakeSlice)
		if !ok {
			if cst, isC := b.(*ssa.Const); isC && cst.Value == nil && len(appends) > 0 {
				continue // nil slice grown by appends
			}
			return false, "returned slice has an origin that is neither make() nor append: " + ff.Term(b).String()
		}
		lt := ff.Term(mk.Len).String()
		if len(appends) == 0 {
			if lt != "((p2 - p1) + 1)" {
				return false, "made with length " + lt + ", not to-from+1"
			}
		} else if lt != "0" {
			return false, "made with length " + lt + " and then appended to"
		}
	}
	loops := naturalLoops(fn)
	for _, ap := range appends {
		blk := ap.Block()
		for _, li := range loops {
			if !li.Blocks[blk] {
				continue
			}
			for _, l := range li.Latch {
				if !(blk == l || blk.Dominates(l)) {
					return false, fmt.Sprintf("an iteration of the loop at b%d can reach its end without the append at b%d: a height is skipped silently", li.Header.Index, blk.Index)
				}
			}
		}
	}
	if len(appends) == 0 && len(bases) == 0 {
		return false, "nothing returned"
	}
	return true, fmt.Sprintf("%d make, %d append sites", len(bases), len(appends))
}

// checkCacheIndexesCoUpdated: the block cache keeps two indexes (by ID and by height); a block
// leaves both or neither. On every path, a delete from one is preceded or followed by a delete
// from the other — otherwise a reverted block stays retrievable by ID (and is offered as a
// common block, or served from, although it is not on the node's chain any more).
func checkCacheIndexesCoUpdated(c *Ctx, rule string) {
	p := c.P
	n := 0
	for _, fn := range p.Subjects() {
		if !strings.HasPrefix(FuncKey(fn), "pkg/blockchain.(*blockCache).") || len(fn.Blocks) == 0 {
			continue
		}
		dels := map[string][]ssa.CallInstruction{}
		for _, call := range AllCallsDeep(fn) {
			if CalleeName(call.Common()) != "builtin:delete" {
				continue
			}
			t := T(call.Common().Args[0])
			for _, f := range []string{"heightIndex", "cachedBlocks"} {
				if t.Any(IsField("blockchain.blockCache", f).F) {
					dels[f] = append(dels[f], call)
				}
			}
		}
		for _, pair := range [][2]string{{"heightIndex", "cachedBlocks"}, {"cachedBlocks", "heightIndex"}} {
			for _, d := range dels[pair[0]] {
				n++
				isOther := func(in ssa.Instruction) bool {
					for _, o := range dels[pair[1]] {
						if in == o.(ssa.Instruction) {
							return true
						}
					}
					return false
				}
				before := false
				for _, o := range dels[pair[1]] {
					if instrDominates(o, d) {
						before = true
					}
				}
				var path []*ssa.BasicBlock
				if !before {
					path = reachesReturnAvoiding(d, isOther, nil)
				}
				c.Require(rule, FuncKey(fn)+": delete("+pair[0]+") ⇒ delete("+pair[1]+")", p.InstrPos(d), "a block removed from one cache index is removed from the other on every path", path == nil, pathStr(path))
			}
		}
	}
	c.MinInstances(rule, n, 2)
}

// checkParkedBlocksSurvive — blocks removed with saveTemp=true are the only copy of the node's
// own branch until they are re-applied: the temp table may be emptied only (a) by the sync
// function itself on its success path, or (b) nowhere on the way from restoreBlocks to the
// read of the saved blocks. A clear inside the revert helper (which restoreBlocks reuses)
// empties the table right before it is read: nothing is restored and the call still succeeds.
func checkParkedBlocksSurvive(c *Ctx, rule string) {
	p := c.P
	restore := c.Anchor("pkg/consensus/sync.(*fastSyncer).restoreBlocks")
	if restore == nil {
		return
	}
	const clear = "(*blockchain.DataAccess).ClearTempBlocks"
	get := CallsIn(restore, "(*blockchain.DataAccess).GetTempBlocks")
	n := 0
	seen := map[*ssa.Function]bool{}
	var walk func(fn *ssa.Function, chain string, depth int)
	walk = func(fn *ssa.Function, chain string, depth int) {
		if fn == nil || seen[fn] || depth > 4 || len(fn.Blocks) == 0 || !IsProd(fn) {
			return
		}
		seen[fn] = true
		for _, call := range AllCalls(fn) {
			name := CalleeName(call.Common())
			if name == clear {
				n++
				// inside restoreBlocks itself a clear is fine once the saved blocks were read and re-applied
				after := fn == restore && len(get) == 1 && instrDominates(get[0].Call, call)
				c.Require(rule, chain+" ⇒ ClearTempBlocks", p.InstrPos(call), "nothing on the way from restoreBlocks to reading the saved blocks empties the temp table", after, "reached via "+chain)
				continue
			}
			if g := call.Common().StaticCallee(); g != nil && strings.HasPrefix(FuncKey(g), "pkg/consensus/sync.") {
				walk(g, chain+" → "+FuncName(g), depth+1)
			}
		}
	}
	walk(restore, FuncName(restore), 0)
	if n == 0 {
		// nothing reachable from restoreBlocks clears the table: that is the obligation
		n++
		c.Require(rule, FuncName(restore)+": no clear before the saved blocks are read", p.Pos(restore.Pos()), "nothing on the way from restoreBlocks to reading the saved blocks empties the temp table", true, fmt.Sprintf("%d functions walked", len(seen)))
	}
	c.MinInstances(rule, n, 1)
}

// checkHandlersServeTheChain — R7. What a peer is told about this node's chain (its tip, the
// highest common block, a segment) is what peer selection, the common-block search and the
// downloader of the *other* node work with; it is the chain as it is when the request arrives.
// Structural condition: the sync RPC handlers keep nothing between requests — no function of the
// sync package reachable from a HandleRPCEndpoint* handler stores to a field of a sync-package
// object or to a package variable (a remembered answer survives a tip replacement at the same
// height, a revert, a restart of the sync). Caching inside pkg/blockchain is that package's
// business (C20/C05 rules watch it).
func checkHandlersServeTheChain(c *Ctx) {
	p := c.P
	rule := "C19.R7 handlers-serve-the-chain"
	n := 0
	// the objects that outlive a request: the Syncer and what it holds (within the package)
	longLived := map[string]bool{}
	if sy := p.Fn("pkg/consensus/sync.(*Syncer).HandleRPCEndpointGetLastBlock"); sy != nil && sy.Signature.Recv() != nil {
		var walk func(t types.Type, d int)
		walk = func(t types.Type, d int) {
			o, st := ownerOfFieldBase(t)
			if st == nil || d > 3 || longLived[o] || !strings.HasPrefix(o, "consensus/sync.") {
				return
			}
			longLived[o] = true
			for i := 0; i < st.NumFields(); i++ {
				walk(st.Field(i).Type(), d+1)
			}
		}
		walk(sy.Signature.Recv().Type(), 0)
	}
	c.Count("long-lived sync objects (Syncer and what it holds)", len(longLived))
	for _, fn := range p.OwnFuncs {
		if !IsProd(fn) || !strings.HasPrefix(FuncKey(fn), "pkg/consensus/sync.(*Syncer).HandleRPCEndpoint") || fn.Parent() != nil {
			continue
		}
		roots := []*ssa.Function{fn}
		roots = append(roots, fn.AnonFuncs...)
		via := reachableFrom(p, roots, func(g *ssa.Function) bool { return !strings.HasPrefix(FuncKey(g), "pkg/consensus/sync.") })
		bad := ""
		var fs []*ssa.Function
		for g := range via {
			fs = append(fs, g)
		}
		sort.Slice(fs, func(i, j int) bool { return FuncKey(fs[i]) < FuncKey(fs[j]) })
		for _, g := range fs {
			for _, b := range g.Blocks {
				for _, in := range b.Instrs {
					var addr ssa.Value
					switch x := in.(type) {
					case *ssa.Store:
						addr = x.Addr
					case *ssa.MapUpdate:
						if ld, ok := x.Map.(*ssa.UnOp); ok {
							addr = ld.X
						}
					}
					if addr == nil {
						continue
					}
					switch a := addr.(type) {
					case *ssa.FieldAddr:
						o, st := ownerOfFieldBase(a.X.Type())
						if st == nil || !longLived[o] {
							continue // request/response objects built for this call
						}
						if _, fresh := a.X.(*ssa.Alloc); fresh {
							continue
						}
						if bad == "" {
							bad = FuncKey(g) + " stores to " + o + "." + fieldNameOf(st.Field(a.Field)) + " at " + p.InstrPos(in)
						}
					case *ssa.Global:
						if bad == "" && a.Pkg != nil && strings.HasSuffix(a.Pkg.Pkg.Path(), "pkg/consensus/sync") {
							bad = FuncKey(g) + " stores to package variable " + a.Name() + " at " + p.InstrPos(in)
						}
					}
				}
			}
		}
		n++
		c.Require(rule, FuncKey(fn), p.Pos(fn.Pos()), "the handler answers from the chain as it is now: nothing reachable from it inside the sync package keeps state between requests", bad == "", bad)
	}
	c.MinInstances(rule, n, 3)
}

// checkBanThePeerThatServed — R8 (also C18.R15). The syncers download blocks from a peer of their
// choosing (the peer handed to NewDownloader) and ban "the peer" when a downloaded block is
// invalid. The ban must name the peer the blocks were requested from: fast sync downloads from
// the peer whose block triggered it, block sync from the best peer it selected — banning the
// trigger peer there punishes a peer that sent only well-formed traffic and lets the one that
// served the bad block go on. Structural condition: for every function G that builds a Downloader
// and hands it to a function H of the package, every BanPeer inside H, read with the arguments of
// that call, names the peer-id argument NewDownloader was given (or the downloader's own field).
func checkBanThePeerThatServed(c *Ctx, rule string) {
	p := c.P
	nd := p.Fn("pkg/consensus/sync.NewDownloader")
	if nd == nil {
		c.Undecided(rule, "NewDownloader", "anchor missing")
		return
	}
	peerK := -1
	for i, prm := range nd.Params {
		if strings.HasSuffix(typeName(prm.Type()), "p2p.PeerID") {
			peerK = i
		}
	}
	if peerK < 0 {
		c.Undecided(rule, "NewDownloader", "no parameter of type p2p.PeerID")
		return
	}
	n := 0
	for _, g := range p.Subjects() {
		if !IsProd(g) || len(g.Blocks) == 0 || !strings.HasPrefix(FuncKey(g), "pkg/consensus/sync.") {
			continue
		}
		for _, mk := range CallsIn(g, "consensus/sync.NewDownloader") {
			dl, ok := mk.Call.(*ssa.Call)
			if !ok {
				continue
			}
			want := T(ArgK(mk.Call, peerK))
			// where does the downloader go?
			for _, use := range AllCallsDeep(g) {
				h := use.Common().StaticCallee()
				if h == nil || !IsOwn(h) || h == nd || len(h.Blocks) == 0 {
					continue
				}
				passed := false
				for _, a := range use.Common().Args {
					if stripConv(a) == ssa.Value(dl) {
						passed = true
					}
				}
				if !passed || use.Common().IsInvoke() {
					continue
				}
				if len(h.Params) > 0 && h.Signature.Recv() != nil && stripConv(use.Common().Args[0]) == ssa.Value(dl) {
					continue // a method of the downloader itself
				}
				var args []*Term
				for _, a := range use.Common().Args {
					args = append(args, T(a))
				}
				for _, ban := range AllCallsDeep(h) {
					if !strings.HasSuffix(CalleeName(ban.Common()), "Connection).BanPeer") {
						continue
					}
					n++
					bt := T(ArgK(ban, 1))
					got := substParams(bt, args)
					ok := got.String() == want.String()
					if !ok && bt.Op == "field" && strings.HasSuffix(bt.Owner, "sync.Downloader") {
						ok = true
					}
					c.Require(rule, FuncKey(h)+": BanPeer("+bt.String()+")", p.InstrPos(ban.(ssa.Instruction)), "the peer banned for a bad downloaded block is the peer the download was addressed to ("+want.String()+" in "+FuncKey(g)+")", ok, "banned: "+got.String()+"; downloaded from: "+want.String())
				}
			}
		}
	}
	c.MinInstances(rule, n, 2)
}
