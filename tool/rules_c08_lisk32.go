package main

import (
	"fmt"
	"go/constant"
	"go/token"
	"go/types"
	"strings"

	"golang.org/x/tools/go/ssa"
)

// checkLisk32 — C08.L. "Lisk32 address text and bytes convert back and forth without loss
// and bad checksums are rejected": the reader accepts only texts the writer can produce.
//
//	L1 alphabet: every 5-bit value that reaches the checksum in the validator is the position
//	   of the character in the alphabet the writer indexes, taken on an edge where the search
//	   succeeded (>= 0); a lookup table is accepted only when it is first filled with a
//	   negative sentinel (a zero-initialised table maps every foreign byte to the first letter);
//	L2 checksum: the validator succeeds only under polymod(values) == 1, and the decoder
//	   returns bytes only after the validator succeeded;
//	L3 prefix: the constant the writer puts in front is the constant the validator demands.
func checkLisk32(c *Ctx) {
	p := c.P
	val := c.Anchor("pkg/codec.ValidateLisk32")
	dec := c.Anchor("pkg/codec.Lisk32ToBytes")
	enc := c.Anchor("pkg/codec.uint5ToLisk32")
	if val == nil || dec == nil || enc == nil {
		return
	}
	constStr := func(v ssa.Value) (string, bool) {
		if k, ok := v.(*ssa.Const); ok && k.Value != nil && k.Value.Kind() == constant.String {
			return constant.StringVal(k.Value), true
		}
		return "", false
	}
	// the writer's alphabet: the constant string it indexes
	alphabet := ""
	for _, b := range blocksDeep(enc) {
		for _, in := range b.Instrs {
			switch x := in.(type) {
			case *ssa.Index:
				if s, ok := constStr(x.X); ok {
					alphabet = s
				}
			case *ssa.Lookup:
				if s, ok := constStr(x.X); ok {
					alphabet = s
				}
			}
		}
	}
	c.Require("C08.L1 lisk32-alphabet", FuncKey(enc)+": alphabet", p.Pos(enc.Pos()), "the writer maps 5-bit values through one constant 32-letter alphabet", len(alphabet) == 32, fmt.Sprintf("%q", alphabet))

	vf := factsOf(val)
	searchFns := map[string]bool{"strings.Index": true, "strings.IndexByte": true, "strings.IndexRune": true, "bytes.IndexByte": true, "bytes.IndexRune": true, "strings.IndexAny": false}
	nVals := 0
	checkValue := func(v ssa.Value, at ssa.Instruction) {
		nVals++
		root := valueRoot(stripConv(v))
		site := FuncKey(val) + ": value " + T(v).String()
		if call, ok := root.(*ssa.Call); ok && searchFns[CalleeName(call.Common())] {
			s, isC := constStr(call.Call.Args[0])
			if !isC {
				if bs, ok2 := stripConv(call.Call.Args[0]).(*ssa.Const); ok2 {
					s, isC = constStr(bs)
				}
			}
			sameAlpha := isC && s == alphabet
			t := vf.Term(root)
			nonNeg := vf.EveryPathHas(at.Block(), func(f Fact) bool {
				return f.IsCmp && f.Entails(CmpSpec{A: Matcher{"search", func(u *Term) bool { return u.String() == t.String() }}, NoB: true, Rel: GE, D: 0})
			})
			c.Require("C08.L1 lisk32-alphabet", site, p.InstrPos(at), "a character's value is its position in the writer's alphabet, used only where the search found it", sameAlpha && nonNeg, fmt.Sprintf("same alphabet=%v, found(>=0) on every path=%v", sameAlpha, nonNeg))
			return
		}
		// table idiom: value loaded from a package-level array — possibly behind a range guard
		// that answers a negative constant itself (φ of negative constants and the table load)
		var alts []ssa.Value
		if phi, ok := root.(*ssa.Phi); ok {
			alts = phi.Edges
		} else if call, ok := stripConv(v).(*ssa.Call); ok {
			if h := newHelperCallee(call); h != nil {
				for _, r := range Returns(h) {
					if len(r.Results) == 1 {
						alts = append(alts, r.Results[0])
					}
				}
			}
		}
		if len(alts) > 0 {
			var load ssa.Value
			okPhi := true
			for _, e := range alts {
				if k, isC := e.(*ssa.Const); isC && k.Value != nil && k.Value.Kind() == constant.Int && constant.Sign(k.Value) < 0 {
					continue
				}
				if load != nil && load != e {
					okPhi = false
				}
				load = e
			}
			if okPhi && load != nil {
				root = valueRoot(stripConv(load))
			}
		}
		if un, ok := root.(*ssa.UnOp); ok && un.Op == token.MUL {
			if ia, ok := un.X.(*ssa.IndexAddr); ok {
				if g, ok := ia.X.(*ssa.Global); ok {
					sentinel := tableHasNegativeFill(p, g)
					t := vf.Term(v)
					nonNeg := vf.EveryPathHas(at.Block(), func(f Fact) bool {
						return f.IsCmp && (f.Entails(CmpSpec{A: Matcher{"v", func(u *Term) bool { return u.String() == t.String() }}, NoB: true, Rel: GE, D: 0}))
					})
					c.Require("C08.L1 lisk32-alphabet", site, p.InstrPos(at), "a lookup table answers 'not in the alphabet' with a negative sentinel it was filled with, and the value is used only where it is >= 0", sentinel && nonNeg, fmt.Sprintf("table %s filled with a negative sentinel=%v, >=0 on every path=%v", g.Name(), sentinel, nonNeg))
					return
				}
			}
		}
		c.Require("C08.L1 lisk32-alphabet", site, p.InstrPos(at), "a character's value comes from a search in the writer's alphabet", false, "unrecognised source")
	}
	for _, b := range blocksDeep(val) {
		for _, in := range b.Instrs {
			switch x := in.(type) {
			case *ssa.Call:
				if bi, ok := x.Call.Value.(*ssa.Builtin); ok && bi.Name() == "append" && len(x.Call.Args) == 2 {
					if sl, ok := x.Call.Args[1].(*ssa.Slice); ok {
						if al, ok := sl.X.(*ssa.Alloc); ok {
							if elems, ok := arrayElems(al); ok {
								for _, e := range elems {
									checkValue(e, x)
								}
							}
						}
					}
				}
			case *ssa.Store:
				if ia, ok := x.Addr.(*ssa.IndexAddr); ok {
					if _, isAl := ia.X.(*ssa.Alloc); !isAl { // element of a slice, not of a literal's backing array
						checkValue(x.Val, x)
					}
				}
			}
		}
	}
	c.MinInstances("C08.L1 lisk32-alphabet", nVals, 1)

	// L2 / L3 on the validator's accepting exits
	prefix := ""
	if w := c.Anchor("pkg/codec.BytesToLisk32"); w != nil {
		for _, r := range Returns(w) {
			if len(r.Results) == 0 {
				continue
			}
			if bo, ok := r.Results[0].(*ssa.BinOp); ok && bo.Op == token.ADD {
				if s, ok := constStr(bo.X); ok {
					prefix = s
				}
			}
		}
		c.Require("C08.L3 lisk32-prefix", FuncKey(w)+": prefix", p.Pos(w.Pos()), "the writer puts a constant prefix in front of the encoded characters", prefix != "", "")
	}
	nAcc := 0
	want := fmt.Sprintf("%q", prefix)
	var acceptExits func(fn *ssa.Function, depth int)
	acceptExits = func(fn *ssa.Function, depth int) {
		ff := factsOf(fn)
		for _, r := range Returns(fn) {
			rf := ff
			if r.Parent() != fn {
				rf = factsOf(r.Parent())
			}
			k := classifyReturn(rf, r)
			if k == RetErr {
				continue
			}
			if k != RetNil {
				// the verdict is handed on from a new helper: its accepting exits are the ones to look at
				if idx := errResultIndex(r.Parent()); idx >= 0 && depth < 2 {
					if ex, ok := r.Results[idx].(*ssa.Extract); ok {
						if call, ok := ex.Tuple.(*ssa.Call); ok {
							if h := newHelperCallee(call); h != nil {
								acceptExits(h, depth+1)
								continue
							}
						}
					}
				}
				continue
			}
			nAcc++
			okSum := rf.EveryPathHas(r.Block(), func(f Fact) bool {
				if !f.IsCmp || f.Op != token.EQL {
					return false
				}
				l, rr := f.L, f.R
				return (l.Op == "call" && strings.HasSuffix(l.Sym, "codec.polymod") && rr.String() == "1") || (rr.Op == "call" && strings.HasSuffix(rr.Sym, "codec.polymod") && l.String() == "1")
			})
			c.Require("C08.L2 lisk32-checksum", FuncKey(val)+": accept", p.InstrPos(r), "a text is accepted only under polymod(values) == 1", okSum, "")
			okPre := prefix != "" && rf.EveryPathHas(r.Block(), func(f Fact) bool {
				s := f.String()
				if !strings.Contains(s, want) {
					return false
				}
				if f.IsCmp {
					return f.Op == token.EQL && strings.Contains(s, "p0[")
				}
				return f.Truth && f.B.Op == "call" && strings.HasSuffix(f.B.Sym, "strings.HasPrefix")
			})
			c.Require("C08.L3 lisk32-prefix", FuncKey(val)+": accept", p.InstrPos(r), "a text is accepted only when it starts with the prefix the writer produces ("+want+"): text → bytes → text gives the text back", okPre, "")
		}
	}
	acceptExits(val, 0)
	c.MinInstances("C08.L2 lisk32-checksum", nAcc, 1)
	// the decoder hands out bytes only after validation
	df := factsOf(dec)
	for _, r := range Returns(dec) {
		rf := df
		if r.Parent() != dec {
			rf = factsOf(r.Parent())
		}
		if classifyReturn(rf, r) != RetNil {
			continue
		}
		ok := rf.EveryPathHas(r.Block(), func(f Fact) bool {
			s := f.String()
			if f.IsCmp && f.Op == token.EQL && strings.Contains(s, "codec.ValidateLisk32(p0)") && strings.Contains(s, "nil") {
				return true
			}
			// … or the validation done through another route that ends in the checksum test
			if f.IsCmp && f.Op == token.EQL && strings.Contains(s, "codec.polymod(") && (strings.HasSuffix(s, " == 1") || strings.HasPrefix(s, "1 == ")) {
				return true
			}
			// the empty text is the empty address
			return f.IsCmp && f.Op == token.EQL && (s == `p0 == ""` || s == `"" == p0` || s == "builtin:len(p0) == 0" || s == "0 == builtin:len(p0)")
		})
		c.Require("C08.L2 lisk32-checksum", FuncKey(dec)+": bytes returned", p.InstrPos(r), "bytes are returned only for the empty text or after ValidateLisk32 accepted the text", ok, "")
	}
}

// tableHasNegativeFill: some function stores a negative constant into every element of the
// global array g (a loop over the whole array storing the constant).
func tableHasNegativeFill(p *Program, g *ssa.Global) bool {
	// the table may be built by a function whose result initialises the variable: the fill is
	// then a store into that function's local array
	builders := map[*ssa.Function]bool{}
	for _, fn := range p.OwnFuncs {
		for _, b := range fn.Blocks {
			for _, in := range b.Instrs {
				if st, ok := in.(*ssa.Store); ok && st.Addr == ssa.Value(g) {
					if call, ok := st.Val.(*ssa.Call); ok {
						if f := call.Common().StaticCallee(); f != nil {
							builders[f] = true
						}
					}
				}
			}
		}
	}
	for f := range builders {
		for _, b := range f.Blocks {
			for _, in := range b.Instrs {
				st, ok := in.(*ssa.Store)
				if !ok {
					continue
				}
				ia, ok := st.Addr.(*ssa.IndexAddr)
				if !ok {
					continue
				}
				if _, isAlloc := ia.X.(*ssa.Alloc); !isAlloc {
					continue
				}
				if !types.Identical(ia.X.Type().Underlying().(*types.Pointer).Elem(), g.Type().Underlying().(*types.Pointer).Elem()) {
					continue
				}
				k, ok := st.Val.(*ssa.Const)
				if !ok || k.Value == nil || k.Value.Kind() != constant.Int || constant.Sign(k.Value) >= 0 {
					continue
				}
				if _, isConstIdx := ia.Index.(*ssa.Const); !isConstIdx {
					return true
				}
			}
		}
	}
	for _, fn := range p.Subjects() {
		if len(fn.Blocks) == 0 {
			continue
		}
		for _, b := range fn.Blocks {
			for _, in := range b.Instrs {
				st, ok := in.(*ssa.Store)
				if !ok {
					continue
				}
				ia, ok := st.Addr.(*ssa.IndexAddr)
				if !ok || ia.X != g {
					continue
				}
				k, ok := st.Val.(*ssa.Const)
				if !ok || k.Value == nil || k.Value.Kind() != constant.Int {
					continue
				}
				if constant.Sign(k.Value) >= 0 {
					continue
				}
				if _, isConstIdx := ia.Index.(*ssa.Const); isConstIdx {
					continue
				}
				return true // a negative constant stored under a running index
			}
		}
	}
	return false
}

// checkDecodedIntegerArithmetic — C08.Z1. A decoded varint ranges over all of uint64: adding
// to, subtracting from or multiplying it in the unsigned domain wraps at the boundary, and a
// value that wrapped decodes to something its encoder never wrote (zig-zag: MaxUint64 is the
// encoding of MinInt64; `(v+1)/2` wraps to 0). Such arithmetic is accepted only under a
// dominating fact that bounds the operand; shifts, masks and xor cannot wrap.
func checkDecodedIntegerArithmetic(c *Ctx) {
	p := c.P
	n := 0
	for _, fn := range p.Subjects() {
		if !strings.HasPrefix(FuncKey(fn), "pkg/codec.") || len(fn.Blocks) == 0 || !IsProd(fn) {
			continue
		}
		ff := factsOf(fn)
		for _, b := range blocksDeep(fn) {
			for _, in := range b.Instrs {
				bo, ok := in.(*ssa.BinOp)
				if !ok || (bo.Op != token.ADD && bo.Op != token.SUB && bo.Op != token.MUL) {
					continue
				}
				bt, ok := bo.Type().Underlying().(*types.Basic)
				if !ok || bt.Kind() != types.Uint64 {
					continue
				}
				var decoded *Term
				for _, opnd := range []ssa.Value{bo.X, bo.Y} {
					t := ff.Term(opnd)
					if t.Any(func(u *Term) bool {
						return u.Op == "call" && (strings.HasSuffix(u.Sym, "codec.Reader).readUInt") || strings.HasSuffix(u.Sym, "codec.readUint"))
					}) {
						decoded = t
					}
				}
				if decoded == nil {
					continue
				}
				n++
				bounded := ff.EveryPathHas(bo.Block(), func(f Fact) bool {
					return f.IsCmp && (f.Op == token.LSS || f.Op == token.LEQ || f.Op == token.GTR || f.Op == token.GEQ || f.Op == token.EQL) && strings.Contains(f.String(), decoded.String())
				})
				c.Require("C08.Z1 decoded-integer-arithmetic-cannot-wrap", FuncKey(fn)+": "+ff.Term(bo).String(), p.InstrPos(bo), "unsigned +, −, × on a decoded varint happens only where a dominating comparison bounds it (the full uint64 range is valid input)", bounded, "operand "+decoded.String())
			}
		}
	}
	c.Count("unsigned arithmetic sites on decoded varints", n)
}
