package main

import (
	"strings"

	"golang.org/x/tools/go/ssa"
)

// ---------------------------------------------------------------------------
// E2: writes to captured variables in concurrently running closures.

type Spawn struct {
	Parent  *ssa.Function
	Instr   ssa.Instruction // the go statement or the Group.Go call
	Closure *ssa.Function
	MC      *ssa.MakeClosure // nil when a named function is spawned
	Kind    string           // "go" | "errgroup.Go"
	InLoop  bool
}

// spawnsIn finds the goroutine bodies created in fn.
func spawnsIn(fn *ssa.Function) []Spawn {
	var out []Spawn
	for _, b := range fn.Blocks {
		for _, in := range b.Instrs {
			switch x := in.(type) {
			case *ssa.Go:
				sp := Spawn{Parent: fn, Instr: in, Kind: "go", InLoop: reachable2(b, b)}
				switch v := x.Call.Value.(type) {
				case *ssa.MakeClosure:
					sp.Closure, _ = v.Fn.(*ssa.Function)
					sp.MC = v
				case *ssa.Function:
					sp.Closure = v
				}
				if sp.Closure != nil {
					out = append(out, sp)
				}
			case *ssa.Call:
				name := CalleeName(x.Common())
				if strings.HasSuffix(name, "errgroup.Group).Go") && len(x.Common().Args) == 2 {
					if mc, ok := x.Common().Args[1].(*ssa.MakeClosure); ok {
						cf, _ := mc.Fn.(*ssa.Function)
						out = append(out, Spawn{Parent: fn, Instr: in, Closure: cf, MC: mc, Kind: "errgroup.Go", InLoop: reachable2(b, b)})
					}
				}
			}
		}
	}
	return out
}

// reachable2: is there a non-empty path from a to b (cycle test when a == b)?
func reachable2(a, b *ssa.BasicBlock) bool {
	seen := map[*ssa.BasicBlock]bool{}
	work := append([]*ssa.BasicBlock{}, a.Succs...)
	for len(work) > 0 {
		x := work[len(work)-1]
		work = work[:len(work)-1]
		if x == b {
			return true
		}
		if seen[x] {
			continue
		}
		seen[x] = true
		work = append(work, x.Succs...)
	}
	return false
}

type SharedWrite struct {
	Spawn   Spawn
	Var     string // captured variable name
	Kind    string // "assign" (x = …, x = append(x,…)) | "map-update" | "element"
	Instr   ssa.Instruction
	Locked  bool
	Why     string
	Binding ssa.Value
}

// sharedWrites lists the writes a spawned closure performs on variables it
// captured by reference from its creator.
func sharedWrites(sp Spawn) []SharedWrite {
	var out []SharedWrite
	if sp.MC == nil || sp.Closure == nil {
		return nil
	}
	cf := sp.Closure
	lf := lockFlow(cf, heldSet{})
	for i, fv := range cf.FreeVars {
		if i >= len(sp.MC.Bindings) {
			continue
		}
		binding := sp.MC.Bindings[i]
		_, byRef := binding.(*ssa.Alloc) // captured variable cell
		for _, r := range *fv.Referrers() {
			switch x := r.(type) {
			case *ssa.Store:
				if x.Addr == fv && byRef {
					out = append(out, SharedWrite{Spawn: sp, Var: fv.Name(), Kind: "assign", Instr: x, Locked: len(lf.Must[x]) > 0, Binding: binding})
				}
			case *ssa.UnOp:
				// loaded value of the captured variable: look for map updates / element stores through it
				for _, rr := range *x.Referrers() {
					switch w := rr.(type) {
					case *ssa.MapUpdate:
						if w.Map == ssa.Value(x) {
							out = append(out, SharedWrite{Spawn: sp, Var: fv.Name(), Kind: "map-update", Instr: w, Locked: len(lf.Must[w]) > 0, Binding: binding})
						}
					case *ssa.IndexAddr:
						for _, r3 := range *w.Referrers() {
							if st, ok := r3.(*ssa.Store); ok && st.Addr == w {
								out = append(out, SharedWrite{Spawn: sp, Var: fv.Name(), Kind: "element", Instr: st, Locked: len(lf.Must[st]) > 0, Binding: binding})
							}
						}
					}
				}
			case *ssa.MapUpdate:
				if x.Map == ssa.Value(fv) {
					out = append(out, SharedWrite{Spawn: sp, Var: fv.Name(), Kind: "map-update", Instr: x, Locked: len(lf.Must[x]) > 0, Binding: binding})
				}
			case *ssa.IndexAddr:
				if x.X == ssa.Value(fv) {
					for _, r3 := range *x.Referrers() {
						if st, ok := r3.(*ssa.Store); ok && st.Addr == x {
							out = append(out, SharedWrite{Spawn: sp, Var: fv.Name(), Kind: "element", Instr: st, Locked: len(lf.Must[st]) > 0, Binding: binding})
						}
					}
				}
			}
		}
	}
	return out
}

// parentTouchesAfter reports whether the creator reads or writes the captured
// cell on some path after the spawn without an intervening join
// (WaitGroup.Wait / errgroup Wait).
func parentTouchesAfter(sp Spawn, cell ssa.Value) (bool, ssa.Instruction) {
	al, ok := cell.(*ssa.Alloc)
	if !ok {
		return false, nil
	}
	isJoin := func(in ssa.Instruction) bool {
		if c, ok := in.(*ssa.Call); ok {
			n := CalleeName(c.Common())
			return n == "(*sync.WaitGroup).Wait" || strings.HasSuffix(n, "errgroup.Group).Wait")
		}
		return false
	}
	uses := map[ssa.Instruction]bool{}
	for _, r := range *al.Referrers() {
		switch r.(type) {
		case *ssa.Store, *ssa.UnOp:
			uses[r] = true
		}
	}
	// forward search from the spawn
	start := sp.Instr
	blk := start.Block()
	idx := instrIndex(start)
	seen := map[*ssa.BasicBlock]bool{}
	var scan func(b *ssa.BasicBlock, from int) ssa.Instruction
	scan = func(b *ssa.BasicBlock, from int) ssa.Instruction {
		for i := from; i < len(b.Instrs); i++ {
			in := b.Instrs[i]
			if isJoin(in) {
				return nil
			}
			if uses[in] {
				return in
			}
		}
		for _, s := range b.Succs {
			if seen[s] {
				continue
			}
			seen[s] = true
			if r := scan(s, 0); r != nil {
				return r
			}
		}
		return nil
	}
	if r := scan(blk, idx+1); r != nil {
		return true, r
	}
	return false, nil
}
