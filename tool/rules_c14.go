package main

import (
	"fmt"
	"go/token"
	"go/types"
	"strings"

	"golang.org/x/tools/go/ssa"
)

func init() {
	register("C14", "Lock discipline and index co-update of the transaction pool, for every path: "+
		"(R1–R6) the C20 lock/capture rules on pkg/txpool (no re-entrant acquire of the pool or per-sender mutex through Add→evict→remove chains, no lock-order cycle, no unbounded wait under a lock, field guards, reorg goroutine captures); "+
		"(R7) co-update: a pool function that inserts into / deletes from the ID index updates the per-sender list and the fee queue on every path to a normal return; "+
		"(R8) must-consume: the ID the per-sender Add reports as replaced/evicted is removed from the global indexes on the added path; "+
		"(R9) bounds: the path that skips eviction carries the fact len(all) < Max, the per-sender insert carries len+1 <= max; "+
		"(R10) all-or-nothing promotion: no validation-failure edge of Promote reaches a write of the sender's state, and reorg promotes only under an Ok verdict or a prefix below the failed index; replacement/removal demote later nonces; "+
		"(R11) heap orderings: nonce heap ascending, fee-min heap ascending, fee-max heap descending.",
		runC14)
}

// lessDirection normalises `return h[i].K OP h[j].K` to OP with i on the left.
func lessDirection(fn *ssa.Function) (op, key string, ok bool) {
	rets := Returns(fn)
	if len(rets) == 0 || len(rets[0].Results) != 1 {
		return "", "", false
	}
	var t *Term
	for _, r := range rets {
		if r.Block() == fn.Recover {
			continue
		}
		t = T(r.Results[0])
		break
	}
	if t == nil || t.Op != "binop" {
		return "", "", false
	}
	iIdx, jIdx := len(fn.Params)-2, len(fn.Params)-1
	side := func(x *Term) int {
		s := x.String()
		hasI := strings.Contains(s, fmt.Sprintf("[p%d]", iIdx))
		hasJ := strings.Contains(s, fmt.Sprintf("[p%d]", jIdx))
		switch {
		case hasI && !hasJ:
			return 0
		case hasJ && !hasI:
			return 1
		}
		return -1
	}
	l, r := side(t.Args[0]), side(t.Args[1])
	key = strings.ReplaceAll(t.Args[0].String(), fmt.Sprintf("[p%d]", iIdx), "[·]")
	key = strings.ReplaceAll(key, fmt.Sprintf("[p%d]", jIdx), "[·]")
	key2 := strings.ReplaceAll(t.Args[1].String(), fmt.Sprintf("[p%d]", iIdx), "[·]")
	key2 = strings.ReplaceAll(key2, fmt.Sprintf("[p%d]", jIdx), "[·]")
	if key != key2 {
		return "", "", false
	}
	switch {
	case l == 0 && r == 1:
		return t.Sym, key, true
	case l == 1 && r == 0:
		m := map[string]string{"<": ">", ">": "<", "<=": ">=", ">=": "<="}
		return m[t.Sym], key, m[t.Sym] != ""
	}
	return "", "", false
}

// edgeReachesInstr: can control, having taken edge e, reach an instruction satisfying pred?
func edgeReachesInstr(e Edge, pred func(ssa.Instruction) bool) ssa.Instruction {
	seen := map[*ssa.BasicBlock]bool{}
	work := []*ssa.BasicBlock{e.To}
	for len(work) > 0 {
		b := work[len(work)-1]
		work = work[:len(work)-1]
		if seen[b] {
			continue
		}
		seen[b] = true
		for _, in := range b.Instrs {
			if pred(in) {
				return in
			}
		}
		work = append(work, b.Succs...)
	}
	return nil
}

// fieldWrites lists instructions in fn that write field `name` of `owner`
// (stores to the field, map updates / deletes / heap pushes through it).
func fieldWrites(root *ssa.Function, owner, name string) []ssa.Instruction {
	var out []ssa.Instruction
	for _, fn := range funcAndHelpers(root) {
		out = append(out, fieldWrites1(fn, owner, name)...)
	}
	return out
}

func fieldWrites1(fn *ssa.Function, owner, name string) []ssa.Instruction {
	var out []ssa.Instruction
	for _, b := range blocksDeep(fn) {
		for _, in := range b.Instrs {
			fa, ok := in.(*ssa.FieldAddr)
			if !ok {
				continue
			}
			o, st := ownerOfFieldBase(fa.X.Type())
			if o != owner || st == nil || fieldNameOf(st.Field(fa.Field)) != name {
				continue
			}
			for _, r := range *fa.Referrers() {
				switch u := r.(type) {
				case *ssa.Store:
					if u.Addr == fa {
						out = append(out, u)
					}
				case *ssa.UnOp:
					for _, rr := range *u.Referrers() {
						switch w := rr.(type) {
						case *ssa.MapUpdate:
							if w.Map == ssa.Value(u) {
								out = append(out, w)
							}
						case *ssa.Call:
							if CalleeName(w.Common()) == "builtin:delete" && ArgK(w, 0) == ssa.Value(u) {
								out = append(out, w)
							}
						}
					}
				case *ssa.Call:
					// heap.Push(&t.queue, x) / heap.Init / passing the address to a mutator
					n := CalleeName(u.Common())
					if n == "container/heap.Push" || n == "container/heap.Pop" {
						out = append(out, u)
					}
				case *ssa.MakeInterface:
					for _, rr := range *u.Referrers() {
						if w, ok := rr.(*ssa.Call); ok {
							n := CalleeName(w.Common())
							if n == "container/heap.Push" || n == "container/heap.Pop" {
								out = append(out, w)
							}
						}
					}
				}
			}
		}
	}
	return out
}

func runC14(c *Ctx) {
	p := c.P
	runLockRules(c, "C14", []string{"pkg/txpool"}, true)
	checkEvictionVictimFromTheList(c)

	add := c.Anchor("pkg/txpool.(*TransactionPool).Add")
	remove := c.Anchor("pkg/txpool.(*TransactionPool).remove")
	promote := c.Anchor("pkg/txpool.(*addressTransactions).Promote")
	listAdd := c.Anchor("pkg/txpool.(*addressTransactions).Add")
	listRemove := c.Anchor("pkg/txpool.(*addressTransactions).remove")
	reorg := c.Anchor("pkg/txpool.(*TransactionPool).reorg")
	if add == nil || remove == nil || promote == nil || listAdd == nil || listRemove == nil || reorg == nil {
		return
	}
	const pool = "txpool.TransactionPool"
	const list = "txpool.addressTransactions"

	// ---- R7 co-update
	mustReach := func(fn *ssa.Function, from []ssa.Instruction, to func(ssa.Instruction) bool, what, rule string) {
		for _, a := range from {
			path := reachesReturnAvoiding(a, to, nil)
			c.Require("C14.R7 index-co-update", FuncKey(fn)+": "+rule, p.InstrPos(a), "every path from the ID-index write to a return performs "+what, path == nil, pathStr(path))
		}
	}
	// a queue update is a direct write of feePriorityQueue or a call of a pool method that writes it
	writesQueue := func(in ssa.Instruction) bool {
		cl, ok := in.(*ssa.Call)
		if !ok {
			return false
		}
		if g := cl.Common().StaticCallee(); g != nil && strings.HasPrefix(FuncKey(g), "pkg/txpool.(*TransactionPool).") {
			return len(fieldWrites(g, pool, "feePriorityQueue")) > 0
		}
		return false
	}
	nIdx := 0
	for _, fn := range p.Subjects() {
		if !inScope(fn, []string{"pkg/txpool"}) || strings.Contains(FuncKey(fn), "NewTransactionPool") || len(fn.Blocks) == 0 {
			continue
		}
		allW := fieldWrites(fn, pool, "allTransactions")
		if len(allW) == 0 {
			continue
		}
		qW := fieldWrites(fn, pool, "feePriorityQueue")
		isQ := func(in ssa.Instruction) bool {
			for _, q := range qW {
				if q == in {
					return true
				}
			}
			return writesQueue(in)
		}
		var inserts, deletes []ssa.Instruction
		for _, w := range allW {
			if _, isMU := w.(*ssa.MapUpdate); isMU {
				inserts = append(inserts, w)
			} else {
				deletes = append(deletes, w)
			}
		}
		nIdx += len(allW)
		mustReach(fn, inserts, isQ, "a fee-queue push", "ID-index insert ⇒ fee-queue update")
		mustReach(fn, deletes, isQ, "a fee-queue rebuild", "ID-index delete ⇒ fee-queue update")
		ff := factsOf(fn)
		for _, a := range inserts {
			ok, f := ff.BoolHoldsAt(a.Block(), IsResult("(*txpool.addressTransactions).Add", 0), true)
			c.Require("C14.R7 index-co-update", FuncKey(fn)+": ID-index insert only after per-sender Add succeeded", p.InstrPos(a), "insert dominated by the fact <per-sender Add>#0 is true", ok, f)
		}
		for _, a := range deletes {
			// a delete either removes the transaction from its sender list here, or the sender list already dropped it (its ID came back from the per-sender Add)
			keyT := ff.Term(ArgK(a.(*ssa.Call), 1)).String()
			fromList := strings.Contains(keyT, "addressTransactions).Add(")
			if fromList {
				continue
			}
			path := reachesReturnAvoiding(a, func(in ssa.Instruction) bool {
				cl, ok := in.(*ssa.Call)
				return ok && calleeMatches(CalleeName(cl.Common()), "(*txpool.addressTransactions).Remove")
			}, nil)
			c.Require("C14.R7 index-co-update", FuncKey(fn)+": ID-index delete ⇒ per-sender Remove", p.InstrPos(a), "every path from the ID-index delete to a return removes the transaction from its sender list", path == nil, pathStr(path))
		}
	}
	c.MinInstances("C14.R7 ID-index writes", nIdx, 2)

	// ---- R10b promotion extends the run that is there *now*. reorg verifies the candidates
	// without the pool lock; a processable transaction removed (block applied, replacement)
	// in the meantime must make the promotion fail, or the processable set gets a hole:
	// inside Promote, under the list's lock, the first promoted nonce is compared with the
	// current last processable nonce (or the set is empty).
	if promote != nil {
		pf := factsOf(promote)
		np := 0
		for _, st := range storesToField(promote, "txpool.addressTransactions", "processables") {
			np++
			ok := pf.EveryPathHas(st.Block(), func(f Fact) bool {
				if !f.IsCmp {
					return false
				}
				s := f.String()
				if strings.Contains(s, "p0.processables[") && (f.Op == token.EQL) {
					return true // continuity with an element of the current run
				}
				// … or there is no current run, or nothing is promoted
				return f.Entails(CmpSpec{A: Matcher{"len(…)", func(t *Term) bool {
					return t.Op == "call" && t.Sym == "builtin:len"
				}}, NoB: true, Rel: LE, D: 0})
			})
			c.Require("C14.R10 promote-extends-the-current-run", FuncKey(promote)+": processables =", p.InstrPos(st), "the promoted nonces are appended only where the first of them was compared with the current end of the processable run (or the run is empty)", ok, "")
		}
		c.MinInstances("C14.R10 promote-extends-the-current-run", np, 1)
	}

	// ---- R9b an eviction declines only for want of candidates. Add inserts after the eviction
	// step whatever it answered (a full pool always has a candidate, so it cannot fail); an
	// eviction that may also decline for another reason (the candidate pays more than the
	// newcomer) lets the pool grow past its limit.
	for _, k := range []string{"pkg/txpool.(*TransactionPool).evictUnprocessable", "pkg/txpool.(*TransactionPool).evictProcessable"} {
		ev := c.Anchor(k)
		if ev == nil {
			continue
		}
		ef := factsOf(ev)
		for _, r := range Returns(ev) {
			if len(r.Results) != 1 {
				continue
			}
			kc, isC := r.Results[0].(*ssa.Const)
			if !isC || kc.Value == nil || kc.Value.ExactString() != "false" {
				continue
			}
			rf := ef
			if r.Parent() != ev {
				rf = factsOf(r.Parent())
			}
			ok := rf.EveryPathHas(r.Block(), func(f Fact) bool {
				return f.IsCmp && f.Entails(CmpSpec{A: Matcher{"len(candidates)", func(t *Term) bool {
					// len(heap), or the heap's own Len()
					return t.Op == "call" && (t.Sym == "builtin:len" || strings.HasSuffix(t.Sym, "Heap).Len"))
				}}, NoB: true, Rel: LE, D: 0})
			})
			c.Require("C14.R9 eviction-declines-only-when-empty", FuncKey(ev)+": return false", p.InstrPos(r), "the eviction answers false only where it has no candidate at all", ok, "")
		}
	}

	// ---- R7b the converse: a removal from a sender list by nonce is the removal of a pooled
	// transaction — it happens only where the ID-index lookup of that very transaction
	// succeeded (under the same lock), and the nonce removed is the one of the entry found.
	// Removing by the nonce of a transaction remembered from earlier tears out whatever
	// occupies that nonce now (a replacement accepted in between).
	{
		n := 0
		for _, fn := range p.Subjects() {
			if !strings.HasPrefix(FuncKey(fn), "pkg/txpool.(*TransactionPool).") || len(fn.Blocks) == 0 {
				continue
			}
			ff := factsOf(fn)
			for _, s := range CallsIn(fn, "(*txpool.addressTransactions).Remove") {
				n++
				gf := ff
				if s.Fn != fn {
					gf = factsOf(s.Fn)
				}
				nonce := gf.Term(ArgK(s.Call, 1))
				fromEntry := nonce.Any(func(t *Term) bool {
					return t.Op == "extract" && t.Sym == "#0" && len(t.Args) == 1 && t.Args[0].Op == "lookup" && strings.HasSuffix(t.Args[0].Args[0].String(), ".allTransactions")
				})
				found := gf.EveryPathHas(s.Call.Block(), func(f Fact) bool {
					return !f.IsCmp && f.Truth && f.B.Op == "extract" && f.B.Sym == "#1" && len(f.B.Args) == 1 && f.B.Args[0].Op == "lookup" && strings.HasSuffix(f.B.Args[0].Args[0].String(), ".allTransactions")
				})
				c.Require("C14.R7 list-removal-of-a-pooled-transaction", FuncKey(fn)+": per-sender Remove("+nonce.String()+")", p.InstrPos(s.Call), "a sender-list removal is dominated by a successful ID-index lookup and removes the nonce of the entry found", fromEntry && found, fmt.Sprintf("nonce from the entry found=%v, lookup succeeded on every path=%v", fromEntry, found))
			}
		}
		c.MinInstances("C14.R7 list-removal-of-a-pooled-transaction", n, 1)
	}

	// ---- R8 must-consume replaced ID
	{
		sites := CallsIn(add, "(*txpool.addressTransactions).Add")
		c.MinInstances("C14.R8 per-sender Add call", len(sites), 1)
		// once the sender list took the incoming transaction nothing in Add removes from that
		// list again: removal is by nonce, and after a replacement the replaced nonce is the
		// incoming transaction's own slot (cleaning up the replaced ID belongs to the pool-wide
		// indexes only)
		for _, s := range sites {
			for _, call := range AllCallsDeep(add) {
				if call == s.Call || !instrDominates(s.Call, call) {
					continue
				}
				isListRemove := func(name string, _ ssa.CallInstruction) bool {
					return name == "(*txpool.addressTransactions).Remove" || name == "(*txpool.addressTransactions).remove"
				}
				var w []string
				if isListRemove(CalleeName(call.Common()), call) {
					w = []string{FuncKey(add) + " → " + CalleeName(call.Common())}
				} else if g := call.Common().StaticCallee(); g != nil && IsOwn(g) {
					w = p.Reaches(g, isListRemove, 3)
				}
				if w != nil {
					c.Require("C14.R8 no-list-removal-after-insert", FuncKey(add)+" ⇒ "+CalleeName(call.Common()), p.InstrPos(call), "after the per-sender insert succeeded, Add does not remove from the sender list (by nonce) again", false, strings.Join(w, " ; "))
				}
			}
		}
		c.Require("C14.R8 no-list-removal-after-insert", FuncKey(add), p.Pos(add.Pos()), "calls after the per-sender insert were followed (own callees, depth 3)", true, "")
		for _, s := range sites {
			var removedID ssa.Value
			for _, r := range *s.Call.Value().Referrers() {
				if ex, ok := r.(*ssa.Extract); ok && ex.Index == 1 {
					removedID = ex
				}
			}
			consumed := false
			detail := "result #1 (replaced/evicted ID) is not used"
			if removedID != nil {
				ff := factsOf(add)
				uses := valueUses(removedID)
				for _, u := range uses {
					okAdded, _ := ff.BoolHoldsAt(u.Block(), IsResult("(*txpool.addressTransactions).Add", 0), true)
					isRemoval := false
					if cl, ok := u.(*ssa.Call); ok {
						n := CalleeName(cl.Common())
						if n == "builtin:delete" || strings.HasSuffix(n, "TransactionPool).remove") || strings.HasSuffix(n, "TransactionPool).removeLocked") || strings.Contains(strings.ToLower(n), "evict") || strings.Contains(strings.ToLower(n), "remove") {
							isRemoval = true
						}
					}
					if okAdded && isRemoval {
						consumed = true
					}
				}
				if !consumed {
					detail = "the replaced/evicted ID only reaches: " + usesStr(p, uses) + " — never a removal from the ID index / fee queue on the added path"
				}
			}
			c.Require("C14.R8 replaced-id-consumed", FuncKey(add)+" ⇒ per-sender Add #1", p.InstrPos(s.Call), "the ID reported as replaced/evicted is removed from the pool-wide indexes when the insert succeeded", consumed, detail)
		}
	}

	// ---- R9 bounds
	{
		ff := factsOf(add)
		lenAll := LenOf(IsField(pool, "allTransactions"))
		maxTx := IsField("txpool.TransactionPoolConfig", "MaxTransactions")
		found := 0
		_ = ff
		des := deepEdges(add) // the decision may sit in a helper (makeRoom)
		for i, de := range des {
			e, f := de.E, de.F
			if !f.IsCmp || !((f.L.Any(lenAll.F) && f.R.Any(maxTx.F)) || (f.R.Any(lenAll.F) && f.L.Any(maxTx.F))) {
				continue
			}
			// is this the eviction decision? the other successor must lead to an evict call
			other := des[i^1].E
			evicts := edgeDominatesAny(other, e.If.Parent(), "evict")
			if !evicts {
				continue
			}
			found++
			ok := f.Entails(CmpSpec{A: lenAll, B: maxTx, Rel: LE, D: -1})
			c.Require("C14.R9 pool-bound", FuncKey(add)+": skip-eviction edge", p.InstrPos(e.If), "eviction is skipped only when len(all) < MaxTransactions (pool never exceeds Max after the insert)", ok, "skip edge carries: "+f.String())
		}
		c.MinInstances("C14.R9 pool-bound", found, 1)

		lf := factsOf(listAdd)
		lenN := LenOf(IsField(list, "nonces"))
		maxS := IsField(list, "maxSize")
		found = 0
		for _, w := range fieldWrites(listAdd, list, "nonces") {
			// heap.Push(&a.nonces, …) on the non-replacement path
			found++
			ok := false
			why := ""
			lf := lf
			if w.Parent() != listAdd {
				lf = factsOf(w.Parent()) // the body moved into a new helper (Add → withLock → add)
			}
			for _, f := range lf.FactsAt(w.Block()) {
				if f.Entails(CmpSpec{A: lenN, B: maxS, Rel: LE, D: -1}) {
					ok, why = true, f.String()
				}
			}
			if !ok {
				// or dominated by a removal of one element on the full path: push is reached via φ of (not full | removed one)
				ok2 := true
				for _, pred := range w.Block().Preds {
					good := false
					for _, f := range lf.FactsOnEdge(pred, w.Block()) {
						if f.Entails(CmpSpec{A: lenN, B: maxS, Rel: LE, D: -1}) {
							good = true
						}
					}
					if !good {
						// the full branch must have removed an element
						rem := false
						for _, in := range pred.Instrs {
							if cl, isC := in.(*ssa.Call); isC && strings.HasSuffix(CalleeName(cl.Common()), "addressTransactions).remove") {
								rem = true
							}
						}
						good = rem
					}
					if !good {
						ok2 = false
					}
				}
				ok, why = ok2, "each predecessor either has len+1 <= max or removed the highest nonce first"
			}
			c.Require("C14.R9 per-sender-bound", FuncKey(listAdd)+": nonce insert", p.InstrPos(w), "insert only when len(nonces)+1 <= maxSize or after removing one", ok, why)
		}
		c.MinInstances("C14.R9 per-sender-bound", found, 1)
	}

	// ---- R10 promotion
	{
		ff := factsOf(promote)
		isStateWrite := func(in ssa.Instruction) bool {
			for _, f := range []string{"processables", "transactions", "nonces"} {
				for _, w := range fieldWrites(promote, list, f) {
					if w == in {
						return true
					}
				}
			}
			return false
		}
		// A candidate that has gone may be dropped instead of failing the whole promotion when what
		// is left is checked as a run before it is written: the list appended to processables is
		// compared pairwise (x[i] against x[i-1]+1, the unequal edge never reaching a state write)
		// and its head with the current end of the run (R10 promote-extends-the-current-run).
		gapChecked := func() bool {
			for _, st := range storesToField(promote, "txpool.addressTransactions", "processables") {
				t := ff.Term(st.Val)
				if t.Op != "call" || t.Sym != "builtin:append" || len(t.Args) != 2 {
					continue
				}
				base := t.Args[1].String()
				pair := false
				for i, e := range ff.Edges {
					f := ff.Facts[i]
					if !f.IsCmp || f.Op != token.NEQ {
						continue
					}
					l, r := f.L.String(), f.R.String()
					if !strings.HasPrefix(l, base+"[") || !strings.HasSuffix(l, "]") {
						continue
					}
					idx := l[len(base)+1 : len(l)-1]
					if r == "("+base+"[("+idx+" - 1)] + 1)" && edgeReachesInstr(e, isStateWrite) == nil {
						pair = true
					}
				}
				head := ff.EveryPathHas(st.Block(), func(f Fact) bool {
					return f.IsCmp && f.Op == token.EQL && strings.Contains(f.String(), "p0.processables[") && strings.Contains(f.String(), base+"[0]")
				}) || ff.EveryPathHas(st.Block(), func(f Fact) bool {
					return f.IsCmp && (strings.Contains(f.String(), "p0.processables[") && f.Op == token.EQL || f.Entails(CmpSpec{A: Matcher{"len(…)", func(t *Term) bool { return t.Op == "call" && t.Sym == "builtin:len" }}, NoB: true, Rel: LE, D: 0}))
				})
				if pair && head {
					return true
				}
			}
			return false
		}()
		nfail := 0
		for i, e := range ff.Edges {
			f := ff.Facts[i]
			fail := false
			desc := ""
			// lookup miss:  !ok of a map lookup on transactions
			if !f.IsCmp && !f.Truth && f.B.Op == "extract" && f.B.Args[0].Op == "lookup" && f.B.Args[0].Args[0].Any(IsField(list, "transactions").F) {
				fail, desc = true, "transaction no longer in the sender list"
			}
			if !f.IsCmp && !f.Truth && f.B.Op == "call" && f.B.Sym == "bytes.Equal" {
				fail, desc = true, "a different transaction now occupies the nonce"
			}
			if !fail {
				continue
			}
			nfail++
			w := edgeReachesInstr(e, isStateWrite)
			site := p.InstrPos(e.If)
			det := ""
			if w != nil {
				det = "reaches state write at " + p.InstrPos(w)
			}
			if w != nil && gapChecked {
				det = "the candidate is dropped; what is left is checked as a run (pairwise and against the current end) before " + p.InstrPos(w)
				w = nil
			}
			c.Require("C14.R10 promote-all-or-nothing", FuncKey(promote)+": failure edge ("+desc+")", site, "a failed check never reaches a write of processables/transactions/nonces — unless the list that is written is checked as a gap-free continuation of the current run first", w == nil, det)
		}
		c.MinInstances("C14.R10 promote-all-or-nothing", nfail, 2)

		// reorg: Promote only under Ok or on a prefix slice
		var body *ssa.Function
		for _, sp := range spawnsIn(reorg) {
			body = sp.Closure
		}
		if body == nil {
			c.Undecided("C14.R10 reorg-promotes-verified", "reorg goroutine body", "no goroutine body found in reorg")
		} else {
			bf := factsOf(body)
			okV, _ := p.constValue("pkg/labi", "TxVerifyResultOk")
			n := 0
			for _, s := range CallsIn(body, "(*txpool.addressTransactions).Promote") {
				n++
				arg := bf.Term(ArgK(s.Call, 1))
				verd := IsResult("(*txpool.TransactionPool).verifyTransactions", 0)
				okEdge := false
				for _, f := range bf.FactsAt(s.Call.Block()) {
					if f.IsCmp && f.Op.String() == "==" && ((verd.Match(f.L) && f.R.Op == "const" && f.R.Sym == okV) || (verd.Match(f.R) && f.L.Op == "const" && f.L.Sym == okV)) {
						okEdge = true
					}
				}
				prefix := arg.Op == "slice" && arg.Args[1].String() == "_" && arg.Args[2].String() != "_"
				c.Require("C14.R10 reorg-promotes-verified", FuncKey(reorg)+" ⇒ Promote", p.InstrPos(s.Call), "Promote under verdict == Ok, or on a prefix strictly below the failed index", okEdge || prefix, "arg: "+arg.String())
			}
			c.MinInstances("C14.R10 reorg-promotes-verified", n, 2)
		}
		// what is offered for promotion is the run of nonces directly following the processable
		// ones: every transaction put into GetPromotable's result has a nonce known to be the
		// successor of the highest processable / the previously offered one — or, for the first
		// of a sender without processable transactions, any nonce
		if gp := c.Anchor("pkg/txpool.(*addressTransactions).GetPromotable"); gp != nil {
			gf := factsOf(gp)
			n := 0
			for _, call := range AllCallsDeep(gp) {
				if CalleeName(call.Common()) != "builtin:append" || len(call.Common().Args) != 2 {
					continue
				}
				var nonce *Term
				gf.Term(call.Common().Args[1]).Walk(func(t *Term) bool {
					if t.Op == "lookup" && len(t.Args) == 2 && t.Args[0].Any(IsField(list, "transactions").F) {
						nonce = t.Args[1]
					}
					return true
				})
				if nonce == nil {
					continue
				}
				n++
				blk := call.(ssa.Instruction).Block()
				ok := gf.EveryPathHas(blk, func(f Fact) bool {
					if !f.IsCmp {
						return false
					}
					if f.Op == token.EQL {
						for _, side := range [][2]*Term{{f.L, f.R}, {f.R, f.L}} {
							same := side[0].String() == nonce.String()
							if side[0].V != nil && nonce.V != nil {
								same = stripConv(side[0].V) == stripConv(nonce.V) // two Pop calls print alike
							}
							if same && side[1].Op == "binop" && side[1].Sym == "+" && (side[1].Args[1].String() == "1" || side[1].Args[0].String() == "1") {
								return true
							}
						}
					}
					return f.Entails(CmpSpec{A: Matcher{"len(processables)", func(t *Term) bool {
						return t.Op == "call" && t.Sym == "builtin:len" && len(t.Args) == 1 && IsField(list, "processables").Match(t.Args[0])
					}}, NoB: true, Rel: LE, D: 0})
				})
				c.Require("C14.R10 promotable-run-consecutive", FuncKey(gp)+": offer "+nonce.String(), p.InstrPos(call), "a nonce is offered only as the successor of the previous one (or first, for a sender with nothing processable)", ok, "")
			}
			c.MinInstances("C14.R10 promotable-run-consecutive", n, 1)
		}
		// demotion on replace / remove
		for _, x := range []struct {
			fn   *ssa.Function
			what string
		}{{listAdd, "replacement"}, {listRemove, "removal"}} {
			n := len(CallsIn(x.fn, "(*txpool.addressTransactions).demoteAfter"))
			c.Require("C14.R10 demote-on-"+x.what, FuncKey(x.fn), p.Pos(x.fn.Pos()), "later nonces lose processable status on "+x.what, n >= 1, "")
		}
	}

	// ---- R12 no stale index lookup: the membership answer (comma-ok flag) and, for an index
	// whose values are containers (the per-sender lists), the container obtained by a lookup are
	// not used after a call that may insert into / delete from the same index — an eviction in
	// between can unregister the list the lookup returned
	{
		nLook := 0
		mutatesIndex := map[string]map[*ssa.Function]bool{}
		var mutates func(g *ssa.Function, field string, depth int) bool
		mutates = func(g *ssa.Function, field string, depth int) bool {
			if g == nil || len(g.Blocks) == 0 || !inScope(g, []string{"pkg/txpool"}) {
				return false
			}
			if mutatesIndex[field] == nil {
				mutatesIndex[field] = map[*ssa.Function]bool{}
			}
			if v, ok := mutatesIndex[field][g]; ok {
				return v
			}
			mutatesIndex[field][g] = false
			r := false
			for _, w := range fieldWrites(g, pool, field) {
				if _, isStore := w.(*ssa.Store); !isStore {
					r = true
				}
			}
			if !r && depth < 5 {
				for _, cl := range AllCalls(g) {
					if mutates(cl.Common().StaticCallee(), field, depth+1) {
						r = true
						break
					}
				}
			}
			mutatesIndex[field][g] = r
			return r
		}
		for _, fn := range p.Subjects() {
			if !inScope(fn, []string{"pkg/txpool"}) || len(fn.Blocks) == 0 || !IsProd(fn) {
				continue
			}
			for _, b := range blocksDeep(fn) {
				for _, in := range b.Instrs {
					lk, ok := in.(*ssa.Lookup)
					if !ok {
						continue
					}
					field := ""
					if u, ok := lk.X.(*ssa.UnOp); ok {
						if fa, ok := u.X.(*ssa.FieldAddr); ok {
							if o, st := ownerOfFieldBase(fa.X.Type()); o == pool && st != nil {
								field = fieldNameOf(st.Field(fa.Field))
							}
						}
					}
					if field == "" {
						continue
					}
					nLook++
					mt, _ := lk.X.Type().Underlying().(*types.Map)
					container := false
					if mt != nil {
						if pt, ok := mt.Elem().Underlying().(*types.Pointer); ok {
							if st, ok := pt.Elem().Underlying().(*types.Struct); ok {
								for i := 0; i < st.NumFields(); i++ {
									switch st.Field(i).Type().Underlying().(type) {
									case *types.Map, *types.Slice:
										container = true
									}
								}
							}
						}
					}
					// membership-dependent values
					var deps []ssa.Value
					if lk.CommaOk {
						for _, r := range *lk.Referrers() {
							if ex, ok := r.(*ssa.Extract); ok && (ex.Index == 1 || container) {
								deps = append(deps, ex)
							}
						}
					} else if container {
						deps = append(deps, lk)
					}
					bad := ""
					for _, cl := range AllCalls(fn) {
						if _, isGo := cl.(*ssa.Go); isGo {
							continue
						}
						if !mutates(cl.Common().StaticCallee(), field, 0) {
							continue
						}
						if !instrReachesAvoiding(lk, cl, lk) {
							continue
						}
						for _, d := range deps {
							for _, u := range valueUses(d) {
								if u != ssa.Instruction(cl) && instrReachesAvoiding(cl, u, lk) {
									bad = fmt.Sprintf("lookup at %s; %s (may change %s) at %s; lookup result used afterwards at %s", p.InstrPos(lk), CalleeName(cl.Common()), field, p.InstrPos(cl), p.InstrPos(u))
								}
							}
						}
					}
					c.Require("C14.R12 no-stale-index-lookup", fmt.Sprintf("%s: lookup of %s #%d", FuncKey(fn), field, nLook), p.InstrPos(lk), "no call that may insert into/delete from the index lies between the lookup and a use of its membership answer (or of the container it returned)", bad == "", bad)
				}
			}
		}
		c.MinInstances("C14.R12 no-stale-index-lookup", nLook, 3)
	}

	// ---- U1 fee / nonce arithmetic on unsigned integers never wraps into a comparison
	checkUnsignedDifferences(c, "C14.U1 unsigned-difference-guarded", func(fn *ssa.Function) bool { return strings.HasPrefix(FuncKey(fn), "pkg/txpool.") }, c14UnsignedTable, 0)

	// ---- R11 heap orderings
	for _, x := range []struct{ key, want string }{
		{"pkg/txpool.(NonceMinHeap).Less", "<"},
		{"pkg/txpool.(FeeMinHeap).Less", "<"},
		{"pkg/txpool.(FeeMaxHeap).Less", ">"},
	} {
		fn := c.Anchor(x.key)
		if fn == nil {
			continue
		}
		op, key, ok := lessDirection(fn)
		c.Require("C14.R11 heap-order", x.key, p.Pos(fn.Pos()), "Less(i,j) is  h[i] "+x.want+" h[j]  on one key", ok && op == x.want, fmt.Sprintf("found %q on %s", op, key))
	}
}

func pathStr(path []*ssa.BasicBlock) string {
	if path == nil {
		return ""
	}
	var s []string
	for _, b := range path {
		s = append(s, fmt.Sprintf("b%d", b.Index))
	}
	return "escaping path: " + strings.Join(s, "→")
}

// valueUses lists instructions using v, looking through phis, conversions and
// interface boxing (for arguments of variadic logging calls the slot store is
// followed to the call).
func valueUses(v ssa.Value) []ssa.Instruction {
	var out []ssa.Instruction
	seen := map[ssa.Value]bool{}
	var rec func(x ssa.Value)
	rec = func(x ssa.Value) {
		if seen[x] || x.Referrers() == nil {
			return
		}
		seen[x] = true
		for _, r := range *x.Referrers() {
			switch u := r.(type) {
			case *ssa.Phi:
				rec(u)
			case *ssa.MakeInterface:
				rec(u)
			case *ssa.ChangeType:
				rec(u)
			case *ssa.Convert:
				rec(u)
			case *ssa.Store:
				// element of a varargs array → the call consuming the slice
				if ia, ok := u.Addr.(*ssa.IndexAddr); ok {
					if al, ok := ia.X.(*ssa.Alloc); ok {
						for _, ar := range *al.Referrers() {
							if sl, ok := ar.(*ssa.Slice); ok {
								for _, sr := range *sl.Referrers() {
									if in, ok := sr.(ssa.Instruction); ok {
										out = append(out, in)
									}
								}
							}
						}
						continue
					}
				}
				out = append(out, u)
			default:
				out = append(out, r)
			}
		}
	}
	rec(v)
	return out
}

func usesStr(p *Program, uses []ssa.Instruction) string {
	var s []string
	for _, u := range uses {
		d := fmt.Sprintf("%T", u)
		if cl, ok := u.(ssa.CallInstruction); ok {
			d = CalleeName(cl.Common())
		}
		if b, ok := u.(*ssa.BinOp); ok {
			d = "comparison " + b.Op.String()
		}
		s = append(s, d+" @"+p.InstrPos(u))
	}
	return strings.Join(s, ", ")
}

// edgeDominatesAny: does the edge lead (dominate) a call whose callee name contains sub?
func edgeDominatesAny(e Edge, fn *ssa.Function, sub string) bool {
	for _, cl := range AllCalls(fn) {
		if strings.Contains(strings.ToLower(CalleeName(cl.Common())), sub) && edgeDominates(e, cl.Block()) {
			return true
		}
	}
	return false
}

var c14UnsignedTable = []unsignedRow{}

// checkEvictionVictimFromTheList — R13. When a sender's list is full, Add makes room by removing
// one transaction and then inserts the incoming one regardless of what the removal did (remove
// answers nil for a nonce that is not listed). The per-sender bound therefore rests on the victim
// being a transaction that *is* in the list at that moment. Structural condition: the nonce
// handed to remove on the over-limit branch is computed in this critical section from the list
// itself — the result of a function of the same object that reads the `nonces` heap or the
// `transactions` map (or an expression over those fields) — not a remembered scalar (a cached
// "highest nonce" goes stale when its transaction leaves by another route: the removal then
// removes nothing and the list grows past the limit).
func checkEvictionVictimFromTheList(c *Ctx) {
	p := c.P
	rule := "C14.R13 eviction-victim-from-the-list"
	add := c.Anchor("pkg/txpool.(*addressTransactions).Add")
	if add == nil {
		return
	}
	readsList := func(g *ssa.Function) bool {
		if g == nil || !IsOwn(g) || len(g.Blocks) == 0 {
			return false
		}
		for _, f := range funcAndHelpers(g) {
			for _, b := range f.Blocks {
				for _, in := range b.Instrs {
					if fa, ok := in.(*ssa.FieldAddr); ok {
						if o, st := ownerOfFieldBase(fa.X.Type()); st != nil && o == "txpool.addressTransactions" {
							if n := fieldNameOf(st.Field(fa.Field)); n == "nonces" || n == "transactions" {
								return true
							}
						}
					}
				}
			}
		}
		return false
	}
	n := 0
	for _, s := range CallsIn(add, "(*txpool.addressTransactions).remove") {
		n++
		v := T(ArgK(s.Call, 1))
		fromList, scalar := false, ""
		v.Walk(func(t *Term) bool {
			switch {
			case t.Op == "field" && t.Owner == "txpool.addressTransactions" && (t.Sym == "nonces" || t.Sym == "transactions"):
				fromList = true
			case t.Op == "field" && t.Owner == "txpool.addressTransactions":
				scalar = t.Sym
			case t.Op == "call" && t.Call != nil && readsList(t.Call.Common().StaticCallee()):
				fromList = true
				return false
			}
			return true
		})
		why := ""
		if !fromList {
			why = "the victim " + v.String() + " is not computed from the list"
			if scalar != "" {
				why += " (it is read from the field " + scalar + ", which is only as current as its last update)"
			}
		}
		c.Require(rule, FuncKey(add)+": remove("+normIter(v.String())+")", p.InstrPos(s.Call), "the transaction removed to make room is chosen from the sender's list as it is now", fromList, why)
	}
	c.MinInstances(rule, n, 1)
}
