package main

import (
	"flag"
	"fmt"
	"golang.org/x/tools/go/ssa"
	"os"
	"sort"
	"strings"
)

// A rule set for one property.
type ruleSet struct {
	Prop    string
	Explain string
	Run     func(c *Ctx)
}

var registry = map[string]*ruleSet{}

func register(prop, explain string, run func(c *Ctx)) {
	registry[prop] = &ruleSet{prop, explain, run}
}

func main() {
	repo := flag.String("repo", "/repo", "repository to analyse (working tree)")
	verif := flag.String("verif", "/verif", "where evidence and known_findings.json live")
	prop := flag.String("prop", "", "property id (C01..C20), comma list, or 'all'")
	tier := flag.String("tier", "quick", "quick | thorough")
	dump := flag.String("dump", "", "debug: print edge facts of the named function")
	funcs := flag.Bool("funcs", false, "print the function table (input of tool/known_funcs.txt)")
	fieldsF := flag.Bool("fields", false, "print the struct-field table (input of tool/known_fields.txt)")
	exploreF := flag.Bool("explore", false, "development aid: run the generic engines over the whole module")
	flag.Parse()
	if *prop == "" && *dump == "" && !*funcs && !*exploreF && !*fieldsF {
		fmt.Println("usage: liskcheck -prop Cnn [-tier quick|thorough] [-repo /repo]")
		os.Exit(2)
	}
	p, err := Load(*repo, "", nil)
	if err != nil {
		fmt.Println("BROKEN: cannot analyse", *repo, "-", err)
		os.Exit(2)
	}
	theProgram = p
	if *funcs {
		callers := map[*ssa.Function]map[string]bool{}
		for _, fn := range p.OwnFuncs {
			for _, cl := range AllCalls(fn) {
				if g := cl.Common().StaticCallee(); g != nil && IsOwn(g) && g != fn {
					if callers[g] == nil {
						callers[g] = map[string]bool{}
					}
					root := fn
					for root.Parent() != nil {
						root = root.Parent()
					}
					callers[g][FuncKey(root)] = true
				}
			}
		}
		for _, fn := range p.OwnFuncs {
			if fn.Synthetic == "" {
				var names []string
				for _, prm := range fn.Params {
					names = append(names, prm.Name())
				}
				var cs []string
				for k := range callers[fn] {
					cs = append(cs, k)
				}
				sort.Strings(cs)
				fmt.Println(FuncKey(fn) + "\t" + sigString(fn) + "\t" + strings.Join(names, ",") + "\t" + strings.Join(cs, ";"))
			}
		}
		return
	}
	if *fieldsF {
		for _, l := range p.structFields() {
			fmt.Println(l)
		}
		return
	}
	if *exploreF {
		explore(p)
		return
	}
	if *dump != "" {
		dumpFunc(p, *dump)
		return
	}
	var props []string
	if *prop == "all" {
		for k := range registry {
			props = append(props, k)
		}
		sort.Strings(props)
	} else {
		props = strings.Split(*prop, ",")
	}
	code := 0
	for _, id := range props {
		rs := registry[id]
		if rs == nil {
			fmt.Printf("BROKEN: no rules registered for %s\n", id)
			os.Exit(2)
		}
		runOnce := func(subst map[string]string) *Ctx {
			c := NewCtx(p, id, *tier)
			c.Explain = rs.Explain
			c.anchorSubst = subst
			func() {
				defer func() {
					if r := recover(); r != nil {
						c.Undecided("engine", "panic", fmt.Sprint(r))
					}
				}()
				rs.Run(c)
			}()
			return c
		}
		c := runOnce(nil)
		// an anchor function that is gone while its only caller survives was most likely merged
		// into that caller: run the rules once more with the caller standing in for it. Only a
		// completely clean second run is accepted (the same obligations, all discharged, on the
		// function that now holds the code); anything else leaves the first verdict.
		if subst := c.mergedInto(); subst != nil {
			c2 := runOnce(subst)
			if os.Getenv("LISKCHECK_SHOW_PASS2") != "" {
				for _, o := range c2.Obs {
					if o.Status != "discharged" {
						fmt.Printf("  pass2 %s [%s] %s | %s | %s\n", o.Status, o.Rule, o.Construct, o.Site, o.Detail)
					}
				}
			}
			if c2.clean(*verif) {
				for a, g := range subst {
					c2.Notes = append(c2.Notes, "anchor "+a+" is gone; its only caller "+g+" was analysed in its place and discharged every obligation")
				}
				c = c2
			}
		}
		if rc := c.Finish(*verif); rc > code {
			code = rc
		}
	}
	os.Exit(code)
}

func dumpFunc(p *Program, key string) {
	fn := p.Fn(key)
	if fn == nil {
		fmt.Println("no such function; candidates:")
		for k := range p.Funcs {
			if strings.Contains(k, key) {
				fmt.Println("  ", k)
			}
		}
		return
	}
	ff := factsOf(fn)
	for i, e := range ff.Edges {
		fmt.Printf("b%d -> b%d  %s   @%s\n", e.From.Index, e.To.Index, ff.Facts[i], p.InstrPos(e.If))
	}
	for _, c := range AllCalls(fn) {
		fmt.Printf("call b%d %s  @%s\n", c.Block().Index, CalleeName(c.Common()), p.InstrPos(c))
		if v := c.Value(); v != nil {
			fmt.Printf("     = %s\n", ff.Term(v))
		}
	}
	for _, r := range Returns(fn) {
		fmt.Printf("return b%d kind=%d\n", r.Block().Index, classifyReturn(ff, r))
	}
}
