package main

import (
	"fmt"
	"go/types"
	"sort"
	"strings"

	"golang.org/x/tools/go/ssa"
)

func init() {
	register("C11", "Only the persistence clause of the property ('reloading the tree from storage preserves root, size and append path') and the coherence of the tree handle; the incremental = batch = LIP-0031 root equalities, proofs, updates and witnesses are index arithmetic over all lengths and are NOT decided (known gap G1: CalculateRootFromAppendPath's predicted append path is wrong for most sizes and no rule here finds it): "+
		"(R1) pairing: in every method of the tree that assigns root, size or appendPath, each path from such an assignment to a nil return executes the persist call; "+
		"(R2) save/load symmetry: the fields copied into the persisted record = the fields restored by the loader = {root, appendPath, size}, written and read under one key; "+
		"(R3) node index symmetry: both directions written by the node writer are read back under the prefix they were written with, and a replace deletes a key of the family it wrote; "+
		"(R5) the append path an accessor hands out uncopied is never rewritten in place (only replaced); "+
		"(R4) derived state: any further field of the tree handle whose value is derived from size is recomputed or invalidated by every method that changes size (a lazily cached layer structure must not survive an append).",
		runC11)
}

func runC11(c *Ctx) {
	p := c.P
	c.Assume = append(c.Assume, "hash/tree arithmetic is not decided; see DESIGN.md §5 and gap G1")
	const T_ = "trie/rmt.RegularMerkleTree"
	save := c.Anchor("pkg/trie/rmt.(*RegularMerkleTree).saveInfo")
	load := c.Anchor("pkg/trie/rmt.(*RegularMerkleTree).loadInfo")
	saveNode := c.Anchor("pkg/trie/rmt.(*RegularMerkleTree).saveNode")
	replace := c.Anchor("pkg/trie/rmt.(*RegularMerkleTree).replaceNode")
	if save == nil || load == nil || saveNode == nil || replace == nil {
		return
	}
	persisted := []string{"root", "appendPath", "size"}
	// ---- R14 positions come from the size. The hash → location index is not injective (two leaves,
	// or a leaf and an inner node, may be equal after an Update); it answers "where is *a* node with
	// this hash" for proof queries, which is all a query can ask. Nothing that *writes* the tree may
	// take a position from it: Append computes the place of its append-path nodes from the size.
	{
		n := 0
		for _, s := range p.CallersOf("(*trie/rmt.RegularMerkleTree).getLocation") {
			if !IsProd(s.Fn) {
				continue
			}
			n++
			root := s.Fn
			if kr := knownRootOf(s.Fn); kr != nil {
				root = kr
			}
			okCaller := strings.HasSuffix(FuncKey(root), ".getIndexes")
			c.Require("C11.R14 positions-from-the-size", FuncKey(root)+" ⇒ getLocation", p.InstrPos(s.Call), "only the by-hash proof query reads the hash → location index; writers of the tree compute positions", okCaller, "")
		}
		c.MinInstances("C11.R14 positions-from-the-size", n, 1)
	}

	// ---- R13 the pure calculators leave their inputs alone. AppendPath() hands out the tree's own
	// slice (R5 keeps the tree from rewriting it in place); a calculator that is given that slice
	// and stores into it — or into a re-slice of it that it then returns — rewrites the live tree's
	// append path behind its back.
	{
		nCalc := 0
		for _, key := range []string{"pkg/trie/rmt.CalculateRootFromAppendPath", "pkg/trie/rmt.CalculateRoot", "pkg/trie/rmt.CalculateRootFromUpdateData", "pkg/trie/rmt.CalculateRootFromRightWitness", "pkg/trie/rmt.VerifyProof", "pkg/trie/rmt.VerifyRightWitness"} {
			fn := p.Fn(key)
			if fn == nil || len(fn.Blocks) == 0 {
				continue
			}
			nCalc++
			bad := ""
			for _, g := range funcAndHelpers(fn) {
				for _, b := range g.Blocks {
					for _, in := range b.Instrs {
						st, ok := in.(*ssa.Store)
						if !ok {
							continue
						}
						ia, ok := st.Addr.(*ssa.IndexAddr)
						if !ok {
							continue
						}
						v := ia.X
						for i := 0; i < 6; i++ {
							v = valueRoot(stripConv(v))
							if sl, ok := v.(*ssa.Slice); ok {
								v = sl.X
								continue
							}
							break
						}
						if prm, ok := v.(*ssa.Parameter); ok && prm.Parent() == fn {
							if _, isSlice := prm.Type().Underlying().(*types.Slice); isSlice {
								bad = "stores into parameter " + prm.Name() + " at " + p.InstrPos(st)
							}
						}
					}
				}
			}
			c.Require("C11.R13 calculators-leave-inputs-alone", key, p.Pos(fn.Pos()), "no element store into a slice parameter (or a re-slice of it): the caller's path / hashes are not rewritten", bad == "", bad)
		}
		c.MinInstances("C11.R13 calculators-leave-inputs-alone", nCalc, 3)
	}

	var methods []*ssa.Function
	for _, fn := range p.Subjects() {
		if strings.HasPrefix(FuncKey(fn), "pkg/trie/rmt.(*RegularMerkleTree).") && len(fn.Blocks) > 0 {
			methods = append(methods, fn)
		}
	}
	sort.Slice(methods, func(i, j int) bool { return FuncKey(methods[i]) < FuncKey(methods[j]) })

	// ---- R1
	n := 0
	for _, fn := range methods {
		if fn == load || fn == save {
			continue
		}
		ff := factsOf(fn)
		for _, f := range persisted {
			for _, st := range storesToField(fn, T_, f) {
				n++
				path := reachesReturnAvoiding(st, func(in ssa.Instruction) bool {
					cl, ok := in.(ssa.CallInstruction)
					return ok && CalleeName(cl.Common()) == "(*trie/rmt.RegularMerkleTree).saveInfo"
				}, func(r *ssa.Return) bool {
					k := classifyReturn(ff, r)
					return k == RetNil || k == RetNoErr || k == RetMaybe
				})
				c.Require("C11.R1 persist-after-mutation", FuncKey(fn)+": assigns "+f, p.InstrPos(st), "every successful path after the assignment persists the tree info (a reload must see it)", path == nil, pathStr(path)+retOfPath(p, path))
			}
		}
	}
	c.MinInstances("C11.R1 persist-after-mutation", n, 5)

	// ---- R2
	{
		saved := map[string]string{}
		for _, b := range blocksDeep(save) {
			for _, in := range b.Instrs {
				if st, ok := in.(*ssa.Store); ok {
					if fa, ok := st.Addr.(*ssa.FieldAddr); ok {
						o, s := ownerOfFieldBase(fa.X.Type())
						if o == "trie/rmt.info" {
							saved[fieldNameOf(s.Field(fa.Field))] = T(st.Val).String()
						}
					}
				}
			}
		}
		loaded := map[string]string{}
		for _, f := range persisted {
			for _, st := range storesToField(load, T_, f) {
				loaded[f] = T(st.Val).String()
			}
		}
		for _, f := range persisted {
			c.Require("C11.R2 save-load-symmetry", "saveInfo: info."+f, p.Pos(save.Pos()), "the persisted record carries the tree's "+f, saved[f] == "p0."+f, "saved: "+saved[f])
			c.Require("C11.R2 save-load-symmetry", "loadInfo: tree."+f, p.Pos(load.Pos()), "the loader restores "+f+" from the record's "+f, strings.HasSuffix(loaded[f], "."+f) && strings.Contains(loaded[f], "complit"), "loaded: "+loaded[f])
		}
		c.Require("C11.R2 save-load-symmetry", "record fields", p.Pos(save.Pos()), "exactly the three persisted fields are saved", len(saved) == 3, fmt.Sprint(saved))
		var setKey, getKey string
		for _, call := range AllCallsDeep(save) {
			if call.Common().IsInvoke() && call.Common().Method.Name() == "Set" {
				setKey = T(ArgK(call, 0)).String()
			}
		}
		for _, call := range AllCallsDeep(load) {
			if call.Common().IsInvoke() && call.Common().Method.Name() == "Get" {
				getKey = T(ArgK(call, 0)).String()
			}
		}
		c.Require("C11.R2 save-load-symmetry", "record key", p.Pos(load.Pos()), "saved and loaded under the same key", setKey != "" && setKey == getKey, setKey+" vs "+getKey)
		// the bytes stored are the record's encoding; the bytes decoded are the ones read
		okEnc := false
		for _, call := range AllCallsDeep(save) {
			if call.Common().IsInvoke() && call.Common().Method.Name() == "Set" {
				okEnc = strings.Contains(T(ArgK(call, 1)).String(), "rmt.info).Encode(")
			}
		}
		c.Require("C11.R2 save-load-symmetry", "record encoding", p.Pos(save.Pos()), "the value stored is info.Encode()", okEnc, "")
	}

	// ---- R3
	{
		prefixOf := func(t *Term) string {
			// append([]byte{PREFIX}, …)
			// the key itself is prefix ‖ rest — an append buried inside (the key of a value that
			// was read and is now used as a key) says nothing about this key's family
			if !(t.Op == "call" && t.Sym == "builtin:append") {
				return "<none>"
			}
			s := t.String()
			i := strings.Index(s, "builtin:append([")
			if i != 0 {
				return "<none>"
			}
			rest := s[i+len("builtin:append(["):]
			j := strings.Index(rest, "]")
			if j < 0 {
				return "<none>"
			}
			return rest[:j]
		}
		written := map[string]bool{}
		for _, call := range AllCallsDeep(saveNode) {
			if call.Common().IsInvoke() && call.Common().Method.Name() == "Set" {
				written[prefixOf(T(ArgK(call, 0)))] = true
			}
		}
		c.Require("C11.R3 node-index-symmetry", "saveNode writes", p.Pos(saveNode.Pos()), "both directions (hash→location, location→hash) are written", len(CallsInvoke(saveNode, "Set")) == 2, "")
		// … on every path: the index answers with the node written last under a hash (a later
		// node with the same hash replaces the entry). A write may only be skipped where the
		// stored entry is known to equal the new one already.
		{
			sf := factsOf(saveNode)
			for _, set := range CallsInvoke(saveNode, "Set") {
				val := sf.Term(ArgK(set, 1)).String()
				excused := map[*ssa.BasicBlock]bool{}
				for i, e := range sf.Edges {
					f := sf.Facts[i]
					if !f.IsCmp && f.Truth && f.B.Op == "call" && strings.HasSuffix(f.B.Sym, "bytes.Equal") && len(e.To.Preds) == 1 {
						for _, a := range f.B.Args {
							if a.String() == val {
								excused[e.To] = true
							}
						}
					}
				}
				first := saveNode.Blocks[0].Instrs[0]
				stop := func(in ssa.Instruction) bool {
					return in == set.(ssa.Instruction) || (excused[in.Block()] && in == in.Block().Instrs[0])
				}
				var path []*ssa.BasicBlock
				if !stop(first) {
					path = reachesReturnAvoiding(first, stop, nil)
				}
				c.Require("C11.R3 node-index-symmetry", "saveNode: "+prefixOf(T(ArgK(set, 0)))+" ‖ "+T(ArgK(set, 0)).String()+" written on every path", p.InstrPos(set), "each index record is (re)written by every saveNode call — last write wins", path == nil, pathStr(path))
			}
		}
		for _, k := range []string{"pkg/trie/rmt.(*RegularMerkleTree).getHash", "pkg/trie/rmt.(*RegularMerkleTree).getLocation"} {
			fn := c.Anchor(k)
			if fn == nil {
				continue
			}
			for _, call := range CallsInvoke(fn, "Get") {
				pf := prefixOf(T(ArgK(call, 0)))
				c.Require("C11.R3 node-index-symmetry", k+": read prefix", p.InstrPos(call), "reads use a prefix saveNode writes", written[pf], "prefix "+pf)
			}
		}
		// R8: hashes are not unique (equal leaves, equal subtrees): an entry of the hash→location
		// family may be deleted only where the stored location was checked to be the one being
		// replaced — a delete keyed by the hash alone removes the entry another location with
		// the same hash relies on (a proof for that leaf then names index 0)
		{
			nDel := 0
			for _, fn := range methods {
				gf := factsOf(fn)
				for _, call := range CallsInvoke(fn, "Del") {
					pf := prefixOf(T(ArgK(call, 0)))
					if !written[pf] {
						continue
					}
					nDel++
					in := call.(ssa.Instruction)
					ok := gf.EveryPathHas(in.Block(), func(f Fact) bool {
						s := f.String()
						return strings.Contains(s, "getLocation(") || (strings.Contains(s, "bytes.Equal(") && strings.Contains(s, ".key("))
					})
					c.Require("C11.R8 index-delete-checks-owner", FuncKey(fn)+": Del "+T(ArgK(call, 0)).String(), p.InstrPos(in), "an index entry keyed by a hash is deleted only after the stored location was compared with the location being replaced (hashes repeat)", ok, "")
				}
			}
			c.Count("index deletes in the written families", nDel)
		}
		for _, call := range CallsInvoke(replace, "Del") {
			pf := prefixOf(T(ArgK(call, 0)))
			// informational only: a stale hash→location entry of a replaced inner node is never
			// consulted for the behaviour C11 states (queries are leaf hashes); see DESIGN.md F31
			c.Notes = append(c.Notes, fmt.Sprintf("replaceNode deletes key %s (prefix written by saveNode: %v) — stale inner-node entries are not removed; not an obligation", T(ArgK(call, 0)).String(), written[pf]))
		}
	}

	// ---- R4 derived state
	{
		pk := p.PkgByRel["pkg/trie/rmt"]
		extra := 0
		if pk != nil {
			_, st := ownerOfFieldBase(pk.Types.Scope().Lookup("RegularMerkleTree").Type())
			for i := 0; st != nil && i < st.NumFields(); i++ {
				name := fieldNameOf(st.Field(i))
				if name == "root" || name == "appendPath" || name == "size" || name == "db" {
					continue
				}
				// is it assigned outside constructors?
				var writers []*ssa.Function
				for _, fn := range methods {
					if len(storesToField(fn, T_, name)) > 0 {
						writers = append(writers, fn)
					}
				}
				if len(writers) == 0 {
					continue
				}
				extra++
				// every method that assigns size must also assign this field
				for _, fn := range methods {
					if len(storesToField(fn, T_, "size")) == 0 || fn == load {
						continue
					}
					ok := len(storesToField(fn, T_, name)) > 0
					c.Require("C11.R4 derived-state-invalidated", FuncKey(fn)+": field "+name, p.Pos(fn.Pos()), "a mutable, non-persisted field of the tree handle is reset or recomputed whenever size changes", ok, "written only in: "+funcNames(writers))
				}
			}
		}
		// R6: the tree shape is LIP-0031's — wherever a list is cut in two halves that are
		// hashed separately (x[:d] and x[d:] with the same d), d is the largest power of two
		// below the length, computed in one of the recognised ways (2^⌊log2(n−1)⌋, a bit-length
		// shift, or a doubling loop); a midpoint split gives another tree for most lengths
		{
			nSplit := 0
			for _, fn := range p.Subjects() {
				if !strings.HasPrefix(FuncKey(fn), "pkg/trie/rmt.") || len(fn.Blocks) == 0 || !IsProd(fn) {
					continue
				}
				lows := map[string][]*ssa.Slice{}
				highs := map[string][]*ssa.Slice{}
				for _, b := range blocksDeep(fn) {
					for _, in := range b.Instrs {
						sl, ok := in.(*ssa.Slice)
						if !ok {
							continue
						}
						if _, isSlice := sl.X.Type().Underlying().(*types.Slice); !isSlice {
							continue
						}
						base := T(sl.X).String()
						if sl.Low != nil && sl.High == nil {
							if _, isC := sl.Low.(*ssa.Const); !isC {
								lows[base+"|"+T(sl.Low).String()] = append(lows[base+"|"+T(sl.Low).String()], sl)
							}
						}
						if sl.High != nil && sl.Low == nil {
							if _, isC := sl.High.(*ssa.Const); !isC {
								highs[base+"|"+T(sl.High).String()] = append(highs[base+"|"+T(sl.High).String()], sl)
							}
						}
					}
				}
				calleesOf := func(v ssa.Value) map[string]bool {
					out := map[string]bool{}
					for _, r := range *v.Referrers() {
						if cl, ok := r.(ssa.CallInstruction); ok {
							out[CalleeName(cl.Common())] = true
						}
					}
					return out
				}
				for k, hs := range highs {
					if len(lows[k]) == 0 {
						continue
					}
					// both halves go into calls of one and the same function (the recursion)
					same := false
					for n := range calleesOf(hs[0]) {
						if calleesOf(lows[k][0])[n] && !strings.HasPrefix(n, "builtin:") {
							same = true
						}
					}
					if !same {
						continue
					}
					nSplit++
					d := T(hs[0].High)
					ds := d.String()
					okPow := strings.Contains(ds, "math.Pow(2") && strings.Contains(ds, "math.Log2(") ||
						strings.Contains(ds, "math/bits.Len") ||
						d.Any(func(t *Term) bool {
							return t.Op == "phi" && t.Any(func(u *Term) bool { return u.Op == "binop" && ((u.Sym == "*" && (u.Args[1].String() == "2" || u.Args[0].String() == "2")) || (u.Sym == "<<" && u.Args[1].String() == "1")) })
						})
					c.Require("C11.R6 split-at-largest-power-of-two", FuncKey(fn)+": "+strings.SplitN(k, "|", 2)[0]+"[:d] / [d:]", p.InstrPos(hs[0]), "a list hashed as two halves is cut at the largest power of two below its length", okPow, "d = "+ds)
				}
			}
			c.MinInstances("C11.R6 split-at-largest-power-of-two", nSplit, 1)
		}
		// R5: the append path is handed out by AppendPath()/GenerateRightWitness as it is;
		// Append must build a new one (an earlier result must stay the path of the earlier size)
		checkExposedSliceImmutable(c, "C11.R5 handed-out-path-immutable", T_, "appendPath", methods)
		// R10: root and append path are both functions of the leaf list: a method that stores a
		// new root (leaves changed) recomputes the append path on the same successful paths —
		// a later Append folds the new leaf with the append path it finds
		{
			n10 := 0
			for _, fn := range methods {
				if fn == load {
					continue
				}
				ff := factsOf(fn)
				for _, st := range storesToField(fn, T_, "root") {
					n10++
					// on every successful path through this store, appendPath is stored too (before or after)
					after := reachesReturnAvoiding(st, func(in ssa.Instruction) bool {
						s2, ok := in.(*ssa.Store)
						if !ok {
							return false
						}
						fa, ok := s2.Addr.(*ssa.FieldAddr)
						if !ok {
							return false
						}
						o, stt := ownerOfFieldBase(fa.X.Type())
						return o == T_ && fieldNameOf(stt.Field(fa.Field)) == "appendPath"
					}, func(r *ssa.Return) bool {
						k := classifyReturn(ff, r)
						return k == RetNil || k == RetNoErr || k == RetMaybe
					})
					before := false
					for _, s2 := range storesToField(fn, T_, "appendPath") {
						if instrDominates(s2, st) {
							before = true
						}
					}
					c.Require("C11.R10 append-path-follows-root", FuncKey(fn)+": assigns root", p.InstrPos(st), "a method that stores a new root also stores the append path of the same leaf list (before the store or on every successful path after it)", before || after == nil, pathStr(after))
				}
			}
			c.MinInstances("C11.R10 append-path-follows-root", n10, 2)
		}
		// R11: the proof verifier keeps one hash per tree index. A hash supplied by the caller
		// (query hash, update hash) goes into that table only where the index was not there yet
		// or the hash already stored was compared with it — an index listed twice must not let
		// the second hash silently replace the first (a forged hash listed before the real one
		// would be "proven")
		if cpn := c.Anchor("pkg/trie/rmt.calculatePathNodes"); cpn != nil {
			cf := factsOf(cpn)
			n11 := 0
			for _, b := range blocksDeep(cpn) {
				for _, in := range b.Instrs {
					mu, ok := in.(*ssa.MapUpdate)
					if !ok {
						continue
					}
					vt := cf.Term(mu.Value)
					if !strings.HasPrefix(vt.String(), "p0[") {
						continue // computed parents are compared further down (existing check)
					}
					n11++
					mt, kt := cf.Term(mu.Map).String(), cf.Term(mu.Key).String()
					ok2 := cf.EveryPathHas(mu.Block(), func(f Fact) bool {
						if !f.IsCmp && f.B.Op == "extract" && f.B.Sym == "#1" && f.B.Args[0].Op == "lookup" && f.B.Args[0].Args[0].String() == mt && f.B.Args[0].Args[1].String() == kt {
							return !f.Truth // not there yet
						}
						if !f.IsCmp && f.Truth && f.B.Op == "call" && strings.HasSuffix(f.B.Sym, "bytes.Equal") {
							return strings.Contains(f.B.String(), vt.String())
						}
						return false
					})
					c.Require("C11.R11 one-hash-per-index", FuncKey(cpn)+": "+mt+"["+kt+"] = "+vt.String(), p.InstrPos(mu), "a caller-supplied hash enters the index table only for a new index or after being compared with the hash already there", ok2, "")
				}
			}
			c.MinInstances("C11.R11 one-hash-per-index", n11, 1)
			// R12: every entry of the table this function returns is persisted by Update as the
			// node at that index: an entry is a caller-supplied hash at its own index or the
			// branch hash of two children — a hash merely carried up to a parent index (a node
			// without a sibling) must stay in a table of its own, or Update files a node at a
			// location the tree does not have
			n12 := 0
			var retMap ssa.Value
			for _, r := range Returns(cpn) {
				if len(r.Results) > 0 {
					if _, isMk := valueRoot(r.Results[0]).(*ssa.MakeMap); isMk {
						retMap = valueRoot(r.Results[0])
					}
				}
			}
			for _, b := range blocksDeep(cpn) {
				for _, in := range b.Instrs {
					mu, ok := in.(*ssa.MapUpdate)
					if !ok || retMap == nil || valueRoot(mu.Map) != retMap {
						continue
					}
					n12++
					vt := cf.Term(mu.Value)
					ok2 := strings.HasPrefix(vt.String(), "p0[") || (vt.Op == "call" && strings.HasSuffix(vt.Sym, "rmt.branchHash")) ||
						(vt.Op == "phi" && func() bool {
							for _, a := range vt.Args {
								if !(a.Op == "call" && strings.HasSuffix(a.Sym, "rmt.branchHash")) {
									return false
								}
							}
							return len(vt.Args) > 0
						}())
					c.Require("C11.R12 returned-table-holds-tree-nodes", FuncKey(cpn)+": result["+cf.Term(mu.Key).String()+"] = "+cut(vt.String(), 80), p.InstrPos(mu), "an entry of the returned (and persisted) table is a caller-supplied leaf hash or a branch hash of two children", ok2, "")
				}
			}
			c.MinInstances("C11.R12 returned-table-holds-tree-nodes", n12, 2)
		}
		if trim := c.Anchor("pkg/trie/rmt.intToBytesWithoutLeadingZero"); trim != nil {
			checkLeadingTrimFirstMatch(c, "C11.R9 leading-trim-stops-at-first-match", trim)
		}
		// R7: predicted and real append agree on which siblings the new head absorbs
		c.MinInstances("C11.R7 fold-complements-kept-suffix", checkFoldComplementsKeptSuffix(c, "C11.R7 fold-complements-kept-suffix", "pkg/trie/rmt."), 2)
		c.Count("non-persisted mutable tree fields", extra)
		c.Require("C11.R4 derived-state-invalidated", "tree handle fields", "-", "every mutable non-persisted field is covered (none today: the handle holds only root, appendPath, size, db)", true, fmt.Sprintf("%d such fields", extra))
	}
}

func funcNames(fs []*ssa.Function) string {
	var s []string
	for _, f := range fs {
		s = append(s, FuncKey(f))
	}
	return strings.Join(s, ", ")
}

// CallsInvoke lists interface-method invocations named m in fn.
func CallsInvoke(fn *ssa.Function, m string) []ssa.CallInstruction {
	var out []ssa.CallInstruction
	for _, call := range AllCallsDeep(fn) {
		if call.Common().IsInvoke() && call.Common().Method.Name() == m {
			out = append(out, call)
		}
	}
	return out
}

// checkFoldComplementsKeptSuffix — C11.R7. Wherever a new path is built as
// append([]T{h}, P[k:]...) — one freshly folded head followed by the untouched suffix of an
// older path P — the fold that produced h must consume exactly the complementary prefix
// P[:k]: every sibling of the old path is used once, either inside the new head or kept
// behind it. Folding over all of P hashes the kept siblings into the head a second time;
// the predicted path then differs from the one the real append stores unless k == len(P).
func checkFoldComplementsKeptSuffix(c *Ctx, rule string, pkgPrefix string) int {
	p := c.P
	n := 0
	for _, fn := range p.Subjects() {
		if !strings.HasPrefix(FuncKey(fn), pkgPrefix) || len(fn.Blocks) == 0 || !IsProd(fn) {
			continue
		}
		for _, b := range blocksDeep(fn) {
			for _, in := range b.Instrs {
				call, ok := in.(*ssa.Call)
				if !ok {
					continue
				}
				bi, ok := call.Call.Value.(*ssa.Builtin)
				if !ok || bi.Name() != "append" || len(call.Call.Args) != 2 {
					continue
				}
				// head: a one-element literal
				hs, ok := call.Call.Args[0].(*ssa.Slice)
				if !ok {
					continue
				}
				al, ok := hs.X.(*ssa.Alloc)
				if !ok {
					continue
				}
				elems, ok := arrayElems(al)
				if !ok || len(elems) != 1 {
					continue
				}
				// tail: P[k:]
				tail, ok := valueRoot(call.Call.Args[1]).(*ssa.Slice)
				if !ok || tail.Low == nil || tail.High != nil {
					continue
				}
				if _, isSl := tail.X.Type().Underlying().(*types.Slice); !isSl {
					continue
				}
				// the head is the result of a loop: a φ whose back-edge value reads elements of R
				head := elems[0]
				for {
					if ci, ok := head.(*ssa.Call); ok && len(ci.Call.Args) == 1 { // bytes.Copy(h) and the like
						if _, isSl := ci.Call.Args[0].Type().Underlying().(*types.Slice); isSl && types.Identical(ci.Type(), ci.Call.Args[0].Type()) {
							head = ci.Call.Args[0]
							continue
						}
					}
					break
				}
				var ranged []ssa.Value
				// the fold may live in a function of its own: fold(start, part) — then `part` is what is folded
				if hc, isCall := head.(*ssa.Call); isCall {
					if g := hc.Common().StaticCallee(); g != nil && IsOwn(g) && len(g.Blocks) > 0 {
						for k, a := range hc.Common().Args {
							if _, isSl := a.Type().Underlying().(*types.Slice); !isSl || k >= len(g.Params) {
								continue
							}
							if elemT, ok := a.Type().Underlying().(*types.Slice).Elem().Underlying().(*types.Slice); !ok || elemT == nil {
								continue // a list of hashes, not the hash itself
							}
							readsElems := false
							for _, r := range *g.Params[k].Referrers() {
								if _, ok := r.(*ssa.IndexAddr); ok {
									readsElems = true
								}
							}
							if readsElems {
								ranged = append(ranged, a)
							}
						}
					}
					if len(ranged) > 0 {
						n++
						P, k := T(tail.X).String(), T(tail.Low).String()
						ok2 := true
						got := []string{}
						for _, r := range ranged {
							rs, isSlice := valueRoot(r).(*ssa.Slice)
							good := isSlice && rs.Low == nil && rs.High != nil && T(rs.X).String() == P && T(rs.High).String() == k
							got = append(got, T(r).String())
							if !good {
								ok2 = false
							}
						}
						c.Require(rule, FuncKey(fn)+": new path = [fold] ++ "+T(tail).String(), p.InstrPos(call), "the fold that heads the new path consumes exactly the prefix the kept suffix leaves out ("+P+"[:"+k+"])", ok2, "the fold reads "+strings.Join(got, ", "))
					}
					continue
				}
				phi, ok := head.(*ssa.Phi)
				if !ok {
					continue
				}
				seen := map[ssa.Value]bool{}
				var walk func(v ssa.Value, depth int)
				walk = func(v ssa.Value, depth int) {
					if v == nil || seen[v] || depth > 12 {
						return
					}
					seen[v] = true
					switch x := v.(type) {
					case *ssa.UnOp:
						if ia, ok := x.X.(*ssa.IndexAddr); ok {
							if _, isSl := ia.X.Type().Underlying().(*types.Slice); isSl {
								ranged = append(ranged, ia.X)
								return
							}
						}
						walk(x.X, depth+1)
					case *ssa.Call:
						for _, a := range x.Call.Args {
							walk(a, depth+1)
						}
					case *ssa.Phi:
						if x != phi {
							for _, e := range x.Edges {
								walk(e, depth+1)
							}
						}
					case *ssa.Slice:
						walk(x.X, depth+1)
					case *ssa.Extract:
						walk(x.Tuple, depth+1)
					case *ssa.Next:
						// range over a slice is lowered to an index loop; a Next here is a map/string
					}
				}
				for _, e := range phi.Edges {
					if e != phi {
						walk(e, 0)
					}
				}
				if len(ranged) == 0 {
					continue
				}
				n++
				P, k := T(tail.X).String(), T(tail.Low).String()
				ok2 := true
				got := []string{}
				for _, r := range ranged {
					rs, isSlice := valueRoot(r).(*ssa.Slice)
					good := isSlice && rs.Low == nil && rs.High != nil && T(rs.X).String() == P && T(rs.High).String() == k
					got = append(got, T(r).String())
					if !good {
						ok2 = false
					}
				}
				c.Require(rule, FuncKey(fn)+": new path = [fold] ++ "+T(tail).String(), p.InstrPos(call), "the fold that heads the new path consumes exactly the prefix the kept suffix leaves out ("+P+"[:"+k+"])", ok2, "the fold reads "+strings.Join(got, ", "))
			}
		}
	}
	return n
}

// checkLeadingTrimFirstMatch — C11.R9. The bit-string helpers turn a size into its binary
// digits by trimming the leading zero bytes of its 8-byte encoding and then taking
// bitlen(size) bits from the end. The trim must stop at the FIRST non-zero byte: an index
// that keeps being overwritten while the loop runs ends at the last non-zero byte, the
// buffer is then shorter than the bit length for every size with a non-zero byte below its top byte (257 = 0x0101), and the slice
// res[len(res)-size:] has a negative bound — CalculateRootFromAppendPath panics.
func checkLeadingTrimFirstMatch(c *Ctx, rule string, fn *ssa.Function) {
	p := c.P
	n := 0
	loops := naturalLoops(fn)
	for _, b := range fn.Blocks {
		for _, in := range b.Instrs {
			sl, ok := in.(*ssa.Slice)
			if !ok || sl.Low == nil {
				continue
			}
			n++
			// does the lower bound come from a loop-header φ that is fed, around the loop, by a value
			// depending on the loop's own counter?
			bad := ""
			seen := map[ssa.Value]bool{}
			var walk func(v ssa.Value, d int)
			walk = func(v ssa.Value, d int) {
				if v == nil || seen[v] || d > 6 {
					return
				}
				seen[v] = true
				phi, ok := v.(*ssa.Phi)
				if !ok {
					return
				}
				for _, li := range loops {
					if li.Header != phi.Block() {
						continue
					}
					for i, pred := range phi.Block().Preds {
						if !li.Blocks[pred] {
							continue // entry edge
						}
						// back edge: the carried value
						carried := phi.Edges[i]
						if dependsOnLoopCounter(carried, li, 0) {
							bad = "the trim index " + T(phi).String() + " is overwritten on every later match (carried around the loop)"
						}
					}
				}
				for _, e := range phi.Edges {
					walk(e, d+1)
				}
			}
			walk(sl.Low, 0)
			c.Require(rule, FuncKey(fn)+": "+T(sl).String(), p.InstrPos(sl), "leading zero bytes are trimmed up to the first non-zero byte (the search stops at its first match)", bad == "", bad)
		}
	}
	c.MinInstances(rule, n, 1)
}

// dependsOnLoopCounter: v is, through φs of the loop body, the loop's induction variable
// (a header φ stepped by a constant) or an expression of it.
func dependsOnLoopCounter(v ssa.Value, li *loopInfo, d int) bool {
	if v == nil || d > 6 {
		return false
	}
	switch x := v.(type) {
	case *ssa.Phi:
		if x.Block() == li.Header {
			// an induction variable: some back-edge value is x ± const
			for i, pred := range x.Block().Preds {
				if !li.Blocks[pred] {
					continue
				}
				if bo, ok := x.Edges[i].(*ssa.BinOp); ok && (bo.X == ssa.Value(x) || bo.Y == ssa.Value(x)) {
					return true
				}
			}
			return false
		}
		if !li.Blocks[x.Block()] {
			return false
		}
		for _, e := range x.Edges {
			if dependsOnLoopCounter(e, li, d+1) {
				return true
			}
		}
	case *ssa.BinOp:
		return dependsOnLoopCounter(x.X, li, d+1) || dependsOnLoopCounter(x.Y, li, d+1)
	case *ssa.Convert:
		return dependsOnLoopCounter(x.X, li, d+1)
	}
	return false
}
