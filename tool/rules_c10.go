package main

import (
	"fmt"
	"go/constant"
	"go/token"
	"go/types"
	"strings"

	"golang.org/x/tools/go/ssa"
)

func init() {
	register("C10", "Structural necessary conditions of the sparse Merkle trie's root/proof properties. History independence, agreement with LIP-0039 and proof soundness/completeness as such are equalities between hash computations over all maps and update sequences and are NOT decided; what is decided, for every path: "+
		"(D1) domain separation: leaf, branch and empty-node prefixes are pairwise different constants, a leaf hashes prefix‖key‖value and a branch prefix‖left‖right, the empty tree's root is the hash of the empty string; the subtree parser's case constants equal the constructors' prefixes; "+
		"(U1) persistence: every successful return of updateSubtree that computed a new subtree has stored it under its root (the only store-free success is the 'no keys' exit), a stored record that updateNode deletes is rewritten by the updateSubtree call that follows on every successful path, and Update moves the trie's root only to the root that call returned; "+
		"(U3) calculateSubTree turns the node list it was handed into a subtree unfolded only at height 0; "+
		"(U2) bin index: for each supported subtree height the bin index of a key ranges over exactly [0, 2^height) on every successful return (interval evaluation of the shifts and masks on one key byte); "+
		"(V1) Verify answers true only as bytes.Equal(root argument, CalculateRoot(…)); "+
		"(V2) every way round Verify's per-query loop has established len(queryKey) == keyLength, len(proofKey) == keyLength, bitmap without a leading zero byte and bitmap length <= 8·keyLength; "+
		"(V3) no proof entry is ignored: wherever Verify or CalculateRoot drops an entry because another one occupies the same place (de-duplication by key or by path), the dropped entry was compared with the kept one on that edge; "+
		"(V4) the key under which Verify de-duplicates paths is injective on bit strings of different lengths (bytes.FromBools alone pads to a byte and is not); "+
		"(P1) Prove's goroutines write only their own result slot and work on their own copy of the root subtree; "+
		"(P2) a sibling hash is appended to a proof only where it was found neither among the hashes already emitted nor among the ancestors of the queried nodes.",
		runC10)
}

func runC10(c *Ctx) {
	p := c.P
	c.Assume = append(c.Assume, "all tree arithmetic (binning, collapsing of empty/leaf pairs, bitmap construction, merging order) is value-level and not decided", "hash collisions are ignored")
	const pk = "pkg/trie/smt."
	updSub := c.Anchor(pk + "(*trie).updateSubtree")
	updNode := c.Anchor(pk + "(*trie).updateNode")
	update := c.Anchor(pk + "(*trie).Update")
	binIdx := c.Anchor(pk + "(*trie).getBinIndex")
	verify := c.Anchor(pk + "Verify")
	calcRoot := c.Anchor(pk + "CalculateRoot")
	prove := c.Anchor(pk + "(*trie).Prove")
	sibs := c.Anchor(pk + "calculateSiblingHashes")
	leaf := c.Anchor(pk + "newLeafNode")
	branch := c.Anchor(pk + "newBranchNode")
	parse := c.Anchor(pk + "newSubTree")
	if updSub == nil || updNode == nil || update == nil || binIdx == nil || verify == nil || calcRoot == nil || prove == nil || sibs == nil || leaf == nil || branch == nil || parse == nil {
		return
	}

	checkOneObjectPerSlot(c)

	// ------------------------------------------------------------------ D1
	{
		pkg := p.PkgByRel["pkg/trie/smt"]
		globalBytes := func(name string) (string, bool) {
			// value a package-level []byte variable is initialised with: the literal's elements
			if pkg == nil {
				return "", false
			}
			var initFn *ssa.Function
			if sp := p.SSAPkg["pkg/trie/smt"]; sp != nil {
				initFn = sp.Func("init")
			}
			if initFn == nil {
				return "", false
			}
			for _, b := range initFn.Blocks {
				for _, in := range b.Instrs {
					st, ok := in.(*ssa.Store)
					if !ok {
						continue
					}
					g, ok := st.Addr.(*ssa.Global)
					if !ok || g.Name() != name {
						continue
					}
					t := T(st.Val)
					if t.Op == "list" {
						var parts []string
						for _, a := range t.Args {
							parts = append(parts, a.String())
						}
						return strings.Join(parts, ","), true
					}
					return t.String(), true
				}
			}
			return "", false
		}
		lp, ok1 := globalBytes("prefixLeafHash")
		bp, ok2 := globalBytes("prefixBranchHash")
		ep, ok3 := globalBytes("prefixEmpty")
		distinct := ok1 && ok2 && ok3 && lp != bp && lp != ep && bp != ep && !strings.Contains(lp+bp+ep, ",")
		c.Require("C10.D1 domain-separation", "prefixLeafHash / prefixBranchHash / prefixEmpty", p.Pos(leaf.Pos()), "the three node kinds are hashed and stored under pairwise different one-byte prefixes", distinct, fmt.Sprintf("leaf=[%s] branch=[%s] empty=[%s]", lp, bp, ep))
		// the parser's case constants
		constOf := func(name string) string {
			if pkg == nil {
				return "?"
			}
			if o, ok := pkg.Types.Scope().Lookup(name).(*types.Const); ok {
				return o.Val().ExactString()
			}
			return "?"
		}
		c.Require("C10.D1 domain-separation", "parser constants = constructor prefixes", p.Pos(parse.Pos()), "the prefix a node is written with is the prefix the subtree parser recognises it by", constOf("prefixIntLeafHash") == lp && constOf("prefixIntBranchHash") == bp && constOf("prefixIntEmpty") == ep, fmt.Sprintf("parser leaf=%s branch=%s empty=%s", constOf("prefixIntLeafHash"), constOf("prefixIntBranchHash"), constOf("prefixIntEmpty")))
		// what is hashed
		hashed := func(fn *ssa.Function, prefix string, nparts int) (bool, string) {
			for _, s := range CallsIn(fn, "crypto.Hash") {
				t := T(ArgK(s.Call, 0))
				if t.Op == "call" && strings.HasSuffix(t.Sym, "bytes.Join") && len(t.Args) == 1 && t.Args[0].Op == "list" && len(t.Args[0].Args) == nparts {
					first := t.Args[0].Args[0].String()
					rest := true
					for i := 1; i < nparts; i++ {
						if t.Args[0].Args[i].String() != fmt.Sprintf("p%d", i-1) {
							rest = false
						}
					}
					return strings.HasSuffix(first, "smt."+prefix) && rest, t.String()
				}
				return false, t.String()
			}
			return false, "no crypto.Hash call"
		}
		okL, dL := hashed(leaf, "prefixLeafHash", 3)
		okB, dB := hashed(branch, "prefixBranchHash", 3)
		c.Require("C10.D1 domain-separation", FuncKey(leaf)+": hash input", p.Pos(leaf.Pos()), "a leaf hashes prefixLeafHash ‖ key ‖ value", okL, dL)
		c.Require("C10.D1 domain-separation", FuncKey(branch)+": hash input", p.Pos(branch.Pos()), "a branch hashes prefixBranchHash ‖ left ‖ right", okB, dB)
		eh, okE := globalBytes("emptyHash")
		c.Require("C10.D1 domain-separation", "emptyHash", p.Pos(leaf.Pos()), "the empty tree's root is the hash of the empty byte string", okE && (eh == "crypto.Hash([])" || eh == "crypto.Hash(make:slice(0, 0))"), eh)
	}

	// ------------------------------------------------------------------ U1
	{
		uf := factsOf(updSub)
		isSet := func(in ssa.Instruction) bool {
			cl, ok := in.(ssa.CallInstruction)
			return ok && cl.Common().IsInvoke() && cl.Common().Method.Name() == "Set"
		}
		n := 0
		for _, r := range Returns(updSub) {
			rf := uf
			if r.Parent() != updSub {
				rf = factsOf(r.Parent())
			}
			if k := classifyReturn(rf, r); k == RetErr {
				continue
			}
			n++
			// every path from the entry to this return executes the store, or the return is the no-keys exit
			noKeys := rf.EveryPathHas(r.Block(), func(f Fact) bool {
				return f.IsCmp && f.Entails(CmpSpec{A: LenOf(IsParam(2)), NoB: true, Rel: LE, D: 0})
			})
			stored := rf.EveryPathHasOr(r.Block(), func(Fact) bool { return false }, isSet) || blockHas(r.Block(), isSet, r)
			c.Require("C10.U1 subtree-persisted", FuncKey(updSub)+": successful return", p.InstrPos(r), "a subtree handed to the caller was stored under its root first (only the no-keys exit returns the subtree it was given)", noKeys || stored, fmt.Sprintf("no-keys exit=%v, store on every path=%v", noKeys, stored))
		}
		c.MinInstances("C10.U1 subtree-persisted", n, 2)
		// what is stored: key = the new subtree's root, value = its encoding
		for _, call := range CallsInvoke(updSub, "Set") {
			k, v := T(ArgK(call, 0)), T(ArgK(call, 1))
			okKV := k.Op == "field" && k.Sym == "root" && v.Op == "call" && strings.HasSuffix(v.Sym, "smt.subTree).encode") && len(v.Args) == 1 && len(k.Args) == 1 && v.Args[0].String() == k.Args[0].String()
			c.Require("C10.U1 subtree-persisted", FuncKey(updSub)+": Set(subtree.root, subtree.encode())", p.InstrPos(call), "the record is keyed by the root of the very subtree it encodes", okKV, k.String()+" ↦ "+v.String())
		}
		// a deleted record is rewritten
		for _, del := range CallsInvoke(updNode, "Del") {
			path := reachesReturnAvoiding(del, func(in ssa.Instruction) bool {
				cl, ok := in.(ssa.CallInstruction)
				if !ok {
					return false
				}
				if CalleeName(cl.Common()) == "(*trie/smt.trie).updateSubtree" {
					return true
				}
				// updateNode reports through a channel: a send of an error result ends a failing path
				return false
			}, nil)
			// failing paths send an error result and return: accept a path whose blocks send newErrUpdateNodeResult
			if path != nil && pathSendsError(path) {
				path = nil
			}
			c.Require("C10.U1 deleted-record-rewritten", FuncKey(updNode)+": Del "+T(ArgK(del, 0)).String(), p.InstrPos(del), "after a stored subtree record was deleted, every successful path goes through updateSubtree (which stores the replacement)", path == nil, pathStr(path))
		}
		// Update moves the root only to what updateSubtree returned, on success
		ff := factsOf(update)
		for _, st := range storesToField(update, "trie/smt.trie", "root") {
			t := ff.Term(st.Val)
			okVal := t.Op == "field" && t.Sym == "root" && len(t.Args) == 1 && strings.Contains(t.Args[0].String(), "smt.trie).updateSubtree(") && strings.HasSuffix(t.Args[0].String(), "#0")
			okErr, _ := ff.NilErrAt(st.Block(), IsResult("(*trie/smt.trie).updateSubtree", 1))
			c.Require("C10.U1 root-follows-update", FuncKey(update)+": trie.root =", p.InstrPos(st), "the trie's root becomes the root updateSubtree returned, and only when it returned no error", okVal && okErr, t.String())
		}
	}

	// ------------------------------------------------------------------ U3 collapse at every level
	// calculateSubTree folds (empty, empty) and (empty, leaf) pairs level by level; the node list
	// it was handed becomes a subtree unfolded only at height 0. A shortcut that stores the
	// input list as it is at a higher level keeps an empty node next to a single leaf: the root
	// then depends on whether a key was ever inserted and deleted there (history).
	if cst := c.Anchor(pk + "calculateSubTree"); cst != nil {
		cf := factsOf(cst)
		n := 0
		for _, s := range CallsIn(cst, "trie/smt.newSubtreeFromData") {
			nodes := cf.Term(ArgK(s.Call, 1))
			if nodes.String() != "p0" {
				continue // built from the folded list
			}
			n++
			gf := cf
			if s.Fn != cst {
				gf = factsOf(s.Fn)
			}
			ok := gf.EveryPathHas(s.Call.Block(), func(f Fact) bool {
				return f.IsCmp && f.Entails(CmpSpec{A: IsParam(2), NoB: true, Rel: EQ, D: 0})
			})
			c.Require("C10.U3 collapse-at-every-level", FuncKey(cst)+": subtree from the unfolded input list", p.InstrPos(s.Call), "the node list handed in becomes a subtree as it is only at height 0 (every higher level is folded first)", ok, "")
		}
		c.MinInstances("C10.U3 collapse-at-every-level", n, 1)
	}

	// ------------------------------------------------------------------ U2 bin index
	{
		bf := factsOf(binIdx)
		n := 0
		for _, r := range Returns(binIdx) {
			if classifyReturn(bf, r) == RetErr || len(r.Results) == 0 {
				continue
			}
			// which subtree height does this return serve?
			var h int64 = -1
			for _, f := range bf.FactsAt(r.Block()) {
				if f.IsCmp && f.Op == token.EQL {
					for _, pair := range [][2]*Term{{f.L, f.R}, {f.R, f.L}} {
						if pair[0].Op == "field" && pair[0].Sym == "subtreeHeight" && pair[1].Op == "const" {
							fmt.Sscan(pair[1].Sym, &h)
						}
					}
				}
			}
			if h < 0 {
				continue
			}
			n++
			lo, hi, okI := intervalOf(r.Results[0], 0)
			want := int64(1)<<uint(h) - 1
			c.Require("C10.U2 bin-index-spans-the-subtree", fmt.Sprintf("%s: subtreeHeight %d: return %s", FuncKey(binIdx), h, T(r.Results[0]).String()), p.InstrPos(r), fmt.Sprintf("the bin index of a key ranges over [0, %d]", want), okI && lo == 0 && hi == want, fmt.Sprintf("range [%d, %d] (evaluated=%v)", lo, hi, okI))
		}
		c.MinInstances("C10.U2 bin-index-spans-the-subtree", n, 2)
	}

	// ------------------------------------------------------------------ V1, V2
	vf := factsOf(verify)
	{
		n := 0
		for _, r := range Returns(verify) {
			if len(r.Results) == 0 {
				continue
			}
			if k, isC := r.Results[0].(*ssa.Const); isC && k.Value != nil && k.Value.Kind() == constant.Bool && !constant.BoolVal(k.Value) {
				continue // "false"
			}
			n++
			t := vf.Term(r.Results[0])
			ok := t.Op == "call" && strings.HasSuffix(t.Sym, "bytes.Equal") && len(t.Args) == 2 &&
				((t.Args[0].String() == "p2" && strings.Contains(t.Args[1].String(), "smt.CalculateRoot(")) || (t.Args[1].String() == "p2" && strings.Contains(t.Args[0].String(), "smt.CalculateRoot(")))
			c.Require("C10.V1 accept-is-root-equality", FuncKey(verify)+": return "+cut(t.String(), 90), p.InstrPos(r), "the only non-false answer is bytes.Equal(root, CalculateRoot(proof))", ok, "")
		}
		c.MinInstances("C10.V1 accept-is-root-equality", n, 1)

		loops := naturalLoops(verify)
		var first *loopInfo
		for _, li := range loops {
			// the per-query loop: the one that compares len(queryKeys[i]) with keyLength
			for b := range li.Blocks {
				for i, e := range vf.Edges {
					if e.From == b && strings.Contains(vf.Facts[i].String(), "builtin:len(p0[") {
						first = li
					}
				}
			}
		}
		if first == nil {
			c.Require("C10.V2 per-query-guards", FuncKey(verify)+": per-query loop", p.Pos(verify.Pos()), "the loop that checks each query key exists", false, "")
		} else {
			type g struct {
				name string
				ok   func(Fact) bool
			}
			lenIs := func(what string) func(Fact) bool {
				return func(f Fact) bool {
					if !f.IsCmp || f.Op != token.EQL {
						return false
					}
					s := f.String()
					return strings.Contains(s, what) && (strings.HasSuffix(s, " == p3") || strings.HasPrefix(s, "p3 == "))
				}
			}
			guards := []g{
				{"len(queryKey) == keyLength", lenIs("builtin:len(p0[")},
				{"len(proof key) == keyLength", lenIs("].Key)")},
				{"bitmap has no leading zero byte", func(f Fact) bool {
					s := f.String()
					return f.IsCmp && ((f.Op == token.NEQ && strings.Contains(s, ".Bitmap[0]") && (strings.HasSuffix(s, " != 0") || strings.HasPrefix(s, "0 != "))) ||
						// an empty bitmap has no leading byte at all
						f.Entails(CmpSpec{A: Matcher{"len(bitmap)", func(t *Term) bool {
							return t.Op == "call" && t.Sym == "builtin:len" && strings.HasSuffix(t.Args[0].String(), ".Bitmap")
						}}, NoB: true, Rel: LE, D: 0}))
				}},
				{"bitmap length <= 8·keyLength", func(f Fact) bool {
					s := f.String()
					return f.IsCmp && strings.Contains(s, ".Bitmap") && strings.Contains(s, "(p3 * 8)") && (f.Op == token.LEQ || f.Op == token.GEQ || f.Op == token.LSS || f.Op == token.GTR) && !strings.Contains(s, "CommonPrefix")
				}},
			}
			for _, gd := range guards {
				all := true
				for _, l := range first.Latch {
					if !vf.EveryPathHas(l, gd.ok) {
						all = false
					}
				}
				c.Require("C10.V2 per-query-guards", FuncKey(verify)+": "+gd.name, p.Pos(verify.Pos()), "every way round the per-query loop has passed this check (a failing query makes Verify answer false)", all, fmt.Sprintf("%d back edges", len(first.Latch)))
			}
		}
	}

	// ------------------------------------------------------------------ V3 / V4
	{
		// V3 in Verify: a comma-ok lookup in a de-duplication map; on the "already there" edge the
		// entry must be compared before the loop goes on
		n := 0
		isCompare := func(in ssa.Instruction) bool {
			cl, ok := in.(ssa.CallInstruction)
			if !ok {
				return false
			}
			name := CalleeName(cl.Common())
			return strings.HasSuffix(name, "bytes.Equal") || strings.HasPrefix(name, "collection.Equal")
		}
		for _, fn := range []*ssa.Function{verify} {
			ff := factsOf(fn)
			loops := naturalLoops(fn)
			for i, e := range ff.Edges {
				f := ff.Facts[i]
				if f.IsCmp || !f.Truth || f.B.Op != "extract" || f.B.Sym != "#1" || f.B.Args[0].Op != "lookup" {
					continue
				}
				if !strings.HasPrefix(f.B.Args[0].Args[0].String(), "make:map") {
					continue
				}
				n++
				// from this edge, can the enclosing loop's header be reached again without a comparison?
				var hdr *ssa.BasicBlock
				for _, li := range loops {
					if li.Blocks[e.From] {
						hdr = li.Header
					}
				}
				ok := hdr != nil && !reachesBlockAvoiding(e.To, hdr, isCompare)
				c.Require("C10.V3 dropped-entry-compared", FuncKey(fn)+": duplicate of "+cut(f.B.Args[0].Args[1].String(), 80), p.InstrPos(e.If), "a proof entry that is skipped because another one has the same key/path is first compared with the one kept (otherwise any claim can ride along unverified)", ok, "")
			}
		}
		c.MinInstances("C10.V3 dropped-entry-compared", n, 2)
		// V3 in CalculateRoot: queries re-inserted after folding go through a routine that drops an
		// entry whose path is already there; the verifier compares the two hashes first: a loop
		// that runs before the insertion rejects (error return) when an entry's hash differs
		{
			cf := factsOf(calcRoot)
			loops := naturalLoops(calcRoot)
			for _, s := range CallsIn(calcRoot, "trie/smt.insertAndFilterQueries") {
				ok := false
				if s.Fn == calcRoot {
					for _, li := range loops {
						if li.Header == s.Call.Block() || !li.Header.Dominates(s.Call.Block()) || li.Blocks[s.Call.Block()] {
							continue
						}
						for i, e := range cf.Edges {
							f := cf.Facts[i]
							if !li.Blocks[e.From] || f.IsCmp || f.Truth || f.B.Op != "call" || !strings.HasSuffix(f.B.Sym, "bytes.Equal") {
								continue
							}
							if !strings.Contains(f.B.String(), ".hash") {
								continue
							}
							// the disagreeing edge ends the calculation with an error
							for _, in := range e.To.Instrs {
								if r, isR := in.(*ssa.Return); isR && classifyReturn(cf, r) == RetErr {
									ok = true
								}
							}
						}
					}
				}
				// or: the comparison lives in a helper called before the insertion
				if !ok {
					gf := factsOf(s.Fn)
					ok = gf.EveryPathHasOr(s.Call.Block(), func(Fact) bool { return false }, func(in ssa.Instruction) bool {
						cl, isCall := in.(ssa.CallInstruction)
						if !isCall {
							return false
						}
						g := cl.Common().StaticCallee()
						return g != nil && isNewHelper(g) && mentionsHashCompare(g)
					})
				}
				c.Require("C10.V3 dropped-entry-compared", FuncKey(calcRoot)+" ⇒ insertAndFilterQueries", p.InstrPos(s.Call), "before a folded query is merged into the list (where an entry on an occupied path is dropped), its hash was compared with the hashes of the entries it may coincide with, and a disagreement ends the calculation", ok, "")
			}
		}
		// V4 the de-duplication key
		nk := 0
		for _, b := range blocksDeep(verify) {
			for _, in := range b.Instrs {
				mu, ok := in.(*ssa.MapUpdate)
				if !ok {
					continue
				}
				kt := T(mu.Key)
				if !kt.Any(func(t *Term) bool { return t.Op == "call" && strings.HasSuffix(t.Sym, "smt.newQueryProof") }) {
					continue
				}
				nk++
				// what the key is computed from: the term itself and the bodies of the own functions it calls
				desc := kt.String()
				kt.Walk(func(t *Term) bool {
					if t.Op == "call" {
						for _, fn := range p.Subjects() {
							if FuncName(fn) == t.Sym && strings.HasPrefix(FuncKey(fn), "pkg/trie/smt.") {
								for _, call := range AllCallsDeep(fn) {
									desc += " " + CalleeName(call.Common())
								}
							}
						}
					}
					return true
				})
				lossy := strings.Contains(desc, "bytes.FromBools") && !strings.Contains(desc, "builtin:len") && !strings.Contains(desc, ".height")
				c.Require("C10.V4 path-key-injective", FuncKey(verify)+": key "+cut(kt.String(), 100), p.InstrPos(mu), "paths of different lengths get different keys (FromBools pads to a whole byte: 1 and 001 coincide)", !lossy, "")
			}
		}
		c.MinInstances("C10.V4 path-key-injective", nk, 1)
	}

	// ------------------------------------------------------------------ P1, P2
	for _, fn := range p.Subjects() {
		if !strings.HasPrefix(FuncKey(fn), pk) || len(fn.Blocks) == 0 || !IsProd(fn) {
			continue
		}
		for _, sp := range spawnsIn(fn) {
			ws := sharedWrites(sp)
			bad := ""
			for _, w := range ws {
				if w.Locked || w.Kind == "element" {
					continue
				}
				touch, _ := parentTouchesAfter(sp, w.Binding)
				if sp.InLoop || touch {
					bad = w.Kind + " of captured " + w.Var
				}
			}
			c.Require("C10.P1 no-racy-captured-write", FuncKey(sp.Parent)+": "+sp.Kind+" body", p.InstrPos(sp.Instr), "concurrently running bodies write only their own slot of a shared slice", bad == "", bad)
		}
	}
	{
		// each goroutine of Prove starts from its own clone of the root subtree
		n := 0
		for _, sp := range spawnsIn(prove) {
			n++
			okClone := len(CallsIn(sp.Closure, "(*trie/smt.subTree).clone")) >= 1
			c.Require("C10.P1 own-copy-per-query", FuncKey(prove)+": "+sp.Kind+" body", p.InstrPos(sp.Instr), "a query proof is generated on a clone of the root subtree (generateQueryProof writes node indexes into the subtree it walks)", okClone, "")
		}
		c.MinInstances("C10.P1 own-copy-per-query", n, 1)
		sf := factsOf(sibs)
		m := 0
		for _, b := range blocksDeep(sibs) {
			for _, in := range b.Instrs {
				call, ok := in.(*ssa.Call)
				if !ok {
					continue
				}
				bi, ok := call.Call.Value.(*ssa.Builtin)
				if !ok || bi.Name() != "append" || len(call.Call.Args) != 2 {
					continue
				}
				// appends to the result list (a [][]byte that is returned)
				if !strings.Contains(call.Type().String(), "[][]byte") {
					continue
				}
				m++
				notIn := func(which func(string) bool) bool {
					return sf.EveryPathHas(call.Block(), func(f Fact) bool {
						s := f.String()
						if !f.IsCmp || !strings.Contains(s, "bytes.FindIndex") {
							return false
						}
						neg := strings.HasSuffix(s, " == -1") || strings.HasPrefix(s, "-1 == ") || strings.HasSuffix(s, " < 0") || strings.HasPrefix(s, "0 > ")
						return neg && which(s)
					})
				}
				emitted := notIn(func(s string) bool { return !strings.Contains(s, "FindIndex[[]byte](p1,") })
				ancestor := notIn(func(s string) bool { return strings.Contains(s, "FindIndex[[]byte](p1,") })
				if !emitted && !ancestor {
					// the same test against one set: a local map that was seeded with every ancestor hash
					// and receives every hash that is emitted; the append happens where the hash is not in it
					var set ssa.Value
					var keyStr string
					okSet := sf.EveryPathHas(call.Block(), func(f Fact) bool {
						if f.IsCmp || f.Truth || f.B.Op != "extract" || f.B.Sym != "#1" || f.B.Args[0].Op != "lookup" {
							return false
						}
						lk := f.B.Args[0]
						if lk.Args[0].V == nil {
							return false
						}
						if _, isMk := lk.Args[0].V.(*ssa.MakeMap); !isMk {
							return false
						}
						set, keyStr = lk.Args[0].V, lk.Args[1].String()
						return true
					})
					if okSet && set != nil {
						seeded, recorded := false, false
						for _, r := range *set.Referrers() {
							mu, ok := r.(*ssa.MapUpdate)
							if !ok {
								continue
							}
							ks := sf.Term(mu.Key).String()
							if strings.Contains(ks, "p1[") {
								seeded = true
							}
							if ks == keyStr {
								recorded = true
							}
						}
						emitted, ancestor = recorded, seeded
					}
				}
				c.Require("C10.P2 sibling-hash-once", FuncKey(sibs)+": append to the sibling list", p.InstrPos(call), "a hash is emitted only if it is neither in the list already nor an ancestor of a queried node (Verify consumes the list positionally)", emitted && ancestor, fmt.Sprintf("not-yet-emitted test=%v, not-an-ancestor test=%v", emitted, ancestor))
			}
		}
		c.MinInstances("C10.P2 sibling-hash-once", m, 1)
	}
}

func cut(s string, n int) string {
	if len(s) > n {
		return s[:n] + "…"
	}
	return s
}

// blockHas: some instruction of b before `before` satisfies ok.
func blockHas(b *ssa.BasicBlock, ok func(ssa.Instruction) bool, before ssa.Instruction) bool {
	for _, in := range b.Instrs {
		if in == before {
			return false
		}
		if ok(in) {
			return true
		}
	}
	return false
}

// reachesBlockAvoiding: is there a path from the start of `from` to `to` on which no
// instruction satisfies stop?
func reachesBlockAvoiding(from, to *ssa.BasicBlock, stop func(ssa.Instruction) bool) bool {
	seen := map[*ssa.BasicBlock]bool{}
	var rec func(b *ssa.BasicBlock) bool
	rec = func(b *ssa.BasicBlock) bool {
		if b == to {
			return true
		}
		if seen[b] {
			return false
		}
		seen[b] = true
		for _, in := range b.Instrs {
			if stop(in) {
				return false
			}
		}
		for _, s := range b.Succs {
			if rec(s) {
				return true
			}
		}
		return false
	}
	return rec(from)
}

// pathSendsError: the path ends in a block that sends an error result (updateNode reports
// through its result channel and returns).
func pathSendsError(path []*ssa.BasicBlock) bool {
	for _, b := range path {
		for _, in := range b.Instrs {
			if sd, ok := in.(*ssa.Send); ok {
				if strings.Contains(T(sd.X).String(), "newErrUpdateNodeResult") {
					return true
				}
			}
		}
	}
	return false
}

func mentionsHashCompare(g *ssa.Function) bool {
	for _, b := range g.Blocks {
		for _, in := range b.Instrs {
			if cl, ok := in.(ssa.CallInstruction); ok && strings.HasSuffix(CalleeName(cl.Common()), "bytes.Equal") {
				for _, a := range cl.Common().Args {
					if strings.Contains(T(a).String(), ".hash") {
						return true
					}
				}
			}
		}
	}
	return false
}

// intervalOf evaluates the range of a small integer expression built from one byte of input:
// conversions from narrower unsigned types, shifts and masks by constants, + and - of constants.
func intervalOf(v ssa.Value, depth int) (lo, hi int64, ok bool) {
	if depth > 8 {
		return 0, 0, false
	}
	switch x := v.(type) {
	case *ssa.Const:
		if x.Value != nil && x.Value.Kind() == constant.Int {
			n, exact := constant.Int64Val(x.Value)
			return n, n, exact
		}
	case *ssa.Convert:
		if l, h, ok := intervalOf(x.X, depth+1); ok {
			return l, h, true
		}
		return typeRange(x.X.Type())
	case *ssa.ChangeType:
		return intervalOf(x.X, depth+1)
	case *ssa.BinOp:
		l, h, ok := intervalOf(x.X, depth+1)
		if !ok {
			l, h, ok = typeRange(x.X.Type())
		}
		k, isC := x.Y.(*ssa.Const)
		if !ok || !isC || k.Value == nil || k.Value.Kind() != constant.Int {
			// a constant shift count may be converted first
			if cv, isCv := x.Y.(*ssa.Convert); isCv {
				k, isC = cv.X.(*ssa.Const)
			}
			if !ok || !isC || k == nil || k.Value == nil {
				return 0, 0, false
			}
		}
		n, _ := constant.Int64Val(k.Value)
		switch x.Op {
		case token.SHR:
			if l < 0 || n < 0 || n > 62 {
				return 0, 0, false
			}
			return l >> uint(n), h >> uint(n), true
		case token.AND:
			if l < 0 || n < 0 {
				return 0, 0, false
			}
			if h < n {
				return 0, h, true
			}
			return 0, n, true
		case token.REM:
			if l < 0 || n <= 0 {
				return 0, 0, false
			}
			if h < n-1 {
				return 0, h, true
			}
			return 0, n - 1, true
		case token.ADD:
			return l + n, h + n, true
		case token.SUB:
			return l - n, h - n, true
		}
	case *ssa.UnOp, *ssa.Index, *ssa.IndexAddr, *ssa.Lookup, *ssa.Parameter:
		return typeRange(v.Type())
	}
	return typeRange(v.Type())
}

func typeRange(t types.Type) (int64, int64, bool) {
	if b, ok := t.Underlying().(*types.Basic); ok {
		switch b.Kind() {
		case types.Uint8:
			return 0, 255, true
		case types.Uint16:
			return 0, 65535, true
		case types.Bool:
			return 0, 1, true
		}
	}
	return 0, 0, false
}


// checkOneObjectPerSlot — C10.P3. The nodes of a decoded subtree are mutable records: proof
// generation writes each node's position (node.index) into it and later finds the queried slot by
// that position. Two slots of one subtree that are the same object therefore have one position —
// the proof is computed for another slot than the queried one (an absence proof the trie's own
// root does not verify). Structural condition: inside pkg/trie/smt, a *node stored into a slice
// element (append or s[i] = …) in a loop is a value made in that iteration (a constructor call,
// an allocation, a load from another collection), never a value defined outside the loop.
func checkOneObjectPerSlot(c *Ctx) {
	p := c.P
	rule := "C10.P3 one-object-per-slot"
	n := 0
	for _, fn := range p.Subjects() {
		if !IsProd(fn) || len(fn.Blocks) == 0 || !strings.HasPrefix(FuncKey(fn), "pkg/trie/smt.") {
			continue
		}
		for _, fnn := range funcAndHelpers(fn) {
			loops := naturalLoops(fnn)
			if len(loops) == 0 {
				continue
			}
			for _, b := range fnn.Blocks {
				var in []*loopInfo
				for _, l := range loops {
					if l.Blocks[b] {
						in = append(in, l)
					}
				}
				if len(in) == 0 {
					continue
				}
				for _, ins := range b.Instrs {
					st, ok := ins.(*ssa.Store)
					if !ok {
						continue
					}
					if _, isIdx := st.Addr.(*ssa.IndexAddr); !isIdx {
						continue
					}
					if o, s := ownerOfFieldBase(st.Val.Type()); s == nil || o != "trie/smt.node" {
						continue
					}
					if _, isPtr := st.Val.Type().Underlying().(*types.Pointer); !isPtr {
						continue
					}
					n++
					fresh := false
					why := ""
					switch v := st.Val.(type) {
					case ssa.Instruction:
						vb := v.Block()
						fresh = vb != nil
						for _, l := range in {
							if !l.Blocks[vb] {
								fresh = false
								why = "the stored node " + T(st.Val).String() + " is made once, before the loop at " + p.Pos(l.Header.Instrs[0].Pos()) + ": every slot filled by the loop is the same object"
							}
						}
					default:
						why = "the stored node " + T(st.Val).String() + " is not made in the loop"
					}
					c.Require(rule, FuncKey(fn)+": node stored into a slot", p.InstrPos(st), "each slot filled in a loop gets a node object of its own (made in that iteration)", fresh, why)
				}
			}
		}
	}
	c.MinInstances(rule, n, 3)
}
