package main

import (
	"fmt"
	"strings"

	"golang.org/x/tools/go/ssa"
)

func init() {
	register("C07", "Order-domain abstract interpretation of the comparison-only kernels (exhaustive over the abstract domain, hence for all uint32 inputs) plus ordering rules: "+
		"(K1) AreDistinctHeadersContradicting is proved comparison-only on (height, maxHeightGenerated, maxHeightPrevoted) of both headers and its table over every weak ordering equals: same generator ∧ neither header is a legitimate successor of the other; it is symmetric and false for different generators; "+
		"(K2) forkchoice.IsDifferentChain, API.HeaderHasPriority (version≠0) and Executer.Synced all equal the strict lexicographic order on (maxHeightPrevoted, height), with the stated version-0 fallbacks; "+
		"(K3) the fork-choice field predicates (identical / valid successor / duplicate / double forging) equal their LIP-0014 field-equality tables; "+
		"(O1) process() consults the predicates in the order identical → valid → double-forging → tie-break → different-chain, each on the false edge of the previous; AreHeadersContradicting short-circuits on equal IDs; "+
		"(O2) the contradiction scan compares with the generator's most recent header: scan direction and insertion end of the vote window agree.",
		runC07)
}

func objArgs(n int) []pval {
	var out []pval
	for i := 0; i < n; i++ {
		out = append(out, pval{AVal{K: 'o'}, fmt.Sprintf("p%d", i)})
	}
	return out
}

func runKernel(fn *ssa.Function, args []pval, special func(v ssa.Value, eval func(ssa.Value) AVal) (AVal, bool)) func(e *Env) (bool, string) {
	return func(e *Env) (bool, string) {
		r := &pathRun{env: e, special: special}
		res := r.run(fn, args)
		if r.err != "" {
			return false, r.err
		}
		if len(res) == 0 || res[0].K != 'b' {
			return false, "kernel did not produce a boolean"
		}
		return res[0].B, ""
	}
}

func runC07(c *Ctx) {
	p := c.P
	c.Assume = append(c.Assume, "uint32 wrap-around is outside the abstract domain (heights near 2^32 are not modelled)",
		"history-level clauses (a protocol-following generator is never flagged; a contradicting one inside the window always is) are not decided")
	contra := c.Anchor("pkg/consensus/contradiction.AreDistinctHeadersContradicting")
	diff := c.Anchor("pkg/consensus/forkchoice.IsDifferentChain")
	prio := c.Anchor("pkg/consensus/liskbft.(*API).HeaderHasPriority")
	synced := c.Anchor("pkg/consensus.(*Executer).Synced")
	process := c.Anchor("pkg/consensus.(*Executer).process")
	if contra == nil || diff == nil || prio == nil || synced == nil || process == nil {
		return
	}

	checkSlotArithmetic(c)

	report := func(rule, key string, fn *ssa.Function, evals int, atoms []string, dis, err string) {
		if err != "" {
			c.Undecided(rule, key, err)
			return
		}
		c.Count("abstract inputs evaluated: "+key, evals)
		c.Require(rule, key, p.Pos(fn.Pos()), fmt.Sprintf("kernel table equals the specification on all %d abstract inputs over atoms %v", evals, atoms), dis == "", dis)
	}

	// ---- K1
	{
		isAtom := func(v ssa.Value) bool {
			cl, ok := v.(*ssa.Call)
			return ok && cl.Common().IsInvoke() && classify(cl.Type()) == 'i'
		}
		ok, off, why := comparisonOnly(contra, isAtom)
		c.Require("C07.K1 comparison-only", FuncKey(contra), p.Pos(contra.Pos()), "every use of a header integer is a relational comparison (order-isomorphism invariance)", ok, why)
		if ok {
			k := runKernel(contra, objArgs(2), nil)
			succ := func(e *Env, a, b string) bool {
				aH, aG, aP := e.I(a+".Height()"), e.I(a+".MaxHeightGenerated()"), e.I(a+".MaxHeightPrevoted()")
				bH, bG, bP := e.I(b+".Height()"), e.I(b+".MaxHeightGenerated()"), e.I(b+".MaxHeightPrevoted()")
				_ = aG
				return aH <= bG && aG <= bG && aP <= bP && (aP < bP || aH < bH)
			}
			spec := func(e *Env) bool {
				same := e.Y("p0.GeneratorAddress()") == e.Y("p1.GeneratorAddress()")
				return same && !succ(e, "p0", "p1") && !succ(e, "p1", "p0")
			}
			ev, atoms, dis, err := exhaust(k, spec, off, nil)
			report("C07.K1 contradiction-table", FuncKey(contra)+" = same generator ∧ ¬succ(a,b) ∧ ¬succ(b,a)", contra, ev, atoms, dis, err)
			// symmetry: kernel(a,b) == kernel(b,a)
			k2 := runKernel(contra, []pval{{AVal{K: 'o'}, "p1"}, {AVal{K: 'o'}, "p0"}}, nil)
			ev, atoms, dis, err = exhaust(k, func(e *Env) bool { b, _ := k2(e); return b }, off, nil)
			report("C07.K1 contradiction-symmetric", FuncKey(contra)+"(a,b) = (b,a)", contra, ev, atoms, dis, err)
			// different generators never contradict
			ev, atoms, dis, err = exhaust(k, func(e *Env) bool { return false }, off, func(e *Env) bool { return e.Y("p0.GeneratorAddress()") != e.Y("p1.GeneratorAddress()") })
			report("C07.K1 different-generators-never", FuncKey(contra)+" with different generators", contra, ev, atoms, dis, err)
		}
	}

	// ---- K2
	lex := func(p1, h1, p2, h2 int64) bool { return p1 < p2 || (p1 == p2 && h1 < h2) }
	{
		isAtom := func(v ssa.Value) bool { _, ok := v.(*ssa.Parameter); return ok }
		ok, off, why := comparisonOnly(diff, isAtom)
		c.Require("C07.K2 comparison-only", FuncKey(diff), p.Pos(diff.Pos()), "parameters are only compared", ok, why)
		args := []pval{{AVal{K: 'i'}, ""}, {AVal{K: 'i'}, ""}, {AVal{K: 'i'}, ""}, {AVal{K: 'i'}, ""}}
		k := func(e *Env) (bool, string) {
			a := append([]pval{}, args...)
			for i, n := range []string{"lastP", "P", "lastH", "H"} {
				a[i].AVal = AVal{K: 'i', N: e.I(n)}
			}
			r := &pathRun{env: e}
			res := r.run(diff, a)
			if r.err != "" || len(res) != 1 {
				return false, "cannot interpret: " + r.err
			}
			return res[0].B, ""
		}
		ev, atoms, dis, err := exhaust(k, func(e *Env) bool { return lex(e.I("lastP"), e.I("lastH"), e.I("P"), e.I("H")) }, off, nil)
		report("C07.K2 lexicographic-priority", FuncKey(diff)+" = (lastP,lastH) <lex (P,H)", diff, ev, atoms, dis, err)
	}
	{
		// HeaderHasPriority(diffStore, header, height, maxHeightPrevoted, maxHeightGenerated)
		k := func(e *Env) (bool, string) {
			args := []pval{{AVal{K: 'o'}, "api"}, {AVal{K: 'o'}, "store"}, {AVal{K: 'o'}, "hdr"},
				{AVal{K: 'i', N: e.I("height")}, ""}, {AVal{K: 'i', N: e.I("P")}, ""}, {AVal{K: 'i', N: e.I("G")}, ""}}
			r := &pathRun{env: e, special: func(v ssa.Value, eval func(ssa.Value) AVal) (AVal, bool) {
				// header.Version() == 0 is a boolean atom
				if b, ok := v.(*ssa.BinOp); ok {
					if cl, ok := b.X.(*ssa.Call); ok && cl.Common().IsInvoke() && cl.Common().Method.Name() == "Version" {
						if cst, ok := b.Y.(*ssa.Const); ok && cst.Int64() == 0 && b.Op.String() == "==" {
							return AVal{K: 'b', B: e.B("version0")}, true
						}
					}
				}
				return AVal{}, false
			}}
			res := r.run(prio, args)
			if r.err != "" || len(res) < 1 || res[0].K != 'b' {
				return false, "cannot interpret: " + r.err
			}
			return res[0].B, ""
		}
		spec := func(e *Env) bool {
			hH, hP := e.I("hdr.Height()"), e.I("hdr.MaxHeightPrevoted()")
			if e.B("version0") {
				return e.I("height") <= hH && e.I("P") <= hH
			}
			return lex(e.I("P"), e.I("height"), hP, hH)
		}
		ev, atoms, dis, err := exhaust(k, spec, 0, nil)
		report("C07.K2 lexicographic-priority", FuncKey(prio)+" = (P,height) <lex (tip.P,tip.H) [version≠0]", prio, ev, atoms, dis, err)
	}
	{
		// Synced(height, maxHeightPrevoted, maxHeightPreviouslyForged)
		k := func(e *Env) (bool, string) {
			args := []pval{{AVal{K: 'o'}, "c"}, {AVal{K: 'i', N: e.I("height")}, ""}, {AVal{K: 'i', N: e.I("P")}, ""}, {AVal{K: 'i', N: e.I("G")}, ""}}
			r := &pathRun{env: e, special: func(v ssa.Value, eval func(ssa.Value) AVal) (AVal, bool) {
				t := T(v)
				switch {
				case t.Op == "binop" && t.Sym == "==" && strings.HasSuffix(t.Args[0].String(), ".Version") && t.Args[1].String() == "0":
					return AVal{K: 'b', B: e.B("version0")}, true
				case t.Op == "field" && t.Owner == "blockchain.BlockHeader" && t.Sym == "Height" && t.Args[0].Any(IsCall("(*blockchain.Chain).LastBlock").F):
					return AVal{K: 'i', N: e.I("tip.Height")}, true
				case IsResult("(*consensus/liskbft.API).GetBFTHeights", 0).Match(t):
					return AVal{K: 'i', N: e.I("tip.P")}, true
				case IsResult("(*consensus/liskbft.API).GetBFTHeights", 3).Match(t):
					return AVal{K: 'o', N: -1}, true
				case t.Op == "binop" && (t.Sym == "!=" || t.Sym == "==") && t.Args[1].String() == "nil":
					return AVal{K: 'b', B: t.Sym == "=="}, true // the error-free path
				}
				return AVal{}, false
			}}
			res := r.run(synced, args)
			if r.err != "" || len(res) < 1 || res[0].K != 'b' {
				return false, "cannot interpret: " + r.err
			}
			return res[0].B, ""
		}
		spec := func(e *Env) bool {
			if e.B("version0") {
				return e.I("height") <= e.I("tip.Height") && e.I("P") <= e.I("tip.Height")
			}
			return lex(e.I("P"), e.I("height"), e.I("tip.P"), e.I("tip.Height"))
		}
		ev, atoms, dis, err := exhaust(k, spec, 0, nil)
		report("C07.K2 lexicographic-priority", FuncKey(synced)+" = (P,height) <lex (own P, tip.H) [version≠0]", synced, ev, atoms, dis, err)
	}

	// ---- K4 tie-break predicate (LIP-0014 case 4): duplicate ∧ the tip's slot is earlier ∧ the tip
	// was NOT received within its slot ∧ the new block was. A tip whose receive time is unknown
	// (it came from syncing / the node has just started) counts as received in time. Slot numbers
	// are a monotone function of a timestamp; each slot(x) is an integer atom named by x's path.
	if tb := c.Anchor("pkg/consensus/forkchoice.(*forkChoice).IsTieBreak"); tb != nil {
		var run *pathRun
		slotAtom := func(v ssa.Value, eval func(ssa.Value) AVal) (string, bool) {
			// v is the argument of GetSlotNumber: a header timestamp, or uint32(t.Unix())
			for {
				switch x := v.(type) {
				case *ssa.Convert:
					v = x.X
					continue
				case *ssa.ChangeType:
					v = x.X
					continue
				}
				break
			}
			if cl, ok := v.(*ssa.Call); ok {
				if callee := cl.Common().StaticCallee(); callee != nil && callee.Name() == "Unix" && len(cl.Common().Args) == 1 {
					recv := cl.Common().Args[0]
					if a := eval(recv); a.K != 'o' {
						return "", false
					}
					return "slot(unix(" + run.paths[recv] + "))", run.paths[recv] != ""
				}
				return "", false
			}
			if a := eval(v); a.K != 'i' {
				return "", false
			}
			return "slot(" + run.paths[v] + ")", run.paths[v] != ""
		}
		k := func(e *Env) (bool, string) {
			run = &pathRun{env: e}
			run.special = func(v ssa.Value, eval func(ssa.Value) AVal) (AVal, bool) {
				switch x := v.(type) {
				case *ssa.Call:
					// the duplicate test has its own table (K3): one boolean atom here
					if callee := x.Common().StaticCallee(); callee != nil && FuncKey(callee) == "pkg/consensus/forkchoice.(*forkChoice).isDuplicateBlock" {
						return AVal{K: 'b', B: e.B("duplicate")}, true
					}
					if callee := x.Common().StaticCallee(); callee != nil && callee.Name() == "GetSlotNumber" && len(x.Common().Args) == 2 {
						name, ok := slotAtom(x.Common().Args[1], eval)
						if !ok {
							run.err = "slot number of a value that is not a header timestamp or a receive time"
							return AVal{K: '?'}, true
						}
						return AVal{K: 'i', N: e.I(name)}, true
					}
				case *ssa.BinOp:
					if cst, ok := x.Y.(*ssa.Const); ok && cst.IsNil() && (x.Op.String() == "==" || x.Op.String() == "!=") {
						if a := eval(x.X); a.K == 'o' && strings.HasSuffix(run.paths[x.X], "lastBlockReceivedAt") {
							unknown := e.B("unknown(" + run.paths[x.X] + ")")
							return AVal{K: 'b', B: unknown == (x.Op.String() == "==")}, true
						}
					}
				}
				return AVal{}, false
			}
			res := run.run(tb, objArgs(1))
			if run.err != "" || len(res) < 1 || res[0].K != 'b' {
				return false, "cannot interpret: " + run.err
			}
			return res[0].B, ""
		}
		L, C := "p0.lastHeader.", "p0.currentHeader."
		spec := func(e *Env) bool {
			dup := e.B("duplicate")
			lastInSlot := e.B("unknown(p0.lastBlockReceivedAt)") || e.I("slot(unix(p0.lastBlockReceivedAt))") == e.I("slot("+L+"Timestamp)")
			curInSlot := e.I("slot(unix(p0.currentBlockReceivedAt))") == e.I("slot("+C+"Timestamp)")
			return dup && e.I("slot("+L+"Timestamp)") < e.I("slot("+C+"Timestamp)") && !lastInSlot && curInSlot
		}
		ev, atoms, dis, err := exhaust(k, spec, 0, nil)
		report("C07.K4 tie-break-table", FuncKey(tb)+" = duplicate ∧ slot(tip) < slot(new) ∧ ¬(tip received in its slot ∨ receive time unknown) ∧ new received in its slot", tb, ev, atoms, dis, err)
	}

	// ---- O5 the receive time follows the tip. The tie-break predicate asks whether *the tip* was
	// received within its slot; Executer keeps that time in lastBlockReceived. A sync replaces the
	// tip with blocks that have no receive time of their own (forkchoice reads nil as "received in
	// time"): after the call that may replace the tip, every way to a return stores to
	// lastBlockReceived, or goes through a test of whether the tip is still the block it was, and a
	// nil is stored somewhere after the call.
	{
		isStore := func(in ssa.Instruction) (bool, bool) {
			st, ok := in.(*ssa.Store)
			if !ok {
				return false, false
			}
			fa, ok := st.Addr.(*ssa.FieldAddr)
			if !ok {
				return false, false
			}
			o, stt := ownerOfFieldBase(fa.X.Type())
			if o != "consensus.Executer" || stt == nil || fieldNameOf(stt.Field(fa.Field)) != "lastBlockReceived" {
				return false, false
			}
			cst, isC := st.Val.(*ssa.Const)
			return true, isC && cst.IsNil()
		}
		pf := factsOf(process)
		n := 0
		for _, sc := range CallsIn(process, "(*consensus/sync.Syncer).Sync") {
			n++
			nilStored := false
			for _, b := range blocksDeep(process) {
				for _, in := range b.Instrs {
					if is, isNil := isStore(in); is && isNil && instrReachesAvoiding(sc.Call, in, nil) {
						nilStored = true
					}
				}
			}
			path := reachesReturnAvoiding(sc.Call, func(in ssa.Instruction) bool {
				if is, _ := isStore(in); is {
					return true
				}
				if br, ok := in.(*ssa.If); ok {
					t := pf.Term(br.Cond).String()
					return strings.Contains(t, "LastBlock(") && strings.Contains(t, ".ID")
				}
				return false
			}, nil)
			c.Require("C07.O5 receive-time-follows-the-tip", FuncKey(process)+": after Sync", p.InstrPos(sc.Call), "after a sync (which may have replaced the tip, also when it failed) the remembered receive time is cleared unless the tip is still the same block", nilStored && path == nil, pathStr(path))
		}
		c.MinInstances("C07.O5 receive-time-follows-the-tip", n, 1)
	}

	// ---- K3 field predicates
	type pred struct {
		key  string
		spec func(e *Env) bool
	}
	L, C := "p0.lastHeader.", "p0.currentHeader."
	dup := func(e *Env) bool {
		return e.I(L+"Height") == e.I(C+"Height") && e.I(L+"MaxHeightPrevoted") == e.I(C+"MaxHeightPrevoted") && e.Y(L+"PreviousBlockID") == e.Y(C+"PreviousBlockID")
	}
	for _, pr := range []pred{
		{"pkg/consensus/forkchoice.(*forkChoice).IsIdenticalBlock", func(e *Env) bool { return e.Y(L+"ID") == e.Y(C+"ID") }},
		{"pkg/consensus/forkchoice.(*forkChoice).IsValidBlock", func(e *Env) bool {
			return e.I(L+"Height")+1 == e.I(C+"Height") && e.Y(L+"ID") == e.Y(C+"PreviousBlockID")
		}},
		{"pkg/consensus/forkchoice.(*forkChoice).isDuplicateBlock", dup},
		{"pkg/consensus/forkchoice.(*forkChoice).IsDoubleForging", func(e *Env) bool {
			return dup(e) && e.Y(L+"GeneratorAddress") == e.Y(C+"GeneratorAddress")
		}},
		{"pkg/consensus/forkchoice.(*forkChoice).IsDifferentChain", func(e *Env) bool {
			return lex(e.I(L+"MaxHeightPrevoted"), e.I(L+"Height"), e.I(C+"MaxHeightPrevoted"), e.I(C+"Height"))
		}},
	} {
		fn := c.Anchor(pr.key)
		if fn == nil {
			continue
		}
		k := runKernel(fn, objArgs(1), nil)
		ev, atoms, dis, err := exhaust(k, pr.spec, 1, nil)
		report("C07.K3 field-predicate-table", pr.key, fn, ev, atoms, dis, err)
	}

	// ---- O1 order of consultation in process()
	{
		order := []string{"IsIdenticalBlock", "IsValidBlock", "IsDoubleForging", "IsTieBreak", "IsDifferentChain"}
		ff := factsOf(process)
		var prev ssa.CallInstruction
		for i, name := range order {
			s := CallsIn(process, "(*consensus/forkchoice.forkChoice)."+name)
			if len(s) != 1 {
				c.Require("C07.O1 classification-order", FuncKey(process)+": "+name, p.Pos(process.Pos()), "each predicate is consulted exactly once", false, fmt.Sprint(len(s)))
				continue
			}
			cur := s[0].Call
			if i > 0 && prev != nil {
				okDom := instrDominates(prev, cur)
				okFalse, _ := ff.BoolHoldsAt(cur.Block(), IsCall("(*consensus/forkchoice.forkChoice)."+order[i-1]), false)
				c.Require("C07.O1 classification-order", FuncKey(process)+": "+order[i-1]+" ≺ "+name, p.InstrPos(cur), name+" is consulted only after "+order[i-1]+" answered false", okDom && okFalse, "")
			}
			prev = cur
		}
		// what each answer leads to
		for _, x := range []struct{ pred, must string }{
			{"IsValidBlock", "(*consensus.Executer).processValidated"},
			{"IsTieBreak", "(*consensus.Executer).deleteBlock"},
			{"IsDifferentChain", "(*consensus/sync.Syncer).Sync"},
		} {
			n := 0
			for _, s := range CallsIn(process, x.must) {
				if ok, _ := ff.BoolHoldsAt(s.Call.Block(), IsCall("(*consensus/forkchoice.forkChoice)."+x.pred), true); ok {
					n++
				}
			}
			c.Require("C07.O1 classification-action", FuncKey(process)+": "+x.pred+" ⇒ "+x.must, p.Pos(process.Pos()), "the action is taken under the predicate's true edge", n >= 1, "")
		}
		for _, x := range []string{"IsIdenticalBlock", "IsDoubleForging"} {
			// these two classes must not change anything: the true edge reaches no processValidated/deleteBlock/Sync
			for i, e := range ff.Edges {
				f := ff.Facts[i]
				if !f.IsCmp && f.Truth && IsCall("(*consensus/forkchoice.forkChoice)."+x).Match(f.B) {
					bad := edgeReachesInstr(e, func(in ssa.Instruction) bool {
						cl, ok := in.(ssa.CallInstruction)
						if !ok {
							return false
						}
						n := CalleeName(cl.Common())
						return strings.HasSuffix(n, "processValidated") || strings.HasSuffix(n, "deleteBlock") || strings.HasSuffix(n, "Syncer).Sync")
					})
					c.Require("C07.O1 classification-action", FuncKey(process)+": "+x+" ⇒ discard", p.InstrPos(e.If), "identical / double-forged blocks are discarded without touching the chain", bad == nil, "")
				}
			}
		}
		if ahc := c.Anchor("pkg/consensus/liskbft.(*API).AreHeadersContradicting"); ahc != nil {
			af := factsOf(ahc)
			ok := false
			for _, s := range CallsIn(ahc, "consensus/contradiction.AreDistinctHeadersContradicting") {
				for _, f := range af.FactsAt(s.Call.Block()) {
					if !f.IsCmp && !f.Truth && f.B.Op == "call" && strings.HasSuffix(f.B.Sym, "bytes.Equal") && strings.Contains(f.B.String(), ".ID(") {
						ok = true
					}
				}
			}
			c.Require("C07.O1 equal-ids-never-contradict", FuncKey(ahc), p.Pos(ahc.Pos()), "the distinct-headers kernel is reached only when the IDs differ", ok, "")
		}
	}

	// ---- O2 scan direction vs insertion end
	checkWindowOrder(c, "C07")
}

// checkWindowOrder: BFTVotes.insertBlockBFTInfo puts the newest header at
// index 0; contradicting() must therefore return on the first generator match
// of an ascending index scan (the generator's most recent header).
func checkWindowOrder(c *Ctx, prop string) {
	p := c.P
	ins := c.Anchor("pkg/consensus/liskbft.(*BFTVotes).insertBlockBFTInfo")
	con := c.Anchor("pkg/consensus/liskbft.(BFTVotes).contradicting")
	if ins == nil || con == nil {
		return
	}
	// insertion end: the freshly built header is stored at constant index 0 of the new slice,
	// old element i goes to i+1
	newestAtZero, shift := false, false
	for _, b := range blocksDeep(ins) {
		for _, in := range b.Instrs {
			st, ok := in.(*ssa.Store)
			if !ok {
				continue
			}
			ia, ok := st.Addr.(*ssa.IndexAddr)
			if !ok {
				continue
			}
			idx := T(ia.Index)
			if _, isAlloc := stripConv(st.Val).(*ssa.Alloc); isAlloc && idx.String() == "0" {
				newestAtZero = true
			}
			vt := T(st.Val)
			if vt.Op == "index" && len(vt.Args) == 2 && strings.Contains(vt.Args[0].String(), "blockBFTInfos") {
				l := newLin()
				l.add(linOf(idx), 1)
				l.add(linOf(vt.Args[1]), -1)
				if l.Const == 1 && len(l.Coef) == 0 {
					shift = true
				}
			}
		}
	}
	// the same shift written with the built-ins: copy(new[1:], old), or append([]T{newest}, old...)
	for _, cl := range AllCallsDeep(ins) {
		switch CalleeName(cl.Common()) {
		case "builtin:copy":
			dst, src := ArgK(cl, 0), ArgK(cl, 1)
			if sl, ok := stripConv(dst).(*ssa.Slice); ok && sl.Low != nil && T(sl.Low).String() == "1" && strings.Contains(T(src).String(), "blockBFTInfos") && !strings.Contains(T(src).String(), "slice(") {
				shift = true
			}
		case "builtin:append":
			head, tail := T(ArgK(cl, 0)), T(ArgK(cl, 1))
			if head.Op == "list" && len(head.Args) == 1 && strings.Contains(tail.String(), "blockBFTInfos") && tail.Op != "slice" {
				newestAtZero, shift = true, true
			}
		}
	}
	c.Require(prop+".O2 window-newest-first", FuncKey(ins), p.Pos(ins.Pos()), "the new header is stored at index 0 and older ones shifted to i+1 (newest first)", newestAtZero && shift, fmt.Sprintf("newestAt0=%v shift=%v", newestAtZero, shift))
	// scan direction: the index used to read blockBFTInfos in contradicting() is a φ(−1|0, i+1) counter (ascending)
	asc := false
	detail := ""
	for _, b := range blocksDeep(con) {
		for _, in := range b.Instrs {
			ia, ok := in.(*ssa.IndexAddr)
			if !ok {
				continue
			}
			it := T(ia.Index)
			detail = it.String()
			// range loops: index = φ(-1, …) + 1
			l := linOf(it)
			for _, a := range l.Atom {
				if a.Op == "phi" {
					for _, e := range a.Args {
						if e.Op == "const" && (e.Sym == "-1" || e.Sym == "0") {
							asc = true
						}
					}
				}
			}
			if it.Op == "phi" {
				for _, e := range it.Args {
					if e.Op == "const" && e.Sym == "0" {
						asc = true
					}
				}
			}
			// descending scans start from len-1
			if strings.Contains(it.String(), "builtin:len") {
				asc = false
			}
		}
	}
	// and the loop returns at the first match (the return of the kernel call is inside the loop body)
	firstMatch := false
	for _, s := range CallsIn(con, "consensus/contradiction.AreDistinctHeadersContradicting") {
		for _, r := range Returns(con) {
			if r.Block() == s.Call.Block() || s.Call.Block().Dominates(r.Block()) {
				if stripConv(r.Results[0]) == s.Call.Value() {
					firstMatch = true
				}
			}
		}
	}
	// the same scan written with the library: slices.IndexFunc(window, sameGenerator) is the
	// first index from 0 upwards; the verdict is then taken for that element
	for _, b := range blocksDeep(con) {
		for _, in := range b.Instrs {
			ia, ok := in.(*ssa.IndexAddr)
			if !ok {
				continue
			}
			it := T(ia.Index)
			if it.Op == "call" && strings.HasPrefix(it.Sym, "slices.IndexFunc") && len(it.Args) >= 1 && strings.Contains(it.Args[0].String(), "blockBFTInfos") && strings.Contains(T(ia.X).String(), "blockBFTInfos") {
				asc = true
				detail = it.Sym
				// the verdict returned is the kernel's answer for that element
				for _, s := range CallsIn(con, "consensus/contradiction.AreDistinctHeadersContradicting") {
					for _, r := range Returns(con) {
						if len(r.Results) > 0 && stripConv(r.Results[0]) == s.Call.Value() {
							firstMatch = true
						}
					}
				}
			}
		}
	}
	c.Require(prop+".O2 scan-most-recent-first", FuncKey(con), p.Pos(con.Pos()), "the window is scanned from index 0 upwards and the verdict of the first header by the same generator is returned", asc && firstMatch, "index: "+detail)
	// O4: the window holds min(old+1, maxLength) headers after an insertion. A new slice stored
	// as the window has that length; a path that keeps the old slice (shifting in place) is
	// taken only where the old window is already full (len >= maxLength). A window one short
	// loses the header at its far end: if that was the generator's most recent one, the
	// contradiction scan finds nothing to compare with.
	{
		const BV = "consensus/liskbft.BFTVotes"
		ifc := factsOf(ins)
		oldLen := Matcher{"len(old window)", func(t *Term) bool {
			return t.Op == "call" && t.Sym == "builtin:len" && len(t.Args) == 1 && strings.HasSuffix(t.Args[0].String(), ".blockBFTInfos")
		}}
		maxP := IsParam(2)
		stores := storesToField(ins, BV, "blockBFTInfos")
		for _, st := range stores {
			mk, isMk := valueRoot(st.Val).(*ssa.MakeSlice)
			okLen, det := false, "stored window is not a fresh slice"
			if isMk {
				lt := ifc.Term(mk.Len)
				det = "length " + lt.String()
				ls := lt.String()
				isMin := lt.Op == "call" && (strings.HasPrefix(lt.Sym, "collection/ints.Min") || lt.Sym == "builtin:min") && strings.Contains(ls, "builtin:len(p0.blockBFTInfos) + 1") && strings.Contains(ls, "p2")
				plusOne := func() bool {
					d := newLin()
					d.add(linOf(lt), 1)
					only := ""
					for k := range d.Coef {
						only = k
					}
					return len(d.Coef) == 1 && d.Coef[only] == 1 && d.Const == 1 && oldLen.Match(d.Atom[only])
				}()
				underRoom := ifc.EveryPathHas(st.Block(), func(f Fact) bool {
					return f.IsCmp && f.Entails(CmpSpec{A: oldLen, B: maxP, Rel: LE, D: -1})
				})
				okLen = isMin || (plusOne && underRoom)
			}
			c.Require(prop+".O4 window-keeps-max-length", FuncKey(ins)+": new window", p.InstrPos(st), "the window stored after an insertion has min(len(old)+1, maxLength) entries", okLen, det)
		}
		isWinStore := func(in ssa.Instruction) bool {
			for _, st := range stores {
				if in == ssa.Instruction(st) {
					return true
				}
			}
			return false
		}
		if len(ins.Blocks) > 0 && len(ins.Blocks[0].Instrs) > 0 {
			for _, r := range Returns(ins) {
				if classifyReturn(ifc, r) == RetErr || r.Parent() != ins {
					continue
				}
				// can this return be reached without storing a window?
				if ifc.EveryPathHasOr(r.Block(), func(Fact) bool { return false }, isWinStore) || blockHas(r.Block(), isWinStore, r) {
					continue
				}
				full := ifc.EveryPathHas(r.Block(), func(f Fact) bool {
					return f.IsCmp && f.Entails(CmpSpec{A: oldLen, B: maxP, Rel: GE, D: 0})
				})
				c.Require(prop+".O4 window-keeps-max-length", FuncKey(ins)+": return without a new window", p.InstrPos(r), "the old slice is kept (shifted in place) only where it already holds maxLength entries", full, "")
			}
		}
		c.MinInstances(prop+".O4 window-keeps-max-length", len(stores), 1)
	}
	// O3: the chain-level answer is the window scan's. Every successful return of the API
	// entry hands back what contradicting() said about this header on the loaded window (or a
	// constant under a branch that tested exactly that answer); an early "not contradicting"
	// decided from anything the header claims about itself lets a generator choose its verdict.
	if api := c.Anchor("pkg/consensus/liskbft.(*API).IsHeaderContradictingChain"); api != nil {
		af := factsOf(api)
		n := 0
		isScan := func(t *Term) bool {
			// the scan, or — when the scan was written into this function — the kernel's verdict on
			// the header the scan selected
			return t != nil && t.Op == "call" && (strings.HasSuffix(t.Sym, "liskbft.BFTVotes).contradicting") || strings.HasSuffix(t.Sym, "contradiction.AreDistinctHeadersContradicting"))
		}
		for _, r := range Returns(api) {
			rf := af
			if r.Parent() != api {
				rf = factsOf(r.Parent())
			}
			k := classifyReturn(rf, r)
			if k == RetErr || len(r.Results) == 0 {
				continue
			}
			n++
			t := rf.Term(r.Results[0])
			ok := isScan(t)
			if !ok {
				if cst, isC := stripConv(r.Results[0]).(*ssa.Const); isC && cst.Value != nil {
					want := cst.Value.String() == "true"
					ok = rf.EveryPathHas(r.Block(), func(f Fact) bool { return !f.IsCmp && isScan(f.B) && f.Truth == want })
					// an empty window has nothing to contradict: "false" under len(window) == 0 is the scan's own answer
					if !ok && !want {
						// the window search found no header of this generator
						ok = rf.EveryPathHas(r.Block(), func(f Fact) bool {
							s := f.String()
							return f.IsCmp && strings.Contains(s, "slices.IndexFunc") && strings.Contains(s, ".blockBFTInfos") && (strings.HasSuffix(s, " < 0") || strings.HasSuffix(s, " == -1") || strings.HasPrefix(s, "0 > ") || strings.HasPrefix(s, "-1 == "))
						})
					}
					if !ok && !want {
						ok = rf.EveryPathHas(r.Block(), func(f Fact) bool {
							return f.IsCmp && f.Entails(CmpSpec{A: Matcher{"len(window)", func(t *Term) bool {
								return t.Op == "call" && t.Sym == "builtin:len" && strings.HasSuffix(t.Args[0].String(), ".blockBFTInfos")
							}}, NoB: true, Rel: LE, D: 0})
						})
					}
				}
			}
			c.Require(prop+".O3 verdict-is-the-window-scan", FuncKey(api)+": return "+t.String(), p.InstrPos(r), "a successful answer is the result of scanning the stored window for this header", ok, "returns "+t.String())
		}
		c.MinInstances(prop+".O3 verdict-is-the-window-scan", n, 1)
	}
}
