package main

import (
	"fmt"
	"strings"

	"golang.org/x/tools/go/ssa"
)

// callSitesOf lists every own-module call site that may invoke target,
// looking through bound-method thunks (c.deleteBlock passed as a func value).
// argFromEnd(site, k) addresses arguments from the end so that bound and
// unbound calls line up.
func (p *Program) callSitesOf(target *ssa.Function) []Site {
	var out []Site
	seen := map[*ssa.Function]bool{}
	var rec func(f *ssa.Function)
	rec = func(f *ssa.Function) {
		if seen[f] {
			return
		}
		seen[f] = true
		n := p.CG().Nodes[f]
		if n == nil {
			return
		}
		for _, e := range n.In {
			if e.Site == nil {
				continue
			}
			cf := e.Caller.Func
			if cf.Synthetic != "" && (strings.Contains(cf.Synthetic, "bound method") || strings.Contains(cf.Synthetic, "wrapper")) {
				rec(cf)
				continue
			}
			if IsOwn(cf) {
				out = append(out, Site{cf, e.Site})
			}
		}
	}
	rec(target)
	// de-duplicate
	uniq := map[ssa.CallInstruction]bool{}
	var res []Site
	for _, s := range out {
		if !uniq[s.Call] {
			uniq[s.Call] = true
			res = append(res, s)
		}
	}
	return res
}

func argFromEnd(c ssa.CallInstruction, k int) ssa.Value {
	a := c.Common().Args
	if k < 1 || k > len(a) {
		return nil
	}
	return a[len(a)-k]
}

func init() {
	register("C04", "Structural necessary conditions of 'finalized blocks are irreversible and the finalized height is monotone', decided for every path/caller: "+
		"(R1) every call of Chain.RemoveBlock is dominated by the edge fact block.Height > GetFinalizedHeight() with the height read succeeded, and what is deleted is the cached tip (every value reaching deleteBlock's block argument is a Chain.LastBlock() result); "+
		"(R2) who-may-write: block-index key families are written only by saveBlock/removeBlock and the finalized-height marker only by saveBlock, from its finalizedHeight parameter; no production caller of (*db.DB).Set/Del/DropAll exists; "+
		"(R3) monotone argument: at every caller of Chain.AddBlock the finalizedHeight argument is, on every phi edge, either the stored height or a value the edge facts prove larger (genesis excepted: no stored height exists yet); "+
		"(R4) the finalize event is published exactly under that same 'raised' edge fact and only after AddBlock returned nil, with Original/Next = old/new height.",
		runC04)
}

func runC04(c *Ctx) {
	p := c.P
	c.Assume = append(c.Assume,
		"GetFinalizedHeight returns the stored marker (value-level, not decided here)",
		"unsigned wrap-around of heights is ignored in the linear comparison normal form",
		"the precommitted height itself is computed correctly (C01/C02 territory)")
	// R5: a finalized block is also lost when another block is *written over* its height: AddBlock
	// stages the height → ID index before the cache notices a non-consecutive height, so the only
	// barrier is the verifier — a block is applied only as the successor of the current tip
	// (the reject edges of C03.V that tie the incoming block to the tip)
	if n5 := c.borrowRule(runC03, "C03", "V reject-edge", "C04.R5 only-the-tips-successor-is-added", func(k string) bool {
		return strings.Contains(k, "previousBlockID == tip.ID") || strings.Contains(k, "height == tip.height")
	}); n5 < 2 {
		c.Undecided("C04.R5 only-the-tips-successor-is-added", "verifyBlock: tip-linking reject edges", "the reject-edge table of C03.V could not be evaluated (anchor missing)")
	}
	removeBlock := c.Anchor("pkg/blockchain.(*Chain).RemoveBlock")
	addBlock := c.Anchor("pkg/blockchain.(*Chain).AddBlock")
	saveBlock := c.Anchor("pkg/blockchain.(*DataAccess).saveBlock")
	rmBlock := c.Anchor("pkg/blockchain.(*DataAccess).removeBlock")
	if removeBlock == nil || addBlock == nil || saveBlock == nil || rmBlock == nil {
		return
	}
	heightOfBlock := IsField("blockchain.BlockHeader", "Height")
	finH := IsResult("(*blockchain.DataAccess).GetFinalizedHeight", 0)
	finErr := IsResult("(*blockchain.DataAccess).GetFinalizedHeight", 1)

	// ---- R1: guard dominates every RemoveBlock call
	n := 0
	var deleteFns []*ssa.Function
	for _, s := range p.callSitesOf(removeBlock) {
		if !IsProd(s.Fn) {
			continue
		}
		n++
		ff := factsOf(s.Fn)
		blk := s.Call.Block()
		ok1, f1 := ff.CmpHoldsAt(blk, CmpSpec{A: heightOfBlock, B: finH, Rel: GE, D: 1})
		ok2, f2 := ff.NilErrAt(blk, finErr)
		c.Require("C04.R1 guard-dominates-remove", FuncKey(s.Fn)+" ⇒ Chain.RemoveBlock", p.InstrPos(s.Call),
			"call dominated by edge fact  <block>.Header.Height > GetFinalizedHeight()#0", ok1, "fact: "+f1+factsDump(ff, blk, !ok1))
		c.Require("C04.R1 height-read-succeeded", FuncKey(s.Fn)+" ⇒ Chain.RemoveBlock", p.InstrPos(s.Call),
			"call dominated by GetFinalizedHeight()#1 == nil", ok2, "fact: "+f2)
		deleteFns = append(deleteFns, s.Fn)
	}
	c.MinInstances("C04.R1 guard-dominates-remove", n, 1)

	// what is deleted is the tip: every block argument reaching the delete
	// function is a Chain.LastBlock() result (RemoveBlock removes the cached tip,
	// the guard tests the argument — they must be the same block).
	n = 0
	for _, df := range deleteFns {
		// which parameter carries the tested block?
		ff := factsOf(df)
		pidx := -1
		for _, f := range deepFacts(df) { // the guard may sit in a helper of the delete function
			if f.IsCmp && ((f.L.Any(heightOfBlock.F) && f.R.Any(finH.F)) || (f.R.Any(heightOfBlock.F) && f.L.Any(finH.F))) {
				side := f.L
				if !f.L.Any(heightOfBlock.F) {
					side = f.R
				}
				// the parameter under the Height selector on the block side only (the other side
				// mentions the receiver through GetFinalizedHeight())
				side.Walk(func(t *Term) bool {
					if heightOfBlock.F(t) {
						t.Walk(func(u *Term) bool {
							if u.Op == "param" {
								fmt.Sscanf(u.Sym, "p%d", &pidx)
							}
							return true
						})
					}
					return true
				})
			}
		}
		if pidx < 0 {
			// the guard tests the tip directly: fine
			c.Require("C04.R1 deleted-is-tip", FuncKey(df), p.Pos(df.Pos()), "guarded block is a parameter or Chain.LastBlock()", ff.anyFactMentions(IsCall("(*blockchain.Chain).LastBlock")), "")
			continue
		}
		fromEnd := len(df.Params) - pidx
		for _, s := range p.callSitesOf(df) {
			n++
			v := argFromEnd(s.Call, fromEnd)
			t := T(v)
			isTip := func(x *Term) bool { return IsCall("(*blockchain.Chain).LastBlock").Match(x) }
			ok := v != nil && isTip(t)
			if !ok && v != nil && t.Op == "phi" && len(t.Args) > 0 {
				// a loop variable that is re-read from the chain on every way round
				ok = true
				for _, a := range t.Args {
					if !isTip(a) {
						ok = false
					}
				}
			}
			c.Require("C04.R1 deleted-is-tip", FuncKey(s.Fn)+" ⇒ "+FuncKey(df), p.InstrPos(s.Call),
				"block argument is the result of Chain.LastBlock()", ok, "argument: "+t.String())
		}
	}
	c.MinInstances("C04.R1 deleted-is-tip", n, 2) // call sites of the delete function (two sync paths may share one loop)

	// unexported removeBlock only from Chain.RemoveBlock
	for _, s := range p.callSitesOf(rmBlock) {
		if !IsProd(s.Fn) {
			continue
		}
		c.Require("C04.R2 who-may-call removeBlock", FuncKey(s.Fn)+" ⇒ DataAccess.removeBlock", p.InstrPos(s.Call),
			"only Chain.RemoveBlock calls DataAccess.removeBlock", s.Fn == removeBlock, "")
	}

	// ---- R2: who-may-write
	blockFamilies := map[string]bool{}
	for _, op := range DBOps(saveBlock) {
		if op.Family != "" {
			blockFamilies[op.Family] = true
		}
	}
	c.MinInstances("C04.R2 block key families", len(blockFamilies), 6)
	marker := "blockchain.dbPrefixFinalizedHeight"
	markerWrites := 0
	var finParam = -1
	nops := 0
	for _, fn := range p.Subjects() {
		if !IsProd(fn) {
			continue
		}
		for _, op := range DBOps(fn) {
			nops++
			switch {
			case op.Recv == "(*db.DB).Set" || op.Recv == "(*db.DB).Del" || op.Recv == "(*db.DB).DropAll":
				c.Require("C04.R2 no-direct-db-mutation", FuncKey(fn)+" ⇒ "+op.Recv, p.InstrPos(op.Call),
					"no production caller of unbatched (*db.DB).Set/Del/DropAll", false, "")
			case op.Family == marker:
				markerWrites++
				ok := fn == saveBlock && op.Kind == "Set" && op.Val != nil && op.Val.Op == "call" && strings.HasSuffix(op.Val.Sym, "bytes.FromUint32") && len(op.Val.Args) == 1 && op.Val.Args[0].Op == "param"
				if ok {
					fmt.Sscanf(op.Val.Args[0].Sym, "p%d", &finParam)
				}
				c.Require("C04.R2 marker-writer", FuncKey(fn)+" "+op.Kind+" "+op.Family, p.InstrPos(op.Call),
					"the finalized-height marker is only Set, only in saveBlock, to FromUint32(<finalizedHeight parameter>)", ok, "value: "+op.Val.String())
			case blockFamilies[op.Family] && op.Family != "blockchain.dbPrefixTemp":
				ok := fn == saveBlock || fn == rmBlock
				c.Require("C04.R2 block-family-writer", FuncKey(fn)+" "+op.Kind+" "+op.Family, p.InstrPos(op.Call),
					"block index families are written only in saveBlock/removeBlock", ok, "")
			}
		}
	}
	c.Count("db mutation call sites scanned", nops)
	c.MinInstances("C04.R2 marker-writer", markerWrites, 1)

	// parameter forwarding AddBlock → saveBlock
	addParam := -1
	for _, s := range CallsIn(addBlock, "(*blockchain.DataAccess).saveBlock") {
		if finParam >= 0 && finParam < len(s.Call.Common().Args) {
			t := T(ArgK(s.Call, finParam))
			if t.Op == "param" {
				fmt.Sscanf(t.Sym, "p%d", &addParam)
			}
			c.Require("C04.R2 marker-forwarded", "Chain.AddBlock ⇒ saveBlock", p.InstrPos(s.Call), "AddBlock forwards its finalizedHeight parameter unchanged", t.Op == "param", "argument: "+t.String())
		}
	}
	if addParam < 0 {
		c.Require("C04.R2 marker-forwarded", "Chain.AddBlock ⇒ saveBlock", p.Pos(addBlock.Pos()), "AddBlock forwards its finalizedHeight parameter to saveBlock", false, "no forwarding call found")
		return
	}

	// ---- R3 / R4 at every AddBlock caller
	finalizeTopic, _ := p.constValue("pkg/consensus", "EventBlockFinalize")
	n = 0
	nEvents := 0
	for _, s := range p.callSitesOf(addBlock) {
		if !IsProd(s.Fn) {
			continue
		}
		n++
		ff := factsOf(s.Fn)
		arg := ArgK(s.Call, addParam)
		t := ff.Term(arg)
		key := FuncKey(s.Fn) + " ⇒ Chain.AddBlock(finalizedHeight)"
		isGenesis := len(CallsIn(s.Fn, "(*blockchain.Block).ValidateGenesis")) > 0
		if isGenesis {
			ok := heightOfBlock.Match(t)
			c.Require("C04.R3 monotone-argument", key, p.InstrPos(s.Call), "genesis: finalized height is the genesis block's own height", ok, "argument: "+t.String())
			continue
		}
		ok, why := monotoneOver(ff, arg, finH)
		c.Require("C04.R3 monotone-argument", key, p.InstrPos(s.Call),
			"argument is φ(stored, x) with x > stored proved on x's edge (or max(stored, x))", ok, why)
		// … and the raise is not withheld: wherever the stored height is kept, the candidate is
		// known not to exceed it (nothing else — a mode flag, an error ignored — may veto the raise)
		if ok {
			ok2, why2 := raisedWhenever(ff, arg, finH)
			c.Require("C04.R3 raise-not-withheld", key, p.InstrPos(s.Call),
				"the stored height is kept only on edges where the precommitted height does not exceed it", ok2, why2)
		}
		// the precommitted height is the one the block being applied produced: it is read after
		// the block's execution (whose first step, the BFT hook, recomputes it in the staged store)
		{
			root := knownRootOf(s.Fn)
			execs := CallsIn(root, "(*consensus.stateExecuter).Execute")
			for _, g := range CallsIn(root, "(*consensus/liskbft.API).GetBFTHeights") {
				okAfter := len(execs) == 1 && instrDominates(execs[0].Call, g.Call)
				c.Require("C04.R3 precommitted-read-after-execution", key, p.InstrPos(g.Call), "GetBFTHeights is called after abi.Execute ran the block's BFT hook (the raise happens in the step that applies the block causing it)", okAfter, "")
			}
		}
		// stored height must have been read successfully before
		okr, fr := ff.NilErrAt(s.Call.Block(), finErr)
		c.Require("C04.R3 stored-height-read", key, p.InstrPos(s.Call), "GetFinalizedHeight()#1 == nil dominates the call", okr, fr)

		// R4: finalize event
		for _, pub := range CallsIn(s.Fn, "(*event.EventEmitter).Publish") {
			args := pub.Call.Common().Args
			if len(args) < 3 {
				continue
			}
			topic := ff.Term(args[1])
			if !(topic.Op == "const" && topic.Sym == finalizeTopic) {
				continue
			}
			nEvents++
			k2 := FuncKey(s.Fn) + " ⇒ Publish(EventBlockFinalize)"
			blk := pub.Call.Block()
			// after successful AddBlock
			okA, fA := ff.NilErrAt(blk, IsCall("(*blockchain.Chain).AddBlock"))
			c.Require("C04.R4 event-after-commit", k2, p.InstrPos(pub.Call), "publish dominated by AddBlock(...) == nil", okA, fA)
			// control-dependent on the raise
			okB, fB := raisedAt(ff, blk, arg, finH)
			c.Require("C04.R4 event-iff-raised", k2, p.InstrPos(pub.Call), "publish only where the finalized height was raised (new > stored)", okB, fB)
			// and every raise publishes: the raising phi edge must not reach a nil return avoiding the publish
			okC, fC := raiseAlwaysPublishes(ff, arg, finH, pub.Call, s.Call)
			c.Require("C04.R4 raised-implies-event", k2, p.InstrPos(pub.Call), "every successful path on which the height was raised reaches the publish", okC, fC)
			// payload
			msg := ff.Term(args[2])
			okD, fD := eventPayloadOK(s.Fn, args[2], arg, finH)
			c.Require("C04.R4 event-payload", k2, p.InstrPos(pub.Call), "Original = stored height, Next = the raised value", okD, fD+" msg="+msg.String())
		}
	}
	c.MinInstances("C04.R3 monotone-argument", n, 2)
	c.MinInstances("C04.R4 event-iff-raised", nEvents, 1)
}

func (ff *FuncFacts) anyFactMentions(m Matcher) bool {
	for _, f := range ff.Facts {
		if f.IsCmp && (f.L.Any(m.F) || f.R.Any(m.F)) {
			return true
		}
	}
	return false
}

func factsDump(ff *FuncFacts, blk *ssa.BasicBlock, on bool) string {
	if !on {
		return ""
	}
	var sb strings.Builder
	sb.WriteString("\nfacts that do hold here:")
	for _, f := range ff.FactsAt(blk) {
		sb.WriteString("\n  " + f.String())
	}
	return sb.String()
}

// monotoneOver: v is `stored`, or max(stored, x), or a phi each of whose
// edges is `stored` or a value x with  x >= stored  known on that edge.
func monotoneOver(ff *FuncFacts, v ssa.Value, stored Matcher) (bool, string) {
	t := ff.Term(v)
	if stored.Match(t) {
		return true, "is the stored height itself"
	}
	if t.Op == "call" && strings.Contains(t.Sym, "ints.Max") {
		for _, a := range t.Args {
			if stored.Match(a) || a.Any(stored.F) {
				return true, "max(stored, …)"
			}
		}
	}
	phi, ok := v.(*ssa.Phi)
	if !ok {
		return false, "argument is neither the stored height nor a φ over it: " + t.String()
	}
	var why []string
	for i, e := range phi.Edges {
		et := ff.Term(e)
		if stored.Match(et) {
			why = append(why, fmt.Sprintf("edge %d: stored", i))
			continue
		}
		pred := phi.Block().Preds[i]
		this := Matcher{"edge value", func(x *Term) bool { return x.V == e || x.String() == et.String() }}
		ok, f := ff.CmpHoldsOnEdge(pred, phi.Block(), CmpSpec{A: this, B: stored, Rel: GE, D: 0})
		if !ok {
			return false, fmt.Sprintf("φ edge %d carries %s with no dominating fact proving it ≥ stored height", i, et)
		}
		why = append(why, fmt.Sprintf("edge %d: %s because %s", i, et, f))
	}
	return true, strings.Join(why, "; ")
}

// raisedWhenever: every φ edge that keeps the stored height carries the fact candidate <= stored.
func raisedWhenever(ff *FuncFacts, v ssa.Value, stored Matcher) (bool, string) {
	phi, ok := v.(*ssa.Phi)
	if !ok {
		return true, "no φ: max(stored, x) or the stored height itself"
	}
	var cands []ssa.Value
	for _, e := range phi.Edges {
		if !stored.Match(ff.Term(e)) {
			cands = append(cands, e)
		}
	}
	var why []string
	for i, e := range phi.Edges {
		if !stored.Match(ff.Term(e)) {
			continue
		}
		pred := phi.Block().Preds[i]
		for _, cand := range cands {
			ct := ff.Term(cand)
			this := Matcher{"candidate", func(x *Term) bool { return x.V == cand || x.String() == ct.String() }}
			ok, f := ff.CmpHoldsOnEdge(pred, phi.Block(), CmpSpec{A: this, B: stored, Rel: LE, D: 0})
			if !ok {
				return false, fmt.Sprintf("φ edge %d (from b%d) keeps the stored height although nothing there says %s <= stored", i, pred.Index, ct)
			}
			why = append(why, fmt.Sprintf("edge %d: %s", i, f))
		}
	}
	return true, strings.Join(why, "; ")
}

// raisedAt: at blk it is known that the new value is strictly above the stored one.
func raisedAt(ff *FuncFacts, blk *ssa.BasicBlock, arg ssa.Value, stored Matcher) (bool, string) {
	cands := raiseCandidates(ff, arg, stored)
	for _, cand := range cands {
		ct := ff.Term(cand)
		this := Matcher{"raised value", func(x *Term) bool { return x.V == cand || x.String() == ct.String() }}
		if ok, f := ff.CmpHoldsAt(blk, CmpSpec{A: this, B: stored, Rel: GE, D: 1}); ok {
			return true, f
		}
	}
	// flag variable form:  if raised { publish }  where raised = φ(false, true) set on the raising edge
	for _, f := range ff.FactsAt(blk) {
		if f.IsCmp || !f.Truth {
			continue
		}
		if phi, ok := f.B.V.(*ssa.Phi); ok {
			allOK := true
			sawTrue := false
			for i, e := range phi.Edges {
				cst, isC := e.(*ssa.Const)
				if !isC {
					allOK = false
					break
				}
				if cst.Value != nil && cst.Value.ExactString() == "true" {
					sawTrue = true
					pred := phi.Block().Preds[i]
					good := false
					for _, cand := range cands {
						ct := ff.Term(cand)
						this := Matcher{"raised value", func(x *Term) bool { return x.V == cand || x.String() == ct.String() }}
						if ok, _ := ff.CmpHoldsOnEdge(pred, phi.Block(), CmpSpec{A: this, B: stored, Rel: GE, D: 1}); ok {
							good = true
						}
					}
					if !good {
						allOK = false
					}
				}
			}
			if allOK && sawTrue {
				return true, "flag " + f.B.String() + " is true only on edges where new > stored"
			}
		}
	}
	// inequality form:  if next != stored { publish }  where next is the value handed on as the
	// new finalized height and is itself never below stored (monotone φ or max): then
	// next != stored is next > stored
	if okMono, _ := monotoneOver(ff, arg, stored); okMono {
		at := ff.Term(arg)
		next := Matcher{"new finalized height", func(x *Term) bool { return x.String() == at.String() }}
		for _, f := range ff.FactsAt(blk) {
			if f.Entails(CmpSpec{A: next, B: stored, Rel: NE, D: 0}) || f.Entails(CmpSpec{A: next, B: stored, Rel: GE, D: 1}) {
				return true, "new finalized height (never below stored) differs from stored: " + f.String()
			}
		}
	}
	return false, "no dominating fact proves new > stored" + factsDump(ff, blk, true)
}

func raiseCandidates(ff *FuncFacts, arg ssa.Value, stored Matcher) []ssa.Value {
	var out []ssa.Value
	if _, ok := arg.(*ssa.Phi); !ok && !stored.Match(ff.Term(arg)) {
		return []ssa.Value{arg}
	}
	if phi, ok := arg.(*ssa.Phi); ok {
		for _, e := range phi.Edges {
			if !stored.Match(ff.Term(e)) {
				out = append(out, e)
			}
		}
	}
	return out
}

// raiseAlwaysPublishes: from the AddBlock call, on the edge(s) where the
// height was raised, every path to a nil return executes the publish.
func raiseAlwaysPublishes(ff *FuncFacts, arg ssa.Value, stored Matcher, pub, add ssa.CallInstruction) (bool, string) {
	// Path search from the AddBlock call to any nil-return avoiding the
	// publish; such a path is fine only if it is a not-raised path, i.e. it
	// passes through a false edge of the raise condition. We approximate
	// soundly: collect blocks on avoiding paths; if any of them is dominated
	// by a "raised" fact, the event can be skipped on a raise.
	path := reachesReturnAvoiding(add, func(in ssa.Instruction) bool { return in == pub.(ssa.Instruction) }, func(r *ssa.Return) bool {
		k := classifyReturn(ff, r)
		return k == RetNil || k == RetMaybe
	})
	if path == nil {
		return true, "publish post-dominates AddBlock on success paths"
	}
	for _, b := range path {
		if ok, f := raisedAt(ff, b, arg, stored); ok && strings.Contains(f, ">") {
			return false, fmt.Sprintf("a success path avoids the publish although %s holds in block %d", f, b.Index)
		}
	}
	// the avoiding path must be one on which the flag/condition is false
	return true, "paths avoiding the publish are not-raised paths"
}

// eventPayloadOK checks the struct literal passed as event payload: field
// Original is the stored height and Next a raise candidate.
func eventPayloadOK(fn *ssa.Function, payload ssa.Value, arg ssa.Value, stored Matcher) (bool, string) {
	mi, ok := payload.(*ssa.MakeInterface)
	if ok {
		payload = mi.X
	}
	payload = valueRoot(payload)
	// built under the "raised" flag and handed on as a pointer that is nil otherwise
	if phi, isPhi := payload.(*ssa.Phi); isPhi {
		var only ssa.Value
		n := 0
		for _, e := range phi.Edges {
			if k, isC := e.(*ssa.Const); isC && k.Value == nil {
				continue
			}
			only = e
			n++
		}
		if n == 1 {
			payload = only
		}
	}
	al, ok := payload.(*ssa.Alloc)
	if !ok {
		return false, "payload is not a composite literal"
	}
	ff := factsOf(fn)
	cands := raiseCandidates(ff, arg, stored)
	var orig, next *Term
	for _, r := range *al.Referrers() {
		fa, ok := r.(*ssa.FieldAddr)
		if !ok {
			continue
		}
		_, st := ownerOfFieldBase(fa.X.Type())
		name := fieldNameOf(st.Field(fa.Field))
		for _, rr := range *fa.Referrers() {
			if s, ok := rr.(*ssa.Store); ok && s.Addr == fa {
				switch name {
				case "Original":
					orig = ff.Term(s.Val)
				case "Next":
					next = ff.Term(s.Val)
				}
			}
		}
	}
	if orig == nil || next == nil {
		return false, "Original/Next not both assigned"
	}
	if !stored.Match(orig) {
		return false, "Original = " + orig.String()
	}
	for _, cand := range cands {
		if ff.Term(cand).String() == next.String() {
			return true, ""
		}
	}
	return false, "Next = " + next.String()
}
