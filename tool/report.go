package main

import (
	"encoding/json"
	"fmt"
	"os"
	"path/filepath"
	"sort"
	"strings"
	"time"

	"golang.org/x/tools/go/ssa"
)

type Obligation struct {
	Rule      string `json:"rule"`
	Construct string `json:"construct"` // stable key: function + callee/field/lock, never a line number
	Site      string `json:"site,omitempty"`
	Want      string `json:"want"`
	Status    string `json:"status"` // discharged | VIOLATED | known-finding | undecided
	Detail    string `json:"detail,omitempty"`
}

type KnownFinding struct {
	Status    string `json:"status"` // known | fixed
	Property  string `json:"property"`
	Rule      string `json:"rule"`
	Construct string `json:"construct"`
	What      string `json:"what"`
	Witness   string `json:"witness,omitempty"`
	Commit    string `json:"commit,omitempty"`
	ID        string `json:"id,omitempty"`
}

// Ctx is handed to every rule.
type Ctx struct {
	P        *Program
	Prop     string
	Tier     string
	Obs      []*Obligation
	Analysed map[string]int
	Anchors  []string
	Notes    []string
	Assume   []string
	Explain  string
	Trusted  []string
	Canary   map[string]bool // rule -> positive canary fired
	start    time.Time
	broken   []string

	missingAnchors []string          // anchors not found in this run
	anchorSubst    map[string]string // second pass: missing anchor → the function it was merged into
}

func NewCtx(p *Program, prop, tier string) *Ctx {
	c := &Ctx{P: p, Prop: prop, Tier: tier, Analysed: map[string]int{}, Canary: map[string]bool{}, start: time.Now()}
	for _, n := range p.Renames {
		c.Notes = append(c.Notes, "renamed function recognised: "+n)
	}
	return c
}

// Require records one obligation.
func (c *Ctx) Require(rule, construct, site, want string, ok bool, detail string) bool {
	st := "discharged"
	if !ok {
		st = "VIOLATED"
	}
	if len(detail) > 900 {
		detail = detail[:900] + " …(truncated)"
	}
	c.Obs = append(c.Obs, &Obligation{Rule: rule, Construct: construct, Site: site, Want: want, Status: st, Detail: detail})
	return ok
}

// Undecided records an obligation the engine could not decide (exit 2, never "holds").
func (c *Ctx) Undecided(rule, construct, why string) {
	c.Obs = append(c.Obs, &Obligation{Rule: rule, Construct: construct, Want: "decidable", Status: "undecided", Detail: why})
	c.broken = append(c.broken, rule+" "+construct+": "+why)
}

// Anchor resolves a function anchor; missing → undecided.
func (c *Ctx) Anchor(key string) *ssa.Function {
	fn := c.P.Fn(key)
	if (fn == nil || len(fn.Blocks) == 0) && c.anchorSubst[key] != "" {
		fn = c.P.Fn(c.anchorSubst[key])
		key = c.anchorSubst[key] + " (holds the body of the removed " + key + ")"
	}
	if fn == nil || len(fn.Blocks) == 0 {
		c.missingAnchors = append(c.missingAnchors, key)
		c.Undecided("anchor", key, "anchor function not found in the analysed tree")
		return nil
	}
	c.Anchors = append(c.Anchors, key)
	return fn
}

// mergedInto: for every anchor this run missed, the one surviving production function that
// called it when the rules were written (where its body must have gone if it was merged into
// its caller); nil unless every miss has exactly one.
func (c *Ctx) mergedInto() map[string]string {
	if len(c.missingAnchors) == 0 || len(c.broken) != len(c.missingAnchors) {
		return nil
	}
	knownFunc("")
	out := map[string]string{}
	for _, a := range c.missingAnchors {
		var alive []string
		for _, k := range knownCallers[a] {
			if fn := c.P.Fn(k); fn != nil && IsProd(fn) && len(fn.Blocks) > 0 && !strings.HasSuffix(fn.Pkg.Pkg.Path(), "_test") && !strings.HasSuffix(c.P.Fset.Position(fn.Pos()).Filename, "_test.go") {
				alive = append(alive, k)
			}
		}
		if len(alive) != 1 {
			return nil
		}
		out[a] = alive[0]
	}
	return out
}

// clean: no obligation is violated (beyond the recorded findings) or undecided.
func (c *Ctx) clean(verifDir string) bool {
	if len(c.broken) > 0 {
		return false
	}
	known, err := loadKnown(filepath.Join(verifDir, "known_findings.json"))
	if err != nil {
		return false
	}
	for _, o := range c.Obs {
		if o.Status != "VIOLATED" {
			continue
		}
		matched := false
		for _, k := range known {
			if k.Status == "known" && k.Property == c.Prop && k.Rule == o.Rule && k.Construct == o.Construct {
				matched = true
			}
		}
		if !matched {
			return false
		}
	}
	return true
}

func (c *Ctx) Count(what string, n int) { c.Analysed[what] += n }

// MinInstances fails the run (undecided) when a rule matched fewer sites than
// were confirmed by hand: a rule that matches nothing passes vacuously.
func (c *Ctx) MinInstances(rule string, got, min int) {
	c.Analysed["instances:"+rule] = got
	if got < min {
		c.Obs = append(c.Obs, &Obligation{Rule: rule, Construct: "instance-count", Want: fmt.Sprintf(">= %d instances", min), Status: "VIOLATED", Detail: fmt.Sprintf("only %d instances found; the mechanism this rule checks has disappeared or moved", got)})
	}
}

func loadKnown(path string) ([]KnownFinding, error) {
	b, err := os.ReadFile(path)
	if err != nil {
		if os.IsNotExist(err) {
			return nil, nil
		}
		return nil, err
	}
	var k struct {
		Findings []KnownFinding `json:"findings"`
	}
	if err := json.Unmarshal(b, &k); err != nil {
		return nil, err
	}
	return k.Findings, nil
}

// Finish applies the known-findings file, writes evidence, prints the verdict
// and returns the exit code.
func (c *Ctx) Finish(verifDir string) int {
	known, err := loadKnown(filepath.Join(verifDir, "known_findings.json"))
	if err != nil {
		fmt.Println("BROKEN: cannot read known_findings.json:", err)
		return 2
	}
	usedKnown := map[int]bool{}
	var violations []*Obligation
	for _, o := range c.Obs {
		if o.Status != "VIOLATED" {
			continue
		}
		matched := false
		for i, k := range known {
			if k.Status == "known" && k.Property == c.Prop && k.Rule == o.Rule && k.Construct == o.Construct {
				o.Status = "known-finding"
				usedKnown[i] = true
				matched = true
				break
			}
		}
		if !matched {
			violations = append(violations, o)
		}
	}
	disch, total := 0, 0
	for _, o := range c.Obs {
		total++
		if o.Status == "discharged" {
			disch++
		}
	}
	// evidence
	samples := []any{}
	perRule := map[string]int{}
	for _, o := range c.Obs {
		if o.Status != "discharged" || perRule[o.Rule] < 3 {
			samples = append(samples, o)
			perRule[o.Rule]++
		}
	}
	ruleCounts := map[string]int{}
	for _, o := range c.Obs {
		ruleCounts[o.Rule]++
	}
	ev := map[string]any{
		"property_id": c.Prop,
		"tier":        c.Tier,
		"seed":        0,
		"level":       "other",
		"wall_s":      round2(time.Since(c.start).Seconds() + c.P.LoadSecs),
		"violations":  len(violations),
		"coverage": map[string]any{
			"obligations": total,
			"discharged":  disch,
			"explanation": c.Explain,
			"analysed": map[string]any{
				"packages":      len(c.P.Pkgs),
				"own_functions": len(c.P.OwnFuncs),
				"anchors":       c.Anchors,
				"counts":        c.Analysed,
				"build_tags":    c.P.BuildTags,
			},
			"obligations_per_rule": ruleCounts,
			"samples":              samples,
			"notes":                c.Notes,
			"canaries":             c.Canary,
			"trusted_base":         append([]string{"go/types", "go/ssa (x/tools v0.29.0)", "instance tables in /verif/tool/rules_*.go"}, c.Trusted...),
			"checker_cmd":          fmt.Sprintf("./scripts/check.sh %s %s", c.Prop, c.Tier),
		},
		"assumptions": c.Assume,
	}
	evDir := filepath.Join(verifDir, "evidence")
	os.MkdirAll(evDir, 0o755)
	evPath := filepath.Join(evDir, c.Prop+".json")
	b, _ := json.MarshalIndent(ev, "", " ")
	if err := os.WriteFile(evPath, b, 0o644); err != nil {
		fmt.Println("BROKEN: cannot write evidence:", err)
		return 2
	}

	fmt.Printf("property=%s tier=%s obligations=%d discharged=%d packages=%d functions=%d wall=%.1fs\n", c.Prop, c.Tier, total, disch, len(c.P.Pkgs), len(c.P.OwnFuncs), time.Since(c.start).Seconds()+c.P.LoadSecs)
	var rules []string
	for r := range ruleCounts {
		rules = append(rules, r)
	}
	sort.Strings(rules)
	for _, r := range rules {
		fmt.Printf("  rule %-46s %3d obligations\n", r, ruleCounts[r])
	}
	for i, k := range known {
		if usedKnown[i] {
			fmt.Printf("KNOWN-FINDING: property=%s %s [%s] %s\n", c.Prop, k.ID, k.Rule, k.What)
		}
	}
	if len(c.broken) > 0 {
		for _, b := range c.broken {
			fmt.Println("UNDECIDED:", b)
		}
		fmt.Printf("BROKEN property=%s: %d obligations could not be decided (anchor missing or construct outside the engine's fragment); this is not a verdict\n", c.Prop, len(c.broken))
		if len(violations) == 0 {
			return 2
		}
	}
	if len(violations) > 0 {
		replay := filepath.Join(evDir, c.Prop+".violation.json")
		vb, _ := json.MarshalIndent(map[string]any{"property": c.Prop, "tier": c.Tier, "violations": violations}, "", " ")
		os.WriteFile(replay, vb, 0o644)
		for _, o := range violations {
			fmt.Printf("  FAIL [%s] %s\n       at %s\n       want: %s\n       %s\n", o.Rule, o.Construct, o.Site, o.Want, strings.ReplaceAll(o.Detail, "\n", "\n       "))
		}
		fmt.Printf("VIOLATION property=%s replay=%s\n", c.Prop, replay)
		return 1
	}
	os.Remove(filepath.Join(evDir, c.Prop+".violation.json"))
	fmt.Printf("OK property=%s\n", c.Prop)
	return 0
}

func round2(f float64) float64 { return float64(int(f*100)) / 100 }

// borrowRule runs another property's rule set in a scratch context and re-registers the
// obligations of one rule family under this property (a rule that is a necessary condition of
// two properties is decided once and reported under both).
func (c *Ctx) borrowRule(run func(*Ctx), fromProp, ruleInfix, asRule string, onlyConstruct func(string) bool) int {
	sub := NewCtx(c.P, fromProp, c.Tier)
	run(sub)
	n := 0
	for _, o := range sub.Obs {
		if !strings.Contains(o.Rule, ruleInfix) || strings.Contains(o.Construct, "instance-count") {
			continue
		}
		if onlyConstruct != nil && !onlyConstruct(o.Construct) {
			continue
		}
		n++
		switch o.Status {
		case "undecided":
			c.Undecided(asRule, o.Construct, o.Detail)
		default:
			c.Require(asRule, o.Construct, o.Site, o.Want, o.Status != "VIOLATED", o.Detail)
		}
	}
	return n
}
