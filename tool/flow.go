package main

import (
	"fmt"
	"go/token"
	"go/types"
	"sort"
	"strings"

	"golang.org/x/tools/go/ssa"
)

// Edge is a CFG edge out of a two-way branch.
type Edge struct {
	From, To *ssa.BasicBlock
	If       *ssa.If
	Truth    bool
}

// edgeDominates: every path from entry to blk traverses edge e.
func edgeDominates(e Edge, blk *ssa.BasicBlock) bool {
	if !e.To.Dominates(blk) {
		return false
	}
	if len(e.From.Succs) == 2 && e.From.Succs[0] == e.From.Succs[1] {
		return false
	}
	for _, p := range e.To.Preds {
		if p == e.From {
			continue
		}
		if !e.To.Dominates(p) { // another way into e.To that is not a back edge
			return false
		}
	}
	return true
}

// branchEdges lists both out-edges of every If in fn.
func branchEdges(fn *ssa.Function) []Edge {
	var out []Edge
	for _, b := range fn.Blocks {
		if len(b.Instrs) == 0 {
			continue
		}
		if iff, ok := b.Instrs[len(b.Instrs)-1].(*ssa.If); ok && len(b.Succs) == 2 {
			out = append(out, Edge{b, b.Succs[0], iff, true}, Edge{b, b.Succs[1], iff, false})
		}
	}
	return out
}

// FuncFacts caches, per function, the fact carried by each branch edge.
type FuncFacts struct {
	Fn    *ssa.Function
	tb    *termBuilder
	Edges []Edge
	Facts []Fact
	// Extra[i]: facts lifted from a new helper whose result edge i tests (inter.go)
	Extra [][]Fact
	conv  bool
	// chainSel: when set, values and blocks of a new helper are read in the context of this
	// one call chain only (context-sensitive queries, see withChain)
	chainSel []*ssa.Call
}

// withChain: a view of the same facts that reads a new helper reached through ch in the
// context of exactly that chain of calls.
func (ff *FuncFacts) withChain(ch []*ssa.Call) *FuncFacts {
	c := *ff
	c.chainSel = ch
	return &c
}

var factsMemo = map[*ssa.Function]*FuncFacts{}
var factsMemoConv = map[*ssa.Function]*FuncFacts{}

func factsOf(fn *ssa.Function) *FuncFacts { return factsOfMode(fn, false) }

// factsOfMode: conv keeps value-changing integer conversions opaque (C09).
func factsOfMode(fn *ssa.Function, conv bool) *FuncFacts {
	memo := factsMemo
	if conv {
		memo = factsMemoConv
	}
	if ff, ok := memo[fn]; ok {
		return ff
	}
	ff := &FuncFacts{Fn: fn, tb: newTB(), conv: conv}
	ff.tb.keepConv = conv
	memo[fn] = ff
	ff.Edges = branchEdges(fn)
	for _, e := range ff.Edges {
		ff.Facts = append(ff.Facts, factOf(ff.tb.of(e.If.Cond, 0), e.Truth))
	}
	// every comparison edge is listed a second time with its fact read from the other side
	// (R op' L): how the source orders the operands must not matter to a rule. The copies
	// keep the (true, false) pairing, so Facts[i^1] is still the other edge of the same If.
	n := len(ff.Edges)
	for i := 0; i+1 < n; i += 2 {
		m0, ok0 := ff.Facts[i].Mirror()
		m1, ok1 := ff.Facts[i+1].Mirror()
		if !ok0 && !ok1 {
			continue
		}
		ff.Edges = append(ff.Edges, ff.Edges[i], ff.Edges[i+1])
		ff.Facts = append(ff.Facts, m0, m1)
	}
	ff.Extra = make([][]Fact, len(ff.Edges))
	for i := 0; i < n; i++ {
		ff.Extra[i] = edgeHelperFacts(ff.Edges[i], conv)
		ff.Extra[i] = append(ff.Extra[i], searchFacts(ff, ff.Facts[i])...)
	}
	// several results of one helper call tested one after the other (err != nil → return;
	// if unchanged → return; …): on the later branch the helper's returns are narrowed by what
	// the earlier, dominating branches established about the other results
	for i := 0; i < n; i++ {
		call, _, _ := helperTest(ff.Edges[i])
		if call == nil || newHelperCallee(call) == nil {
			continue
		}
		var also []resCon
		for j := 0; j < n; j++ {
			if j == i || ff.Edges[j].If == ff.Edges[i].If {
				continue
			}
			if c2, k2, w2 := helperTest(ff.Edges[j]); c2 == call && edgeDominates(ff.Edges[j], ff.Edges[i].From) {
				also = append(also, resCon{k2, w2})
			}
		}
		if len(also) > 0 {
			have := map[string]bool{}
			for _, f := range ff.Extra[i] {
				have[f.String()] = true
			}
			for _, f := range edgeHelperFactsC(ff.Edges[i], also, conv) {
				if !have[f.String()] {
					ff.Extra[i] = append(ff.Extra[i], f)
				}
			}
		}
	}
	// a branch on a short-circuit value (`case a && b:`, `x := a || b; if x`): see phiCondFacts
	for i := 0; i < n; i++ {
		ff.Extra[i] = append(ff.Extra[i], phiCondFacts(ff, ff.Edges[i])...)
	}
	return ff
}

// phiCondFacts: the branch tests a φ of booleans (how go/ssa spells a && b / a || b when the
// value is computed rather than branched on). On the edge where the φ has the value that only
// one of its incoming edges can deliver — every other one delivers the opposite constant —
// control came in over that edge: the facts on it hold, and so does the operand it carries.
func phiCondFacts(ff *FuncFacts, e Edge) []Fact {
	cond, truth := e.If.Cond, e.Truth
	for {
		u, ok := cond.(*ssa.UnOp)
		if !ok || u.Op != token.NOT {
			break
		}
		cond, truth = u.X, !truth
	}
	phi, ok := cond.(*ssa.Phi)
	if !ok {
		return nil
	}
	cand := -1
	for k, ev := range phi.Edges {
		if c, isC := ev.(*ssa.Const); isC && c.Value != nil && c.Value.ExactString() == fmt.Sprint(!truth) {
			continue
		}
		if cand >= 0 {
			return nil
		}
		cand = k
	}
	if cand < 0 || cand >= len(phi.Block().Preds) {
		return nil
	}
	seen := map[string]bool{}
	var out []Fact
	add := func(f Fact) {
		if s := f.String(); !seen[s] {
			seen[s] = true
			out = append(out, f)
		}
	}
	pred := phi.Block().Preds[cand]
	for j, e2 := range ff.Edges {
		// facts of edges dominating the predecessor, and of the edge pred → φ block itself
		// (Extra of other φ branches is not consulted: no recursion)
		if edgeDominates(e2, pred) || (e2.From == pred && e2.To == phi.Block() && pred.Succs[0] != pred.Succs[len(pred.Succs)-1]) {
			add(ff.Facts[j])
		}
	}
	if _, isC := phi.Edges[cand].(*ssa.Const); !isC {
		f := factOf(ff.tb.of(phi.Edges[cand], 1), truth)
		add(f)
		if m, ok := f.Mirror(); ok {
			add(m)
		}
	}
	return out
}

// searchFacts: on an edge where the result of slices.IndexFunc(xs, pred) / slices.Index(xs, v)
// is known to be a position (>= 0, or != -1), the element at that position satisfies the
// predicate (equals v): the library function's contract, read as a fact about xs[result].
func searchFacts(ff *FuncFacts, f Fact) []Fact {
	if !f.IsCmp {
		return nil
	}
	var hit *Term
	m := Matcher{"search result", func(t *Term) bool {
		if t.Op == "call" && t.Call != nil && (t.Sym == "slices.IndexFunc" || strings.HasPrefix(t.Sym, "slices.IndexFunc[") || t.Sym == "slices.Index" || strings.HasPrefix(t.Sym, "slices.Index[")) {
			hit = t
			return true
		}
		return false
	}}
	if !f.Entails(CmpSpec{A: m, NoB: true, Rel: GE, D: 0}) && !f.Entails(CmpSpec{A: m, NoB: true, Rel: NE, D: -1}) {
		return nil
	}
	call, ok := hit.Call.(*ssa.Call)
	if !ok || call.Parent() != ff.Fn || len(call.Common().Args) != 2 {
		return nil
	}
	elem := &Term{Op: "index", Args: []*Term{ff.tb.of(call.Common().Args[0], 1), ff.tb.of(call, 1)}}
	if strings.HasPrefix(hit.Sym, "slices.Index[") || hit.Sym == "slices.Index" {
		return []Fact{{IsCmp: true, Op: token.EQL, L: elem, R: ff.tb.of(call.Common().Args[1], 1)}}
	}
	mc, ok := call.Common().Args[1].(*ssa.MakeClosure)
	if !ok {
		return nil
	}
	g, _ := mc.Fn.(*ssa.Function)
	if g == nil || len(g.Params) != 1 {
		return nil
	}
	var ret *ssa.Return
	for _, b := range g.Blocks {
		if r, ok := b.Instrs[len(b.Instrs)-1].(*ssa.Return); ok {
			if ret != nil {
				return nil
			}
			ret = r
		}
	}
	if ret == nil || len(ret.Results) != 1 {
		return nil
	}
	// the predicate's result, written with the found element for its parameter and the
	// creator's values for what it captured
	tb := newTBMode(ff.conv)
	tb.memo[g.Params[0]] = elem
	for i, fv := range g.FreeVars {
		if i >= len(mc.Bindings) {
			break
		}
		if al, isCell := mc.Bindings[i].(*ssa.Alloc); isCell {
			if sv := uniqueStore(al); sv != nil {
				for _, r := range *fv.Referrers() {
					if ld, ok := r.(*ssa.UnOp); ok && ld.Op == token.MUL {
						tb.memo[ld] = ff.tb.of(sv, 1)
					}
				}
			}
			continue
		}
		tb.memo[fv] = ff.tb.of(mc.Bindings[i], 1)
	}
	return []Fact{factOf(tb.of(ret.Results[0], 1), true)}
}

func newTBMode(conv bool) *termBuilder {
	tb := newTB()
	tb.keepConv = conv
	return tb
}

// Term builds the term of v in this function's vocabulary; a value that lives in a new
// helper called from here is expressed through the call's arguments.
func (ff *FuncFacts) Term(v ssa.Value) *Term {
	if vf := valueFunc(v); vf != nil && vf != ff.Fn && isNewHelper(vf) {
		if ff.chainSel != nil && chainTarget(ff.chainSel) == vf {
			return substAlong(ff.chainSel, vf, factsOfMode(vf, ff.conv).tb.of(v, 0), ff.conv)
		}
		return liftTerm(ff.Fn, vf, factsOfMode(vf, ff.conv).tb.of(v, 0), ff.conv)
	}
	return ff.tb.of(v, 0)
}

// FactsAt returns every fact known to hold whenever control reaches blk
// (facts of all edges that dominate it).
func (ff *FuncFacts) FactsAt(blk *ssa.BasicBlock) []Fact {
	if bf := blk.Parent(); bf != ff.Fn && isNewHelper(bf) {
		return ff.factsAtForeign(blk)
	}
	var out []Fact
	for i, e := range ff.Edges {
		if edgeDominates(e, blk) {
			out = append(out, ff.Facts[i])
			out = append(out, ff.Extra[i]...)
		}
	}
	return out
}

// withMirrors adds, for every comparison fact  L op R, the same fact written from the other
// side (R op' L): how the source happens to order the operands must not matter to a rule.
func withMirrors(fs []Fact) []Fact {
	n := len(fs)
	for i := 0; i < n; i++ {
		if m, ok := fs[i].Mirror(); ok {
			fs = append(fs, m)
		}
	}
	return fs
}

// Mirror returns the comparison read from the right-hand side.
func (f Fact) Mirror() (Fact, bool) {
	if !f.IsCmp || f.L == nil || f.R == nil || f.L.String() == f.R.String() {
		return f, false
	}
	var op token.Token
	switch f.Op {
	case token.LSS:
		op = token.GTR
	case token.GTR:
		op = token.LSS
	case token.LEQ:
		op = token.GEQ
	case token.GEQ:
		op = token.LEQ
	case token.EQL, token.NEQ:
		op = f.Op
	default:
		return f, false
	}
	return Fact{IsCmp: true, Op: op, L: f.R, R: f.L}, true
}

// factsAtForeign: blk lies in a new helper reached from ff.Fn. Known there: the helper's
// own facts at blk plus, along every call chain, the facts at each call site — all in
// ff.Fn's vocabulary; with several chains only what they agree on.
func (ff *FuncFacts) factsAtForeign(blk *ssa.BasicBlock) []Fact {
	target := blk.Parent()
	chains := helperChains(ff.Fn, target)
	if ff.chainSel != nil && chainTarget(ff.chainSel) == target {
		chains = [][]*ssa.Call{ff.chainSel}
	}
	if len(chains) == 0 {
		return nil
	}
	var common map[string]Fact
	var order []string
	for _, ch := range chains {
		here := map[string]Fact{}
		var ord []string
		add := func(f Fact) {
			s := f.String()
			if _, dup := here[s]; !dup {
				here[s] = f
				ord = append(ord, s)
			}
		}
		for i, c := range ch {
			cf := factsOfMode(c.Parent(), ff.conv)
			for _, f := range cf.FactsAt(c.Block()) {
				if i == 0 {
					add(f)
				} else {
					add(liftFactAlong(ch[:i], c.Parent(), f, ff.conv))
				}
			}
		}
		for _, f := range factsOfMode(target, ff.conv).FactsAt(blk) {
			add(liftFactAlong(ch, target, f, ff.conv))
			// `param != nil` where the argument is a pointer that is nil on all ways into the call
			// but one (built under a flag, nil otherwise): control came over that way, and what
			// holds on it holds here
			for _, g := range nonNilArgFacts(ch, target, f, ff.conv) {
				add(g)
			}
		}
		if common == nil {
			common, order = here, ord
		} else {
			for s := range common {
				if _, ok := here[s]; !ok {
					delete(common, s)
				}
			}
		}
	}
	var out []Fact
	for _, s := range order {
		if f, ok := common[s]; ok {
			out = append(out, f)
		}
	}
	return out
}

// liftFactAlong substitutes parameters innermost call first.
func liftFactAlong(ch []*ssa.Call, target *ssa.Function, f Fact, conv bool) Fact {
	sub := func(t *Term) *Term { return substAlong(ch, target, t, conv) }
	if f.IsCmp {
		f.L, f.R = sub(f.L), sub(f.R)
	} else {
		f.B = sub(f.B)
	}
	return f
}

// FactsOnEdge returns the facts known when control flows from pred to blk:
// everything that holds at pred plus the branch fact of that very edge.
func (ff *FuncFacts) FactsOnEdge(pred, blk *ssa.BasicBlock) []Fact {
	out := ff.FactsAt(pred)
	for i, e := range ff.Edges {
		if e.From == pred && e.To == blk && pred.Succs[0] != pred.Succs[1] {
			out = append(out, ff.Facts[i])
			out = append(out, ff.Extra[i]...)
		}
	}
	return out
}

// CmpHoldsOnEdge: some fact on the edge pred→blk entails the comparison.
func (ff *FuncFacts) CmpHoldsOnEdge(pred, blk *ssa.BasicBlock, c CmpSpec) (bool, string) {
	for _, f := range ff.FactsOnEdge(pred, blk) {
		if f.Entails(c) {
			return true, f.String()
		}
	}
	return false, ""
}

// CmpHoldsAt: some dominating edge fact entails the comparison.
func (ff *FuncFacts) CmpHoldsAt(blk *ssa.BasicBlock, c CmpSpec) (bool, string) {
	for _, f := range ff.FactsAt(blk) {
		if f.Entails(c) {
			return true, f.String()
		}
	}
	return false, ""
}

// BoolHoldsAt: some dominating edge carries boolean term m with the given truth.
func (ff *FuncFacts) BoolHoldsAt(blk *ssa.BasicBlock, m Matcher, truth bool) (bool, string) {
	for _, f := range ff.FactsAt(blk) {
		if !f.IsCmp && f.Truth == truth && m.Match(f.B) {
			return true, f.String()
		}
		// x == true / x != false forms, and non-integer comparisons
		if f.IsCmp {
			if m.Match(&Term{Op: "binop", Sym: f.Op.String(), Args: []*Term{f.L, f.R}}) && truth {
				return true, f.String()
			}
		}
	}
	return false, ""
}

// NilErrAt: at blk it is known that the error result of a call matching m is nil
// ("the call succeeded"). Recognises  err != nil → return  and  err == nil → here.
func (ff *FuncFacts) NilErrAt(blk *ssa.BasicBlock, m Matcher) (bool, string) {
	for _, f := range ff.FactsAt(blk) {
		if !f.IsCmp {
			continue
		}
		if f.Op.String() != "==" {
			continue
		}
		l, r := f.L, f.R
		if l.Op == "const" && l.Sym == "nil" {
			l, r = r, l
		}
		if !(r.Op == "const" && r.Sym == "nil") {
			continue
		}
		if m.Match(l) {
			return true, f.String()
		}
	}
	return false, ""
}

// ---------------------------------------------------------------------------
// Return classification.

// errResultIndex returns the index of the trailing error result, or -1.
func errResultIndex(fn *ssa.Function) int {
	res := fn.Signature.Results()
	if res.Len() == 0 {
		return -1
	}
	last := res.At(res.Len() - 1).Type()
	if types.Identical(last, types.Universe.Lookup("error").Type()) {
		return res.Len() - 1
	}
	return -1
}

type RetKind int

const (
	RetNil   RetKind = iota // returns a nil error for certain
	RetErr                  // returns a non-nil error for certain
	RetMaybe                // cannot tell
	RetNoErr                // function has no error result
)

// classifyReturn decides whether a return hands back a nil error.
func classifyReturn(ff *FuncFacts, ret *ssa.Return) RetKind {
	idx := errResultIndex(ret.Parent())
	if idx < 0 {
		return RetNoErr
	}
	if ret.Parent() != ff.Fn && isNewHelper(ret.Parent()) {
		return classifyErrValue(factsOf(ret.Parent()), ret.Results[idx], ret.Block(), 0)
	}
	return classifyErrValue(ff, ret.Results[idx], ret.Block(), 0)
}

func classifyErrValue(ff *FuncFacts, v ssa.Value, at *ssa.BasicBlock, depth int) RetKind {
	if depth > 6 {
		return RetMaybe
	}
	switch x := v.(type) {
	case *ssa.Const:
		if x.Value == nil {
			return RetNil
		}
	case *ssa.MakeInterface:
		return RetErr // a concrete value boxed into error
	case *ssa.Call:
		if g := newHelperCallee(x); g != nil {
			if k := errResultIndex(g); k >= 0 {
				kinds := map[RetKind]bool{}
				gf := factsOf(g)
				for _, r := range Returns1(g) {
					kinds[classifyErrValue(gf, r.Results[k], r.Block(), depth+1)] = true
				}
				if len(kinds) == 1 {
					for kk := range kinds {
						return kk
					}
				}
				return RetMaybe
			}
		}
		name := CalleeName(x.Common())
		if name == "fmt.Errorf" || name == "errors.New" || strings.HasSuffix(name, ".Wrap") || strings.HasSuffix(name, ".Wrapf") {
			return RetErr
		}
	case *ssa.Extract:
		if c, ok := x.Tuple.(*ssa.Call); ok {
			if g := newHelperCallee(c); g != nil && x.Index == errResultIndex(g) {
				kinds := map[RetKind]bool{}
				gf := factsOf(g)
				for _, r := range Returns1(g) {
					kinds[classifyErrValue(gf, r.Results[x.Index], r.Block(), depth+1)] = true
				}
				if len(kinds) == 1 {
					for kk := range kinds {
						return kk
					}
				}
			}
		}
	case *ssa.UnOp:
		if al, ok := x.X.(*ssa.Alloc); ok {
			if sv := reachingStore(al, x); sv != nil {
				return classifyErrValue(ff, sv, x.Block(), depth+1)
			}
		}
		if g, ok := x.X.(*ssa.Global); ok && strings.HasPrefix(g.Name(), "Err") || isErrGlobal(x.X) {
			return RetErr
		}
	case *ssa.Phi:
		kinds := map[RetKind]bool{}
		for _, e := range x.Edges {
			kinds[classifyErrValue(ff, e, at, depth+1)] = true
		}
		if len(kinds) == 1 {
			for k := range kinds {
				return k
			}
		}
		return RetMaybe
	}
	// value known non-nil / nil by a dominating test on the same value?
	t := ff.Term(v)
	for _, f := range ff.FactsAt(at) {
		if !f.IsCmp {
			continue
		}
		l, r := f.L, f.R
		if l.Op == "const" && l.Sym == "nil" {
			l, r = r, l
		}
		if !(r.Op == "const" && r.Sym == "nil") {
			continue
		}
		if l.V == v || l.String() == t.String() {
			if f.Op.String() == "!=" {
				return RetErr
			}
			if f.Op.String() == "==" {
				return RetNil
			}
		}
	}
	return RetMaybe
}

func isErrGlobal(v ssa.Value) bool {
	g, ok := v.(*ssa.Global)
	if !ok {
		return false
	}
	return strings.HasPrefix(g.Name(), "Err") || strings.HasPrefix(g.Name(), "err")
}

// Returns lists the Return instructions of fn.
// A return that hands back the results of a tail call to a new helper is replaced by that
// helper's returns (inter.go).
func Returns(fn *ssa.Function) []*ssa.Return {
	var out []*ssa.Return
	var rec func(f *ssa.Function, d int)
	rec = func(f *ssa.Function, d int) {
		for _, r := range Returns1(f) {
			if h := tailHelper(r); h != nil && h != f && d < maxHelperDepth {
				rec(h, d+1)
				continue
			}
			out = append(out, r)
		}
	}
	rec(fn, 0)
	return out
}

// ---------------------------------------------------------------------------
// Call sites.

type Site struct {
	Fn   *ssa.Function
	Call ssa.CallInstruction
}

// CallsIn lists call sites in fn (including go/defer) whose callee name matches.
// Calls made by new helpers that fn calls count as fn's (Site.Fn is then the helper).
func CallsIn(fn *ssa.Function, callee string) []Site {
	var out []Site
	for _, f := range funcAndHelpers(fn) {
		for _, b := range f.Blocks {
			for _, in := range b.Instrs {
				if c, ok := in.(ssa.CallInstruction); ok {
					if calleeMatches(CalleeName(c.Common()), callee) {
						out = append(out, Site{f, c})
					}
				}
			}
		}
	}
	return out
}

// AllCallsDeep lists the calls of fn and of the new helpers it reaches.
func AllCallsDeep(fn *ssa.Function) []ssa.CallInstruction {
	var out []ssa.CallInstruction
	for _, f := range funcAndHelpers(fn) {
		out = append(out, AllCalls(f)...)
	}
	return out
}

// AllCalls lists every call instruction in fn.
func AllCalls(fn *ssa.Function) []ssa.CallInstruction {
	var out []ssa.CallInstruction
	for _, b := range fn.Blocks {
		for _, in := range b.Instrs {
			if c, ok := in.(ssa.CallInstruction); ok {
				out = append(out, c)
			}
		}
	}
	return out
}

// CallersOf lists every own-module call site whose callee name matches
// (static and interface-invoke names; dynamic calls resolved through VTA when
// vtaToo is set).
func (p *Program) CallersOf(callee string) []Site {
	var out []Site
	for _, fn := range p.OwnFuncs {
		out = append(out, CallsIn(fn, callee)...)
	}
	return out
}

// CallersOfFunc lists call sites that may reach target (static, or dynamic via VTA).
func (p *Program) CallersOfFunc(target *ssa.Function) []Site {
	var out []Site
	n := p.CG().Nodes[target]
	if n == nil {
		return nil
	}
	seen := map[ssa.CallInstruction]bool{}
	for _, e := range n.In {
		if e.Site == nil || seen[e.Site] {
			continue
		}
		seen[e.Site] = true
		if IsOwn(e.Caller.Func) {
			out = append(out, Site{e.Caller.Func, e.Site})
		}
	}
	sort.Slice(out, func(i, j int) bool {
		a, b := FuncKey(out[i].Fn), FuncKey(out[j].Fn)
		if a != b {
			return a < b
		}
		return out[i].Call.Pos() < out[j].Call.Pos()
	})
	return out
}

// instrIndex returns the position of in within its block.
func instrIndex(in ssa.Instruction) int {
	for i, x := range in.Block().Instrs {
		if x == in {
			return i
		}
	}
	return -1
}

// instrDominates: a executes before b on every path reaching b.
func instrDominates(a, b ssa.Instruction) bool {
	if a.Parent() != b.Parent() {
		return instrDominatesCross(a, b)
	}
	if a.Block() == b.Block() {
		return instrIndex(a) < instrIndex(b)
	}
	return a.Block().Dominates(b.Block())
}

// completesThrough: a executes whenever its function (a new helper) returns without error.
func completesThrough(a ssa.Instruction) bool {
	f := a.Parent()
	ff := factsOf(f)
	for _, r := range Returns1(f) {
		if classifyReturn(ff, r) == RetErr || r.Block() == f.Recover {
			continue // (the recover block is where a panic in a deferred call lands)
		}
		if !(a.Block() == r.Block() || a.Block().Dominates(r.Block())) {
			return false
		}
	}
	return true
}

// instrDominatesCross: a and b live in different functions, one of them a new helper
// reached from the other. (A caller is assumed to stop when a helper reports an error.)
func instrDominatesCross(a, b ssa.Instruction) bool {
	fa, fb := a.Parent(), b.Parent()
	if chains := helperChains(fa, fb); len(chains) > 0 {
		// b inside a helper called from a's function: a must precede every call site
		for _, ch := range chains {
			if !instrDominates(a, ch[0]) {
				return false
			}
		}
		return true
	}
	if chains := helperChains(fb, fa); len(chains) > 0 {
		// a inside a helper: every call chain's first call precedes b, and a always
		// executes before the helper frames return
		for _, ch := range chains {
			if !instrDominates(ch[0], b) || !completesThrough(a) {
				return false
			}
			for _, c := range ch[1:] {
				if !completesThrough(c) {
					return false
				}
			}
		}
		return true
	}
	// a and b in two different helpers of one function (phases called one after the other):
	// in every common root, each call chain leading to a starts before each chain leading to b,
	// and a always executes before its helper frames return
	if isNewHelper(fa) && isNewHelper(fb) {
		common := 0
		for _, ra := range knownRootsOf(fa) {
			for _, rb := range knownRootsOf(fb) {
				if ra != rb {
					continue
				}
				common++
				for _, ca := range helperChains(ra, fa) {
					if !completesThrough(a) {
						return false
					}
					for _, c := range ca[1:] {
						if !completesThrough(c) {
							return false
						}
					}
					for _, cb := range helperChains(ra, fb) {
						if ca[0] == cb[0] || !instrDominates(ca[0], cb[0]) {
							return false
						}
					}
				}
			}
		}
		return common > 0
	}
	return false
}

// reachesReturnAvoiding searches forward from just after `from` for a path to
// a Return (optionally only returns accepted by retOK) that does not execute
// any instruction for which stop() is true. It returns the blocks of such a
// path, or nil when every path is intercepted.
//
// New helpers (inter.go) are walked through: a call to one intercepts the path when every
// way through the helper executes a stop instruction; a search that starts inside a new
// helper continues after its call sites. With a retOK filter (the rule is about successful
// exits) a helper's certainly-failing returns are not followed — its caller is taken to
// stop on the error.
func reachesReturnAvoiding(from ssa.Instruction, stop func(ssa.Instruction) bool, retOK func(*ssa.Return) bool) []*ssa.BasicBlock {
	ps := &pathSearch{stop: stop, retOK: retOK, passMemo: map[*ssa.Function]int{}}
	// a rule never names a new helper: when the starting point is a call to one, it is only a
	// position marker (first instruction of a block) and what the helper does counts
	if g := newHelperCallee(from); g != nil && !ps.helperPasses(g, 0) {
		return nil
	}
	return ps.run(from.Block(), instrIndex(from)+1, 0)
}

type pathSearch struct {
	inHelper bool // walking a helper on behalf of a caller: its returns end the sub-search
	stop     func(ssa.Instruction) bool
	retOK    func(*ssa.Return) bool
	passMemo map[*ssa.Function]int // 1: some path through the helper avoids stop, 2: none
	// blocked: branch edges of the caller that cannot be taken after the helper left through
	// the return the search came out of (err == nil after `return nil, err`, …)
	blocked map[[2]*ssa.BasicBlock]bool
}

// infeasibleAfter: the branch edges in the function of call site c that contradict helper
// return r (they test a result of c for a value r does not deliver).
func infeasibleAfter(c *ssa.Call, r *ssa.Return) map[[2]*ssa.BasicBlock]bool {
	out := map[[2]*ssa.BasicBlock]bool{}
	gf := factsOf(r.Parent())
	for _, e := range branchEdges(c.Parent()) {
		call, k, want := helperTest(e)
		if call != c || k >= len(r.Results) {
			continue
		}
		v := r.Results[k]
		may := true
		switch want {
		case "nil":
			may = classifyErrValue(gf, v, r.Block(), 0) != RetErr
		case "non-nil":
			may = classifyErrValue(gf, v, r.Block(), 0) != RetNil
		case "true", "false":
			if cst, ok := v.(*ssa.Const); ok && cst.Value != nil {
				may = cst.Value.ExactString() == want
			}
		}
		if !may {
			out[[2]*ssa.BasicBlock{e.From, e.To}] = true
		}
	}
	return out
}

// helperPasses: can control enter new helper g and come back without executing a stop?
func (ps *pathSearch) helperPasses(g *ssa.Function, depth int) bool {
	if v, ok := ps.passMemo[g]; ok {
		return v == 1
	}
	ps.passMemo[g] = 1 // recursion: assume passable
	sub := &pathSearch{stop: ps.stop, passMemo: ps.passMemo}
	if ps.retOK != nil {
		gf := factsOf(g)
		sub.retOK = func(r *ssa.Return) bool { return classifyReturn(gf, r) != RetErr }
	}
	sub.inHelper = true
	res := sub.run(g.Blocks[0], 0, depth+1) != nil
	if res {
		ps.passMemo[g] = 1
	} else {
		ps.passMemo[g] = 2
	}
	return res
}

func (ps *pathSearch) run(b0 *ssa.BasicBlock, start int, depth int) []*ssa.BasicBlock {
	type item struct {
		b    *ssa.BasicBlock
		path []*ssa.BasicBlock
	}
	// scan returns: stopped (path intercepted), ret (acceptable return reached)
	scan := func(b *ssa.BasicBlock, start int) (stopped bool, ret *ssa.Return) {
		for i := start; i < len(b.Instrs); i++ {
			in := b.Instrs[i]
			if ps.stop(in) {
				return true, nil
			}
			if g := newHelperCallee(in); g != nil && depth < maxHelperDepth {
				if !ps.helperPasses(g, depth) {
					return true, nil
				}
			}
			for _, cl := range closuresRunAt(in) {
				if depth < maxHelperDepth && !ps.helperPasses(cl, depth) {
					return true, nil
				}
			}
			if r, ok := in.(*ssa.Return); ok {
				if ps.retOK == nil || ps.retOK(r) {
					return false, r
				}
				return true, nil
			}
			if _, ok := in.(*ssa.Panic); ok {
				return true, nil
			}
		}
		return false, nil
	}
	finish := func(r *ssa.Return, path []*ssa.BasicBlock) []*ssa.BasicBlock {
		// a return of a new helper we started in: go on after each call site
		f := r.Parent()
		if ps.inHelper || !isNewHelper(f) || depth >= maxHelperDepth {
			return path
		}
		sites := callSitesOfHelper(f)
		if len(sites) == 0 {
			return path
		}
		if ps.retOK != nil && classifyReturn(factsOf(f), r) == RetErr {
			return nil
		}
		for _, c := range sites {
			if isTailCall(c) {
				// the caller returns exactly what the helper returned: this return is the exit
				return path
			}
			up := &pathSearch{stop: ps.stop, retOK: ps.retOK, passMemo: ps.passMemo, blocked: infeasibleAfter(c, r)}
			if p := up.run(c.Block(), instrIndex(c)+1, depth+1); p != nil {
				return append(append([]*ssa.BasicBlock{}, path...), p...)
			}
		}
		return nil
	}
	stopped, ret := scan(b0, start)
	if ret != nil {
		if p := finish(ret, []*ssa.BasicBlock{b0}); p != nil {
			return p
		}
		return nil
	}
	if stopped {
		return nil
	}
	seen := map[*ssa.BasicBlock]bool{}
	var work []item
	for _, s := range b0.Succs {
		if ps.blocked[[2]*ssa.BasicBlock{b0, s}] {
			continue
		}
		work = append(work, item{s, []*ssa.BasicBlock{b0, s}})
	}
	for len(work) > 0 {
		it := work[len(work)-1]
		work = work[:len(work)-1]
		if seen[it.b] {
			continue
		}
		seen[it.b] = true
		stopped, ret := scan(it.b, 0)
		if ret != nil {
			if p := finish(ret, it.path); p != nil {
				return p
			}
			continue
		}
		if stopped {
			continue
		}
		for _, s := range it.b.Succs {
			if !seen[s] && !ps.blocked[[2]*ssa.BasicBlock{it.b, s}] {
				np := append(append([]*ssa.BasicBlock{}, it.path...), s)
				work = append(work, item{s, np})
			}
		}
	}
	return nil
}

var helperSitesMemo = map[*ssa.Function][]*ssa.Call{}

// callSitesOfHelper: the static call sites of new helper g in production code.
func callSitesOfHelper(g *ssa.Function) []*ssa.Call {
	if v, ok := helperSitesMemo[g]; ok {
		return v
	}
	var out []*ssa.Call
	if g.Parent() != nil {
		// a function literal "is called" where it is handed to the helper that runs it, or
		// where it is invoked on the spot
		out = append(out, runByNewHelper(g)...)
		for _, b := range g.Parent().Blocks {
			for _, in := range b.Instrs {
				if c, ok := in.(*ssa.Call); ok {
					if mc, ok := c.Common().Value.(*ssa.MakeClosure); ok && mc.Fn == ssa.Value(g) {
						out = append(out, c)
					}
				}
			}
		}
		helperSitesMemo[g] = out
		return out
	}
	if theProgram != nil {
		for _, f := range theProgram.OwnFuncs {
			if !IsProd(f) {
				continue
			}
			for _, b := range f.Blocks {
				for _, in := range b.Instrs {
					if c, ok := in.(*ssa.Call); ok && c.Common().StaticCallee() == g {
						out = append(out, c)
					}
				}
			}
		}
	}
	helperSitesMemo[g] = out
	return out
}

// reachable reports whether block `to` can be reached from block `from`.
func reachable(from, to *ssa.BasicBlock) bool {
	seen := map[*ssa.BasicBlock]bool{}
	work := []*ssa.BasicBlock{from}
	for len(work) > 0 {
		b := work[len(work)-1]
		work = work[:len(work)-1]
		if b == to {
			return true
		}
		if seen[b] {
			continue
		}
		seen[b] = true
		work = append(work, b.Succs...)
	}
	return false
}

// deferredCalls lists calls deferred in fn (they run on every exit after the
// defer statement executed).
func deferredCalls(fn *ssa.Function) []*ssa.Defer {
	var out []*ssa.Defer
	for _, b := range fn.Blocks {
		for _, in := range b.Instrs {
			if d, ok := in.(*ssa.Defer); ok {
				out = append(out, d)
			}
		}
	}
	return out
}

// ---------------------------------------------------------------------------
// Transitive callee summaries on the own-module static+VTA graph.

// Reaches reports whether fn may (transitively, own-module callees only,
// bounded depth) execute a call whose callee name satisfies pred. Returns a
// witness chain.
func (p *Program) Reaches(fn *ssa.Function, pred func(name string, c ssa.CallInstruction) bool, depth int) []string {
	seen := map[*ssa.Function]bool{}
	var rec func(f *ssa.Function, d int) []string
	rec = func(f *ssa.Function, d int) []string {
		if f == nil || seen[f] || d > depth || len(f.Blocks) == 0 {
			return nil
		}
		seen[f] = true
		for _, c := range AllCalls(f) {
			name := CalleeName(c.Common())
			if pred(name, c) {
				return []string{FuncKey(f) + " → " + name + " @" + p.InstrPos(c)}
			}
		}
		for _, c := range AllCalls(f) {
			for _, g := range p.Callees(c) {
				if !IsOwn(g) {
					continue
				}
				if w := rec(g, d+1); w != nil {
					return append([]string{FuncKey(f) + " @" + p.InstrPos(c)}, w...)
				}
			}
		}
		// closures created here run on behalf of f
		for _, af := range f.AnonFuncs {
			if w := rec(af, d+1); w != nil {
				return append([]string{FuncKey(f) + " (closure)"}, w...)
			}
		}
		return nil
	}
	return rec(fn, 0)
}

// instrReachesAvoiding: is there a control-flow path from just after instruction a to
// instruction b that does not execute instruction avoid (avoid may equal a: then the path
// must not come back to it)?
func instrReachesAvoiding(a, b, avoid ssa.Instruction) bool {
	ab := a.Block()
	ia := instrIndex(a)
	// rest of a's block
	for i := ia + 1; i < len(ab.Instrs); i++ {
		if ab.Instrs[i] == b {
			return true
		}
		if ab.Instrs[i] == avoid {
			return false
		}
	}
	seen := map[*ssa.BasicBlock]bool{}
	work := append([]*ssa.BasicBlock{}, ab.Succs...)
	for len(work) > 0 {
		blk := work[len(work)-1]
		work = work[:len(work)-1]
		if seen[blk] {
			continue
		}
		seen[blk] = true
		stop := false
		for _, in := range blk.Instrs {
			if in == b {
				return true
			}
			if in == avoid {
				stop = true
				break
			}
		}
		if !stop {
			work = append(work, blk.Succs...)
		}
	}
	return false
}

// EveryPathHas: along every control-flow path from the function entry to blk, some branch
// edge carrying a fact accepted by ok is taken after which blk is still… reached — i.e. blk
// cannot be entered without passing such an edge. Generalises FactsAt (one dominating edge)
// to joins of alternatives (a || b, if/else arms that meet again).
func (ff *FuncFacts) EveryPathHas(blk *ssa.BasicBlock, ok func(Fact) bool) bool {
	return ff.EveryPathHasOr(blk, ok, nil)
}

// EveryPathHasOr: as EveryPathHas, and a path also counts when it executes an instruction
// accepted by instrOK before reaching blk (instructions of blk itself are not looked at).
func (ff *FuncFacts) EveryPathHasOr(blk *ssa.BasicBlock, ok func(Fact) bool, instrOK func(ssa.Instruction) bool) bool {
	for _, f := range ff.FactsAt(blk) {
		if ok(f) {
			return true
		}
	}
	hasInstr := func(b *ssa.BasicBlock) bool {
		if instrOK == nil {
			return false
		}
		for _, in := range b.Instrs {
			if instrOK(in) {
				return true
			}
		}
		return false
	}
	onStack := map[*ssa.BasicBlock]bool{}
	memo := map[*ssa.BasicBlock]bool{}
	var rec func(b *ssa.BasicBlock) bool
	rec = func(b *ssa.BasicBlock) bool {
		if v, done := memo[b]; done {
			return v
		}
		if onStack[b] {
			return true // a cycle adds no new way in
		}
		if len(b.Preds) == 0 {
			return false
		}
		onStack[b] = true
		res := true
		for _, p := range b.Preds {
			good := false
			for i, e := range ff.Edges {
				if e.From == p && e.To == b && p.Succs[0] != p.Succs[len(p.Succs)-1] && ok(ff.Facts[i]) {
					good = true
					break
				}
			}
			if !good && hasInstr(p) {
				good = true
			}
			if !good {
				good = rec(p)
			}
			if !good {
				res = false
				break
			}
		}
		delete(onStack, b)
		memo[b] = res
		return res
	}
	if blk.Parent() != ff.Fn {
		return false
	}
	return rec(blk)
}

// isTailCall: the call's results are returned as they are by the next return in its block.
func isTailCall(c *ssa.Call) bool {
	b := c.Block()
	for i := instrIndex(c) + 1; i < len(b.Instrs); i++ {
		switch x := b.Instrs[i].(type) {
		case *ssa.Extract:
			if x.Tuple != ssa.Value(c) {
				return false
			}
		case *ssa.Return:
			return tailHelper(x) == c.Common().StaticCallee()
		case *ssa.RunDefers, *ssa.DebugRef:
		case *ssa.Store:
			// defer-spilled result: the call's value (or an extract of it) goes into the result cell
			if _, isCell := x.Addr.(*ssa.Alloc); !isCell {
				return false
			}
		case *ssa.UnOp:
			if _, isCell := x.X.(*ssa.Alloc); !isCell {
				return false
			}
		default:
			return false
		}
	}
	return false
}

// chainTarget: the function a call chain ends in.
func chainTarget(ch []*ssa.Call) *ssa.Function {
	if len(ch) == 0 {
		return nil
	}
	last := ch[len(ch)-1]
	if g := calleeOf(last); g != nil && len(closuresRunAt(last)) == 0 {
		return g
	}
	return calleeOf(last)
}

// nonNilArgFacts: see factsAtForeign. f is a fact of the helper `target` (last callee of ch).
func nonNilArgFacts(ch []*ssa.Call, target *ssa.Function, f Fact, conv bool) []Fact {
	if !f.IsCmp || f.Op != token.NEQ || len(ch) == 0 {
		return nil
	}
	var pt *Term
	switch {
	case f.L != nil && f.L.Op == "param" && f.R != nil && f.R.Op == "const" && f.R.Sym == "nil":
		pt = f.L
	case f.R != nil && f.R.Op == "param" && f.L != nil && f.L.Op == "const" && f.L.Sym == "nil":
		pt = f.R
	default:
		return nil
	}
	call := ch[len(ch)-1]
	if calleeOf(call) != target {
		return nil
	}
	idx := -1
	for i, p := range target.Params {
		if pt.V == ssa.Value(p) {
			idx = i
		}
	}
	if idx < 0 || idx >= len(call.Call.Args) {
		return nil
	}
	phi, ok := stripConv(call.Call.Args[idx]).(*ssa.Phi)
	if !ok {
		return nil
	}
	cand := -1
	for k, e := range phi.Edges {
		if c, isC := e.(*ssa.Const); isC && c.Value == nil {
			continue
		}
		if cand >= 0 {
			return nil
		}
		cand = k
	}
	if cand < 0 || cand >= len(phi.Block().Preds) {
		return nil
	}
	caller := phi.Parent()
	cf := factsOfMode(caller, conv)
	var out []Fact
	for _, g := range cf.FactsOnEdge(phi.Block().Preds[cand], phi.Block()) {
		if len(ch) > 1 {
			g = liftFactAlong(ch[:len(ch)-1], caller, g, conv)
		}
		out = append(out, g)
	}
	return out
}
