package main

import (
	"go/types"
	"sort"
	"strings"

	"golang.org/x/tools/go/ssa"
)

// Edge is a CFG edge out of a two-way branch.
type Edge struct {
	From, To *ssa.BasicBlock
	If       *ssa.If
	Truth    bool
}

// edgeDominates: every path from entry to blk traverses edge e.
func edgeDominates(e Edge, blk *ssa.BasicBlock) bool {
	if !e.To.Dominates(blk) {
		return false
	}
	if len(e.From.Succs) == 2 && e.From.Succs[0] == e.From.Succs[1] {
		return false
	}
	for _, p := range e.To.Preds {
		if p == e.From {
			continue
		}
		if !e.To.Dominates(p) { // another way into e.To that is not a back edge
			return false
		}
	}
	return true
}

// branchEdges lists both out-edges of every If in fn.
func branchEdges(fn *ssa.Function) []Edge {
	var out []Edge
	for _, b := range fn.Blocks {
		if len(b.Instrs) == 0 {
			continue
		}
		if iff, ok := b.Instrs[len(b.Instrs)-1].(*ssa.If); ok && len(b.Succs) == 2 {
			out = append(out, Edge{b, b.Succs[0], iff, true}, Edge{b, b.Succs[1], iff, false})
		}
	}
	return out
}

// FuncFacts caches, per function, the fact carried by each branch edge.
type FuncFacts struct {
	Fn    *ssa.Function
	tb    *termBuilder
	Edges []Edge
	Facts []Fact
}

func factsOf(fn *ssa.Function) *FuncFacts {
	ff := &FuncFacts{Fn: fn, tb: newTB()}
	ff.Edges = branchEdges(fn)
	for _, e := range ff.Edges {
		ff.Facts = append(ff.Facts, factOf(ff.tb.of(e.If.Cond, 0), e.Truth))
	}
	return ff
}

func (ff *FuncFacts) Term(v ssa.Value) *Term { return ff.tb.of(v, 0) }

// FactsAt returns every fact known to hold whenever control reaches blk
// (facts of all edges that dominate it).
func (ff *FuncFacts) FactsAt(blk *ssa.BasicBlock) []Fact {
	var out []Fact
	for i, e := range ff.Edges {
		if edgeDominates(e, blk) {
			out = append(out, ff.Facts[i])
		}
	}
	return out
}

// FactsOnEdge returns the facts known when control flows from pred to blk:
// everything that holds at pred plus the branch fact of that very edge.
func (ff *FuncFacts) FactsOnEdge(pred, blk *ssa.BasicBlock) []Fact {
	out := ff.FactsAt(pred)
	for i, e := range ff.Edges {
		if e.From == pred && e.To == blk && pred.Succs[0] != pred.Succs[1] {
			out = append(out, ff.Facts[i])
		}
	}
	return out
}

// CmpHoldsOnEdge: some fact on the edge pred→blk entails the comparison.
func (ff *FuncFacts) CmpHoldsOnEdge(pred, blk *ssa.BasicBlock, c CmpSpec) (bool, string) {
	for _, f := range ff.FactsOnEdge(pred, blk) {
		if f.Entails(c) {
			return true, f.String()
		}
	}
	return false, ""
}

// CmpHoldsAt: some dominating edge fact entails the comparison.
func (ff *FuncFacts) CmpHoldsAt(blk *ssa.BasicBlock, c CmpSpec) (bool, string) {
	for _, f := range ff.FactsAt(blk) {
		if f.Entails(c) {
			return true, f.String()
		}
	}
	return false, ""
}

// BoolHoldsAt: some dominating edge carries boolean term m with the given truth.
func (ff *FuncFacts) BoolHoldsAt(blk *ssa.BasicBlock, m Matcher, truth bool) (bool, string) {
	for _, f := range ff.FactsAt(blk) {
		if !f.IsCmp && f.Truth == truth && m.Match(f.B) {
			return true, f.String()
		}
		// x == true / x != false forms, and non-integer comparisons
		if f.IsCmp {
			if m.Match(&Term{Op: "binop", Sym: f.Op.String(), Args: []*Term{f.L, f.R}}) && truth {
				return true, f.String()
			}
		}
	}
	return false, ""
}

// NilErrAt: at blk it is known that the error result of a call matching m is nil
// ("the call succeeded"). Recognises  err != nil → return  and  err == nil → here.
func (ff *FuncFacts) NilErrAt(blk *ssa.BasicBlock, m Matcher) (bool, string) {
	for _, f := range ff.FactsAt(blk) {
		if !f.IsCmp {
			continue
		}
		if f.Op.String() != "==" {
			continue
		}
		l, r := f.L, f.R
		if l.Op == "const" && l.Sym == "nil" {
			l, r = r, l
		}
		if !(r.Op == "const" && r.Sym == "nil") {
			continue
		}
		if m.Match(l) {
			return true, f.String()
		}
	}
	return false, ""
}

// ---------------------------------------------------------------------------
// Return classification.

// errResultIndex returns the index of the trailing error result, or -1.
func errResultIndex(fn *ssa.Function) int {
	res := fn.Signature.Results()
	if res.Len() == 0 {
		return -1
	}
	last := res.At(res.Len() - 1).Type()
	if types.Identical(last, types.Universe.Lookup("error").Type()) {
		return res.Len() - 1
	}
	return -1
}

type RetKind int

const (
	RetNil   RetKind = iota // returns a nil error for certain
	RetErr                  // returns a non-nil error for certain
	RetMaybe                // cannot tell
	RetNoErr                // function has no error result
)

// classifyReturn decides whether a return hands back a nil error.
func classifyReturn(ff *FuncFacts, ret *ssa.Return) RetKind {
	idx := errResultIndex(ff.Fn)
	if idx < 0 {
		return RetNoErr
	}
	return classifyErrValue(ff, ret.Results[idx], ret.Block(), 0)
}

func classifyErrValue(ff *FuncFacts, v ssa.Value, at *ssa.BasicBlock, depth int) RetKind {
	if depth > 6 {
		return RetMaybe
	}
	switch x := v.(type) {
	case *ssa.Const:
		if x.Value == nil {
			return RetNil
		}
	case *ssa.MakeInterface:
		return RetErr // a concrete value boxed into error
	case *ssa.Call:
		name := CalleeName(x.Common())
		if name == "fmt.Errorf" || name == "errors.New" || strings.HasSuffix(name, ".Wrap") || strings.HasSuffix(name, ".Wrapf") {
			return RetErr
		}
	case *ssa.UnOp:
		if al, ok := x.X.(*ssa.Alloc); ok {
			if sv := reachingStore(al, x); sv != nil {
				return classifyErrValue(ff, sv, x.Block(), depth+1)
			}
		}
		if g, ok := x.X.(*ssa.Global); ok && strings.HasPrefix(g.Name(), "Err") || isErrGlobal(x.X) {
			return RetErr
		}
	case *ssa.Phi:
		kinds := map[RetKind]bool{}
		for _, e := range x.Edges {
			kinds[classifyErrValue(ff, e, at, depth+1)] = true
		}
		if len(kinds) == 1 {
			for k := range kinds {
				return k
			}
		}
		return RetMaybe
	}
	// value known non-nil / nil by a dominating test on the same value?
	t := ff.Term(v)
	for _, f := range ff.FactsAt(at) {
		if !f.IsCmp {
			continue
		}
		l, r := f.L, f.R
		if l.Op == "const" && l.Sym == "nil" {
			l, r = r, l
		}
		if !(r.Op == "const" && r.Sym == "nil") {
			continue
		}
		if l.V == v || l.String() == t.String() {
			if f.Op.String() == "!=" {
				return RetErr
			}
			if f.Op.String() == "==" {
				return RetNil
			}
		}
	}
	return RetMaybe
}

func isErrGlobal(v ssa.Value) bool {
	g, ok := v.(*ssa.Global)
	if !ok {
		return false
	}
	return strings.HasPrefix(g.Name(), "Err") || strings.HasPrefix(g.Name(), "err")
}

// Returns lists the Return instructions of fn.
func Returns(fn *ssa.Function) []*ssa.Return {
	var out []*ssa.Return
	for _, b := range fn.Blocks {
		for _, in := range b.Instrs {
			if r, ok := in.(*ssa.Return); ok {
				out = append(out, r)
			}
		}
	}
	return out
}

// ---------------------------------------------------------------------------
// Call sites.

type Site struct {
	Fn   *ssa.Function
	Call ssa.CallInstruction
}

// CallsIn lists call sites in fn (including go/defer) whose callee name matches.
func CallsIn(fn *ssa.Function, callee string) []Site {
	var out []Site
	for _, b := range fn.Blocks {
		for _, in := range b.Instrs {
			if c, ok := in.(ssa.CallInstruction); ok {
				if calleeMatches(CalleeName(c.Common()), callee) {
					out = append(out, Site{fn, c})
				}
			}
		}
	}
	return out
}

// AllCalls lists every call instruction in fn.
func AllCalls(fn *ssa.Function) []ssa.CallInstruction {
	var out []ssa.CallInstruction
	for _, b := range fn.Blocks {
		for _, in := range b.Instrs {
			if c, ok := in.(ssa.CallInstruction); ok {
				out = append(out, c)
			}
		}
	}
	return out
}

// CallersOf lists every own-module call site whose callee name matches
// (static and interface-invoke names; dynamic calls resolved through VTA when
// vtaToo is set).
func (p *Program) CallersOf(callee string) []Site {
	var out []Site
	for _, fn := range p.OwnFuncs {
		out = append(out, CallsIn(fn, callee)...)
	}
	return out
}

// CallersOfFunc lists call sites that may reach target (static, or dynamic via VTA).
func (p *Program) CallersOfFunc(target *ssa.Function) []Site {
	var out []Site
	n := p.CG().Nodes[target]
	if n == nil {
		return nil
	}
	seen := map[ssa.CallInstruction]bool{}
	for _, e := range n.In {
		if e.Site == nil || seen[e.Site] {
			continue
		}
		seen[e.Site] = true
		if IsOwn(e.Caller.Func) {
			out = append(out, Site{e.Caller.Func, e.Site})
		}
	}
	sort.Slice(out, func(i, j int) bool {
		a, b := FuncKey(out[i].Fn), FuncKey(out[j].Fn)
		if a != b {
			return a < b
		}
		return out[i].Call.Pos() < out[j].Call.Pos()
	})
	return out
}

// instrIndex returns the position of in within its block.
func instrIndex(in ssa.Instruction) int {
	for i, x := range in.Block().Instrs {
		if x == in {
			return i
		}
	}
	return -1
}

// instrDominates: a executes before b on every path reaching b.
func instrDominates(a, b ssa.Instruction) bool {
	if a.Block() == b.Block() {
		return instrIndex(a) < instrIndex(b)
	}
	return a.Block().Dominates(b.Block())
}

// reachesReturnAvoiding searches forward from just after `from` for a path to
// a Return (optionally only returns accepted by retOK) that does not execute
// any instruction for which stop() is true. It returns the blocks of such a
// path, or nil when every path is intercepted.
func reachesReturnAvoiding(from ssa.Instruction, stop func(ssa.Instruction) bool, retOK func(*ssa.Return) bool) []*ssa.BasicBlock {
	type item struct {
		b    *ssa.BasicBlock
		path []*ssa.BasicBlock
	}
	scan := func(b *ssa.BasicBlock, start int) (stopped bool, ret *ssa.Return) {
		for i := start; i < len(b.Instrs); i++ {
			in := b.Instrs[i]
			if stop(in) {
				return true, nil
			}
			if r, ok := in.(*ssa.Return); ok {
				if retOK == nil || retOK(r) {
					return false, r
				}
				return true, nil
			}
			if _, ok := in.(*ssa.Panic); ok {
				return true, nil
			}
		}
		return false, nil
	}
	b0 := from.Block()
	stopped, ret := scan(b0, instrIndex(from)+1)
	if ret != nil {
		return []*ssa.BasicBlock{b0}
	}
	if stopped {
		return nil
	}
	seen := map[*ssa.BasicBlock]bool{}
	var work []item
	for _, s := range b0.Succs {
		work = append(work, item{s, []*ssa.BasicBlock{b0, s}})
	}
	for len(work) > 0 {
		it := work[len(work)-1]
		work = work[:len(work)-1]
		if seen[it.b] {
			continue
		}
		seen[it.b] = true
		stopped, ret := scan(it.b, 0)
		if ret != nil {
			return it.path
		}
		if stopped {
			continue
		}
		for _, s := range it.b.Succs {
			if !seen[s] {
				np := append(append([]*ssa.BasicBlock{}, it.path...), s)
				work = append(work, item{s, np})
			}
		}
	}
	return nil
}

// reachable reports whether block `to` can be reached from block `from`.
func reachable(from, to *ssa.BasicBlock) bool {
	seen := map[*ssa.BasicBlock]bool{}
	work := []*ssa.BasicBlock{from}
	for len(work) > 0 {
		b := work[len(work)-1]
		work = work[:len(work)-1]
		if b == to {
			return true
		}
		if seen[b] {
			continue
		}
		seen[b] = true
		work = append(work, b.Succs...)
	}
	return false
}

// deferredCalls lists calls deferred in fn (they run on every exit after the
// defer statement executed).
func deferredCalls(fn *ssa.Function) []*ssa.Defer {
	var out []*ssa.Defer
	for _, b := range fn.Blocks {
		for _, in := range b.Instrs {
			if d, ok := in.(*ssa.Defer); ok {
				out = append(out, d)
			}
		}
	}
	return out
}

// ---------------------------------------------------------------------------
// Transitive callee summaries on the own-module static+VTA graph.

// Reaches reports whether fn may (transitively, own-module callees only,
// bounded depth) execute a call whose callee name satisfies pred. Returns a
// witness chain.
func (p *Program) Reaches(fn *ssa.Function, pred func(name string, c ssa.CallInstruction) bool, depth int) []string {
	seen := map[*ssa.Function]bool{}
	var rec func(f *ssa.Function, d int) []string
	rec = func(f *ssa.Function, d int) []string {
		if f == nil || seen[f] || d > depth || len(f.Blocks) == 0 {
			return nil
		}
		seen[f] = true
		for _, c := range AllCalls(f) {
			name := CalleeName(c.Common())
			if pred(name, c) {
				return []string{FuncKey(f) + " → " + name + " @" + p.InstrPos(c)}
			}
		}
		for _, c := range AllCalls(f) {
			for _, g := range p.Callees(c) {
				if !IsOwn(g) {
					continue
				}
				if w := rec(g, d+1); w != nil {
					return append([]string{FuncKey(f) + " @" + p.InstrPos(c)}, w...)
				}
			}
		}
		// closures created here run on behalf of f
		for _, af := range f.AnonFuncs {
			if w := rec(af, d+1); w != nil {
				return append([]string{FuncKey(f) + " (closure)"}, w...)
			}
		}
		return nil
	}
	return rec(fn, 0)
}

// instrReachesAvoiding: is there a control-flow path from just after instruction a to
// instruction b that does not execute instruction avoid (avoid may equal a: then the path
// must not come back to it)?
func instrReachesAvoiding(a, b, avoid ssa.Instruction) bool {
	ab := a.Block()
	ia := instrIndex(a)
	// rest of a's block
	for i := ia + 1; i < len(ab.Instrs); i++ {
		if ab.Instrs[i] == b {
			return true
		}
		if ab.Instrs[i] == avoid {
			return false
		}
	}
	seen := map[*ssa.BasicBlock]bool{}
	work := append([]*ssa.BasicBlock{}, ab.Succs...)
	for len(work) > 0 {
		blk := work[len(work)-1]
		work = work[:len(work)-1]
		if seen[blk] {
			continue
		}
		seen[blk] = true
		stop := false
		for _, in := range blk.Instrs {
			if in == b {
				return true
			}
			if in == avoid {
				stop = true
				break
			}
		}
		if !stop {
			work = append(work, blk.Succs...)
		}
	}
	return false
}
