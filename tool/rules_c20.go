package main

import (
	"fmt"
	"go/token"
	"go/types"
	"sort"
	"strings"

	"golang.org/x/tools/go/ssa"
)

func inScope(fn *ssa.Function, prefixes []string) bool {
	if !IsProd(fn) {
		return false
	}
	k := FuncKey(fn)
	for _, pre := range prefixes {
		if strings.HasPrefix(k, pre+".") || strings.HasPrefix(k, pre+"/") {
			return true
		}
	}
	return false
}

var c20Scope = []string{"pkg/blockchain", "pkg/consensus", "pkg/event", "pkg/db", "pkg/router"}

func init() {
	register("C20", "Lock-set and capture analysis over every function of the chain/consensus/event/db packages (thorough: whole module): "+
		"(R1) no path acquires a mutex object that may already be held (W/W, R/W, W/R certain self-deadlock; R/R deadlocks once a writer queues — Go's RWMutex is writer-preferring), through callee summaries with parameter-relative lock paths; "+
		"(R2) the acquired-while-held graph between distinct mutexes is acyclic; "+
		"(R3) no unbounded wait (channel send/receive, select without default, Wait) while a mutex is held; "+
		"(R4) field-guard consistency: a field of a mutex-carrying struct that is written outside constructors is accessed with that struct's mutex held at every access; "+
		"(R5) a goroutine/errgroup body never assigns to, or map-updates, a variable captured by reference without a lock when several instances run (created in a loop) or the creator touches it before the join; per-index element slots are accepted; "+
		"(R6) inside a mutex-carrying type whose channels are closed under the mutex, every send/close on a channel happens under it (send-vs-close exclusion); "+
		"(R7) handles derived from one another that share guarded state share the mutex object; "+
		"(R8) a guarded field, or the slice/map it holds (including in-place sorts and element stores done by callees), is modified only with the mutex held exclusively.",
		func(c *Ctx) {
			runLockRules(c, "C20", c20Scope, true)
			checkCacheNeverEmptied(c, "C20.R12 readers-never-see-an-empty-cache")
			// (R7) handles derived from one another that share guarded state share the lock object
			checkSharedStateSharedLock(c, "C20.R7 shared-state-shared-lock", c20Scope, 1)
		})
}

// runLockRules is shared by C20 / C14 / C17 / C18 with different scopes.
func runLockRules(c *Ctx, prop string, scope []string, withCaptures bool) {
	if c.Tier == "thorough" && prop == "C20" {
		// whole-module sweep: observations outside the property's packages are
		// reported as notes (they are not part of what C20 states), never as violations
		inner := append([]string{}, scope...)
		sweep := NewCtx(c.P, prop, c.Tier)
		runLockRulesP(sweep, prop, func(fn *ssa.Function) bool { return IsProd(fn) && !inScope(fn, inner) }, func(owner string) bool {
			ownerPkg := "pkg/" + owner[:strings.LastIndex(owner, ".")]
			for _, pre := range inner {
				if ownerPkg == pre || strings.HasPrefix(ownerPkg, pre+"/") {
					return false
				}
			}
			return true
		}, withCaptures)
		n := 0
		for _, o := range sweep.Obs {
			n++
			if o.Status == "VIOLATED" {
				c.Notes = append(c.Notes, "out-of-scope observation (thorough sweep, informational): ["+o.Rule+"] "+o.Construct+" @"+o.Site)
			}
		}
		c.Count("out-of-scope obligations examined by the thorough sweep", n)
	}
	runLockRulesP(c, prop, func(fn *ssa.Function) bool { return inScope(fn, scope) }, func(owner string) bool {
		ownerPkg := "pkg/" + owner[:strings.LastIndex(owner, ".")]
		for _, pre := range scope {
			if ownerPkg == pre || strings.HasPrefix(ownerPkg, pre+"/") || pre == "pkg" {
				return true
			}
		}
		return false
	}, withCaptures)
}

// runLockRulesFuncs: the same rules on an explicit function set and owner-type list.
func runLockRulesFuncs(c *Ctx, prop string, fnPred func(*ssa.Function) bool, owners []string) {
	runLockRulesP(c, prop, func(fn *ssa.Function) bool { return IsProd(fn) && fnPred(fn) }, func(owner string) bool {
		for _, o := range owners {
			if o == owner {
				return true
			}
		}
		return false
	}, true)
}

func runLockRulesP(c *Ctx, prop string, fnPred func(*ssa.Function) bool, ownerPred func(string) bool, withCaptures bool) {
	p := c.P
	c.Trusted = append(c.Trusted, "VTA call graph for dynamic callees in lock summaries")
	c.Assume = append(c.Assume,
		"mutex instances are identified by access path relative to function parameters (no points-to analysis); two different objects of one type reached by the same path expression are not distinguished",
		"happens-before edges created by channels are not modelled; only mutexes, WaitGroup/errgroup joins")
	la := newLockAnalysis(p)
	var fns []*ssa.Function
	for _, fn := range p.OwnFuncs {
		if fnPred(fn) && len(fn.Blocks) > 0 {
			fns = append(fns, fn)
		}
	}
	c.Count("functions analysed", len(fns))
	nLockFns := 0
	orderGraph := map[string]map[string]bool{}
	for _, fn := range fns {
		hasLock := false
		tb := newTB()
		for _, call := range AllCalls(fn) {
			if _, _, ok := lockOp(tb, call); ok {
				hasLock = true
				break
			}
		}
		if !hasLock {
			continue
		}
		nLockFns++
		reports, edges := la.analyse(fn)
		for _, e := range edges {
			if orderGraph[e[0]] == nil {
				orderGraph[e[0]] = map[string]bool{}
			}
			orderGraph[e[0]][e[1]] = true
		}
		r1, r3 := 0, 0
		// what a new helper does under its own lock is what its known callers do: findings are
		// keyed by the caller (so a finding recorded against Publish still matches after Publish
		// was reduced to a forwarder to a locked helper)
		if isNewHelper(fn) {
			var attributed []LockReport
			for _, r := range reports {
				owners := knownCallersOf(p, fn, 0, map[*ssa.Function]bool{})
				if len(owners) == 0 {
					attributed = append(attributed, r)
					continue
				}
				for _, o := range owners {
					r2 := r
					r2.Construct = strings.Replace(r.Construct, FuncKey(fn), FuncKey(o), 1)
					r2.Chain = append([]string{FuncKey(o)}, r.Chain...)
					attributed = append(attributed, r2)
				}
			}
			reports = attributed
		}
		for _, r := range reports {
			switch r.Rule {
			case "R1":
				r1++
				c.Require(prop+".R1 no-reentrant-acquire", r.Construct, r.Site, "no acquire of a mutex that may already be held", false,
					"held: "+r.Held.String()+"; acquires "+r.What+" via "+strings.Join(r.Chain, " → "))
			case "R3":
				r3++
				c.Require(prop+".R3 no-blocking-under-lock", r.Construct, r.Site, "no unbounded wait while a mutex is held", false,
					"held: "+r.Held.String()+"; "+r.What+" via "+strings.Join(r.Chain, " → "))
			}
		}
		if r1 == 0 {
			c.Require(prop+".R1 no-reentrant-acquire", FuncKey(fn), p.Pos(fn.Pos()), "no acquire of a mutex that may already be held", true, "")
		}
		if r3 == 0 {
			c.Require(prop+".R3 no-blocking-under-lock", FuncKey(fn), p.Pos(fn.Pos()), "no unbounded wait while a mutex is held", true, "")
		}
	}
	c.MinInstances(prop+" functions with lock operations", nLockFns, 1)

	// R2 cycles
	{
		var nodes []string
		for n := range orderGraph {
			nodes = append(nodes, n)
		}
		sort.Strings(nodes)
		cyc := findCycle(orderGraph, nodes)
		ne := 0
		for _, m := range orderGraph {
			ne += len(m)
		}
		c.Count("lock-order edges", ne)
		c.Require(prop+".R2 lock-order-acyclic", "acquired-while-held graph", "-", "no cycle between distinct mutexes", cyc == nil, strings.Join(cyc, " → "))
	}

	// R4 field guards
	guarded := guardedStructs(p)
	var owners []string
	for o := range guarded {
		owners = append(owners, o)
	}
	sort.Strings(owners)
	nGuard := 0
	for _, owner := range owners {
		mf := guarded[owner]
		if !ownerPred(owner) {
			continue
		}
		// entry-held sets for unexported helpers: intersection over call sites (two rounds)
		entry := entryHeld(p, owner, mf)
		var acc []fieldAccess
		for _, fn := range p.OwnFuncs {
			if !IsProd(fn) || len(fn.Blocks) == 0 {
				continue
			}
			acc = append(acc, fieldAccesses(fn, owner, mf, entry[fn])...)
		}
		byField := map[string][]fieldAccess{}
		for _, a := range acc {
			byField[a.Field] = append(byField[a.Field], a)
		}
		var fields []string
		for f := range byField {
			fields = append(fields, f)
		}
		sort.Strings(fields)
		for _, f := range fields {
			as := byField[f]
			// a field is lock-protected when some write of it outside a
			// constructor happens with the struct's mutex held; fields only set
			// during Init/construction (before the value is shared) are not.
			protected := false
			for _, a := range as {
				if a.Write && !a.Fresh && a.Locked {
					protected = true
				}
			}
			if !protected {
				continue
			}
			nGuard++
			bad := 0
			// R8: a write holds the lock exclusively — a shared (read) lock does not exclude other readers
			for _, a := range as {
				if a.Write && a.Locked && !a.Fresh && a.Mode == 'R' {
					bad++
					c.Require(prop+".R8 write-under-exclusive-lock", owner+"."+f+" write in "+FuncKey(a.Fn), p.InstrPos(a.Instr), "a guarded field (or the slice/map it holds) is modified only with "+owner+"."+mf+" held exclusively, never under RLock", false, "held in read mode only")
				}
			}
			for _, a := range as {
				if a.Locked || a.Fresh {
					continue
				}
				if ex, ok := guardExceptions[owner+"."+f+"@"+FuncKey(a.Fn)]; ok {
					// checked exception: every call site of the function must hold the named outer lock exclusively
					good, why := callersHold(p, a.Fn, ex.outer)
					c.Require(prop+".R4 field-guard-exception", owner+"."+f+" in "+FuncKey(a.Fn)+" (callers hold "+ex.outer+")", p.InstrPos(a.Instr), ex.reason, good, why)
					if good {
						continue
					}
				}
				bad++
				rw := "read"
				if a.Write {
					rw = "write"
				}
				c.Require(prop+".R4 field-guard", owner+"."+f+" "+rw+" in "+FuncKey(a.Fn), p.InstrPos(a.Instr),
					"every access of a lock-protected, mutated field holds "+owner+"."+mf, false, "")
			}
			if bad == 0 {
				c.Require(prop+".R4 field-guard", owner+"."+f, "-", fmt.Sprintf("all %d accesses hold %s.%s", len(as), owner, mf), true, "")
			}
		}
		// R9: what was read from a guarded field under the lock is not carried, after the lock
		// has been given up, into a call that takes the same object's lock again (two critical
		// sections where the state read in the first may be gone in the second)
		{
			protected := map[string]bool{}
			for _, f := range fields {
				for _, a := range byField[f] {
					if a.Write && !a.Fresh && a.Locked {
						protected[f] = true
					}
				}
			}
			la9 := newLockAnalysis(p)
			nRead := 0
			nRead10 := 0
			for _, fn := range p.OwnFuncs {
				if !IsProd(fn) || len(fn.Blocks) == 0 {
					continue
				}
				lf := lockFlow(fn, entry[fn])
				for _, b := range fn.Blocks {
					for _, in := range b.Instrs {
						fa, ok := in.(*ssa.FieldAddr)
						if !ok {
							continue
						}
						o, st := ownerOfFieldBase(fa.X.Type())
						if o != owner || st == nil || !protected[fieldNameOf(st.Field(fa.Field))] {
							continue
						}
						base := stripFree(lf.tb.of(fa.X, 0)).String()
						wantPath := base + "." + mf
						heldAt := func(i ssa.Instruction) bool {
							for _, h := range lf.Must[i] {
								if h.Path == wantPath {
									return true
								}
							}
							return false
						}
						if !heldAt(in) {
							continue
						}
						// values computed from the loaded field (no further memory reads)
						derived := map[ssa.Value]bool{}
						var grow func(v ssa.Value, d int)
						grow = func(v ssa.Value, d int) {
							if derived[v] || d > 6 {
								return
							}
							derived[v] = true
							if refs := v.Referrers(); refs != nil {
								for _, r := range *refs {
									switch x := r.(type) {
									case *ssa.Convert, *ssa.ChangeType, *ssa.BinOp, *ssa.Phi, *ssa.MakeInterface:
										grow(x.(ssa.Value), d+1)
									}
								}
							}
						}
						for _, r := range *fa.Referrers() {
							if ld, ok := r.(*ssa.UnOp); ok && ld.Op == token.MUL {
								if _, isBasic := ld.Type().Underlying().(*types.Basic); isBasic {
									nRead++
									grow(ld, 0)
								}
							}
						}
						// R10: a value read from the guarded field under the lock, worked on after the
						// lock was given up, is not written back to that field under a later
						// acquisition — whatever other holders stored in between would be overwritten
						{
							stale := map[ssa.Value]bool{} // derived, and some step on the way ran without the lock
							seen10 := map[ssa.Value]bool{}
							var follow func(v ssa.Value, unlocked bool, d int)
							follow = func(v ssa.Value, unlocked bool, d int) {
								if d > 8 || (seen10[v] && (!unlocked || stale[v])) {
									return
								}
								seen10[v] = true
								if unlocked {
									stale[v] = true
								}
								refs := v.Referrers()
								if refs == nil {
									return
								}
								for _, r := range *refs {
									switch x := r.(type) {
									case *ssa.Call:
										// the value is handed to a function that gives a value back (filter, copy, sort…)
										if x.Type() != nil {
											if _, isTuple := x.Type().(*types.Tuple); !isTuple || x.Type().(*types.Tuple).Len() > 0 {
												follow(x, unlocked || !heldAt(x), d+1)
											}
										}
									case *ssa.Slice, *ssa.Phi, *ssa.Convert, *ssa.ChangeType, *ssa.BinOp, *ssa.Extract:
										follow(x.(ssa.Value), unlocked || !heldAt(r), d+1)
									case *ssa.Store:
										if x.Val != v || !stale[v] {
											continue
										}
										fa2, ok := x.Addr.(*ssa.FieldAddr)
										if !ok || fa2.Field != fa.Field {
											continue
										}
										if o2, _ := ownerOfFieldBase(fa2.X.Type()); o2 != owner {
											continue
										}
										if stripFree(lf.tb.of(fa2.X, 0)).String() != base || !heldAt(x) {
											continue
										}
										c.Require(prop+".R10 no-stale-write-back", FuncKey(fn)+": "+owner+"."+fieldNameOf(st.Field(fa.Field))+" read under the lock, recomputed without it, stored back under a later acquisition", p.InstrPos(x),
											"a guarded field is rewritten from a value read under the same acquisition of "+owner+"."+mf+" (read, compute and write in one critical section)", false, "read at "+p.InstrPos(in))
									}
								}
							}
							for _, r := range *fa.Referrers() {
								if ld, ok := r.(*ssa.UnOp); ok && ld.Op == token.MUL && heldAt(ld) {
									nRead10++
									follow(ld, false, 0)
								}
							}
						}
						for v := range derived {
							refs := v.Referrers()
							if refs == nil {
								continue
							}
							for _, r := range *refs {
								call, isCall := r.(*ssa.Call)
								if !isCall || heldAt(call) {
									continue
								}
								g := call.Common().StaticCallee()
								if g == nil || !IsOwn(g) || len(g.Blocks) == 0 {
									continue
								}
								var args []*Term
								for _, a := range call.Common().Args {
									args = append(args, lf.tb.of(a, 0))
								}
								for _, a := range la9.summary(g).Acquires {
									path, _ := lockPath(substParams(a.Ref.T, args))
									if path == wantPath {
										c.Require(prop+".R9 one-critical-section", FuncKey(fn)+": "+owner+"."+fieldNameOf(st.Field(fa.Field))+" read under the lock, used by "+FuncName(g)+" under a second acquisition", p.InstrPos(call),
											"a value read from a guarded field is used under the same acquisition of "+owner+"."+mf+", not after releasing and re-taking it (the state it described may be gone)", false, "read at "+p.InstrPos(in))
									}
								}
							}
						}
					}
				}
			}
			c.Count("guarded scalar reads followed for "+owner, nRead)
			c.Count("guarded reads followed to a write-back for "+owner, nRead10)
		}
		// R6 send/close discipline
		checkChanDiscipline(c, prop, owner, mf)
	}
	c.Count("guarded fields", nGuard)
	checkDecideAndAct(c, prop, fnPred)

	// R5 captures
	if withCaptures {
		nSp := 0
		for _, fn := range fns {
			for _, sp := range spawnsIn(fn) {
				nSp++
				ws := sharedWrites(sp)
				bad := 0
				for _, w := range ws {
					if w.Locked || w.Kind == "element" {
						continue
					}
					touch, at := parentTouchesAfter(sp, w.Binding)
					if !sp.InLoop && !touch {
						continue
					}
					bad++
					why := ""
					if sp.InLoop {
						why = "several instances of this body run concurrently (created in a loop)"
					}
					if touch {
						why += "; creator accesses the variable after the spawn without a join at " + p.InstrPos(at)
					}
					c.Require(prop+".R5 no-racy-captured-write", FuncKey(sp.Parent)+": "+sp.Kind+" body "+w.Kind+" of captured "+w.Var, p.InstrPos(w.Instr),
						"no unsynchronised write to a variable captured by reference", false, why)
				}
				if bad == 0 {
					c.Require(prop+".R5 no-racy-captured-write", FuncKey(sp.Parent)+": "+sp.Kind+" body "+FuncKey(sp.Closure), p.InstrPos(sp.Instr),
						"no unsynchronised write to a variable captured by reference", true, fmt.Sprintf("%d captured-variable writes, all element slots or locked", len(ws)))
				}
			}
		}
		c.Count("goroutine bodies", nSp)
	}
}

type guardException struct{ outer, reason string }

// guardExceptions: accesses without the struct's own mutex that are safe
// because an outer lock serialises them; each row is re-verified on every run.
var guardExceptions = map[string]guardException{
	"txpool.addressTransactions.nonces@pkg/txpool.(*addressTransactions).Size": {"txpool.TransactionPool.mutex", "Size() is only called with the pool's write lock held, and every writer of nonces runs under the pool's write lock too"},
}

// callersHold: every call site of fn must-holds a W lock with the given TypeID.
func callersHold(p *Program, fn *ssa.Function, typeID string) (bool, string) {
	sites := p.callSitesOf(fn)
	if len(sites) == 0 {
		return false, "no call sites"
	}
	for _, s := range sites {
		if !IsProd(s.Fn) {
			continue
		}
		lf := lockFlow(s.Fn, heldSet{})
		ok := false
		for _, h := range lf.Must[s.Call.(ssa.Instruction)] {
			if h.TypeID == typeID && h.Mode == 'W' {
				ok = true
			}
		}
		if !ok && depthOK(s.Fn) {
			// the calling function is itself only called with the lock held (unexported helper)
			if s.Fn.Object() != nil && !s.Fn.Object().Exported() {
				ok, _ = callersHoldDepth(p, s.Fn, typeID, 1)
			}
		}
		if !ok {
			return false, "call site " + p.InstrPos(s.Call) + " in " + FuncKey(s.Fn) + " does not hold " + typeID
		}
	}
	return true, fmt.Sprintf("%d call sites", len(sites))
}

func depthOK(*ssa.Function) bool { return true }

func callersHoldDepth(p *Program, fn *ssa.Function, typeID string, depth int) (bool, string) {
	if depth > 3 {
		return false, "call chain too deep"
	}
	sites := p.callSitesOf(fn)
	if len(sites) == 0 {
		return false, "no call sites"
	}
	for _, s := range sites {
		if !IsProd(s.Fn) {
			continue
		}
		lf := lockFlow(s.Fn, heldSet{})
		ok := false
		for _, h := range lf.Must[s.Call.(ssa.Instruction)] {
			if h.TypeID == typeID && h.Mode == 'W' {
				ok = true
			}
		}
		if !ok && s.Fn.Object() != nil && !s.Fn.Object().Exported() {
			ok, _ = callersHoldDepth(p, s.Fn, typeID, depth+1)
		}
		if !ok {
			return false, "call site " + p.InstrPos(s.Call) + " in " + FuncKey(s.Fn) + " does not hold " + typeID
		}
	}
	return true, ""
}

func findCycle(g map[string]map[string]bool, nodes []string) []string {
	color := map[string]int{}
	var stack []string
	var res []string
	var dfs func(n string) bool
	dfs = func(n string) bool {
		color[n] = 1
		stack = append(stack, n)
		var succ []string
		for m := range g[n] {
			succ = append(succ, m)
		}
		sort.Strings(succ)
		for _, m := range succ {
			if color[m] == 1 {
				for i, s := range stack {
					if s == m {
						res = append(append([]string{}, stack[i:]...), m)
						return true
					}
				}
			}
			if color[m] == 0 && dfs(m) {
				return true
			}
		}
		stack = stack[:len(stack)-1]
		color[n] = 2
		return false
	}
	for _, n := range nodes {
		if color[n] == 0 && dfs(n) {
			return res
		}
	}
	return nil
}

// entryHeld computes, for unexported methods/functions that access `owner`,
// the locks held at every one of their call sites (so helpers documented as
// "caller holds the lock" are analysed with it held).
func entryHeld(p *Program, owner, mf string) map[*ssa.Function]heldSet {
	out := map[*ssa.Function]heldSet{}
	for iter := 0; iter < 2; iter++ {
		entryHeldMethods(p, out)
		entryHeldClosures(p, out)
	}
	return out
}

func entryHeldMethods(p *Program, out map[*ssa.Function]heldSet) {
	for round := 0; round < 3; round++ {
		changed := false
		for _, fn := range p.OwnFuncs {
			if !IsProd(fn) || len(fn.Blocks) == 0 || fn.Object() == nil || fn.Object().Exported() {
				continue
			}
			if fn.Signature.Recv() == nil {
				continue
			}
			sites := p.callSitesOf(fn)
			if len(sites) == 0 {
				continue
			}
			var common heldSet
			first := true
			for _, s := range sites {
				if _, isGo := s.Call.(*ssa.Go); isGo {
					common = heldSet{}
					first = false
					break
				}
				lf := lockFlow(s.Fn, out[s.Fn])
				h := lf.Must[s.Call.(ssa.Instruction)]
				// translate caller paths to callee-relative: only the receiver path is translated
				tr := heldSet{}
				if len(s.Call.Common().Args) > 0 && !s.Call.Common().IsInvoke() {
					recv := stripFree(lf.tb.of(ArgK(s.Call, 0), 0)).String()
					for _, l := range h {
						if strings.HasPrefix(l.Path, recv+".") {
							np := "p0" + strings.TrimPrefix(l.Path, recv)
							tr[np+"/"+string(l.Mode)] = LockRef{Path: np, TypeID: l.TypeID, Mode: l.Mode}
						}
					}
				}
				if first {
					common = tr
					first = false
				} else {
					for k := range common {
						if _, ok := tr[k]; !ok {
							delete(common, k)
						}
					}
				}
			}
			if !sameKeys(out[fn], common) {
				out[fn] = common
				changed = true
			}
		}
		if !changed {
			break
		}
	}
}

func entryHeldClosures(p *Program, out map[*ssa.Function]heldSet) {
	// function literals handed to a helper that runs them with a lock held
	// (withLock(func(){ … })): the literal starts with what the caller holds at the call plus
	// what the helper holds when it invokes its function parameter
	for _, fn := range p.OwnFuncs {
		if !IsProd(fn) || len(fn.Blocks) == 0 || fn.Parent() == nil {
			continue
		}
		par := fn.Parent()
		for _, b := range par.Blocks {
			for _, in := range b.Instrs {
				mc, ok := in.(*ssa.MakeClosure)
				if !ok || mc.Fn != ssa.Value(fn) {
					continue
				}
				for _, r := range *mc.Referrers() {
					call, ok := r.(*ssa.Call)
					if !ok {
						continue
					}
					h := call.Common().StaticCallee()
					if h == nil || !IsOwn(h) || len(h.Blocks) == 0 {
						continue
					}
					k := -1
					for i, a := range call.Common().Args {
						if a == ssa.Value(mc) {
							k = i
						}
					}
					if k < 0 || k >= len(h.Params) {
						continue
					}
					// what does the helper hold when it calls parameter k?
					hlf := lockFlow(h, out[h])
					var atInvoke heldSet
					for _, hb := range h.Blocks {
						for _, hin := range hb.Instrs {
							if dc, ok := hin.(*ssa.Call); ok && dc.Common().Value == ssa.Value(h.Params[k]) {
								atInvoke = hlf.Must[hin]
							}
						}
					}
					plf := lockFlow(par, out[par])
					held := heldSet{}
					for key, l := range plf.Must[call] {
						held[key] = l
					}
					if len(call.Common().Args) > 0 && len(atInvoke) > 0 {
						recv := stripFree(plf.tb.of(ArgK(call, 0), 0)).String()
						for _, l := range atInvoke {
							if strings.HasPrefix(l.Path, "p0.") {
								np := recv + strings.TrimPrefix(l.Path, "p0")
								held[np+"/"+string(l.Mode)] = LockRef{Path: np, TypeID: l.TypeID, Mode: l.Mode}
							}
						}
					}
					// express the paths the way the literal sees the captured variables
					clf := lockFlow(fn, nil)
					tr := heldSet{}
					for _, l := range held {
						np := l.Path
						for i, bnd := range mc.Bindings {
							if i >= len(fn.FreeVars) {
								continue
							}
							outer := ""
							var inner *Term
							if al, isAl := bnd.(*ssa.Alloc); isAl {
								if sv := uniqueStore(al); sv != nil {
									outer = stripFree(plf.tb.of(sv, 0)).String()
								}
								for _, fr := range *fn.FreeVars[i].Referrers() {
									if ld, isLd := fr.(*ssa.UnOp); isLd && ld.X == ssa.Value(fn.FreeVars[i]) {
										inner = stripFree(clf.tb.of(ld, 0))
									}
								}
							} else {
								outer = stripFree(plf.tb.of(bnd, 0)).String()
								inner = stripFree(clf.tb.of(fn.FreeVars[i], 0))
							}
							if outer != "" && inner != nil && (np == outer || strings.HasPrefix(np, outer+".")) {
								np = inner.String() + strings.TrimPrefix(np, outer)
							}
						}
						tr[np+"/"+string(l.Mode)] = LockRef{Path: np, TypeID: l.TypeID, Mode: l.Mode}
					}
					if len(tr) > 0 {
						out[fn] = tr
					}
				}
			}
		}
	}
}

// checkChanDiscipline: R6.
func checkChanDiscipline(c *Ctx, prop, owner, mf string) {
	p := c.P
	type chanOp struct {
		fn     *ssa.Function
		in     ssa.Instruction
		kind   string
		locked bool
	}
	var ops []chanOp
	closesUnderLock := false
	entry := entryHeld(p, owner, mf)
	for _, fn := range p.OwnFuncs {
		if !IsProd(fn) || len(fn.Blocks) == 0 {
			continue
		}
		// methods of the owner, and the function literals inside them
		top := fn
		for top.Parent() != nil {
			top = top.Parent()
		}
		if top.Signature.Recv() == nil {
			continue
		}
		if o, _ := ownerOfFieldBase(top.Signature.Recv().Type()); o != owner {
			continue
		}
		if fn.Parent() != nil {
			if _, isGoBody := goBodies(p)[fn]; isGoBody {
				continue // goroutine bodies start with nothing held and are judged by their own lock operations below
			}
		}
		lf := lockFlow(fn, entry[fn])
		for _, b := range fn.Blocks {
			for _, in := range b.Instrs {
				kind := ""
				switch x := in.(type) {
				case *ssa.Send:
					kind = "send"
				case *ssa.Call:
					if CalleeName(x.Common()) == "builtin:close" {
						kind = "close"
					}
				}
				if kind == "" {
					continue
				}
				locked := false
				for _, h := range lf.Must[in] {
					// close needs the exclusive lock; a send is excluded from a
					// concurrent close by either mode
					if (h.Path == "p0."+mf || h.TypeID == owner+"."+mf) && (h.Mode == 'W' || kind == "send") {
						locked = true
					}
				}
				if kind == "close" && locked {
					closesUnderLock = true
				}
				ops = append(ops, chanOp{fn, in, kind, locked})
			}
		}
	}
	if !closesUnderLock {
		return
	}
	for _, o := range ops {
		c.Require(prop+".R6 send-close-exclusion", FuncKey(o.fn)+": "+o.kind, p.InstrPos(o.in),
			"channels of "+owner+" are closed under its mutex, so every close must hold it exclusively and every send must hold it (send on closed channel panics)", o.locked, "")
	}
}

var goBodiesMemo map[*ssa.Function]bool

// goBodies: function literals started with `go`.
func goBodies(p *Program) map[*ssa.Function]bool {
	if goBodiesMemo != nil {
		return goBodiesMemo
	}
	goBodiesMemo = map[*ssa.Function]bool{}
	for _, fn := range p.OwnFuncs {
		for _, b := range fn.Blocks {
			for _, in := range b.Instrs {
				if g, ok := in.(*ssa.Go); ok {
					switch v := g.Common().Value.(type) {
					case *ssa.MakeClosure:
						if f, ok := v.Fn.(*ssa.Function); ok {
							goBodiesMemo[f] = true
						}
					case *ssa.Function:
						goBodiesMemo[v] = true
					}
				}
			}
		}
	}
	return goBodiesMemo
}

// knownCallersOf: the functions of the reference table that (through new helpers only) call g.
func knownCallersOf(p *Program, g *ssa.Function, depth int, seen map[*ssa.Function]bool) []*ssa.Function {
	if depth > 4 || seen[g] {
		return nil
	}
	seen[g] = true
	var out []*ssa.Function
	have := map[*ssa.Function]bool{}
	for _, site := range p.callSitesOf(g) {
		if !IsProd(site.Fn) {
			continue
		}
		if isNewHelper(site.Fn) {
			for _, o := range knownCallersOf(p, site.Fn, depth+1, seen) {
				if !have[o] {
					have[o] = true
					out = append(out, o)
				}
			}
			continue
		}
		if !have[site.Fn] {
			have[site.Fn] = true
			out = append(out, site.Fn)
		}
	}
	sort.Slice(out, func(i, j int) bool { return FuncKey(out[i]) < FuncKey(out[j]) })
	return out
}

// checkDecideAndAct — R11. A function that gives its lock up and takes it again must not
// write guarded state in the second critical section because of what a read of that state
// said in the first: between the two, another holder may have written the very entry (a
// cache miss decided before an unlocked store read, then `cache(key, staleValue)` after
// re-locking, overwrites what a transaction staged in between). Instances: calls of a
// mutating method on a lock-guarded component (a pointer field of a struct that also has the
// mutex) that are control-dependent on the result of a method call on the same component
// made before an explicit Unlock that dominates the write.
func checkDecideAndAct(c *Ctx, prop string, fnPred func(*ssa.Function) bool) {
	p := c.P
	n := 0
	for _, fn := range p.OwnFuncs {
		if !fnPred(fn) || len(fn.Blocks) == 0 {
			continue
		}
		tb := newTB()
		// explicit unlocks in this function
		type unl struct {
			in   ssa.Instruction
			path string
		}
		var unlocks []unl
		var locks []unl
		for _, call := range AllCalls(fn) {
			if _, isDefer := call.(*ssa.Defer); isDefer {
				continue
			}
			if ref, acq, ok := lockOp(tb, call); ok {
				if acq {
					locks = append(locks, unl{call, ref.Path})
				} else {
					unlocks = append(unlocks, unl{call, ref.Path})
				}
			}
		}
		if len(unlocks) == 0 || len(locks) < 2 {
			continue
		}
		ff := factsOf(fn)
		// component calls: receiver is a load of a pointer field of the struct that owns the mutex
		compOf := func(call ssa.CallInstruction) (string, bool) {
			g := call.Common().StaticCallee()
			if g == nil || !IsOwn(g) || call.Common().Signature().Recv() == nil || len(call.Common().Args) == 0 {
				return "", false
			}
			t := tb.of(call.Common().Args[0], 0)
			if t.Op != "field" || len(t.Args) != 1 {
				return "", false
			}
			return t.String(), true
		}
		for _, w := range AllCalls(fn) {
			comp, ok := compOf(w)
			if !ok || !calleeWritesReceiver(w.Common().StaticCallee(), 0) {
				continue
			}
			// an unlock that dominates the write, and a re-lock between that unlock and the write
			for _, u := range unlocks {
				if !instrDominates(u.in, w) {
					continue
				}
				relocked := false
				var relocks []ssa.Instruction
				for _, l := range locks {
					if l.path == u.path && instrDominates(u.in, l.in) && instrDominates(l.in, w) {
						relocked = true
						relocks = append(relocks, l.in)
					}
				}
				if !relocked {
					continue
				}
				// is the write control-dependent on a read of the same component made before the unlock?
				for _, f := range ff.FactsAt(w.Block()) {
					var hit *Term
					probe := func(t *Term) {
						if t == nil {
							return
						}
						t.Walk(func(x *Term) bool {
							if x.Op == "call" && len(x.Args) >= 1 && x.Args[0].String() == comp && x.Call != nil {
								if ci, ok := x.Call.(ssa.Instruction); ok && instrDominates(ci, u.in) {
									hit = x
								}
							}
							return true
						})
					}
					if f.IsCmp {
						probe(f.L)
						probe(f.R)
					} else {
						probe(f.B)
					}
					if hit != nil {
						// double-checked: the same question is asked again under the second acquisition
						// and the write depends on that answer too — the decision is then made and acted
						// on in one critical section
						again := false
						for _, f2 := range ff.FactsAt(w.Block()) {
							chk := func(t *Term) {
								if t == nil {
									return
								}
								t.Walk(func(x *Term) bool {
									if x.Op == "call" && x.Sym == hit.Sym && len(x.Args) >= 1 && x.Args[0].String() == comp && x.Call != nil {
										if ci, ok := x.Call.(ssa.Instruction); ok {
											for _, l := range relocks {
												if instrDominates(l, ci) {
													again = true
												}
											}
										}
									}
									return true
								})
							}
							if f2.IsCmp {
								chk(f2.L)
								chk(f2.R)
							} else {
								chk(f2.B)
							}
						}
						if again {
							continue
						}
						n++
						c.Require(prop+".R11 decide-and-act-in-one-critical-section", FuncKey(fn)+": "+CalleeName(w.Common())+" after re-locking", p.InstrPos(w), "guarded state is not written under a second acquisition because of what a read under the first one said ("+f.String()+")", false, "lock given up at "+p.InstrPos(u.in))
						break
					}
				}
			}
		}
	}
	c.Count("decide-and-act findings", n)
}

// calleeWritesReceiver: g (or an own callee, to a small depth) stores through its receiver.
func calleeWritesReceiver(g *ssa.Function, depth int) bool {
	if g == nil || len(g.Blocks) == 0 || depth > 2 || len(g.Params) == 0 {
		return false
	}
	recv := g.Params[0]
	for _, b := range g.Blocks {
		for _, in := range b.Instrs {
			switch x := in.(type) {
			case *ssa.MapUpdate:
				if strings.HasPrefix(T(x.Map).String(), "p0.") {
					return true
				}
			case *ssa.Store:
				if fa, ok := x.Addr.(*ssa.FieldAddr); ok && fa.X == ssa.Value(recv) {
					return true
				}
			case ssa.CallInstruction:
				if h := x.Common().StaticCallee(); h != nil && IsOwn(h) && len(x.Common().Args) > 0 && x.Common().Args[0] == ssa.Value(recv) && calleeWritesReceiver(h, depth+1) {
					return true
				}
				if bi, ok := x.Common().Value.(*ssa.Builtin); ok && bi.Name() == "delete" && strings.HasPrefix(T(x.Common().Args[0]).String(), "p0.") {
					return true
				}
			}
		}
	}
	return false
}

// checkCacheNeverEmptied — R12. Chain.LastBlock() is read without further synchronisation by the
// RPC handlers, the generator tick and the syncer while the consensus goroutine reverts blocks;
// every one of them dereferences the answer. Each method of the block cache is atomic, but a
// removal that pops the last cached block and refills the cache in later critical sections
// leaves a window in which the tip is nil, then a block far below the tip. Rule: in RemoveBlock a
// pop of the cache happens only where more than one block is cached (the other way out replaces
// the content in one critical section).
func checkCacheNeverEmptied(c *Ctx, rule string) {
	p := c.P
	rb := c.Anchor("pkg/blockchain.(*Chain).RemoveBlock")
	if rb == nil {
		return
	}
	n := 0
	for _, name := range []string{"(*blockchain.DataAccess).RemoveCache", "(*blockchain.blockCache).pop"} {
		for _, rc := range CallsIn(rb, name) {
			n++
			gf := factsOf(rc.Fn)
			ok := gf.EveryPathHas(rc.Call.Block(), func(f Fact) bool {
				return f.IsCmp && f.Entails(CmpSpec{A: Matcher{"cache length", func(t *Term) bool {
					return strings.Contains(t.String(), ".len(") || strings.Contains(t.String(), ".size")
				}}, NoB: true, Rel: GE, D: 2})
			})
			c.Require(rule, FuncKey(rb)+": "+name, p.InstrPos(rc.Call), "the last cached block is never popped on its own: a pop is guarded by 'more than one block cached'", ok, "a concurrent LastBlock() answers nil between this pop and the refill")
		}
	}
	c.MinInstances(rule, n, 1)
}
