package main

import (
	"fmt"
	"go/token"
	"go/types"
	"sort"
	"strings"

	"golang.org/x/tools/go/ssa"
)

// Env is an abstract input: a valuation of path-named atoms. Reading an atom
// registers it, so the set of atoms is discovered from the kernel and the
// specification themselves.
type Env struct {
	ints  map[string]int64
	bools map[string]bool
	kind  map[string]byte // 'i' integer rank, 'y' bytes identity, 'b' boolean
	order []string
	grew  bool
}

func newEnv() *Env {
	return &Env{ints: map[string]int64{}, bools: map[string]bool{}, kind: map[string]byte{}}
}

func (e *Env) touch(path string, k byte) {
	if _, ok := e.kind[path]; !ok {
		e.kind[path] = k
		e.order = append(e.order, path)
		e.grew = true
	}
}
func (e *Env) I(path string) int64 { e.touch(path, 'i'); return e.ints[path] }
func (e *Env) Y(path string) int64 { e.touch(path, 'y'); return e.ints[path] }
func (e *Env) B(path string) bool  { e.touch(path, 'b'); return e.bools[path] }

func (e *Env) String() string {
	var s []string
	ks := append([]string{}, e.order...)
	sort.Strings(ks)
	for _, k := range ks {
		if e.kind[k] == 'b' {
			s = append(s, fmt.Sprintf("%s=%v", k, e.bools[k]))
		} else {
			s = append(s, fmt.Sprintf("%s=%d", k, e.ints[k]))
		}
	}
	return strings.Join(s, " ")
}

// pathRun interprets fn on objects named by access paths.
type pathRun struct {
	env     *Env
	special func(v ssa.Value, eval func(ssa.Value) AVal) (AVal, bool)
	depth   int
	err     string
	// want: the results of the outermost function to evaluate (nil = all)
	want []int
	// paths of the frame being interpreted (for special hooks that name atoms by access path)
	paths map[ssa.Value]string
}

type pval struct {
	AVal
	P string
}

func classify(t types.Type) byte {
	switch u := t.Underlying().(type) {
	case *types.Basic:
		if u.Info()&types.IsInteger != 0 {
			return 'i'
		}
		if u.Info()&types.IsBoolean != 0 {
			return 'b'
		}
		if u.Info()&types.IsString != 0 {
			return 'y'
		}
	case *types.Slice:
		if b, ok := u.Elem().Underlying().(*types.Basic); ok && b.Kind() == types.Byte {
			return 'y'
		}
	case *types.Pointer, *types.Struct, *types.Interface:
		return 'o'
	}
	return '?'
}

func (r *pathRun) run(fn *ssa.Function, args []pval) []pval {
	res, _ := r.exec(fn, args, nil)
	return res
}

// cellClosures: when every use of the local cell al is a store, a load, or its capture by
// function literals that run on the spot (called directly, or handed to a new helper whose
// entry block calls them), the captures by creating instruction; ok=false otherwise.
func cellClosures(al *ssa.Alloc) (map[*ssa.Call][]*ssa.MakeClosure, bool) {
	out := map[*ssa.Call][]*ssa.MakeClosure{}
	for _, ref := range *al.Referrers() {
		switch x := ref.(type) {
		case *ssa.Store:
			if x.Addr != ssa.Value(al) {
				return nil, false
			}
		case *ssa.UnOp:
		case *ssa.DebugRef:
		case *ssa.MakeClosure:
			g, _ := x.Fn.(*ssa.Function)
			if g == nil {
				return nil, false
			}
			for _, u := range *x.Referrers() {
				call, isCall := u.(*ssa.Call)
				if !isCall {
					return nil, false
				}
				if call.Common().Value == ssa.Value(x) {
					out[call] = append(out[call], x) // func(){…}()
					continue
				}
				runs := false
				for _, rc := range runByNewHelper(g) {
					if rc == call {
						runs = true
					}
				}
				h := call.Common().StaticCallee()
				if !runs || h == nil {
					return nil, false
				}
				// the helper runs the literal exactly once: its only call of that parameter is in its entry block
				n, entry := 0, false
				for _, hb := range h.Blocks {
					for _, hin := range hb.Instrs {
						if hc, ok := hin.(ssa.CallInstruction); ok {
							if prm, ok := hc.Common().Value.(*ssa.Parameter); ok && prm.Parent() == h {
								for i, a := range call.Common().Args {
									if a == ssa.Value(x) && i < len(h.Params) && h.Params[i] == prm {
										n++
										_, plain := hin.(*ssa.Call)
										entry = plain && hb == h.Blocks[0]
									}
								}
							}
						}
					}
				}
				if n != 1 || !entry {
					return nil, false
				}
				out[call] = append(out[call], x)
			}
		default:
			return nil, false
		}
	}
	return out, true
}

func (r *pathRun) exec(fn *ssa.Function, args []pval, free map[*ssa.FreeVar]func() (pval, bool)) ([]pval, *Interp) {
	if r.depth > 5 {
		r.err = "call depth exceeded"
		return nil, nil
	}
	r.depth++
	defer func() { r.depth-- }()
	paths := map[ssa.Value]string{}
	savedPaths := r.paths
	r.paths = paths
	defer func() { r.paths = savedPaths }()
	calls := map[*ssa.Call][]pval{}
	var it *Interp
	atomAt := func(path string, t types.Type) (AVal, bool) {
		switch classify(t) {
		case 'i':
			return AVal{K: 'i', N: r.env.I(path)}, true
		case 'y':
			return AVal{K: 'y', N: r.env.Y(path)}, true
		case 'b':
			return AVal{K: 'b', B: r.env.B(path)}, true
		case 'o':
			return AVal{K: 'o'}, true
		}
		return AVal{}, false
	}
	var atom AtomFn
	atom = func(v ssa.Value, eval func(ssa.Value) AVal) (AVal, bool) {
		if r.special != nil {
			if a, ok := r.special(v, eval); ok {
				return a, true
			}
		}
		switch x := v.(type) {
		case *ssa.Parameter:
			for i, p := range fn.Params {
				if p == x && i < len(args) {
					paths[v] = args[i].P
					return args[i].AVal, true
				}
			}
		case *ssa.FieldAddr:
			b := eval(x.X)
			if b.K != 'o' {
				return AVal{}, false
			}
			_, st := ownerOfFieldBase(x.X.Type())
			paths[v] = paths[x.X] + "." + fieldNameOf(st.Field(x.Field))
			return AVal{K: 'o'}, true
		case *ssa.Field:
			b := eval(x.X)
			if b.K != 'o' {
				return AVal{}, false
			}
			_, st := ownerOfFieldBase(x.X.Type())
			path := paths[x.X] + "." + fieldNameOf(st.Field(x.Field))
			paths[v] = path
			return atomAt(path, x.Type())
		case *ssa.FreeVar:
			if get, ok := free[x]; ok {
				if pv, ok := get(); ok {
					paths[v] = pv.P
					return pv.AVal, true
				}
			}
			return AVal{}, false
		case *ssa.UnOp:
			if al, isAlloc := x.X.(*ssa.Alloc); isAlloc {
				// a local captured by function literals that run on the spot: the value is what
				// the last store on the executed path left, in this function or in such a literal
				caps, ok := cellClosures(al)
				if x.Op != token.MUL || !ok || len(caps) == 0 {
					return AVal{}, false
				}
				pos := -1
				for i := len(it.trace) - 1; i >= 0; i-- {
					if it.trace[i] == x.Block() {
						pos = i
						break
					}
				}
				for i := pos; i >= 0; i-- {
					b := it.trace[i]
					end := len(b.Instrs)
					if i == pos {
						end = instrIndex(x)
					}
					for j := end - 1; j >= 0; j-- {
						switch in := b.Instrs[j].(type) {
						case *ssa.Store:
							if in.Addr == ssa.Value(al) {
								a := eval(in.Val)
								paths[v] = paths[in.Val]
								return a, true
							}
						case *ssa.Call:
							for _, mc := range caps[in] {
								if pv, stored := r.cellAfterLiteral(mc, al, eval, paths); stored {
									paths[v] = pv.P
									return pv.AVal, true
								}
								if r.err != "" {
									return AVal{K: '?'}, true
								}
							}
						}
					}
				}
				r.err = "load of captured local before any store on the path"
				return AVal{K: '?'}, true
			}
			if fv, isFV := x.X.(*ssa.FreeVar); isFV && x.Op == token.MUL {
				if _, bound := free[fv]; !bound {
					// a captured cell read inside the literal: the literal's own last store
					for i := len(it.trace) - 1; i >= 0; i-- {
						b := it.trace[i]
						end := len(b.Instrs)
						if b == x.Block() && i == len(it.trace)-1 {
							end = instrIndex(x)
						}
						for j := end - 1; j >= 0; j-- {
							if st, ok := b.Instrs[j].(*ssa.Store); ok && st.Addr == ssa.Value(fv) {
								a := eval(st.Val)
								paths[v] = paths[st.Val]
								return a, true
							}
						}
					}
					r.err = "captured local read inside a function literal before it stores to it"
					return AVal{K: '?'}, true
				}
			}
			if x.Op == token.MUL {
				b := eval(x.X)
				if b.K != 'o' {
					return AVal{}, false
				}
				paths[v] = paths[x.X]
				return atomAt(paths[x.X], x.Type())
			}
		case *ssa.Phi:
			// objects flowing through phis keep their path
			pred := it.from[x.Block()]
			for i, p := range x.Block().Preds {
				if p == pred {
					a := eval(x.Edges[i])
					paths[v] = paths[x.Edges[i]]
					return a, true
				}
			}
		case *ssa.MakeInterface:
			a := eval(x.X)
			paths[v] = paths[x.X]
			return a, true
		case *ssa.ChangeInterface:
			a := eval(x.X)
			paths[v] = paths[x.X]
			return a, true
		case *ssa.ChangeType:
			a := eval(x.X)
			paths[v] = paths[x.X]
			return a, true
		case *ssa.Extract:
			if cl, ok := x.Tuple.(*ssa.Call); ok {
				eval(cl)
				if res, ok := calls[cl]; ok && x.Index < len(res) {
					paths[v] = res[x.Index].P
					return res[x.Index].AVal, true
				}
			}
		case *ssa.Call:
			cc := x.Common()
			if cc.IsInvoke() {
				b := eval(cc.Value)
				if b.K != 'o' || len(cc.Args) != 0 {
					return AVal{}, false
				}
				path := paths[cc.Value] + "." + cc.Method.Name() + "()"
				paths[v] = path
				return atomAt(path, x.Type())
			}
			if callee := cc.StaticCallee(); callee != nil && IsOwn(callee) && len(callee.Blocks) > 0 {
				if res, done := calls[x]; done {
					if len(res) == 1 {
						paths[v] = res[0].P
						return res[0].AVal, true
					}
					return AVal{K: 'o'}, true
				}
				var as []pval
				for _, a := range cc.Args {
					av := eval(a)
					as = append(as, pval{av, paths[a]})
				}
				res := r.run(callee, as)
				if r.err != "" {
					return AVal{}, false
				}
				calls[x] = res
				if len(res) == 1 {
					paths[v] = res[0].P
					return res[0].AVal, true
				}
				return AVal{K: 'o'}, true
			}
		}
		return AVal{}, false
	}
	it = &Interp{Fn: fn, Atom: atom}
	if r.depth == 1 {
		it.Want = r.want
	}
	out := it.Run()
	if it.Err != "" && r.err == "" {
		r.err = FuncKey(fn) + ": " + it.Err
	}
	var res []pval
	if out != nil {
		// a returned object keeps the access path it had inside (the executed return is the
		// terminator of the last block on the trace)
		var ret *ssa.Return
		if len(it.trace) > 0 {
			last := it.trace[len(it.trace)-1]
			ret, _ = last.Instrs[len(last.Instrs)-1].(*ssa.Return)
		}
		for i, o := range out {
			path := ""
			if ret != nil && i < len(ret.Results) && o.K == 'o' {
				path = paths[ret.Results[i]]
			}
			res = append(res, pval{o, path})
		}
	}
	return res, it
}

// cellAfterLiteral runs the function literal created by mc (its free variables read the
// creator's values) and reports what it last stored into the captured cell al, if anything.
func (r *pathRun) cellAfterLiteral(mc *ssa.MakeClosure, al *ssa.Alloc, eval func(ssa.Value) AVal, paths map[ssa.Value]string) (pval, bool) {
	g := mc.Fn.(*ssa.Function)
	free := map[*ssa.FreeVar]func() (pval, bool){}
	var cell *ssa.FreeVar
	for i, bnd := range mc.Bindings {
		if i >= len(g.FreeVars) {
			break
		}
		bnd := bnd
		if bnd == ssa.Value(al) {
			cell = g.FreeVars[i]
			continue
		}
		if _, isCell := bnd.(*ssa.Alloc); isCell {
			continue // another captured local: only its stores inside the literal are visible there
		}
		free[g.FreeVars[i]] = func() (pval, bool) {
			a := eval(bnd)
			return pval{a, paths[bnd]}, a.K != '?'
		}
	}
	if cell == nil || len(g.Blocks) == 0 {
		return pval{}, false
	}
	_, it2 := r.exec(g, nil, free)
	if it2 == nil || r.err != "" {
		if r.err == "" {
			r.err = "cannot interpret function literal " + FuncKey(g)
		}
		return pval{}, false
	}
	for i := len(it2.trace) - 1; i >= 0; i-- {
		b := it2.trace[i]
		for j := len(b.Instrs) - 1; j >= 0; j-- {
			if st, ok := b.Instrs[j].(*ssa.Store); ok && st.Addr == ssa.Value(cell) {
				a := it2.eval(st.Val)
				if it2.Err != "" && r.err == "" {
					r.err = FuncKey(g) + ": " + it2.Err
				}
				return pval{a, ""}, true
			}
		}
	}
	return pval{}, false
}

// exhaust evaluates kernel and spec over every abstract input and compares.
// kernel and spec read atoms from the Env. intRange(nInts) gives the number of
// ranks to use. Returns evaluations, and the first disagreement.
func exhaust(kernel func(e *Env) (bool, string), spec func(e *Env) bool, offset int64, constrain func(e *Env) bool) (evals int, atoms []string, disagree string, err string) {
	env := newEnv()
	// discovery
	for round := 0; round < 8; round++ {
		env.grew = false
		restart := false
		var names []string
		names = append(names, env.order...)
		nInt := 0
		nY := 0
		for _, n := range names {
			switch env.kind[n] {
			case 'i':
				nInt++
			case 'y':
				nY++
			}
		}
		k := int64(nInt) * (offset + 1)
		if k < 2 {
			k = 2
		}
		ky := int64(nY)
		if ky < 2 {
			ky = 2
		}
		total := 1.0
		for _, n := range names {
			switch env.kind[n] {
			case 'i':
				total *= float64(k)
			case 'y':
				total *= float64(ky)
			case 'b':
				total *= 2
			}
		}
		if total > 3e7 {
			return evals, names, "", fmt.Sprintf("abstract input space too large (%.0f)", total)
		}
		vals := make([]int64, len(names))
		evals = 0
		for {
			for i, n := range names {
				if env.kind[n] == 'b' {
					env.bools[n] = vals[i] == 1
				} else {
					env.ints[n] = vals[i]
				}
			}
			if constrain == nil || constrain(env) {
				evals++
				got, e := kernel(env)
				if e != "" {
					return evals, names, "", e
				}
				want := spec(env)
				if env.grew {
					restart = true
					break
				}
				if got != want {
					return evals, names, fmt.Sprintf("kernel=%v spec=%v at %s", got, want, env), ""
				}
			}
			i := 0
			for ; i < len(names); i++ {
				vals[i]++
				lim := k
				switch env.kind[names[i]] {
				case 'y':
					lim = ky
				case 'b':
					lim = 2
				}
				if vals[i] < lim {
					break
				}
				vals[i] = 0
			}
			if i == len(names) {
				break
			}
		}
		if !restart {
			return evals, names, "", ""
		}
	}
	return evals, nil, "", "atom discovery did not converge"
}
