package main

import (
	"fmt"
	"go/token"
	"go/types"
	"sort"
	"strings"

	"golang.org/x/tools/go/ssa"
)

// Env is an abstract input: a valuation of path-named atoms. Reading an atom
// registers it, so the set of atoms is discovered from the kernel and the
// specification themselves.
type Env struct {
	ints  map[string]int64
	bools map[string]bool
	kind  map[string]byte // 'i' integer rank, 'y' bytes identity, 'b' boolean
	order []string
	grew  bool
}

func newEnv() *Env {
	return &Env{ints: map[string]int64{}, bools: map[string]bool{}, kind: map[string]byte{}}
}

func (e *Env) touch(path string, k byte) {
	if _, ok := e.kind[path]; !ok {
		e.kind[path] = k
		e.order = append(e.order, path)
		e.grew = true
	}
}
func (e *Env) I(path string) int64 { e.touch(path, 'i'); return e.ints[path] }
func (e *Env) Y(path string) int64 { e.touch(path, 'y'); return e.ints[path] }
func (e *Env) B(path string) bool  { e.touch(path, 'b'); return e.bools[path] }

func (e *Env) String() string {
	var s []string
	ks := append([]string{}, e.order...)
	sort.Strings(ks)
	for _, k := range ks {
		if e.kind[k] == 'b' {
			s = append(s, fmt.Sprintf("%s=%v", k, e.bools[k]))
		} else {
			s = append(s, fmt.Sprintf("%s=%d", k, e.ints[k]))
		}
	}
	return strings.Join(s, " ")
}

// pathRun interprets fn on objects named by access paths.
type pathRun struct {
	env     *Env
	special func(v ssa.Value, eval func(ssa.Value) AVal) (AVal, bool)
	depth   int
	err     string
}

type pval struct {
	AVal
	P string
}

func classify(t types.Type) byte {
	switch u := t.Underlying().(type) {
	case *types.Basic:
		if u.Info()&types.IsInteger != 0 {
			return 'i'
		}
		if u.Info()&types.IsBoolean != 0 {
			return 'b'
		}
		if u.Info()&types.IsString != 0 {
			return 'y'
		}
	case *types.Slice:
		if b, ok := u.Elem().Underlying().(*types.Basic); ok && b.Kind() == types.Byte {
			return 'y'
		}
	case *types.Pointer, *types.Struct, *types.Interface:
		return 'o'
	}
	return '?'
}

func (r *pathRun) run(fn *ssa.Function, args []pval) []pval {
	if r.depth > 5 {
		r.err = "call depth exceeded"
		return nil
	}
	r.depth++
	defer func() { r.depth-- }()
	paths := map[ssa.Value]string{}
	calls := map[*ssa.Call][]pval{}
	var it *Interp
	atomAt := func(path string, t types.Type) (AVal, bool) {
		switch classify(t) {
		case 'i':
			return AVal{K: 'i', N: r.env.I(path)}, true
		case 'y':
			return AVal{K: 'y', N: r.env.Y(path)}, true
		case 'b':
			return AVal{K: 'b', B: r.env.B(path)}, true
		case 'o':
			return AVal{K: 'o'}, true
		}
		return AVal{}, false
	}
	var atom AtomFn
	atom = func(v ssa.Value, eval func(ssa.Value) AVal) (AVal, bool) {
		if r.special != nil {
			if a, ok := r.special(v, eval); ok {
				return a, true
			}
		}
		switch x := v.(type) {
		case *ssa.Parameter:
			for i, p := range fn.Params {
				if p == x && i < len(args) {
					paths[v] = args[i].P
					return args[i].AVal, true
				}
			}
		case *ssa.FieldAddr:
			b := eval(x.X)
			if b.K != 'o' {
				return AVal{}, false
			}
			_, st := ownerOfFieldBase(x.X.Type())
			paths[v] = paths[x.X] + "." + fieldNameOf(st.Field(x.Field))
			return AVal{K: 'o'}, true
		case *ssa.Field:
			b := eval(x.X)
			if b.K != 'o' {
				return AVal{}, false
			}
			_, st := ownerOfFieldBase(x.X.Type())
			path := paths[x.X] + "." + fieldNameOf(st.Field(x.Field))
			paths[v] = path
			return atomAt(path, x.Type())
		case *ssa.UnOp:
			if _, isAlloc := x.X.(*ssa.Alloc); isAlloc {
				return AVal{}, false
			}
			if x.Op == token.MUL {
				b := eval(x.X)
				if b.K != 'o' {
					return AVal{}, false
				}
				paths[v] = paths[x.X]
				return atomAt(paths[x.X], x.Type())
			}
		case *ssa.Phi:
			// objects flowing through phis keep their path
			pred := it.from[x.Block()]
			for i, p := range x.Block().Preds {
				if p == pred {
					a := eval(x.Edges[i])
					paths[v] = paths[x.Edges[i]]
					return a, true
				}
			}
		case *ssa.MakeInterface:
			a := eval(x.X)
			paths[v] = paths[x.X]
			return a, true
		case *ssa.ChangeInterface:
			a := eval(x.X)
			paths[v] = paths[x.X]
			return a, true
		case *ssa.ChangeType:
			a := eval(x.X)
			paths[v] = paths[x.X]
			return a, true
		case *ssa.Extract:
			if cl, ok := x.Tuple.(*ssa.Call); ok {
				eval(cl)
				if res, ok := calls[cl]; ok && x.Index < len(res) {
					paths[v] = res[x.Index].P
					return res[x.Index].AVal, true
				}
			}
		case *ssa.Call:
			cc := x.Common()
			if cc.IsInvoke() {
				b := eval(cc.Value)
				if b.K != 'o' || len(cc.Args) != 0 {
					return AVal{}, false
				}
				path := paths[cc.Value] + "." + cc.Method.Name() + "()"
				paths[v] = path
				return atomAt(path, x.Type())
			}
			if callee := cc.StaticCallee(); callee != nil && IsOwn(callee) && len(callee.Blocks) > 0 {
				if res, done := calls[x]; done {
					if len(res) == 1 {
						paths[v] = res[0].P
						return res[0].AVal, true
					}
					return AVal{K: 'o'}, true
				}
				var as []pval
				for _, a := range cc.Args {
					av := eval(a)
					as = append(as, pval{av, paths[a]})
				}
				res := r.run(callee, as)
				if r.err != "" {
					return AVal{}, false
				}
				calls[x] = res
				if len(res) == 1 {
					paths[v] = res[0].P
					return res[0].AVal, true
				}
				return AVal{K: 'o'}, true
			}
		}
		return AVal{}, false
	}
	it = &Interp{Fn: fn, Atom: atom}
	out := it.Run()
	if it.Err != "" && r.err == "" {
		r.err = FuncKey(fn) + ": " + it.Err
	}
	var res []pval
	if out != nil {
		// recover paths of returned objects
		for _, b := range fn.Blocks {
			if ret, ok := b.Instrs[len(b.Instrs)-1].(*ssa.Return); ok && it.from != nil {
				_ = ret
			}
		}
		for _, o := range out {
			res = append(res, pval{o, ""})
		}
	}
	return res
}

// exhaust evaluates kernel and spec over every abstract input and compares.
// kernel and spec read atoms from the Env. intRange(nInts) gives the number of
// ranks to use. Returns evaluations, and the first disagreement.
func exhaust(kernel func(e *Env) (bool, string), spec func(e *Env) bool, offset int64, constrain func(e *Env) bool) (evals int, atoms []string, disagree string, err string) {
	env := newEnv()
	// discovery
	for round := 0; round < 8; round++ {
		env.grew = false
		restart := false
		var names []string
		names = append(names, env.order...)
		nInt := 0
		nY := 0
		for _, n := range names {
			switch env.kind[n] {
			case 'i':
				nInt++
			case 'y':
				nY++
			}
		}
		k := int64(nInt) * (offset + 1)
		if k < 2 {
			k = 2
		}
		ky := int64(nY)
		if ky < 2 {
			ky = 2
		}
		total := 1.0
		for _, n := range names {
			switch env.kind[n] {
			case 'i':
				total *= float64(k)
			case 'y':
				total *= float64(ky)
			case 'b':
				total *= 2
			}
		}
		if total > 3e7 {
			return evals, names, "", fmt.Sprintf("abstract input space too large (%.0f)", total)
		}
		vals := make([]int64, len(names))
		evals = 0
		for {
			for i, n := range names {
				if env.kind[n] == 'b' {
					env.bools[n] = vals[i] == 1
				} else {
					env.ints[n] = vals[i]
				}
			}
			if constrain == nil || constrain(env) {
				evals++
				got, e := kernel(env)
				if e != "" {
					return evals, names, "", e
				}
				want := spec(env)
				if env.grew {
					restart = true
					break
				}
				if got != want {
					return evals, names, fmt.Sprintf("kernel=%v spec=%v at %s", got, want, env), ""
				}
			}
			i := 0
			for ; i < len(names); i++ {
				vals[i]++
				lim := k
				switch env.kind[names[i]] {
				case 'y':
					lim = ky
				case 'b':
					lim = 2
				}
				if vals[i] < lim {
					break
				}
				vals[i] = 0
			}
			if i == len(names) {
				break
			}
		}
		if !restart {
			return evals, names, "", ""
		}
	}
	return evals, nil, "", "atom discovery did not converge"
}
