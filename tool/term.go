package main

import (
	"fmt"
	"go/constant"
	"go/token"
	"go/types"
	"sort"
	"strings"

	"golang.org/x/tools/go/ssa"
)

// Term is a canonical, name-resolved view of an SSA value. It is what rules
// match on: never source text, never positions. Locals vanish (SSA),
// parameters are named by index, fields by (owner type, field name), calls
// by the resolved callee.
type Term struct {
	Op    string // const param free field addr call extract binop unop phi index lookup slice alloc global closure assert make range next other
	Sym   string
	Owner string // for field: named struct type ("blockchain.BlockHeader")
	Args  []*Term
	V     ssa.Value
	Call  ssa.CallInstruction // for Op=="call"
	// Orig: when the term stands for the result of a call to a new helper (inter.go), the
	// value inside the helper that is returned
	Orig ssa.Value
}

type termBuilder struct {
	memo  map[ssa.Value]*Term
	stack map[ssa.Value]bool
	// keepConv keeps integer conversions that change signedness or narrow
	// the value as explicit "conv" nodes (E9 must not see through them)
	keepConv bool
	// new helpers whose results are being inlined (recursion guard)
	inlining map[*ssa.Function]bool
}

func newTB() *termBuilder {
	return &termBuilder{memo: map[ssa.Value]*Term{}, stack: map[ssa.Value]bool{}}
}

// T builds the term of v (with a fresh builder).
func T(v ssa.Value) *Term {
	t := newTB().of(v, 0)
	if f := valueFunc(v); f != nil && isNewHelper(f) {
		// the function whose helpers were enumerated last (blocksDeep, CallsIn, DBOps, …) is
		// the context the rule is working in
		if termRoot != nil && termRoot != f && len(helperChains(termRoot, f)) > 0 {
			return liftTerm(termRoot, f, t, false)
		}
		return liftToKnownRoot(t, f, 0)
	}
	return t
}

var termRoot *ssa.Function

// liftToKnownRoot expresses a term of a new helper in the vocabulary of the function that
// calls it when there is exactly one call site (repeatedly, up to a known function);
// otherwise the helper's parameters are marked as foreign.
func liftToKnownRoot(t *Term, f *ssa.Function, depth int) *Term {
	for isNewHelper(f) && depth < maxHelperDepth {
		sites := callSitesOfHelper(f)
		if len(sites) != 1 {
			return markParams(t, FuncName(f))
		}
		if g := calleeOf(sites[0]); g != f && g != nil && f.Parent() != nil {
			// a literal run by the helper this call invokes: its own parameters are what the
			// helper passes to it, not the helper call's arguments
			t = substLiteralParams(t, f, g, sites[0], false)
		} else {
			t = substParams(t, argTerms(newTB(), sites[0]))
		}
		f = sites[0].Parent()
		depth++
	}
	return t
}

const maxTermDepth = 14

func (b *termBuilder) of(v ssa.Value, depth int) *Term {
	if v == nil {
		return &Term{Op: "other", Sym: "nil-value"}
	}
	if t, ok := b.memo[v]; ok {
		return t
	}
	if b.stack[v] || depth > maxTermDepth {
		return &Term{Op: "other", Sym: "…", V: v}
	}
	b.stack[v] = true
	t := b.build(v, depth)
	delete(b.stack, v)
	if t.Orig != nil || (t.V != nil && t.V != v) {
		// a term shared with another value (inlined helper result): do not re-label it
		c := *t
		t = &c
	}
	t.V = v
	b.memo[v] = t
	return t
}

func ownerOfFieldBase(t types.Type) (string, *types.Struct) {
	if p, ok := t.Underlying().(*types.Pointer); ok {
		t = p.Elem()
	}
	name := types.TypeString(t, func(p *types.Package) string { return relPkgName(p) })
	st, _ := t.Underlying().(*types.Struct)
	return name, st
}

func (b *termBuilder) build(v ssa.Value, d int) *Term {
	switch x := v.(type) {
	case *ssa.Const:
		if x.Value == nil {
			return &Term{Op: "const", Sym: "nil"}
		}
		if x.Value.Kind() == constant.String {
			return &Term{Op: "const", Sym: x.Value.ExactString()}
		}
		return &Term{Op: "const", Sym: x.Value.ExactString()}
	case *ssa.Parameter:
		fn := x.Parent()
		for i, p := range fn.Params {
			if p == x {
				return &Term{Op: "param", Sym: fmt.Sprintf("p%d", oldParamIndex(fn, i)), Owner: x.Name()}
			}
		}
		return &Term{Op: "param", Sym: "p?"}
	case *ssa.FreeVar:
		// resolve to the creator's binding when unambiguous
		fn := x.Parent()
		idx := -1
		for i, fv := range fn.FreeVars {
			if fv == x {
				idx = i
			}
		}
		if par := fn.Parent(); par != nil && idx >= 0 {
			for _, blk := range par.Blocks {
				for _, in := range blk.Instrs {
					if mc, ok := in.(*ssa.MakeClosure); ok && mc.Fn == fn && idx < len(mc.Bindings) {
						return &Term{Op: "free", Sym: x.Name(), Args: []*Term{b.of(mc.Bindings[idx], d+1)}}
					}
				}
			}
		}
		return &Term{Op: "free", Sym: x.Name()}
	case *ssa.Field:
		owner, st := ownerOfFieldBase(x.X.Type())
		name := "?"
		if st != nil {
			name = fieldNameOf(st.Field(x.Field))
		}
		return &Term{Op: "field", Sym: name, Owner: owner, Args: []*Term{b.of(x.X, d+1)}}
	case *ssa.FieldAddr:
		owner, st := ownerOfFieldBase(x.X.Type())
		name := "?"
		if st != nil {
			name = fieldNameOf(st.Field(x.Field))
		}
		return &Term{Op: "addr", Sym: name, Owner: owner, Args: []*Term{b.of(x.X, d+1)}}
	case *ssa.UnOp:
		if x.Op == token.MUL {
			// a variable captured by a function literal that runs as part of its creator
			// (called on the spot, or handed to a new helper that calls it): the literal reads
			// what the creator stored, when that is a single assignment
			if fv, ok := x.X.(*ssa.FreeVar); ok && isNewHelper(fv.Parent()) {
				if bnd := bindingOf(fv); bnd != nil {
					if al, ok := bnd.(*ssa.Alloc); ok {
						if sv := uniqueStore(al); sv != nil {
							return b.of(sv, d+1)
						}
					}
				}
			}
			// … or what the literal itself stored there, when it does so once and before the read
			if fv, ok := x.X.(*ssa.FreeVar); ok && isNewHelper(fv.Parent()) {
				var only *ssa.Store
				n := 0
				for _, r := range *fv.Referrers() {
					if st, ok := r.(*ssa.Store); ok && st.Addr == ssa.Value(fv) {
						only = st
						n++
					}
				}
				if n == 1 && instrDominates(only, x) {
					return b.of(only.Val, d+1)
				}
			}
			// a package-level variable of this module that is assigned exactly once, in its
			// package initialiser, is a name for what it was assigned (`var durableWrite =
			// pebble.Sync`, a named constant table, …)
			if g, ok := x.X.(*ssa.Global); ok {
				if v := globalAlias(g); v != nil {
					return b.of(v, d+1)
				}
			}
			in := b.of(x.X, d+1)
			if in.Op == "addr" {
				return &Term{Op: "field", Sym: in.Sym, Owner: in.Owner, Args: in.Args}
			}
			if al, ok := x.X.(*ssa.Alloc); ok {
				if sv := reachingStore(al, x); sv != nil {
					return b.of(sv, d+1)
				}
			}
			if in.Op == "indexaddr" {
				return &Term{Op: "index", Args: in.Args}
			}
			return &Term{Op: "load", Args: []*Term{in}}
		}
		return &Term{Op: "unop", Sym: x.Op.String(), Args: []*Term{b.of(x.X, d+1)}}
	case *ssa.BinOp:
		return &Term{Op: "binop", Sym: x.Op.String(), Args: []*Term{b.of(x.X, d+1), b.of(x.Y, d+1)}}
	case *ssa.Call:
		if it := b.inlineCallTerm(x, d); it != nil {
			return it
		}
		t := &Term{Op: "call", Sym: CalleeName(x.Common()), Call: x}
		if prm, ok := x.Common().Value.(*ssa.Parameter); ok && t.Sym == "dyn" {
			// a call of a function-typed parameter: which parameter is part of the name, so that
			// the call can be resolved once the argument bound to it is known (substParams)
			for i, q := range prm.Parent().Params {
				if q == prm {
					t.Sym = fmt.Sprintf("dyn:p%d", oldParamIndex(prm.Parent(), i))
				}
			}
		}
		if t.Sym == "builtin:min" || t.Sym == "builtin:max" {
			// the built-ins read like the repository's own variadic helpers ints.Min / ints.Max
			t.Sym = map[string]string{"builtin:min": "collection/ints.Min[builtin]", "builtin:max": "collection/ints.Max[builtin]"}[t.Sym]
			lst := &Term{Op: "list"}
			for _, a := range x.Common().Args {
				lst.Args = append(lst.Args, b.of(a, d+1))
			}
			t.Args = []*Term{lst}
			return t
		}
		if x.Common().IsInvoke() {
			t.Args = append(t.Args, b.of(x.Common().Value, d+1))
		}
		// arguments are listed in the order the callee's parameters had when the rules were
		// written, so that a reordered parameter list leaves every term unchanged
		if perm := paramPerm(x.Common().StaticCallee()); perm != nil && len(perm) == len(x.Common().Args) {
			for k := range perm {
				t.Args = append(t.Args, b.of(x.Common().Args[perm[k]], d+1))
			}
			return t
		}
		for _, a := range x.Common().Args {
			t.Args = append(t.Args, b.of(a, d+1))
		}
		return t
	case *ssa.Extract:
		if tt := b.of(x.Tuple, d+1); tt.Op == "tuple" && x.Index < len(tt.Args) {
			return tt.Args[x.Index]
		}
		return &Term{Op: "extract", Sym: fmt.Sprintf("#%d", x.Index), Args: []*Term{b.of(x.Tuple, d+1)}}
	case *ssa.Phi:
		t := &Term{Op: "phi"}
		for _, e := range x.Edges {
			t.Args = append(t.Args, b.of(e, d+1))
		}
		return t
	case *ssa.Convert:
		if b.keepConv {
			if k := convKind(x.X.Type(), x.Type()); k != "" {
				return &Term{Op: "conv", Sym: k, Args: []*Term{b.of(x.X, d+1)}}
			}
		}
		return b.of(x.X, d)
	case *ssa.ChangeType:
		return b.of(x.X, d)
	case *ssa.ChangeInterface:
		return b.of(x.X, d)
	case *ssa.MakeInterface:
		return b.of(x.X, d)
	case *ssa.SliceToArrayPointer:
		return b.of(x.X, d)
	case *ssa.IndexAddr:
		return &Term{Op: "indexaddr", Args: []*Term{b.of(x.X, d+1), b.of(x.Index, d+1)}}
	case *ssa.Index:
		return &Term{Op: "index", Args: []*Term{b.of(x.X, d+1), b.of(x.Index, d+1)}}
	case *ssa.Lookup:
		return &Term{Op: "lookup", Args: []*Term{b.of(x.X, d+1), b.of(x.Index, d+1)}}
	case *ssa.Slice:
		if al, ok := x.X.(*ssa.Alloc); ok && x.Low == nil && x.High == nil {
			if elems, ok := arrayElems(al); ok {
				t := &Term{Op: "list"}
				for _, e := range elems {
					t.Args = append(t.Args, b.of(e, d+1))
				}
				return t
			}
		}
		t := &Term{Op: "slice", Args: []*Term{b.of(x.X, d+1)}}
		for _, s := range []ssa.Value{x.Low, x.High, x.Max} {
			if s != nil {
				t.Args = append(t.Args, b.of(s, d+1))
			} else {
				t.Args = append(t.Args, &Term{Op: "const", Sym: "_"})
			}
		}
		return t
	case *ssa.Alloc:
		return &Term{Op: "alloc", Sym: x.Comment}
	case *ssa.Global:
		return &Term{Op: "global", Sym: relPkgName(x.Pkg.Pkg) + "." + x.Name()}
	case *ssa.Function:
		return &Term{Op: "func", Sym: FuncName(x)}
	case *ssa.MakeClosure:
		f, _ := x.Fn.(*ssa.Function)
		return &Term{Op: "closure", Sym: FuncName(f)}
	case *ssa.TypeAssert:
		return &Term{Op: "assert", Sym: types.TypeString(x.AssertedType, func(p *types.Package) string { return relPkgName(p) }), Args: []*Term{b.of(x.X, d+1)}}
	case *ssa.MakeSlice:
		return &Term{Op: "make", Sym: "slice", Args: []*Term{b.of(x.Len, d+1), b.of(x.Cap, d+1)}}
	case *ssa.MakeMap:
		return &Term{Op: "make", Sym: "map"}
	case *ssa.MakeChan:
		return &Term{Op: "make", Sym: "chan", Args: []*Term{b.of(x.Size, d+1)}}
	case *ssa.Range:
		return &Term{Op: "range", Args: []*Term{b.of(x.X, d+1)}}
	case *ssa.Next:
		return &Term{Op: "next", Args: []*Term{b.of(x.Iter, d+1)}}
	case *ssa.Select:
		return &Term{Op: "select"}
	case *ssa.Builtin:
		return &Term{Op: "func", Sym: "builtin:" + x.Name()}
	}
	return &Term{Op: "other", Sym: fmt.Sprintf("%T", v)}
}

// convKind classifies an integer conversion: "" when value-preserving for all
// inputs on a 64-bit target, otherwise "from→to".
func convKind(from, to types.Type) string {
	fb, ok1 := from.Underlying().(*types.Basic)
	tb, ok2 := to.Underlying().(*types.Basic)
	if !ok1 || !ok2 || fb.Info()&types.IsInteger == 0 || tb.Info()&types.IsInteger == 0 {
		if ok1 && ok2 && fb.Info()&types.IsFloat != 0 && tb.Info()&types.IsInteger != 0 {
			return fb.Name() + "→" + tb.Name()
		}
		return ""
	}
	bits := func(b *types.Basic) (int, bool) { // width, unsigned
		switch b.Kind() {
		case types.Int8:
			return 8, false
		case types.Int16:
			return 16, false
		case types.Int32:
			return 32, false
		case types.Int64, types.Int:
			return 64, false
		case types.Uint8:
			return 8, true
		case types.Uint16:
			return 16, true
		case types.Uint32:
			return 32, true
		case types.Uint64, types.Uint, types.Uintptr:
			return 64, true
		}
		return 64, false
	}
	fw, fu := bits(fb)
	tw, tu := bits(tb)
	switch {
	case fu && tu && tw >= fw, !fu && !tu && tw >= fw:
		return ""
	case fu && !tu && tw > fw:
		return ""
	}
	return fb.Name() + "→" + tb.Name()
}

// arrayElems recovers the elements of a literal/variadic backing array: every
// element must be stored exactly once through a constant index.
func arrayElems(al *ssa.Alloc) ([]ssa.Value, bool) {
	pt, ok := al.Type().Underlying().(*types.Pointer)
	if !ok {
		return nil, false
	}
	arr, ok := pt.Elem().Underlying().(*types.Array)
	if !ok || arr.Len() > 64 {
		return nil, false
	}
	out := make([]ssa.Value, arr.Len())
	for _, r := range *al.Referrers() {
		ia, ok := r.(*ssa.IndexAddr)
		if !ok {
			continue
		}
		c, ok := ia.Index.(*ssa.Const)
		if !ok {
			return nil, false
		}
		i := int(c.Int64())
		for _, rr := range *ia.Referrers() {
			if st, ok := rr.(*ssa.Store); ok && st.Addr == ia {
				if i < 0 || i >= len(out) || out[i] != nil {
					return nil, false
				}
				out[i] = st.Val
			}
		}
	}
	for _, v := range out {
		if v == nil {
			return nil, false
		}
	}
	return out, true
}

// uniqueStore: the cell is written exactly once in its function (typically a
// parameter spilled because a closure captures it) and no closure writes it.
func uniqueStore(al *ssa.Alloc) ssa.Value {
	var val ssa.Value
	n := 0
	for _, r := range *al.Referrers() {
		switch x := r.(type) {
		case *ssa.Store:
			if x.Addr == al {
				n++
				val = x.Val
			}
		case *ssa.MakeClosure:
			fn, _ := x.Fn.(*ssa.Function)
			for i, b := range x.Bindings {
				if b != al || fn == nil || i >= len(fn.FreeVars) {
					continue
				}
				for _, fr := range *fn.FreeVars[i].Referrers() {
					if st, ok := fr.(*ssa.Store); ok && st.Addr == fn.FreeVars[i] {
						return nil
					}
					if _, ok := fr.(*ssa.MakeClosure); ok {
						return nil // nested capture: give up
					}
				}
			}
		}
	}
	if n == 1 {
		return val
	}
	return nil
}

// reachingStore finds the value most recently stored to a local cell before
// the load, looking only where the answer is unambiguous: earlier in the same
// block, or at the end of a chain of unique predecessors. Captured/spilled
// locals (err variables shared with closures or defers) appear this way.
func reachingStore(al *ssa.Alloc, load ssa.Instruction) ssa.Value {
	if v := uniqueStore(al); v != nil {
		return v
	}
	blk := load.Block()
	idx := -1
	for i, in := range blk.Instrs {
		if in == load {
			idx = i
			break
		}
	}
	for hops := 0; hops < 16 && blk != nil; hops++ {
		for i := idx - 1; i >= 0; i-- {
			if st, ok := blk.Instrs[i].(*ssa.Store); ok && st.Addr == al {
				return st.Val
			}
		}
		if len(blk.Preds) != 1 {
			return nil
		}
		blk = blk.Preds[0]
		idx = len(blk.Instrs)
	}
	return nil
}

func (t *Term) String() string {
	if t == nil {
		return "<nil>"
	}
	var sb strings.Builder
	t.write(&sb, 0)
	return sb.String()
}

func (t *Term) write(sb *strings.Builder, depth int) {
	if depth > 12 {
		sb.WriteString("…")
		return
	}
	w := func(a *Term) { a.write(sb, depth+1) }
	list := func(as []*Term) {
		for i, a := range as {
			if i > 0 {
				sb.WriteString(", ")
			}
			w(a)
		}
	}
	switch t.Op {
	case "const":
		sb.WriteString(t.Sym)
	case "param":
		sb.WriteString(t.Sym)
	case "free":
		if len(t.Args) == 1 {
			sb.WriteString("free(")
			w(t.Args[0])
			sb.WriteString(")")
		} else {
			sb.WriteString("free:" + t.Sym)
		}
	case "field":
		w(t.Args[0])
		sb.WriteString("." + t.Sym)
	case "addr":
		sb.WriteString("&")
		w(t.Args[0])
		sb.WriteString("." + t.Sym)
	case "call":
		sb.WriteString(t.Sym + "(")
		list(t.Args)
		sb.WriteString(")")
	case "extract":
		w(t.Args[0])
		sb.WriteString(t.Sym)
	case "binop":
		sb.WriteString("(")
		w(t.Args[0])
		sb.WriteString(" " + t.Sym + " ")
		w(t.Args[1])
		sb.WriteString(")")
	case "unop":
		sb.WriteString(t.Sym)
		w(t.Args[0])
	case "load":
		sb.WriteString("*")
		w(t.Args[0])
	case "phi":
		sb.WriteString("phi(")
		list(t.Args)
		sb.WriteString(")")
	case "index", "indexaddr", "lookup":
		if t.Op == "indexaddr" {
			sb.WriteString("&")
		}
		w(t.Args[0])
		sb.WriteString("[")
		w(t.Args[1])
		sb.WriteString("]")
	case "slice":
		w(t.Args[0])
		sb.WriteString("[")
		w(t.Args[1])
		sb.WriteString(":")
		w(t.Args[2])
		sb.WriteString("]")
	case "list":
		sb.WriteString("[")
		list(t.Args)
		sb.WriteString("]")
	case "conv":
		sb.WriteString(t.Sym + "(")
		w(t.Args[0])
		sb.WriteString(")")
	case "alloc":
		sb.WriteString("alloc:" + t.Sym)
	case "global", "func", "closure":
		sb.WriteString(t.Sym)
	case "assert":
		w(t.Args[0])
		sb.WriteString(".(" + t.Sym + ")")
	case "make":
		sb.WriteString("make:" + t.Sym + "(")
		list(t.Args)
		sb.WriteString(")")
	default:
		sb.WriteString(t.Op)
		if t.Sym != "" {
			sb.WriteString(":" + t.Sym)
		}
		if len(t.Args) > 0 {
			sb.WriteString("(")
			list(t.Args)
			sb.WriteString(")")
		}
	}
}

// Walk visits t and all sub-terms.
func (t *Term) Walk(f func(*Term) bool) {
	seen := map[*Term]bool{}
	var rec func(*Term)
	rec = func(x *Term) {
		if x == nil || seen[x] {
			return
		}
		seen[x] = true
		if !f(x) {
			return
		}
		for _, a := range x.Args {
			rec(a)
		}
	}
	rec(t)
}

// Any reports whether some sub-term satisfies pred.
func (t *Term) Any(pred func(*Term) bool) bool {
	found := false
	t.Walk(func(x *Term) bool {
		if found {
			return false
		}
		if pred(x) {
			found = true
			return false
		}
		return true
	})
	return found
}

// Matcher is a predicate on terms, with a printable description.
type Matcher struct {
	Desc string
	F    func(*Term) bool
}

func (m Matcher) Match(t *Term) bool { return t != nil && m.F(t) }

// IsField matches a read of owner.field (anywhere at the top of the term,
// through phis when every edge matches).
func IsField(owner, field string) Matcher {
	var f func(t *Term) bool
	f = func(t *Term) bool {
		if t.Op == "field" && t.Sym == field && (owner == "" || t.Owner == owner) {
			return true
		}
		return false
	}
	return Matcher{owner + "." + field, f}
}

// IsFieldOf matches owner.field whose base satisfies base.
func IsFieldOf(owner, field string, base Matcher) Matcher {
	return Matcher{base.Desc + "." + field, func(t *Term) bool {
		return t.Op == "field" && t.Sym == field && (owner == "" || t.Owner == owner) && base.Match(t.Args[0])
	}}
}

// IsCall matches a call (or its #k result) of a callee whose name has the given suffix.
func IsCall(callee string) Matcher {
	return Matcher{"call " + callee, func(t *Term) bool {
		if t.Op == "extract" {
			t = t.Args[0]
		}
		return t.Op == "call" && calleeMatches(t.Sym, callee)
	}}
}

// IsResult matches result #k of a call to callee.
func IsResult(callee string, k int) Matcher {
	return Matcher{fmt.Sprintf("%s#%d", callee, k), func(t *Term) bool {
		return t.Op == "extract" && t.Sym == fmt.Sprintf("#%d", k) && t.Args[0].Op == "call" && calleeMatches(t.Args[0].Sym, callee)
	}}
}

func calleeMatches(sym, want string) bool {
	if sym == want {
		return true
	}
	// allow "iface:" prefix to be omitted and suffix match on ".Name"
	if strings.HasPrefix(want, ".") {
		return strings.HasSuffix(sym, want)
	}
	return false
}

func IsConst(lit string) Matcher {
	return Matcher{"const " + lit, func(t *Term) bool { return t.Op == "const" && t.Sym == lit }}
}

func IsParam(i int) Matcher {
	return Matcher{fmt.Sprintf("p%d", i), func(t *Term) bool { return t.Op == "param" && t.Sym == fmt.Sprintf("p%d", i) }}
}

// Contains matches when some sub-term matches m.
func Contains(m Matcher) Matcher {
	return Matcher{"…" + m.Desc + "…", func(t *Term) bool { return t.Any(m.F) }}
}

func AnyOf(ms ...Matcher) Matcher {
	var ds []string
	for _, m := range ms {
		ds = append(ds, m.Desc)
	}
	return Matcher{"(" + strings.Join(ds, " | ") + ")", func(t *Term) bool {
		for _, m := range ms {
			if m.F(t) {
				return true
			}
		}
		return false
	}}
}

func AllOf(ms ...Matcher) Matcher {
	var ds []string
	for _, m := range ms {
		ds = append(ds, m.Desc)
	}
	return Matcher{"(" + strings.Join(ds, " & ") + ")", func(t *Term) bool {
		for _, m := range ms {
			if !m.F(t) {
				return false
			}
		}
		return true
	}}
}

func Not(m Matcher) Matcher {
	return Matcher{"!" + m.Desc, func(t *Term) bool { return !m.F(t) }}
}

func AnyTerm() Matcher { return Matcher{"_", func(*Term) bool { return true }} }

// Len matches len(x) with x matching m.
func LenOf(m Matcher) Matcher {
	return Matcher{"len(" + m.Desc + ")", func(t *Term) bool {
		return t.Op == "call" && t.Sym == "builtin:len" && len(t.Args) == 1 && m.Match(t.Args[0])
	}}
}

// ---------------------------------------------------------------------------
// Linear normal form of integer terms:  Σ cᵢ·atomᵢ + c₀.

type Lin struct {
	Coef  map[string]int64
	Atom  map[string]*Term
	Const int64
	OK    bool // false when the constant part is not representable
}

func newLin() *Lin { return &Lin{Coef: map[string]int64{}, Atom: map[string]*Term{}, OK: true} }

func (l *Lin) add(o *Lin, k int64) {
	for a, c := range o.Coef {
		l.Coef[a] += k * c
		l.Atom[a] = o.Atom[a]
		if l.Coef[a] == 0 {
			delete(l.Coef, a)
			delete(l.Atom, a)
		}
	}
	l.Const += k * o.Const
	l.OK = l.OK && o.OK
}

func linOf(t *Term) *Lin {
	l := newLin()
	switch {
	case t.Op == "const":
		var n int64
		if _, err := fmt.Sscan(t.Sym, &n); err == nil {
			l.Const = n
			return l
		}
	case t.Op == "binop" && t.Sym == "+":
		l.add(linOf(t.Args[0]), 1)
		l.add(linOf(t.Args[1]), 1)
		return l
	case t.Op == "binop" && t.Sym == "-":
		l.add(linOf(t.Args[0]), 1)
		l.add(linOf(t.Args[1]), -1)
		return l
	case t.Op == "binop" && t.Sym == "*":
		a, b := linOf(t.Args[0]), linOf(t.Args[1])
		if len(a.Coef) == 0 {
			l.add(b, a.Const)
			return l
		}
		if len(b.Coef) == 0 {
			l.add(a, b.Const)
			return l
		}
	case t.Op == "unop" && t.Sym == "-":
		l.add(linOf(t.Args[0]), -1)
		return l
	}
	s := t.String()
	l.Coef[s] = 1
	l.Atom[s] = t
	return l
}

func (l *Lin) String() string {
	var keys []string
	for k := range l.Coef {
		keys = append(keys, k)
	}
	sort.Strings(keys)
	var parts []string
	for _, k := range keys {
		parts = append(parts, fmt.Sprintf("%+d·%s", l.Coef[k], k))
	}
	parts = append(parts, fmt.Sprintf("%+d", l.Const))
	return strings.Join(parts, " ")
}

// Rel is a canonical integer relation between two atoms: A − B  REL  D.
type Rel int

const (
	GE Rel = iota // A - B >= D
	LE            // A - B <= D
	EQ
	NE
)

func (r Rel) String() string { return [...]string{">=", "<=", "==", "!="}[r] }

// Fact is what is known on a CFG edge: either a canonical comparison between
// two terms, or a boolean term with a truth value.
type Fact struct {
	// comparison form (IsCmp): Lhs − Rhs REL D, for every way of splitting the
	// linear difference into a positive and a negative atom; non-integer
	// comparisons (pointers, interfaces, strings) keep Op and operands.
	IsCmp bool
	Op    token.Token // for comparisons: the operator that holds on this edge (already negated for false edges)
	L, R  *Term
	// boolean form
	B     *Term
	Truth bool
}

func (f Fact) String() string {
	if f.IsCmp {
		return fmt.Sprintf("%s %s %s", f.L, f.Op, f.R)
	}
	if f.Truth {
		return f.B.String()
	}
	return "!" + f.B.String()
}

func negate(op token.Token) token.Token {
	switch op {
	case token.EQL:
		return token.NEQ
	case token.NEQ:
		return token.EQL
	case token.LSS:
		return token.GEQ
	case token.GEQ:
		return token.LSS
	case token.GTR:
		return token.LEQ
	case token.LEQ:
		return token.GTR
	}
	return token.ILLEGAL
}

func isCmpOp(s string) (token.Token, bool) {
	switch s {
	case "==":
		return token.EQL, true
	case "!=":
		return token.NEQ, true
	case "<":
		return token.LSS, true
	case "<=":
		return token.LEQ, true
	case ">":
		return token.GTR, true
	case ">=":
		return token.GEQ, true
	}
	return token.ILLEGAL, false
}

// factOf turns a branch condition and an edge polarity into a Fact,
// stripping negations.
func factOf(cond *Term, truth bool) Fact {
	for cond.Op == "unop" && cond.Sym == "!" {
		cond = cond.Args[0]
		truth = !truth
	}
	if cond.Op == "binop" {
		if op, ok := isCmpOp(cond.Sym); ok {
			if !truth {
				op = negate(op)
			}
			return Fact{IsCmp: true, Op: op, L: cond.Args[0], R: cond.Args[1]}
		}
	}
	return Fact{B: cond, Truth: truth}
}

// CmpSpec describes a required integer relation  A − B REL D  between an
// atom matching A and an atom matching B (B may be nil: A REL D).
type CmpSpec struct {
	A, B Matcher
	NoB  bool
	Rel  Rel
	D    int64
}

func (c CmpSpec) String() string {
	if c.NoB {
		return fmt.Sprintf("%s %s %d", c.A.Desc, c.Rel, c.D)
	}
	if c.D == 0 {
		return fmt.Sprintf("%s %s %s", c.A.Desc, c.Rel, c.B.Desc)
	}
	return fmt.Sprintf("%s - %s %s %d", c.A.Desc, c.B.Desc, c.Rel, c.D)
}

// canon reduces "lin OP 0" to (rel, d) meaning  lin' REL d  where lin' is lin
// without its constant.
func canonRel(op token.Token, c int64) (Rel, int64, bool) {
	switch op {
	case token.GTR: // x + c > 0  ⇔ x >= 1-c
		return GE, 1 - c, true
	case token.GEQ:
		return GE, -c, true
	case token.LSS: // x + c < 0 ⇔ x <= -c-1
		return LE, -c - 1, true
	case token.LEQ:
		return LE, -c, true
	case token.EQL:
		return EQ, -c, true
	case token.NEQ:
		return NE, -c, true
	}
	return 0, 0, false
}

func flipRel(r Rel) Rel {
	switch r {
	case GE:
		return LE
	case LE:
		return GE
	}
	return r
}

// Entails reports whether the fact (which holds on some edge) entails the
// required relation. It is exact on the linear fragment: a fact "x >= 3"
// entails a requirement "x >= 1" but not the other way round.
func (f Fact) Entails(c CmpSpec) bool {
	if !f.IsCmp {
		return false
	}
	l := newLin()
	l.add(linOf(f.L), 1)
	l.add(linOf(f.R), -1)
	if !l.OK {
		return false
	}
	rel, d, ok := canonRel(f.Op, l.Const)
	if !ok {
		return false
	}
	// identify atoms
	var aKey, bKey string
	n := 0
	for k, t := range l.Atom {
		n++
		if c.A.Match(t) && aKey == "" {
			aKey = k
		} else if !c.NoB && c.B.Match(t) && bKey == "" {
			bKey = k
		}
	}
	if c.NoB {
		if n != 1 || aKey == "" {
			return false
		}
	} else {
		if n != 2 || aKey == "" || bKey == "" {
			return false
		}
		if l.Coef[aKey] != -l.Coef[bKey] {
			return false
		}
	}
	k := l.Coef[aKey]
	if k != 1 && k != -1 {
		return false
	}
	if k == -1 { // −A + B REL d  ⇔  A − B flip(REL) −d
		rel, d = flipRel(rel), -d
	}
	if c.NoB {
		rel, d = lenNonNeg(l.Atom[aKey], rel, d)
	}
	switch c.Rel {
	case GE:
		return (rel == GE && d >= c.D) || (rel == EQ && d >= c.D)
	case LE:
		return (rel == LE && d <= c.D) || (rel == EQ && d <= c.D)
	case EQ:
		return rel == EQ && d == c.D
	case NE:
		return (rel == NE && d == c.D) || (rel == GE && d > c.D) || (rel == LE && d < c.D)
	}
	return false
}

// normIter rewrites the two ways go/ssa spells "the current index of a loop over a
// collection" — range loops count φ(-1, ·)+1, index loops φ(0, ·+1) — into one symbol, so
// that expressions can be compared across a range loop and an index loop.
func normIter(s string) string {
	s = strings.ReplaceAll(s, "(phi(-1, other:…) + 1)", "ι")
	s = strings.ReplaceAll(s, "phi(0, (other:… + 1))", "ι")
	return s
}

// lenNonNeg sharpens a relation on a single len()/cap() atom with what is always true of
// it (>= 0):  len != 0  is  len >= 1,  len <= 0  is  len == 0.
func lenNonNeg(atom *Term, rel Rel, d int64) (Rel, int64) {
	if atom == nil || atom.Op != "call" || (atom.Sym != "builtin:len" && atom.Sym != "builtin:cap") {
		return rel, d
	}
	switch {
	case rel == NE && d == 0:
		return GE, 1
	case rel == LE && d == 0:
		return EQ, 0
	}
	return rel, d
}

// canonCmp brings an integer comparison fact into the form  Σ cᵢ·atomᵢ REL d  with a
// sign-normalised left side; ok is false for non-integer comparisons.
func canonCmp(f Fact) (key string, rel Rel, d int64, ok bool) {
	if !f.IsCmp {
		return "", 0, 0, false
	}
	l := newLin()
	l.add(linOf(f.L), 1)
	l.add(linOf(f.R), -1)
	if !l.OK || len(l.Coef) == 0 {
		return "", 0, 0, false
	}
	rel, d, ok = canonRel(f.Op, l.Const)
	if !ok {
		return "", 0, 0, false
	}
	var keys []string
	for k := range l.Coef {
		keys = append(keys, k)
	}
	sort.Strings(keys)
	if l.Coef[keys[0]] < 0 {
		for _, k := range keys {
			l.Coef[k] = -l.Coef[k]
		}
		rel, d = flipRel(rel), -d
	}
	var parts []string
	for _, k := range keys {
		parts = append(parts, fmt.Sprintf("%+d·%s", l.Coef[k], normIter(k)))
	}
	if len(keys) == 1 && l.Coef[keys[0]] == 1 {
		rel, d = lenNonNeg(l.Atom[keys[0]], rel, d)
	}
	return strings.Join(parts, " "), rel, d, true
}

// factImplies: whenever a holds, b holds (same linear left side, interval reasoning;
// otherwise syntactic equality up to operand order and loop-index spelling).
func factImplies(a, b Fact) bool {
	if a.IsCmp != b.IsCmp {
		return false
	}
	if !a.IsCmp {
		return a.Truth == b.Truth && normIter(a.B.String()) == normIter(b.B.String())
	}
	ka, ra, da, oka := canonCmp(a)
	kb, rb, db, okb := canonCmp(b)
	if oka && okb && ka == kb {
		switch ra {
		case GE:
			return (rb == GE && da >= db) || (rb == NE && db < da)
		case LE:
			return (rb == LE && da <= db) || (rb == NE && db > da)
		case EQ:
			return (rb == GE && da >= db) || (rb == LE && da <= db) || (rb == EQ && da == db) || (rb == NE && da != db)
		case NE:
			return rb == NE && da == db
		}
		return false
	}
	if normIter(a.String()) == normIter(b.String()) {
		return true
	}
	if m, ok := b.Mirror(); ok && normIter(a.String()) == normIter(m.String()) {
		return true
	}
	return false
}

// valueOrigin: the value itself, or — when it is the result of a call to a new helper — the
// value the helper returns for it (conversions stripped).
func valueOrigin(v ssa.Value) ssa.Value {
	if v == nil {
		return nil
	}
	if t := T(v); t != nil && t.Orig != nil {
		return stripConv(t.Orig)
	}
	return stripConv(v)
}

// bindingOf: the value the creator of a function literal bound to free variable fv.
func bindingOf(fv *ssa.FreeVar) ssa.Value {
	fn := fv.Parent()
	par := fn.Parent()
	if par == nil {
		return nil
	}
	idx := -1
	for i, f := range fn.FreeVars {
		if f == fv {
			idx = i
		}
	}
	if idx < 0 {
		return nil
	}
	for _, blk := range par.Blocks {
		for _, in := range blk.Instrs {
			if mc, ok := in.(*ssa.MakeClosure); ok && mc.Fn == ssa.Value(fn) && idx < len(mc.Bindings) {
				return mc.Bindings[idx]
			}
		}
	}
	return nil
}

var globalStores map[*ssa.Global][]*ssa.Store
var globalEscapes map[*ssa.Global]bool

// globalAlias: the value the own global g was initialised with, when g is written exactly once
// (in a package initialiser), its address is used for nothing but loads and that store, and the
// value is itself a load of another global or a constant — i.e. g only renames something.
func globalAlias(g *ssa.Global) ssa.Value {
	if theProgram == nil || g.Pkg == nil || g.Pkg.Pkg == nil || !strings.HasPrefix(g.Pkg.Pkg.Path(), modPrefix) {
		return nil
	}
	if globalStores == nil {
		globalStores = map[*ssa.Global][]*ssa.Store{}
		globalEscapes = map[*ssa.Global]bool{}
		for _, fn := range theProgram.OwnFuncs {
			for _, b := range fn.Blocks {
				for _, in := range b.Instrs {
					for _, op := range in.Operands(nil) {
						gg, ok := (*op).(*ssa.Global)
						if !ok {
							continue
						}
						switch x := in.(type) {
						case *ssa.Store:
							if x.Addr == ssa.Value(gg) {
								globalStores[gg] = append(globalStores[gg], x)
								continue
							}
							globalEscapes[gg] = true
						case *ssa.UnOp:
							if x.Op != token.MUL {
								globalEscapes[gg] = true
							}
						default:
							globalEscapes[gg] = true // address taken, indexed, passed on, …
						}
					}
				}
			}
		}
	}
	if globalEscapes[g] || len(globalStores[g]) != 1 {
		return nil
	}
	st := globalStores[g][0]
	if st.Parent() == nil || st.Parent().Name() != "init" {
		return nil
	}
	// only a rename of something outside this module (a library object such as pebble.Sync):
	// the module's own named globals keep their names, which the rules use as identities
	if v, ok := st.Val.(*ssa.UnOp); ok && v.Op == token.MUL {
		if og, ok := v.X.(*ssa.Global); ok && og.Pkg != nil && og.Pkg.Pkg != nil && !strings.HasPrefix(og.Pkg.Pkg.Path(), modPrefix) {
			return v
		}
	}
	return nil
}
