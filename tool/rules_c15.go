package main

import (
	"fmt"
	"go/token"
	"sort"
	"strings"

	"golang.org/x/tools/go/ssa"
)

func init() {
	register("C15", "Structural necessary conditions of 'generated blocks are valid and a generator never contradicts itself', for every path: "+
		"(R1) persist-before-publish: in the forge function the generator-info Set, the staged-store Commit into one batch and the synced Write of that batch all dominate the hand-over to consensus; "+
		"(R2) header provenance: MaxHeightGenerated is exactly the Height of the info decoded from this generator's own record (no other value, no min/max with the tip), MaxHeightPrevoted is GetBFTHeights#0, Height is tip+1, PreviousBlockID the tip's ID; the stored Height depends on the previously stored Height (largest ever generated); "+
		"(R3) seal: derived header fields use the functions the validator compares against and the signature is computed after the last header field store; "+
		"(R4) executer mirror: the generator-side execution performs the same ordered protocol calls as the consensus-side one, including consuming the next validator set before the validators hash is computed; "+
		"(R5) selection: the size guard dominates every append, a sender is dropped on verify/execute failure, the priority heap is descending and per-sender lists ascend by nonce.",
		runC15)
}

func runC15(c *Ctx) {
	p := c.P
	c.Assume = append(c.Assume, "optimality of the selection and behaviour across real restarts are not decided")
	forge := c.Anchor("pkg/generator.(*Generator).forge")
	initH := c.Anchor("pkg/generator.(*Generator).initBlockHeader")
	seal := c.Anchor("pkg/generator.(*Generator).sealBlock")
	sel := c.Anchor("pkg/generator.(*Generator).selectTransactionsByFee")
	lim := c.Anchor("pkg/generator.(*Generator).limitTransactionsWithSize")
	if forge == nil || initH == nil || seal == nil || sel == nil || lim == nil {
		return
	}
	// the aggregate commit the generator puts into its header is the one GetAggregateCommit
	// assembles: its height stays within the window the node's own verification accepts (not
	// beyond min(next parameter change − 1, precommitted height)) — the rule of C06.R6
	c.MinInstances("C15.R6 own-commit-window", c.borrowRule(runC06, "C06", "R6 own-commit-window", "C15.R6 own-commit-window", nil), 1)
	const GI = "generator.GeneratorInfo"
	const H = "blockchain.BlockHeader"

	// ---- R1
	{
		hand := CallsIn(forge, "iface:generator.Consensus.AddInternal")
		c.Require("C15.R1 persist-before-publish", FuncKey(forge)+": AddInternal", p.Pos(forge.Pos()), "exactly one hand-over to consensus", len(hand) == 1, "")
		if len(hand) == 1 {
			h := hand[0].Call
			var set, commit, write ssa.CallInstruction
			for _, s := range CallsIn(forge, "(*db/diffdb.Database).Set") {
				if strings.Contains(T(ArgK(s.Call, 2)).String(), "GeneratorInfo).Encode") {
					set = s.Call
				}
			}
			for _, s := range CallsIn(forge, "(*db/diffdb.Database).Commit") {
				commit = s.Call
			}
			for _, s := range CallsIn(forge, "(*db.DB).Write") {
				write = s.Call
			}
			ok := set != nil && commit != nil && write != nil && instrDominates(set, commit) && instrDominates(commit, write) && instrDominates(write, h)
			c.Require("C15.R1 persist-before-publish", FuncKey(forge)+": Set ≺ Commit ≺ Write ≺ AddInternal", p.InstrPos(h), "the largest generated height is durable before the block leaves the generator", ok, "")
			if ok {
				sameBatch := stripConv(ArgK(commit, 1)) == stripConv(ArgK(write, 1))
				c.Require("C15.R1 persist-before-publish", FuncKey(forge)+": one batch", p.InstrPos(write), "the batch committed is the batch written", sameBatch, "")
				// the store committed is the one the info was set on (a view of it)
				root := T(ArgK(commit, 0)).String()
				on := T(ArgK(set, 0)).String()
				c.Require("C15.R1 persist-before-publish", FuncKey(forge)+": same staged store", p.InstrPos(commit), "the info is set on (a view of) the store that is committed", strings.Contains(on, root), on+" vs "+root)
				// keyed by the signed block's generator
				k := T(ArgK(set, 1)).String()
				c.Require("C15.R1 persist-before-publish", FuncKey(forge)+": key", p.InstrPos(set), "the record is keyed by the forged block's generator address", strings.HasSuffix(k, ".Header.GeneratorAddress"), k)
				// the block handed over is the sealed one
				c.Require("C15.R1 persist-before-publish", FuncKey(forge)+": block", p.InstrPos(h), "the block handed over is the result of sealBlock", strings.Contains(T(ArgK(h, 0)).String(), "sealBlock("), "")
			}
		}
	}

	// ---- R2
	{
		prevHeight := Matcher{"previousInfo.Height", func(t *Term) bool {
			return t.Op == "field" && t.Sym == "Height" && t.Owner == GI
		}}
		// the record decoded is this generator's: Get(generatorAddress param) → Decode
		okRec := false
		for _, s := range CallsIn(initH, "(*generator.GeneratorInfo).Decode") {
			d := T(ArgK(s.Call, 1)).String()
			okRec = strings.Contains(d, "Database).Get(") && strings.Contains(d, ", p2)#0")
		}
		c.Require("C15.R2 header-provenance", FuncKey(initH)+": own record", p.Pos(initH.Pos()), "the info decoded is the record stored under this generator's address", okRec, "")
		vals := map[string]*Term{}
		for _, b := range blocksDeep(initH) {
			for _, in := range b.Instrs {
				if st, ok := in.(*ssa.Store); ok {
					if fa, ok := st.Addr.(*ssa.FieldAddr); ok {
						o, s := ownerOfFieldBase(fa.X.Type())
						if o == H {
							vals["H."+fieldNameOf(s.Field(fa.Field))] = T(st.Val)
						}
						if o == GI {
							vals["I."+fieldNameOf(s.Field(fa.Field))] = T(st.Val)
						}
					}
				}
			}
		}
		get := func(k string) *Term {
			if t, ok := vals[k]; ok {
				return t
			}
			return &Term{Op: "other", Sym: "<unset>"}
		}
		c.Require("C15.R2 header-provenance", "header.MaxHeightGenerated", p.Pos(initH.Pos()), "exactly the Height of this generator's stored record", prevHeight.Match(get("H.MaxHeightGenerated")), get("H.MaxHeightGenerated").String())
		c.Require("C15.R2 header-provenance", "header.MaxHeightPrevoted", p.Pos(initH.Pos()), "the node's own maxHeightPrevoted (GetBFTHeights#0)", IsResult("iface:generator.Consensus.GetBFTHeights", 0).Match(get("H.MaxHeightPrevoted")), get("H.MaxHeightPrevoted").String())
		hs := get("H.Height").String()
		c.Require("C15.R2 header-provenance", "header.Height", p.Pos(initH.Pos()), "tip height + 1", strings.Contains(hs, "Chain).LastBlock(") && strings.HasSuffix(hs, ".Header.Height + 1)"), hs)
		ps := get("H.PreviousBlockID").String()
		c.Require("C15.R2 header-provenance", "header.PreviousBlockID", p.Pos(initH.Pos()), "the tip's ID", strings.Contains(ps, "Chain).LastBlock(") && strings.HasSuffix(ps, ".Header.ID"), ps)
		c.Require("C15.R2 header-provenance", "header.GeneratorAddress", p.Pos(initH.Pos()), "the generator the record was loaded for", get("H.GeneratorAddress").String() == "p2", get("H.GeneratorAddress").String())
		c.Require("C15.R2 header-provenance", "header.AggregateCommit", p.Pos(initH.Pos()), "the commit assembled by the node (GetAggregateCommit)", strings.Contains(get("H.AggregateCommit").String(), "GetAggregateCommit("), "")
		// stored Height must depend on the previously stored Height
		for _, where := range []struct {
			fn  *ssa.Function
			key string
		}{{initH, "I.Height"}} {
			t := get(where.key)
			dep := t.Any(prevHeight.F)
			c.Require("C15.R2 largest-height-persisted", FuncKey(where.fn)+": stored GeneratorInfo.Height", p.Pos(where.fn.Pos()), "the persisted height is max(previously persisted, this height) — it must depend on the previous record", dep, "stored: "+t.String())
		}
		for _, st := range storesToField(forge, GI, "Height") {
			t := T(st.Val)
			dep := t.Any(prevHeight.F) || strings.Contains(t.String(), "ints.Max")
			c.Require("C15.R2 largest-height-persisted", FuncKey(forge)+": stored GeneratorInfo.Height", p.InstrPos(st), "the persisted height is max(previously persisted, this height) — it must depend on the previous record", dep, "stored: "+t.String())
		}
	}

	// ---- R3 seal
	{
		signs := CallsIn(seal, "(*blockchain.BlockHeader).Sign")
		c.Require("C15.R3 seal", FuncKey(seal)+": Sign", p.Pos(seal.Pos()), "the header is signed exactly once", len(signs) == 1, "")
		if len(signs) == 1 {
			sg := signs[0].Call
			late := ""
			n := 0
			for _, b := range blocksDeep(seal) {
				for _, in := range b.Instrs {
					if st, ok := in.(*ssa.Store); ok {
						if fa, ok := st.Addr.(*ssa.FieldAddr); ok {
							o, s := ownerOfFieldBase(fa.X.Type())
							if o == H {
								n++
								if !instrDominates(st, sg) {
									late = fieldNameOf(s.Field(fa.Field))
								}
							}
						}
					}
				}
			}
			c.Require("C15.R3 seal", FuncKey(seal)+": sign last", p.InstrPos(sg), "every header field is assigned before the signature is computed", late == "" && n >= 5, "assigned after Sign: "+late)
			c.Require("C15.R3 seal", FuncKey(seal)+": chain id", p.InstrPos(sg), "signed for this chain's ID", strings.HasSuffix(T(ArgK(sg, 1)).Sym, "Chain).ChainID"), "")
		}
		// assets sorted before the root, tx ids of the included txs
		srt := CallsIn(seal, "(*blockchain.BlockAssets).Sort")
		root := CallsIn(seal, "(blockchain.BlockAssets).GetRoot")
		c.Require("C15.R3 seal", FuncKey(seal)+": assets sorted", p.Pos(seal.Pos()), "assets are sorted before their root is taken", len(srt) == 1 && len(root) == 1 && instrDominates(srt[0].Call, root[0].Call), "")
		// … and the root signed in the header is taken over the very list the block carries, in the
		// order it carries it: the list sorted, the list hashed and the list stored in Block.Assets are
		// one value (a sorted copy in the body with the root of the original fails every validator)
		{
			listOf := func(v ssa.Value) ssa.Value {
				for {
					switch x := v.(type) {
					case *ssa.ChangeType:
						v = x.X
						continue
					case *ssa.Convert:
						v = x.X
						continue
					case *ssa.MakeInterface:
						v = x.X
						continue
					case *ssa.UnOp:
						// *addr of a local that holds the list (Sort has a pointer receiver)
						if al, ok := x.X.(*ssa.Alloc); ok {
							if sv := lastStoreInBlock(al, x); sv != nil {
								v = sv
								continue
							}
							for _, r := range *al.Referrers() {
								if st, ok := r.(*ssa.Store); ok && st.Addr == ssa.Value(al) {
									v = st.Val
								}
							}
							if v != ssa.Value(x) {
								continue
							}
						}
					case *ssa.Alloc:
						for _, r := range *x.Referrers() {
							if st, ok := r.(*ssa.Store); ok && st.Addr == ssa.Value(x) {
								v = st.Val
							}
						}
						if v != ssa.Value(x) {
							continue
						}
					}
					return valueRoot(v)
				}
			}
			var carried []ssa.Value
			for _, st := range storesToField(seal, "blockchain.Block", "Assets") {
				carried = append(carried, listOf(st.Val))
			}
			ok := len(carried) == 1 && len(root) == 1 && len(srt) == 1
			det := ""
			if ok {
				hashed := listOf(root[0].Call.Common().Args[0])
				sorted := listOf(srt[0].Call.Common().Args[0])
				ok = hashed == carried[0] && sorted == carried[0]
				det = fmt.Sprintf("sorted %s / hashed %s / carried %s", sorted.Name(), hashed.Name(), carried[0].Name())
			}
			c.Require("C15.R3 seal", FuncKey(seal)+": asset root covers the carried list", p.Pos(seal.Pos()), "the list sorted, the list whose root is signed and the list stored in Block.Assets are the same value", ok, det)
		}
	}

	// ---- R4 executer mirror
	{
		seqOf := func(fns []*ssa.Function) []string {
			var seq []string
			for _, fn := range fns {
				if fn == nil {
					continue
				}
				// calls in source order; a call to a new helper stands for the helper's own calls
				var ordered func(f *ssa.Function, depth int) []ssa.CallInstruction
				ordered = func(f *ssa.Function, depth int) []ssa.CallInstruction {
					cs := AllCalls(f)
					sort.SliceStable(cs, func(i, j int) bool { return cs[i].Pos() < cs[j].Pos() })
					var out []ssa.CallInstruction
					for _, call := range cs {
						if h := call.Common().StaticCallee(); h != nil && depth < 3 && isNewHelper(h) && len(h.Blocks) > 0 {
							out = append(out, ordered(h, depth+1)...)
							continue
						}
						out = append(out, call)
					}
					return out
				}
				for _, call := range ordered(fn, 0) {
					n := CalleeName(call.Common())
					switch {
					case strings.HasPrefix(n, "iface:labi.ABI."):
						seq = append(seq, strings.TrimPrefix(n, "iface:labi.ABI."))
					case strings.HasSuffix(n, ".BeforeTransactionsExecute") && strings.Contains(n, "liskbft.Module"), strings.HasSuffix(n, "Consensus.BFTBeforeTransactionsExecute"):
						seq = append(seq, "BFT.BeforeTransactionsExecute")
					case strings.HasSuffix(n, "API).SetBFTParameters"), strings.HasSuffix(n, "Consensus.SetBFTParameters"):
						seq = append(seq, "BFT.SetBFTParameters")
					case strings.HasSuffix(n, "API).SetGeneratorKeys"), strings.HasSuffix(n, "Consensus.SetGeneratorKeys"):
						seq = append(seq, "BFT.SetGeneratorKeys")
					}
				}
			}
			return seq
		}
		cons := seqOf([]*ssa.Function{p.Fn("pkg/consensus.(*stateExecuter).Execute")})
		gen := seqOf([]*ssa.Function{
			p.Fn("pkg/generator.(*stateExecuter).BeforeTransactionsExecute"),
			p.Fn("pkg/generator.(*stateExecuter).VerifyTransaction"),
			p.Fn("pkg/generator.(*stateExecuter).ExecuteTransaction"),
			p.Fn("pkg/generator.(*stateExecuter).AfterTransactionsExecute"),
		})
		c.Count("consensus-side protocol calls", len(cons))
		want := []string{"BFT.BeforeTransactionsExecute", "BeforeTransactionsExecute", "VerifyTransaction", "ExecuteTransaction", "AfterTransactionsExecute", "BFT.SetBFTParameters", "BFT.SetGeneratorKeys"}
		okCons := strings.Join(cons, ",") == strings.Join(want, ",")
		// both sides demand the same verification verdict before executing a transaction
		{
			verdictOf := func(fn *ssa.Function, at func(ff *FuncFacts) []*ssa.BasicBlock) (string, bool) {
				if fn == nil {
					return "", false
				}
				ff := factsOf(fn)
				res := ""
				for _, blk := range at(ff) {
					found := ""
					for _, f := range ff.FactsAt(blk) {
						if f.IsCmp && f.Op.String() == "==" && f.L.Op == "field" && f.L.Sym == "Result" && strings.Contains(f.L.String(), "VerifyTransaction(") && f.R.Op == "const" {
							found = f.R.Sym
						}
					}
					if found == "" {
						return "", false
					}
					if res != "" && res != found {
						return "", false
					}
					res = found
				}
				return res, res != ""
			}
			consExec := p.Fn("pkg/consensus.(*stateExecuter).Execute")
			genVerify := p.Fn("pkg/generator.(*stateExecuter).VerifyTransaction")
			kC, okC := verdictOf(consExec, func(ff *FuncFacts) []*ssa.BasicBlock {
				var bs []*ssa.BasicBlock
				for _, s := range CallsIn(consExec, "iface:labi.ABI.ExecuteTransaction") {
					bs = append(bs, s.Call.Block())
				}
				return bs
			})
			kG, okG := verdictOf(genVerify, func(ff *FuncFacts) []*ssa.BasicBlock {
				var bs []*ssa.BasicBlock
				for _, r := range Returns(genVerify) {
					if classifyReturn(ff, r) == RetNil {
						bs = append(bs, r.Block())
					}
				}
				return bs
			})
			c.Require("C15.R4 executer-mirror", "verification verdict", "-", "the generator includes a transaction only under the verdict the validator requires before executing it (a block with a pending/invalid transaction fails the node's own validation)", okC && okG && kC == kG, fmt.Sprintf("validator requires Result == %s (%v); generator accepts under Result == %s (%v)", kC, okC, kG, okG))
		}
		// … and the same execution verdict: whatever result makes the generator leave a transaction
		// out must make the validator refuse a block that carries it
		{
			execFacts := func(fn *ssa.Function) (string, int) {
				if fn == nil {
					return "", 0
				}
				ff := factsOf(fn)
				n := 0
				all := ""
				for _, b := range blocksDeep(fn) {
					for _, in := range b.Instrs {
						fa, ok := in.(*ssa.FieldAddr)
						if !ok {
							continue
						}
						o, st := ownerOfFieldBase(fa.X.Type())
						if st == nil || !strings.HasSuffix(o, "labi.ExecuteTransactionResponse") || fieldNameOf(st.Field(fa.Field)) != "Events" {
							continue
						}
						n++
						var fs []string
						for _, f := range ff.FactsAt(b) {
							if f.IsCmp && f.L.Op == "field" && f.L.Sym == "Result" && strings.Contains(f.L.String(), "ExecuteTransaction(") && f.R.Op == "const" {
								fs = append(fs, "Result "+f.Op.String()+" "+f.R.Sym)
							}
						}
						sort.Strings(fs)
						fs = dedupStrings(fs)
						cur := strings.Join(fs, " and ")
						if cur == "" {
							cur = "any result"
						}
						if all != "" && all != cur {
							cur = all + " | " + cur
						}
						all = cur
					}
				}
				return all, n
			}
			vC, nC := execFacts(p.Fn("pkg/consensus.(*stateExecuter).Execute"))
			vG, nG := execFacts(p.Fn("pkg/generator.(*stateExecuter).ExecuteTransaction"))
			c.Require("C15.R4 executer-mirror", "execution verdict", "-", "the validator keeps a transaction's events (goes on with the block) under the same facts about the execution result as the generator does: a result for which the generator drops a transaction makes the validator reject the block, and the other way round", nC > 0 && nG > 0 && vC == vG, fmt.Sprintf("validator continues under: %s (%d sites); generator continues under: %s (%d sites)", vC, nC, vG, nG))
		}
		c.Require("C15.R4 executer-mirror", "consensus-side sequence", "-", "validator side: BFT hook → before → verify → execute → after → set next validators", okCons, strings.Join(cons, " → "))
		// generator side must contain every step of the consensus side, in order
		i := 0
		missing := ""
		for _, w := range want {
			found := false
			for j := i; j < len(gen); j++ {
				if gen[j] == w {
					found = true
					i = j + 1
					break
				}
			}
			if !found {
				missing += w + " "
			}
		}
		c.Require("C15.R4 executer-mirror", "generator-side sequence", "-", "the generator performs every protocol step the validator performs, in the same order (otherwise validatorsHash/state root differ at validator-set changes)", missing == "", "missing on the generator side: "+missing+"; generator: "+strings.Join(gen, " → "))
		// forge calls the phases in order
		phases := []string{"(*generator.stateExecuter).InsertAssets", "(*generator.stateExecuter).BeforeTransactionsExecute", "(*generator.Generator).selectTransactionsByFee", "(*generator.stateExecuter).AfterTransactionsExecute", "(*generator.stateExecuter).Commit", "(*generator.Generator).sealBlock"}
		var prev ssa.CallInstruction
		for _, ph := range phases {
			s := CallsIn(forge, ph)
			ok := len(s) == 1 && (prev == nil || instrDominates(prev, s[0].Call) || ph == "(*generator.Generator).selectTransactionsByFee" || prevIsSelect(prev))
			c.Require("C15.R4 forge-phase-order", FuncKey(forge)+": "+ph, p.Pos(forge.Pos()), "insert assets → before hooks → select → after hooks → dry-run commit → seal", ok, "")
			if len(s) == 1 {
				prev = s[0].Call
			}
		}
		// the state root sealed is the dry-run commit's result
		for _, s := range CallsIn(forge, "(*generator.Generator).sealBlock") {
			sr := T(ArgK(s.Call, 5)).String()
			c.Require("C15.R4 forge-phase-order", FuncKey(forge)+": state root", p.InstrPos(s.Call), "the sealed state root is the one the dry-run commit returned", strings.Contains(sr, "stateExecuter).Commit("), sr)
			tx := T(ArgK(s.Call, 2)).String()
			c.Require("C15.R4 forge-phase-order", FuncKey(forge)+": transactions", p.InstrPos(s.Call), "the sealed transactions are the size-limited selection", strings.Contains(tx, "limitTransactionsWithSize("), tx)
		}
	}

	// ---- R5 selection
	{
		for _, fn := range []*ssa.Function{sel, lim} {
			ff := factsOf(fn)
			n := 0
			for _, call := range AllCalls(fn) {
				if CalleeName(call.Common()) != "builtin:append" {
					continue
				}
				// appends to the result list (element is a *Transaction)
				if !strings.Contains(typeName(call.Value().Type()), "blockchain.Transaction") {
					continue
				}
				n++
				ok := false
				for _, f := range ff.FactsAt(call.Block()) {
					if f.IsCmp && f.Op.String() == "<=" && strings.Contains(f.L.String(), ").Size(") && f.L.Op == "binop" && f.L.Sym == "+" && f.R.Op == "param" {
						ok = true
					}
				}
				c.Require("C15.R5 size-guard", FuncKey(fn)+": append", p.InstrPos(call), "a transaction is appended only when size + total <= the maximum", ok, "")
			}
			// the other way of selecting: a counted prefix txs[:count] — count grows only under the guard
			for _, b := range fn.Blocks {
				for _, in := range b.Instrs {
					sl, isSl := in.(*ssa.Slice)
					if !isSl || sl.High == nil || !strings.Contains(typeName(sl.Type()), "blockchain.Transaction") {
						continue
					}
					phi, isPhi := stripConv(sl.High).(*ssa.Phi)
					if !isPhi {
						continue
					}
					for _, e := range phi.Edges {
						inc, isInc := e.(*ssa.BinOp)
						if !isInc || inc.Op != token.ADD || inc.X != ssa.Value(phi) {
							continue
						}
						n++
						ok := false
						for _, f := range ff.FactsAt(inc.Block()) {
							if f.IsCmp && f.Op.String() == "<=" && strings.Contains(f.L.String(), ").Size(") && f.L.Op == "binop" && f.L.Sym == "+" && f.R.Op == "param" {
								ok = true
							}
						}
						c.Require("C15.R5 size-guard", FuncKey(fn)+": prefix count", p.InstrPos(inc), "the selected prefix grows only when size + total <= the maximum", ok, "")
					}
				}
			}
			c.MinInstances("C15.R5 size-guard in "+FuncKey(fn), n, 1)
		}
		sf := factsOf(sel)
		for _, callee := range []string{"(*generator.stateExecuter).VerifyTransaction", "(*generator.stateExecuter).ExecuteTransaction"} {
			for i, e := range sf.Edges {
				f := sf.Facts[i]
				if f.IsCmp && f.Op.String() == "!=" && strings.Contains(f.L.String(), callee+"(") && f.R.Sym == "nil" {
					first := e.To.Instrs[0]
					isDel := func(in ssa.Instruction) bool {
						cl, ok := in.(*ssa.Call)
						return ok && CalleeName(cl.Common()) == "builtin:delete"
					}
					dropped := isDel(first) || func() bool {
						for _, in := range e.To.Instrs {
							if isDel(in) {
								return true
							}
						}
						return false
					}()
					c.Require("C15.R5 sender-dropped-on-failure", FuncKey(sel)+": "+callee+" failed", p.InstrPos(e.If), "the sender is removed from the candidates when one of its transactions fails", dropped, "")
				}
			}
		}
		// the candidates are taken in fee-priority order because they sit in a heap: once it is
		// a heap it is changed through container/heap only. A direct call of the queue's own
		// Push (a plain append) is fine while filling, i.e. when heap.Init follows before the
		// next heap.Pop; anywhere else the next Pop no longer yields the best candidate
		{
			nHeap := 0
			for _, call := range AllCallsDeep(sel) {
				n := CalleeName(call.Common())
				if n == "container/heap.Pop" || n == "container/heap.Push" || n == "container/heap.Init" {
					nHeap++
				}
				g := call.Common().StaticCallee()
				if g == nil || !IsOwn(g) || g.Signature.Recv() == nil || (g.Name() != "Push" && g.Name() != "Pop") {
					continue
				}
				// the receiver type is a heap (has Less and Swap)
				ms := p.Prog.MethodSets.MethodSet(g.Signature.Recv().Type())
				if ms.Lookup(g.Pkg.Pkg, "Less") == nil || ms.Lookup(g.Pkg.Pkg, "Swap") == nil {
					continue
				}
				bad := ""
				seen := map[*ssa.BasicBlock]bool{}
				type pos struct {
					b *ssa.BasicBlock
					i int
				}
				work := []pos{{call.Block(), instrIndex(call) + 1}}
				for len(work) > 0 && bad == "" {
					w := work[len(work)-1]
					work = work[:len(work)-1]
					barrier := false
					for i := w.i; i < len(w.b.Instrs); i++ {
						if cl, ok := w.b.Instrs[i].(ssa.CallInstruction); ok {
							switch CalleeName(cl.Common()) {
							case "container/heap.Init":
								barrier = true
							case "container/heap.Pop", "container/heap.Push", "container/heap.Fix", "container/heap.Remove":
								bad = "reaches " + CalleeName(cl.Common()) + " at " + p.InstrPos(cl) + " without heap.Init in between"
							}
						}
						if barrier || bad != "" {
							break
						}
					}
					if barrier || bad != "" {
						continue
					}
					for _, sc := range w.b.Succs {
						if !seen[sc] {
							seen[sc] = true
							work = append(work, pos{sc, 0})
						}
					}
				}
				c.Require("C15.R5 candidate-heap-discipline", FuncKey(sel)+" ⇒ "+FuncName(g), p.InstrPos(call), "a direct Push/Pop on the priority queue is re-heapified (heap.Init) before container/heap uses it again", bad == "", bad)
			}
			c.MinInstances("C15.R5 candidate-heap-discipline (container/heap calls)", nHeap, 2)
		}
		// a transaction that the executer reports as failed (and that selection therefore drops)
		// leaves nothing behind in the executer's event list: the list changes only in calls
		// that end in success
		if et := c.Anchor("pkg/generator.(*stateExecuter).ExecuteTransaction"); et != nil {
			ef := factsOf(et)
			ws := fieldWrites(et, "generator.stateExecuter", "events")
			for _, w := range ws {
				path := reachesReturnAvoiding(w, func(ssa.Instruction) bool { return false }, func(r *ssa.Return) bool { return classifyReturn(ef, r) == RetErr })
				c.Require("C15.R5 dropped-transaction-leaves-no-events", FuncKey(et), p.InstrPos(w), "events are recorded only on the way to a successful return (the block's event root covers exactly the included transactions)", path == nil, pathStr(path))
			}
			c.MinInstances("C15.R5 dropped-transaction-leaves-no-events", len(ws), 1)
		}
		// appended only after both succeeded
		for _, call := range AllCalls(sel) {
			if CalleeName(call.Common()) == "builtin:append" && strings.Contains(typeName(call.Value().Type()), "blockchain.Transaction") {
				ok1, _ := sf.NilErrAt(call.Block(), IsCall("(*generator.stateExecuter).VerifyTransaction"))
				ok2, _ := sf.NilErrAt(call.Block(), IsCall("(*generator.stateExecuter).ExecuteTransaction"))
				c.Require("C15.R5 selected-after-verify-and-execute", FuncKey(sel), p.InstrPos(call), "a transaction is selected only after it verified and executed", ok1 && ok2, "")
			}
		}
		if less := c.Anchor("pkg/generator.(FeePriorityTransactions).Less"); less != nil {
			d, key, ok := sortDirection(less)
			c.Require("C15.R5 heap-order", FuncKey(less), p.Pos(less.Pos()), "highest fee priority first", ok && d == "desc" && strings.Contains(key, "FeePriority"), d+" on "+key)
		}
		if g := c.Anchor("pkg/generator.getSortedTransactionMapByNonce"); g != nil {
			cl := sortClosure(g)
			ok := false
			det := ""
			if cl != nil {
				d, key, k := sortDirection(cl)
				ok = k && d == "asc" && strings.Contains(key, "Nonce")
				det = d + " on " + key
			}
			c.Require("C15.R5 nonce-order", FuncKey(g), p.Pos(g.Pos()), "each sender's transactions ascend by nonce", ok, det)
		}
	}
}

func prevIsSelect(prev ssa.CallInstruction) bool {
	return prev != nil && strings.HasSuffix(CalleeName(prev.Common()), "selectTransactionsByFee")
}

var _ = fmt.Sprint

func dedupStrings(xs []string) []string {
	var out []string
	for i, x := range xs {
		if i == 0 || x != xs[i-1] {
			out = append(out, x)
		}
	}
	return out
}
