package main

import (
	"fmt"
	"go/token"
	"sort"
	"strings"

	"golang.org/x/tools/go/ssa"
)

// C09.H3 loop-progress: every loop in a function reachable from untrusted input makes
// progress towards one of its exits on every iteration, by a recognised shape:
//
//   counted     an exit compares a header φ i with a loop-invariant bound and every way
//               round the loop steps i by the same non-zero constant (range loops over
//               slices, arrays, strings and integers are of this shape in go/ssa), or
//               shrinks it towards zero (i >>= k, i /= k, i -= k) against a zero bound;
//   consuming   an exit tests len(s) of a header φ s and every way round the loop re-slices
//               s strictly shorter (s[1:], s[:len(s)-1], …);
//   iterator    range over a map or a channel (channels: rule H2 / the sender's business);
//   cursor      an exit asks a cursor Valid() and every way round the loop calls its Next()/Prev();
//   exit-only   the loop body cannot get back to the header without passing an exit test
//               whose operands change … (not attempted: goes to the table).
//
// Anything else — in particular loops whose progress is conditional — needs a reviewed
// row in c09LoopTable stating the termination argument; a loop with neither is reported.

type loopInfo struct {
	Fn     *ssa.Function
	Header *ssa.BasicBlock
	Blocks map[*ssa.BasicBlock]bool
	Latch  []*ssa.BasicBlock // sources of back edges
}

func naturalLoops(fn *ssa.Function) []*loopInfo {
	byHeader := map[*ssa.BasicBlock]*loopInfo{}
	var order []*ssa.BasicBlock
	for _, b := range fn.Blocks {
		for _, s := range b.Succs {
			if s.Dominates(b) { // back edge b → s
				li := byHeader[s]
				if li == nil {
					li = &loopInfo{Fn: fn, Header: s, Blocks: map[*ssa.BasicBlock]bool{s: true}}
					byHeader[s] = li
					order = append(order, s)
				}
				li.Latch = append(li.Latch, b)
				// body: everything that reaches b without passing s
				work := []*ssa.BasicBlock{b}
				for len(work) > 0 {
					x := work[len(work)-1]
					work = work[:len(work)-1]
					if li.Blocks[x] {
						continue
					}
					li.Blocks[x] = true
					work = append(work, x.Preds...)
				}
			}
		}
	}
	var out []*loopInfo
	for _, h := range order {
		out = append(out, byHeader[h])
	}
	return out
}

type loopExit struct {
	If    *ssa.If
	Block *ssa.BasicBlock
	Cond  ssa.Value
}

func (li *loopInfo) exits() []loopExit {
	var out []loopExit
	var blocks []*ssa.BasicBlock
	for b := range li.Blocks {
		blocks = append(blocks, b)
	}
	sort.Slice(blocks, func(i, j int) bool { return blocks[i].Index < blocks[j].Index })
	for _, b := range blocks {
		iff, ok := b.Instrs[len(b.Instrs)-1].(*ssa.If)
		if !ok {
			continue
		}
		for _, s := range b.Succs {
			if !li.Blocks[s] {
				out = append(out, loopExit{iff, b, iff.Cond})
				break
			}
		}
	}
	return out
}

// hasOtherExit: return / panic inside the loop body (an exit that is not an If edge).
func (li *loopInfo) leavesByReturn() bool {
	for b := range li.Blocks {
		switch b.Instrs[len(b.Instrs)-1].(type) {
		case *ssa.Return, *ssa.Panic:
			return true
		}
	}
	return false
}

// nextValues: the values a header φ can take on the next iteration — its incoming values on
// back edges, with φs inside the loop expanded.
func (li *loopInfo) nextValues(phi *ssa.Phi) []ssa.Value {
	var out []ssa.Value
	seen := map[ssa.Value]bool{}
	var expand func(v ssa.Value)
	expand = func(v ssa.Value) {
		if seen[v] {
			return
		}
		seen[v] = true
		if p, ok := v.(*ssa.Phi); ok && p != phi && li.Blocks[p.Block()] && p.Block() != li.Header {
			for _, e := range p.Edges {
				expand(e)
			}
			return
		}
		out = append(out, v)
	}
	for i, pred := range li.Header.Preds {
		if li.Blocks[pred] {
			expand(phi.Edges[i])
		}
	}
	return out
}

func (li *loopInfo) invariant(v ssa.Value) bool {
	switch x := v.(type) {
	case *ssa.Const, *ssa.Parameter, *ssa.FreeVar, *ssa.Global:
		return true
	case ssa.Instruction:
		if !li.Blocks[x.Block()] {
			return true
		}
		// len/cap of an invariant, conversions and arithmetic of invariants computed in the loop
		switch y := v.(type) {
		case *ssa.Call:
			if n := CalleeName(y.Common()); n == "builtin:len" || n == "builtin:cap" {
				return li.invariant(ArgK(y, 0))
			}
		case *ssa.Convert:
			return li.invariant(y.X)
		case *ssa.BinOp:
			return li.invariant(y.X) && li.invariant(y.Y)
		case *ssa.UnOp:
			// a field of an invariant object read in the loop (`i < len(c.topics)`): invariant when no
			// instruction of the loop stores to a field of that name or calls anything that could
			if fa, ok := y.X.(*ssa.FieldAddr); ok && y.Op == token.MUL && li.invariant(fa.X) {
				_, st := ownerOfFieldBase(fa.X.Type())
				if st == nil {
					return false
				}
				name := fieldNameOf(st.Field(fa.Field))
				for b := range li.Blocks {
					for _, in := range b.Instrs {
						switch z := in.(type) {
						case *ssa.Store:
							if fa2, ok := z.Addr.(*ssa.FieldAddr); ok {
								if _, st2 := ownerOfFieldBase(fa2.X.Type()); st2 != nil && fieldNameOf(st2.Field(fa2.Field)) == name {
									return false
								}
							}
						case ssa.CallInstruction:
							// a callee can change the field only through the object: it must be handed the
							// object itself (receiver or argument) — values read out of it do not count
							args := append([]ssa.Value{}, z.Common().Args...)
							if z.Common().IsInvoke() {
								args = append(args, z.Common().Value)
							}
							for _, a := range args {
								if valueRoot(stripConv(a)) == valueRoot(stripConv(fa.X)) {
									return false
								}
							}
						}
					}
				}
				return true
			}
			// a local that lives in a cell (a closure captures it): invariant when the loop neither
			// stores to the cell nor hands its address to anything
			if al, ok := y.X.(*ssa.Alloc); ok && y.Op == token.MUL {
				for b := range li.Blocks {
					for _, in := range b.Instrs {
						switch z := in.(type) {
						case *ssa.Store:
							if z.Addr == ssa.Value(al) {
								return false
							}
						case ssa.CallInstruction:
							for _, a := range z.Common().Args {
								if a == ssa.Value(al) {
									return false
								}
							}
						case *ssa.MakeClosure:
							for _, bnd := range z.Bindings {
								if bnd == ssa.Value(al) {
									return false
								}
							}
						}
					}
				}
				return true
			}
		case *ssa.FieldAddr:
			return li.invariant(y.X)
		}
	}
	return false
}

// headerPhiOf: v itself, or v = φ ± const (the range idiom tests φ+1), as a header φ.
func (li *loopInfo) headerPhiOf(v ssa.Value) *ssa.Phi {
	v = stripConv(v)
	if p, ok := v.(*ssa.Phi); ok && p.Block() == li.Header {
		return p
	}
	if b, ok := v.(*ssa.BinOp); ok && (b.Op == token.ADD || b.Op == token.SUB) {
		if _, isC := b.Y.(*ssa.Const); isC {
			return li.headerPhiOf(b.X)
		}
	}
	return nil
}

func constInt(v ssa.Value) (int64, bool) {
	c, ok := stripConv(v).(*ssa.Const)
	if !ok || c.Value == nil {
		return 0, false
	}
	if c.Value.Kind().String() != "Int" {
		return 0, false
	}
	return c.Int64(), true
}

// classify returns the progress shape of the loop, or "" with a description of its exits.
func (li *loopInfo) classify() (shape string, desc string) {
	// iterator loops: the header (or body) advances an ssa.Next
	for b := range li.Blocks {
		for _, in := range b.Instrs {
			if nx, ok := in.(*ssa.Next); ok {
				if _, isRange := nx.Iter.(*ssa.Range); isRange {
					return "iterator", ""
				}
			}
			if u, ok := in.(*ssa.UnOp); ok && u.Op == token.ARROW && u.CommaOk {
				return "iterator", "" // range over a channel (H2)
			}
			// an event loop waits in a blocking select; a select with a default branch only polls
			// (its iteration does not wait for anything) and needs a progress argument of its own
			if sel, ok := in.(*ssa.Select); ok && sel.Blocking {
				return "select", ""
			}
		}
	}
	var ds []string
	everyIteration := func(b *ssa.BasicBlock) bool {
		for _, l := range li.Latch {
			if !(b == l || b.Dominates(l)) {
				return false
			}
		}
		return true
	}
	for _, ex := range li.exits() {
		ds = append(ds, T(ex.Cond).String())
		if !everyIteration(ex.Block) && ex.Block != li.Header {
			continue // a test that some iterations skip proves nothing
		}
		// cursor: the exit asks a cursor whether it is still valid and every way round the
		// loop advances that cursor (pebble iterators, scanners)
		if cl, ok := ex.Cond.(*ssa.Call); ok && !cl.Common().IsInvoke() && len(cl.Common().Args) == 1 && strings.HasSuffix(CalleeName(cl.Common()), ").Valid") {
			recv := ArgK(cl, 0)
			adv := func(in ssa.Instruction) bool {
				c2, ok := in.(*ssa.Call)
				if !ok {
					return false
				}
				if len(c2.Common().Args) == 0 && !c2.Common().IsInvoke() {
					// a method value chosen beforehand (next := it.Next, or it.Prev when walking
					// backwards): every method it may be is an advance of this cursor
					ms := boundMethods(c2.Common().Value, map[ssa.Value]bool{})
					for _, m := range ms {
						if m.recv != recv || !(strings.HasSuffix(m.name, ").Next") || strings.HasSuffix(m.name, ").Prev")) {
							return false
						}
					}
					return len(ms) > 0
				}
				if len(c2.Common().Args) != 1 || ArgK(c2, 0) != recv {
					return false
				}
				n := CalleeName(c2.Common())
				return strings.HasSuffix(n, ").Next") || strings.HasSuffix(n, ").Prev")
			}
			all := true
			for _, l := range li.Latch {
				// every path from the loop body entry to this latch passes an advance: check that
				// an advancing call's block dominates the latch
				found := false
				for b := range li.Blocks {
					for _, in := range b.Instrs {
						if adv(in) && (b == l || b.Dominates(l)) {
							found = true
						}
					}
				}
				if !found {
					all = false
				}
			}
			if all {
				return "cursor", ""
			}
		}
		bo, ok := ex.Cond.(*ssa.BinOp)
		if !ok {
			continue
		}
		// draining: the exit tests Len() of a container against zero and every way round the
		// loop pops one element from it (container/heap.Pop)
		for _, side := range [][2]ssa.Value{{bo.X, bo.Y}, {bo.Y, bo.X}} {
			cl, isCall := stripConv(side[0]).(*ssa.Call)
			z, isZero := constInt(side[1])
			if !isCall || !isZero || z != 0 || !strings.HasSuffix(CalleeName(cl.Common()), ").Len") || len(cl.Common().Args) != 1 {
				continue
			}
			cell := cellOf(ArgK(cl, 0))
			if cell == nil {
				continue
			}
			all := len(li.Latch) > 0
			for _, l := range li.Latch {
				found := false
				for b := range li.Blocks {
					for _, in := range b.Instrs {
						c2, ok := in.(*ssa.Call)
						if !ok || CalleeName(c2.Common()) != "container/heap.Pop" || len(c2.Common().Args) != 1 {
							continue
						}
						if cellOf(ArgK(c2, 0)) == cell && (b == l || b.Dominates(l)) {
							found = true
						}
					}
				}
				if !found {
					all = false
				}
			}
			if all {
				return "consuming", ""
			}
		}
		for _, side := range [][2]ssa.Value{{bo.X, bo.Y}, {bo.Y, bo.X}} {
			v, bound := side[0], side[1]
			// consuming: len(φ) against a constant
			if cl, ok := stripConv(v).(*ssa.Call); ok && CalleeName(cl.Common()) == "builtin:len" {
				if phi := li.headerPhiOf(ArgK(cl, 0)); phi != nil {
					if _, isC := constInt(bound); isC && li.strictlyShorter(phi) {
						return "consuming", ""
					}
				}
			}
			// counted, the variable living in a cell (a function literal in the body reads it): the
			// exit compares *cell with an invariant bound; every store to the cell in the loop writes
			// *cell ± one and the same constant, one such store lies on every way round, and no
			// literal that captures the cell stores to it
			if ld, ok := stripConv(v).(*ssa.UnOp); ok && ld.Op == token.MUL && li.invariant(bound) {
				if al, ok := ld.X.(*ssa.Alloc); ok && li.cellCounted(al) {
					return "counted", ""
				}
			}
			phi := li.headerPhiOf(v)
			if phi == nil || !li.invariant(bound) {
				continue
			}
			nexts := li.nextValues(phi)
			if len(nexts) == 0 {
				continue
			}
			// counted: every next value is φ + c with one and the same non-zero c
			var step int64
			okStep := true
			for i, nv := range nexts {
				b, isB := stripConv(nv).(*ssa.BinOp)
				if !isB || stripConv(b.X) != ssa.Value(phi) {
					okStep = false
					break
				}
				c, isC := constInt(b.Y)
				if !isC || c == 0 {
					okStep = false
					break
				}
				switch b.Op {
				case token.ADD:
				case token.SUB:
					c = -c
				default:
					okStep = false
				}
				if i == 0 {
					step = c
				} else if c != step {
					okStep = false
				}
			}
			if okStep && step != 0 {
				return "counted", ""
			}
			// shrinking towards zero: φ >> k, φ / k (k>1), against a zero/one bound
			okShrink := true
			for _, nv := range nexts {
				b, isB := stripConv(nv).(*ssa.BinOp)
				if !isB || stripConv(b.X) != ssa.Value(phi) {
					okShrink = false
					break
				}
				c, isC := constInt(b.Y)
				switch {
				case b.Op == token.SHR && isC && c >= 1:
				case b.Op == token.QUO && isC && c >= 2:
				default:
					okShrink = false
				}
			}
			if z, isC := constInt(bound); okShrink && isC && (z == 0 || z == 1) {
				return "counted", ""
			}
		}
	}
	sort.Strings(ds)
	return "", strings.Join(ds, " ; ")
}

// strictlyShorter: every next value of slice φ is a re-slice of it that drops at least one element.
func (li *loopInfo) strictlyShorter(phi *ssa.Phi) bool {
	nexts := li.nextValues(phi)
	if len(nexts) == 0 {
		return false
	}
	for _, nv := range nexts {
		sl, ok := stripConv(nv).(*ssa.Slice)
		if !ok || stripConv(sl.X) != ssa.Value(phi) {
			return false
		}
		lowOK := false
		if sl.Low != nil {
			if c, isC := constInt(sl.Low); isC && c >= 1 {
				lowOK = true
			}
		}
		highOK := false
		if sl.High != nil {
			// s[:len(s)-k]
			if b, isB := stripConv(sl.High).(*ssa.BinOp); isB && b.Op == token.SUB {
				if c, isC := constInt(b.Y); isC && c >= 1 {
					if cl, isCl := stripConv(b.X).(*ssa.Call); isCl && CalleeName(cl.Common()) == "builtin:len" && stripConv(ArgK(cl, 0)) == ssa.Value(phi) {
						highOK = true
					}
				}
			}
		}
		if !lowOK && !highOK {
			return false
		}
	}
	return true
}

type c09LoopRow struct {
	fn     string // FuncKey
	exits  string // substring of the sorted exit-condition description ("" = any loop of fn)
	reason string
}

func checkLoopProgress(c *Ctx, fns []*ssa.Function) {
	p := c.P
	counts := map[string]int{}
	used := map[int]bool{}
	for _, fn := range fns {
		loops := naturalLoops(fn)
		for k, li := range loops {
			shape, desc := li.classify()
			if shape != "" {
				counts[shape]++
				continue
			}
			counts["reviewed-or-open"]++
			construct := fmt.Sprintf("%s loop#%d exits{%s}", FuncKey(fn), k+1, desc)
			ok, why := false, "no recognised progress shape (counted / consuming / iterator) and no reviewed row"
			for i, row := range c09LoopTable {
				if (row.fn == FuncKey(fn) || (strings.HasSuffix(row.fn, "[") && strings.HasPrefix(FuncKey(fn), row.fn))) && (row.exits == "" || strings.Contains(desc, row.exits)) {
					ok, why = true, "reviewed: "+row.reason
					used[i] = true
					break
				}
			}
			if !ok {
				// a reviewed loop whose function was merged into its caller: the row belongs to a
				// function that no longer exists and that this function used to call
				knownFunc("")
				for i, row := range c09LoopTable {
					if row.exits == "" || !strings.Contains(desc, row.exits) || p.Fn(row.fn) != nil {
						continue
					}
					for _, caller := range knownCallers[row.fn] {
						if caller == FuncKey(fn) {
							ok, why = true, "reviewed (row of "+row.fn+", which was merged into this function): "+row.reason
							used[i] = true
						}
					}
				}
			}
			if !ok && isNewHelper(fn) {
				// a loop that moved into a new helper: the reviewed row of every known function the
				// helper now works for must cover it (same exit condition)
				roots := knownRootsOf(fn)
				all := len(roots) > 0
				for _, r := range roots {
					hit := false
					for i, row := range c09LoopTable {
						if row.exits == "" || !strings.Contains(desc, row.exits) {
							continue
						}
						mine := row.fn == FuncKey(r)
						if !mine && p.Fn(row.fn) == nil {
							// the row's function is gone and r used to call it: its loop came here
							for _, caller := range knownCallers[row.fn] {
								if caller == FuncKey(r) {
									mine = true
								}
							}
						}
						if mine {
							hit = true
							used[i] = true
							why = "reviewed (row of " + row.fn + ", whose loop moved into this helper): " + row.reason
						}
					}
					if !hit {
						all = false
					}
				}
				ok = all
			}
			site := p.Pos(fn.Pos())
			if len(li.Header.Instrs) > 0 {
				site = p.InstrPos(li.Header.Instrs[len(li.Header.Instrs)-1])
			}
			c.Require("C09.H3 loop-progress", construct, site, "every iteration makes progress towards an exit (recognised shape or reviewed argument)", ok, why)
		}
	}
	for _, k := range []string{"counted", "consuming", "iterator", "cursor", "select", "reviewed-or-open"} {
		c.Count("loops: "+k, counts[k])
	}
	for i, row := range c09LoopTable {
		if !used[i] {
			c.Notes = append(c.Notes, "loop table row no longer matches any loop (stale, harmless): "+row.fn+" {"+row.exits+"}")
		}
	}
	c.MinInstances("C09.H3 loops examined", counts["counted"]+counts["consuming"]+counts["iterator"]+counts["cursor"]+counts["select"]+counts["reviewed-or-open"], 100)
}

// Reviewed termination arguments for loops whose progress is not of a recognised shape.
var c09LoopTable = []c09LoopRow{
	// ---- the consensus loop (reached through the block channel, hang rules only)
	{fn: "pkg/consensus/liskbft.(*BFTVotes).getHeightNotPrevoted", exits: "builtin:len(p0.blockBFTInfos)", reason: "walk back over the generator's own blocks: every way round the pointer (maxHeightGenerated of the block reached) strictly descends — C01.R5 checks exactly that — and the loop leaves once the offset reaches the window length"},
	{fn: "pkg/consensus/sync.(*Downloader).Start", exits: "builtin:len(consensus/sync.requestBlocksFromID(", reason: "every iteration returns (cancelled, request error, EMPTY reply, last block reached) or moves the start ID to the last block of a non-empty reply; the consumer validates each block against its tip and stops the downloader on the first that does not extend it, so a reply that does not advance ends the download too. The row requires the empty-reply exit (F48)"},
	{fn: "pkg/consensus/sync.(*Syncer).Sync", exits: "fastSyncer).Sync(", reason: "the loop body runs once: fastSyncer.Sync never returns (false, nil) — every return carries done == true or an error"},
	{fn: "pkg/consensus/sync.(*Syncer).Sync", exits: "blockSyncer).Sync(", reason: "the loop body runs once: blockSyncer.Sync returns (true, nil) or an error, never (false, nil)"},
	{fn: "pkg/consensus/sync.(*blockSyncer).deleteTillCommonBlock", exits: ".Header.Height", reason: "each iteration reverts the tip (height decreases by one) or fails; the common block is one of the node's own blocks (height <= tip) and the reverter refuses at the finalized height, so the loop ends after at most tip − finalized iterations"},
	{fn: "pkg/consensus/sync.(*fastSyncer).deleteTillCommonBlock", exits: ".Header.Height", reason: "as blockSyncer.deleteTillCommonBlock"},
	{fn: "pkg/rpc.(*wsSocket).read", exits: "ReadMessage", reason: "per-connection service loop of the websocket server: every iteration blocks in conn.ReadMessage and the loop ends when the connection fails or is closed; a client that keeps sending requests is served, which is the purpose"},
	{fn: "pkg/codec.(*Reader).ReadBytesArray", exits: "p0.index < p0.end", reason: "every iteration either leaves (key mismatch, error) or reads one key and one length-prefixed value: r.index grows by at least one byte and is bounded by r.end"},
	{fn: "pkg/codec.(*Reader).ReadUInts", exits: "p0.index < (p0.index + ", reason: "every iteration returns on the first failed read or reads one varint: readUInt advances r.index by the size of the varint (>= 1 byte) and fails once r.index reaches len(r.data) (F3), so the loop runs at most len(r.data) times whatever the announced packed length is (the announced length only sets the upper end)"},
	{fn: "pkg/codec.(*Reader).ReadUInt32s", exits: "p0.index < (p0.index + ", reason: "every iteration returns on the first failed read or reads one varint: readUInt advances r.index by the size of the varint (>= 1 byte) and fails once r.index reaches len(r.data) (F3), so the loop runs at most len(r.data) times whatever the announced packed length is (the announced length only sets the upper end)"},
	{fn: "pkg/codec.(*Reader).ReadInts", exits: "p0.index < (p0.index + ", reason: "every iteration returns on the first failed read or reads one varint: readUInt advances r.index by the size of the varint (>= 1 byte) and fails once r.index reaches len(r.data) (F3), so the loop runs at most len(r.data) times whatever the announced packed length is (the announced length only sets the upper end)"},
	{fn: "pkg/codec.(*Reader).ReadBools", exits: "p0.index < (p0.index + ", reason: "every iteration returns on the first failed read or reads one byte: readBool advances r.index by one and fails once r.index reaches len(r.data) (F3), so the loop runs at most len(r.data) times whatever the announced packed length is (the announced length only sets the upper end)"},
	{fn: "pkg/codec.(*Reader).ReadStrings", exits: "p0.index < p0.end", reason: "as ReadBytesArray: each iteration consumes at least the key byte or leaves"},
	{fn: "pkg/codec.(*Reader).ReadDecodables", exits: "p0.index < p0.end", reason: "as ReadBytesArray: each iteration consumes at least the key byte or leaves"},
	{fn: "pkg/codec.convertUIntArray", exits: ">= p2", reason: "the inner loop subtracts toBits (> 0: the callers pass the constants 5 and 8) from the bit count until it is below toBits"},
	{fn: "pkg/collection.BinarySearch[", exits: ">> 1", reason: "binary search: the interval [lo, hi) halves every iteration (lo = mid+1 or hi = mid)"},
	{fn: "pkg/trie/rmt.findInsertIndex", exits: ">> 1", reason: "binary search over the index list: the interval halves every iteration"},
	{fn: "pkg/trie/rmt.(*nodeLocation).index", exits: "strconv.FormatInt", reason: "left-pads a binary string by one character per iteration up to height-layerIndex, which is at most 65 (height = ceil(log2(size))+1)"},
	{fn: "pkg/trie/rmt.calculatePathNodes", exits: "", reason: "the head index is replaced by its parent idx>>1 (strictly smaller, and idx >= 1 because zeros are dropped on entry); the root index returns, index 1 fails in newNodeLocation: the sum of the work list strictly decreases"},
	{fn: "pkg/trie/smt.CalculateRoot", exits: "", reason: "each iteration removes the head query and re-inserts it one level higher (sliceBinaryBitmap(1)) or returns: the total remaining height strictly decreases"},
}

// cellOf: the local variable (Alloc) a value is, points to, or was loaded from.
func cellOf(v ssa.Value) *ssa.Alloc {
	for i := 0; i < 4 && v != nil; i++ {
		switch x := v.(type) {
		case *ssa.Alloc:
			return x
		case *ssa.MakeInterface:
			v = x.X
		case *ssa.UnOp:
			v = x.X
		case *ssa.ChangeType:
			v = x.X
		case *ssa.Convert:
			v = x.X
		default:
			return nil
		}
	}
	return nil
}

type boundMethod struct {
	name string
	recv ssa.Value
}

// boundMethods: the bound method values (x.M) a function value may be, through φs; nil when
// it may be anything else.
func boundMethods(v ssa.Value, seen map[ssa.Value]bool) []boundMethod {
	if seen[v] {
		return nil
	}
	seen[v] = true
	switch x := v.(type) {
	case *ssa.MakeClosure:
		g, _ := x.Fn.(*ssa.Function)
		if g == nil || !strings.HasSuffix(g.Name(), "$bound") || len(x.Bindings) != 1 {
			return nil
		}
		name := ")." + strings.TrimSuffix(g.Name(), "$bound")
		return []boundMethod{{name, x.Bindings[0]}}
	case *ssa.Phi:
		var out []boundMethod
		for _, e := range x.Edges {
			if seen[e] {
				continue
			}
			ms := boundMethods(e, seen)
			if ms == nil {
				return nil
			}
			out = append(out, ms...)
		}
		return out
	}
	return nil
}

// pureLeaf: an own function that stores nothing and calls nothing of the module.
func pureLeaf(g *ssa.Function) bool {
	for _, b := range g.Blocks {
		for _, in := range b.Instrs {
			switch x := in.(type) {
			case *ssa.Store, *ssa.MapUpdate, *ssa.Send, *ssa.Go, *ssa.Defer:
				return false
			case ssa.CallInstruction:
				if h := x.Common().StaticCallee(); x.Common().IsInvoke() || h == nil || IsOwn(h) {
					if !strings.HasPrefix(CalleeName(x.Common()), "builtin:") {
						return false
					}
				}
			}
		}
	}
	return true
}

func (li *loopInfo) cellCounted(al *ssa.Alloc) bool {
	var step int64
	nStores := 0
	onEvery := false
	for b := range li.Blocks {
		for _, in := range b.Instrs {
			switch z := in.(type) {
			case *ssa.Store:
				if z.Addr != ssa.Value(al) {
					continue
				}
				bo, ok := stripConv(z.Val).(*ssa.BinOp)
				if !ok {
					return false
				}
				ld, ok := stripConv(bo.X).(*ssa.UnOp)
				if !ok || ld.Op != token.MUL || ld.X != ssa.Value(al) {
					return false
				}
				c, isC := constInt(bo.Y)
				if !isC || c == 0 {
					return false
				}
				switch bo.Op {
				case token.ADD:
				case token.SUB:
					c = -c
				default:
					return false
				}
				if nStores > 0 && c != step {
					return false
				}
				step = c
				nStores++
				every := len(li.Latch) > 0
				for _, l := range li.Latch {
					if !(b == l || b.Dominates(l)) {
						every = false
					}
				}
				if every {
					onEvery = true
				}
			case *ssa.MakeClosure:
				g, _ := z.Fn.(*ssa.Function)
				for i, bnd := range z.Bindings {
					if bnd != ssa.Value(al) || g == nil || i >= len(g.FreeVars) {
						continue
					}
					for _, gb := range g.Blocks {
						for _, gin := range gb.Instrs {
							if st, ok := gin.(*ssa.Store); ok && st.Addr == ssa.Value(g.FreeVars[i]) {
								return false
							}
						}
					}
				}
			case ssa.CallInstruction:
				for _, a := range z.Common().Args {
					if a == ssa.Value(al) {
						return false
					}
				}
			}
		}
	}
	return nStores > 0 && onEvery
}
