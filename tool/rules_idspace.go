package main

import (
	"fmt"
	"go/types"
	"strings"

	"golang.org/x/tools/go/ssa"
)

// checkTableAndCounterTogether — "a table keyed by a per-handle counter is per-handle".
// For the struct `owner`: wherever a method stores into the map field M under a key taken from
// the receiver's own scalar field K (the id counter: `s.M[s.K] = …; s.K++`), a handle that is
// built from another handle must not share M with it while getting a counter of its own —
// two handles would hand out the same id and the second store replaces the first entry (a
// rollback then restores the wrong snapshot, or finds none). Either M is fresh for each
// handle, or M and K live behind one shared pointer.
func checkTableAndCounterTogether(c *Ctx, rule, ownerRel, ownerName string) {
	p := c.P
	owner := ownerRel + "." + ownerName
	pairs := map[string]string{} // M → K
	for _, fn := range p.Subjects() {
		if len(fn.Blocks) == 0 || !IsProd(fn) {
			continue
		}
		for _, b := range blocksDeep(fn) {
			for _, in := range b.Instrs {
				mu, ok := in.(*ssa.MapUpdate)
				if !ok {
					continue
				}
				mt := T(mu.Map)
				if mt.Op != "field" || mt.Owner != owner || len(mt.Args) != 1 {
					continue
				}
				base := mt.Args[0].String()
				T(mu.Key).Walk(func(t *Term) bool {
					if t.Op == "field" && t.Owner == owner && len(t.Args) == 1 && t.Args[0].String() == base {
						pairs[mt.Sym] = t.Sym
					}
					return true
				})
			}
		}
	}
	n := 0
	for _, fn := range p.Subjects() {
		if len(fn.Blocks) == 0 || !IsProd(fn) {
			continue
		}
		for _, b := range blocksDeep(fn) {
			for _, in := range b.Instrs {
				al, ok := in.(*ssa.Alloc)
				if !ok {
					continue
				}
				o, st := ownerOfFieldBase(al.Type())
				if o != owner || st == nil {
					continue
				}
				vals := map[string]ssa.Value{}
				for _, r := range *al.Referrers() {
					fa, ok := r.(*ssa.FieldAddr)
					if !ok {
						continue
					}
					for _, rr := range *fa.Referrers() {
						if s, ok := rr.(*ssa.Store); ok && s.Addr == fa {
							vals[fieldNameOf(st.Field(fa.Field))] = s.Val
						}
					}
				}
				for m, k := range pairs {
					mv, has := vals[m]
					if !has {
						continue
					}
					mtm := T(mv)
					shared := mtm.Op == "field" && mtm.Owner == owner && mtm.Sym == m
					if !shared {
						n++
						c.Require(rule, FuncKey(fn)+": new "+ownerName+"."+m, p.InstrPos(al), "a handle's id-keyed table is its own (or shares its counter)", true, "fresh table: "+mtm.String())
						continue
					}
					n++
					// shared table: the counter must be shared too, which a value-typed field cannot be
					kShared := false
					for i := 0; i < st.NumFields(); i++ {
						if fieldNameOf(st.Field(i)) == k {
							if _, isPtr := st.Field(i).Type().Underlying().(*types.Pointer); isPtr {
								if kv, ok := vals[k]; ok {
									kt := T(kv)
									kShared = kt.Op == "field" && kt.Owner == owner && kt.Sym == k
								}
							}
						}
					}
					c.Require(rule, FuncKey(fn)+": new "+ownerName+"."+m, p.InstrPos(al), "a handle that shares the table "+m+" with its source also shares the counter "+k+" its keys come from (ids handed out by the two handles must not collide)", kShared, fmt.Sprintf("%s is shared (%s) while %s starts again in the new handle", m, mtm.String(), k))
				}
			}
		}
	}
	if len(pairs) == 0 {
		c.Require(rule, owner+": id-keyed table", "-", "a table keyed by the handle's own counter exists (Snapshot stores under snapshotCount)", false, "no MapUpdate keyed by a scalar field of the receiver found")
		return
	}
	var ps []string
	for m, k := range pairs {
		ps = append(ps, m+"["+k+"]")
	}
	c.Count("id-keyed tables of "+owner+": "+strings.Join(ps, ","), len(pairs))
	c.MinInstances(rule, n, 1)
}
