package main

import (
	"fmt"
	"go/types"
	"strings"

	"golang.org/x/tools/go/ssa"
)

// checkTableAndCounterTogether — "a table keyed by a per-handle counter is per-handle".
// For the struct `owner`: wherever a method stores into the map field M under a key taken from
// the receiver's own scalar field K (the id counter: `s.M[s.K] = …; s.K++`), a handle that is
// built from another handle must not share M with it while getting a counter of its own —
// two handles would hand out the same id and the second store replaces the first entry (a
// rollback then restores the wrong snapshot, or finds none). Either M is fresh for each
// handle, or M and K live behind one shared pointer.
func checkTableAndCounterTogether(c *Ctx, rule, ownerRel, ownerName string) {
	p := c.P
	owner := ownerRel + "." + ownerName
	pairs := map[string]string{} // M → K
	for _, fn := range p.Subjects() {
		if len(fn.Blocks) == 0 || !IsProd(fn) {
			continue
		}
		for _, b := range blocksDeep(fn) {
			for _, in := range b.Instrs {
				mu, ok := in.(*ssa.MapUpdate)
				if !ok {
					continue
				}
				mt := T(mu.Map)
				if mt.Op != "field" || mt.Owner != owner || len(mt.Args) != 1 {
					continue
				}
				base := mt.Args[0].String()
				T(mu.Key).Walk(func(t *Term) bool {
					if t.Op == "field" && t.Owner == owner && len(t.Args) == 1 && t.Args[0].String() == base {
						pairs[mt.Sym] = t.Sym
					}
					return true
				})
			}
		}
	}
	n := 0
	for _, fn := range p.Subjects() {
		if len(fn.Blocks) == 0 || !IsProd(fn) {
			continue
		}
		for _, b := range blocksDeep(fn) {
			for _, in := range b.Instrs {
				al, ok := in.(*ssa.Alloc)
				if !ok {
					continue
				}
				o, st := ownerOfFieldBase(al.Type())
				if o != owner || st == nil {
					continue
				}
				vals := map[string]ssa.Value{}
				for _, r := range *al.Referrers() {
					fa, ok := r.(*ssa.FieldAddr)
					if !ok {
						continue
					}
					for _, rr := range *fa.Referrers() {
						if s, ok := rr.(*ssa.Store); ok && s.Addr == fa {
							vals[fieldNameOf(st.Field(fa.Field))] = s.Val
						}
					}
				}
				for m, k := range pairs {
					mv, has := vals[m]
					if !has {
						continue
					}
					mtm := T(mv)
					shared := mtm.Op == "field" && mtm.Owner == owner && mtm.Sym == m
					if !shared {
						n++
						c.Require(rule, FuncKey(fn)+": new "+ownerName+"."+m, p.InstrPos(al), "a handle's id-keyed table is its own (or shares its counter)", true, "fresh table: "+mtm.String())
						continue
					}
					n++
					// shared table: the counter must be shared too, which a value-typed field cannot be
					kShared := false
					for i := 0; i < st.NumFields(); i++ {
						if fieldNameOf(st.Field(i)) == k {
							if _, isPtr := st.Field(i).Type().Underlying().(*types.Pointer); isPtr {
								if kv, ok := vals[k]; ok {
									kt := T(kv)
									kShared = kt.Op == "field" && kt.Owner == owner && kt.Sym == k
								}
							}
						}
					}
					c.Require(rule, FuncKey(fn)+": new "+ownerName+"."+m, p.InstrPos(al), "a handle that shares the table "+m+" with its source also shares the counter "+k+" its keys come from (ids handed out by the two handles must not collide)", kShared, fmt.Sprintf("%s is shared (%s) while %s starts again in the new handle", m, mtm.String(), k))
				}
			}
		}
	}
	if len(pairs) == 0 {
		c.Require(rule, owner+": id-keyed table", "-", "a table keyed by the handle's own counter exists (Snapshot stores under snapshotCount)", false, "no MapUpdate keyed by a scalar field of the receiver found")
		return
	}
	var ps []string
	for m, k := range pairs {
		ps = append(ps, m+"["+k+"]")
	}
	c.Count("id-keyed tables of "+owner+": "+strings.Join(ps, ","), len(pairs))
	c.MinInstances(rule, n, 1)
}

// checkIDsNeverReused — "an id that names a stored entry is never handed out twice".
// For the struct `owner`: a map field with an integer key whose entries are also deleted
// (`delete(s.M, id)`) is an id-keyed table with holes. A store `s.M[k] = …` creates a new id; the
// id must come from a counter field of the same object that only ever grows (every store to it
// outside a constructor is `K = K + positive constant`). An id computed from the table's current
// population (len) or from a counter that is reset or decremented repeats as soon as an older
// entry is released while a newer one is alive: the new entry replaces the live one (a later
// restore of that id returns another state, or "does not exist").
func checkIDsNeverReused(c *Ctx, rule, ownerRel, ownerName string) {
	p := c.P
	owner := ownerRel + "." + ownerName
	type upd struct {
		fn  *ssa.Function
		mu  *ssa.MapUpdate
		fld string
	}
	var updates []upd
	deleted := map[string]bool{}
	for _, fn := range p.Subjects() {
		if len(fn.Blocks) == 0 || !IsProd(fn) {
			continue
		}
		for _, b := range blocksDeep(fn) {
			for _, in := range b.Instrs {
				switch x := in.(type) {
				case *ssa.MapUpdate:
					mt := T(x.Map)
					if mt.Op != "field" || mt.Owner != owner {
						continue
					}
					if m, ok := x.Map.Type().Underlying().(*types.Map); !ok || !isIntegerType(m.Key()) {
						continue
					}
					updates = append(updates, upd{fn, x, mt.Sym})
				case *ssa.Call:
					if CalleeName(x.Common()) == "builtin:delete" && len(x.Common().Args) == 2 {
						mt := T(x.Common().Args[0])
						if mt.Op == "field" && mt.Owner == owner {
							deleted[mt.Sym] = true
						}
					}
				}
			}
		}
	}
	// counters: fields of owner whose every store outside a constructor adds a positive constant
	monotone := func(field string) (bool, string) {
		seen := false
		for _, fn := range p.Subjects() {
			if len(fn.Blocks) == 0 || !IsProd(fn) {
				continue
			}
			for _, b := range blocksDeep(fn) {
				for _, in := range b.Instrs {
					st, ok := in.(*ssa.Store)
					if !ok {
						continue
					}
					fa, ok := st.Addr.(*ssa.FieldAddr)
					if !ok {
						continue
					}
					o, s := ownerOfFieldBase(fa.X.Type())
					if o != owner || s == nil || fieldNameOf(s.Field(fa.Field)) != field {
						continue
					}
					if _, fresh := fa.X.(*ssa.Alloc); fresh {
						continue // the constructor's initial value
					}
					seen = true
					bo, ok := st.Val.(*ssa.BinOp)
					if !ok || bo.Op.String() != "+" {
						return false, "assigned " + T(st.Val).String() + " in " + FuncKey(fn)
					}
					cst, isC := bo.Y.(*ssa.Const)
					ld, isLd := bo.X.(*ssa.UnOp)
					if !isC || !isLd || cst.Value == nil || cst.Int64() <= 0 {
						return false, "assigned " + T(st.Val).String() + " in " + FuncKey(fn)
					}
					lfa, ok := ld.X.(*ssa.FieldAddr)
					if !ok || lfa.Field != fa.Field || lfa.X != fa.X {
						return false, "assigned " + T(st.Val).String() + " in " + FuncKey(fn)
					}
				}
			}
		}
		if !seen {
			return false, "never advanced"
		}
		return true, ""
	}
	n := 0
	for _, u := range updates {
		if !deleted[u.fld] {
			continue
		}
		n++
		mt := T(u.mu.Map)
		base := ""
		if len(mt.Args) == 1 {
			base = mt.Args[0].String()
		}
		counter, why := "", "the key "+T(u.mu.Key).String()+" is not read from a counter field of the same object"
		T(u.mu.Key).Walk(func(t *Term) bool {
			if t.Op == "field" && t.Owner == owner && len(t.Args) == 1 && t.Args[0].String() == base && t.Sym != u.fld {
				counter = t.Sym
			}
			return true
		})
		ok := false
		if counter != "" {
			ok, why = monotone(counter)
			if !ok {
				why = "counter " + counter + " does not only grow: " + why
			}
		}
		c.Require(rule, FuncKey(u.fn)+": new entry of "+ownerName+"."+u.fld, p.InstrPos(u.mu),
			"the id under which a new entry is stored in a table whose entries are also deleted comes from a counter of the same object that only grows (an id is never handed out twice while an older holder may still restore it)", ok, why)
	}
	c.MinInstances(rule, n, 1)
}
