package main

import (
	"go/types"
	"strings"

	"golang.org/x/tools/go/ssa"
)

// C09.F1 logarithm-argument-positive.
//
// math.Log2(0) is −Inf and math.Log2 of a negative number is NaN; converting either to an integer
// gives an implementation-specific value (on amd64 the minimum int64), which then feeds a length,
// an index or a loop bound. Every logarithm in the functions reachable from untrusted entries
// (and in the Merkle tree package, whose root/height helpers are library verifiers) whose argument
// is an integer quantity n (through conversions; `n − c` allowed) must be reached only with
// n − c >= 1: by a fact that dominates the call in its function, or — for an unexported helper —
// by such a fact at every call site, read with that call's argument. A reviewed row may state why
// the garbage value is harmless at one site (rows below).
func checkLogArgumentPositive(c *Ctx, fns []*ssa.Function) {
	p := c.P
	rule := "C09.F1 logarithm-argument-positive"
	seen := map[*ssa.Function]bool{}
	var all []*ssa.Function
	for _, fn := range fns {
		if !seen[fn] {
			seen[fn] = true
			all = append(all, fn)
		}
	}
	for _, fn := range p.OwnFuncs {
		if IsProd(fn) && !seen[fn] && strings.HasPrefix(FuncKey(fn), "pkg/trie/rmt.") && len(fn.Blocks) > 0 {
			seen[fn] = true
			all = append(all, fn)
		}
	}
	n := 0
	for _, fn := range all {
		for _, call := range AllCalls(fn) {
			name := CalleeName(call.Common())
			if name != "math.Log2" && name != "math.Log" && name != "math.Log10" {
				continue
			}
			n++
			ff := factsOf(fn)
			arg := transparentConv(ff.Term(call.Common().Args[0]))
			uns := unsignedSource(call.Common().Args[0])
			ok, how := positiveAt(ff.FactsAt(call.Block()), arg, uns)
			if !ok {
				ok, how = positiveAtCallers(p, fn, arg, 0, uns)
			}
			if !ok {
				for _, row := range c09LogTable {
					if row.fn == FuncKey(fn) {
						ok, how = true, "reviewed: "+row.reason
					}
				}
			}
			c.Require(rule, FuncKey(fn)+": "+name+"("+arg.String()+")", p.InstrPos(call.(ssa.Instruction)), "the integer quantity whose logarithm is taken is known to be at least 1 here (in the function or at every call site)", ok, how)
		}
	}
	c.MinInstances(rule, n, 3)
}

type c09LogRow struct{ fn, reason string }

var c09LogTable = []c09LogRow{}

// positiveAt: do the facts entail t >= 1 (t an integer term, possibly `x − c`)?
func positiveAt(facts []Fact, t *Term, unsigned bool) (bool, string) {
	goal := linOf(t)
	if !goal.OK {
		return false, ""
	}
	atoms := nonZero(goal.Coef)
	if len(atoms) == 0 {
		return goal.Const >= 1, "constant"
	}
	if len(atoms) != 1 {
		return false, ""
	}
	var ak string
	var acoef int64
	for k, v := range atoms {
		ak, acoef = k, v
	}
	if acoef != 1 {
		return false, ""
	}
	// need: atom >= 1 − goal.Const
	need := 1 - goal.Const
	atom := goal.Atom[ak]
	unsignedOrLen := unsigned
	if atom != nil {
		if atom.Op == "call" && (atom.Sym == "builtin:len" || atom.Sym == "builtin:cap") {
			unsignedOrLen = true
		}
		if atom.V != nil {
			if b, ok := atom.V.Type().Underlying().(*types.Basic); ok && b.Info()&types.IsUnsigned != 0 {
				unsignedOrLen = true
			}
		}
	}
	lower := int64(-1 << 62)
	if unsignedOrLen {
		lower = 0
	}
	var excluded []int64
	for _, f := range facts {
		if !f.IsCmp {
			continue
		}
		l := newLin()
		l.add(linOf(transparentConv(f.L)), 1)
		l.add(linOf(transparentConv(f.R)), -1)
		if !l.OK {
			continue
		}
		fa := nonZero(l.Coef)
		if len(fa) != 1 {
			continue
		}
		var fk string
		var fc int64
		for k, v := range fa {
			fk, fc = k, v
		}
		if fk != ak || (fc != 1 && fc != -1) {
			continue
		}
		rel, d, ok := canonRel(f.Op, l.Const)
		if !ok {
			continue
		}
		if fc == -1 { // −x REL d ⇔ x flip(REL) −d
			rel, d = flipRel(rel), -d
		}
		switch rel {
		case GE:
			if d > lower {
				lower = d
			}
		case EQ:
			if d >= need {
				return true, f.String()
			}
		case NE:
			excluded = append(excluded, d)
		}
	}
	// x != v removes the lower bound when it equals it (x >= 0 and x != 0 and x != 1 ⇒ x >= 2)
	for changed := true; changed; {
		changed = false
		for _, e := range excluded {
			if e == lower {
				lower++
				changed = true
			}
		}
	}
	if lower >= need {
		return true, "dominating facts bound " + atom.String() + " from below by " + itoa(lower)
	}
	return false, ""
}

func itoa(v int64) string {
	if v == 0 {
		return "0"
	}
	neg := v < 0
	if neg {
		v = -v
	}
	s := ""
	for v > 0 {
		s = string(rune('0'+v%10)) + s
		v /= 10
	}
	if neg {
		s = "-" + s
	}
	return s
}

// positiveAtCallers: fn is an unexported function and t mentions only its parameters: every call
// site must know the property of the argument.
func positiveAtCallers(p *Program, fn *ssa.Function, t *Term, depth int, uns bool) (bool, string) {
	if depth > 2 || fn.Object() == nil || fn.Object().Exported() {
		return false, "no dominating fact in " + FuncKey(fn) + " (an exported function: any caller)"
	}
	sites := p.callSitesOf(fn)
	if len(sites) == 0 {
		return false, "no dominating fact and no call site"
	}
	for _, s := range sites {
		if !IsProd(s.Fn) {
			continue
		}
		gf := factsOf(s.Fn)
		var args []*Term
		for _, a := range s.Call.Common().Args {
			args = append(args, gf.Term(a))
		}
		at := transparentConv(substParams(t, args))
		ok, _ := positiveAt(gf.FactsAt(s.Call.Block()), at, uns)
		if !ok {
			ok, _ = positiveAtCallers(p, s.Fn, at, depth+1, uns)
		}
		if !ok {
			return false, "not known at the call in " + FuncKey(s.Fn) + " (" + p.InstrPos(s.Call.(ssa.Instruction)) + "): " + at.String() + " may be 0"
		}
	}
	return true, "known at every call site"
}

// unsignedSource: the float handed to the logarithm is the conversion of an unsigned integer
// (directly, or of an expression over one) — `x != 0` then means `x >= 1`.
func unsignedSource(v ssa.Value) bool {
	for i := 0; i < 6 && v != nil; i++ {
		if b, ok := v.Type().Underlying().(*types.Basic); ok && b.Info()&types.IsUnsigned != 0 {
			return true
		}
		switch x := v.(type) {
		case *ssa.Convert:
			v = x.X
		case *ssa.ChangeType:
			v = x.X
		case *ssa.BinOp:
			v = x.X
		default:
			return false
		}
	}
	return false
}
