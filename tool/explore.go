package main

import (
	"fmt"
	"sort"
	"strings"

	"golang.org/x/tools/go/ssa"
)

// explore runs the generic rule engines over the whole module without any property
// attached, as a cross-reference for looking for further instances (development aid:
// `liskcheck -explore`). Nothing it prints is a verdict.
func explore(p *Program) {
	c := NewCtx(p, "explore", "quick")
	all := func(fn *ssa.Function) bool { return IsProd(fn) }
	checkUnsignedDifferences(c, "X.U1", all, nil, 0)
	checkFreshKeyBuffers(c, "X.fresh-buffers", []string{"pkg", "cmd"})
	var fns []*ssa.Function
	for _, fn := range p.Subjects() {
		if IsProd(fn) && len(fn.Blocks) > 0 {
			fns = append(fns, fn)
		}
	}
	saveTable := c09LoopTable
	checkLoopProgress(c, fns)
	c09LoopTable = saveTable
	var out []string
	for _, o := range c.Obs {
		if o.Status == "VIOLATED" {
			out = append(out, fmt.Sprintf("[%s] %s @ %s :: %s", o.Rule, o.Construct, o.Site, strings.ReplaceAll(o.Detail, "\n", " ")))
		}
	}
	sort.Strings(out)
	for _, l := range out {
		if len(l) > 420 {
			l = l[:420] + "…"
		}
		fmt.Println(l)
	}
	fmt.Printf("explore: %d obligations, %d open\n", len(c.Obs), len(out))
}
