package main

import (
	"go/token"
	"fmt"
	"strings"

	"golang.org/x/tools/go/ssa"
)

func init() {
	register("C12", "Structural necessary conditions of 'staged reads = database + staged writes', for every path: "+
		"(R1) key-prefix typestate: every key/prefix/bound handed to the overlay cache or the underlying store inside diffdb.Database is the view's prefixed key (getKey(…)), a key returned by the store, or a parameter all of whose call sites pass such a key; "+
		"(R2) truncate-after-filter: where scan results are filtered (deleted entries skipped) the caller's limit does not reach the underlying scan; the limit is applied after merge+sort; "+
		"(R3) write-through discipline: cache.set only for keys known to the cache (existAny) or just loaded (ensureCache true), cache.add only when the store has no such key, Del ensures the initial value is cached before marking; "+
		"(R4) the not-in-database sentinel (init == nil) is preserved by every producer of cacheValue: init is either left nil or a make()-allocated copy, and copy() assigns it only under source.init != nil; "+
		"(R5) merge: overlay entries shadow stored ones, comparator direction follows `reverse`, limit slices after the sort; commit algebra as in C05; "+
		"(R6) every pebble iterator obtained in pkg/db is closed on every path to return (sibling scans agree).",
		runC12)
}

func runC12(c *Ctx) {
	checkNoSuccessorSentinel(c)
	// R13: restoring a snapshot returns the staged state at the time of *that* snapshot: its id is never
	// given to a later snapshot while it can still be restored
	checkIDsNeverReused(c, "C12.R13 snapshot-id-never-reused", "db/diffdb", "Database")
	p := c.P
	c.Assume = append(c.Assume, "equivalence with a sorted-map model, bound inclusivity for keys of different lengths and pebble's scan semantics are value-level and not decided")
	const dbT = "db/diffdb.Database"
	get := c.Anchor("pkg/db/diffdb.(*Database).getKey")
	rng := c.Anchor("pkg/db/diffdb.(*Database).Range")
	itr := c.Anchor("pkg/db/diffdb.(*Database).Iterate")
	set := c.Anchor("pkg/db/diffdb.(*Database).Set")
	del := c.Anchor("pkg/db/diffdb.(*Database).Del")
	merge := c.Anchor("pkg/db/diffdb.(*Database).mergeSortLimit")
	commit := c.Anchor("pkg/db/diffdb.(*cacheDB).commit")
	if get == nil || rng == nil || itr == nil || set == nil || del == nil || merge == nil || commit == nil {
		return
	}

	// ---- R1 key-prefix typestate
	var methods []*ssa.Function
	for _, fn := range p.Subjects() {
		if strings.HasPrefix(FuncKey(fn), "pkg/db/diffdb.(*Database).") && len(fn.Blocks) > 0 {
			methods = append(methods, fn)
		}
	}
	keyArgs := map[string][]int{ // callee → indexes (into Args incl. receiver for static calls) of key-like arguments
		"(*db/diffdb.cacheDB).get":                    {1},
		"(*db/diffdb.cacheDB).set":                    {1},
		"(*db/diffdb.cacheDB).del":                    {1},
		"(*db/diffdb.cacheDB).add":                    {1},
		"(*db/diffdb.cacheDB).cache":                  {1},
		"(*db/diffdb.cacheDB).existAny":               {1},
		"(*db/diffdb.cacheDB).withPrefix":             {1},
		"(*db/diffdb.cacheDB).dataBetween":            {1, 2},
		"iface:db/diffdb.DatabaseReader.Get":          {0},
		"iface:db/diffdb.DatabaseReader.Iterate":      {0},
		"iface:db/diffdb.DatabaseReader.IterateRange": {0, 1},
	}
	var prefixed func(fn *ssa.Function, v ssa.Value, depth int) (bool, string)
	prefixed = func(fn *ssa.Function, v ssa.Value, depth int) (bool, string) {
		t := T(v)
		switch {
		case t.Op == "call" && t.Sym == "(*db/diffdb.Database).getKey":
			return true, "getKey(…)"
		case t.Op == "call" && strings.HasSuffix(t.Sym, "KeyValue.Key"):
			// a key handed back by the underlying store is already prefixed
			if t.Args[0].Any(func(x *Term) bool {
				return x.Op == "call" && strings.HasPrefix(x.Sym, "iface:db/diffdb.DatabaseReader.Iterate")
			}) {
				return true, "key returned by the store scan"
			}
		case t.Op == "param" && fn.Object() != nil && fn.Object().Exported():
			return false, "is the caller's un-prefixed " + t.Sym + " of exported " + fn.Name()
		case t.Op == "param" && depth < 3:
			idx := 0
			fmt.Sscanf(t.Sym, "p%d", &idx)
			sites := p.callSitesOf(fn)
			if len(sites) == 0 {
				return false, "parameter of a function without call sites"
			}
			for _, s := range sites {
				if !IsProd(s.Fn) {
					continue
				}
				a := s.Call.Common().Args
				if idx >= len(a) {
					return false, "cannot align argument"
				}
				if ok, why := prefixed(s.Fn, a[idx], depth+1); !ok {
					return false, "call site " + p.InstrPos(s.Call) + " passes " + T(a[idx]).String() + " (" + why + ")"
				}
			}
			return true, "parameter; all call sites pass prefixed keys"
		}
		return false, "is " + t.String()
	}
	n := 0
	for _, fn := range methods {
		for _, call := range AllCalls(fn) {
			name := CalleeName(call.Common())
			idxs, ok := keyArgs[name]
			if !ok {
				continue
			}
			for _, i := range idxs {
				a := call.Common().Args
				if i >= len(a) {
					continue
				}
				n++
				good, why := prefixed(fn, a[i], 0)
				c.Require("C12.R1 key-prefix-typestate", FuncKey(fn)+" ⇒ "+name+fmt.Sprintf(" arg%d", i), p.InstrPos(call),
					"the key/prefix/bound is the view's prefixed key", good, why)
			}
		}
	}
	c.MinInstances("C12.R1 key-prefix-typestate", n, 12)
	// getKey really prepends the view prefix
	{
		ok := false
		for _, r := range Returns(get) {
			t := T(r.Results[0])
			if t.Op == "call" && strings.HasSuffix(t.Sym, "bytes.JoinSize") {
				l := t.Args[len(t.Args)-1]
				if l.Op == "list" && len(l.Args) == 2 && l.Args[0].String() == "p0.prefix" && l.Args[1].String() == "p1" {
					ok = true
				}
			}
		}
		c.Require("C12.R1 key-prefix-typestate", "getKey = prefix ‖ key", p.Pos(get.Pos()), "getKey joins the view prefix and the key, in that order", ok, "")
	}

	// ---- R2 truncate-after-filter
	for _, fn := range []*ssa.Function{rng, itr} {
		ff := factsOf(fn)
		// is there a filtering skip? a branch on the `deleted` result of cache.get inside the loop
		filters := false
		for _, f := range ff.Facts {
			if !f.IsCmp && f.B.Op == "extract" && f.B.Sym == "#2" && f.B.Args[0].Op == "call" && f.B.Args[0].Sym == "(*db/diffdb.cacheDB).get" {
				filters = true
			}
		}
		for _, call := range AllCalls(fn) {
			name := CalleeName(call.Common())
			if !strings.HasPrefix(name, "iface:db/diffdb.DatabaseReader.Iterate") {
				continue
			}
			a := call.Common().Args
			lim := ff.Term(a[len(a)-2])
			// … nor by anything computed from it (limit + "number of staged deletions" is only as
			// good as that count, which no rule here can vouch for)
			ok := !filters || !lim.Any(func(t *Term) bool { return t.Op == "param" })
			c.Require("C12.R2 truncate-after-filter", FuncKey(fn)+" ⇒ "+name+"(limit)", p.InstrPos(call),
				"scan results are filtered (deleted entries skipped), so the caller's limit must not truncate the underlying scan", ok, "limit argument: "+lim.String())
		}
		// limit reaches mergeSortLimit
		m := CallsIn(fn, "(*db/diffdb.Database).mergeSortLimit")
		okm := len(m) == 1 && T(ArgK(m[0].Call, 4)).Op == "param" && T(ArgK(m[0].Call, 3)).Op == "param"
		c.Require("C12.R2 limit-after-merge", FuncKey(fn)+" ⇒ mergeSortLimit", p.Pos(fn.Pos()), "reverse and limit parameters are applied by mergeSortLimit", okm, "")
	}

	// ---- R3 write-through discipline
	{
		ff := factsOf(set)
		isCall := func(in ssa.Instruction, names ...string) bool {
			cl, ok := in.(*ssa.Call)
			if !ok {
				return false
			}
			n := CalleeName(cl.Common())
			for _, want := range names {
				if n == want || (strings.HasPrefix(want, ".") && strings.HasSuffix(n, want)) {
					return true
				}
			}
			return false
		}
		boolFact := func(f Fact, truth bool, m Matcher) bool { return !f.IsCmp && f.Truth == truth && m.Match(f.B) }
		existAny := IsCall("(*db/diffdb.cacheDB).existAny")
		ensure := IsCall("(*db/diffdb.Database).ensureCache")
		storeGet := Matcher{"store.Get#1", func(t *Term) bool {
			return t.Op == "extract" && t.Sym == "#1" && t.Args[0].Op == "call" && strings.HasSuffix(t.Args[0].Sym, "DatabaseReader.Get")
		}}
		for _, s := range CallsIn(set, "(*db/diffdb.cacheDB).set") {
			// every way to cache.set knows the key is in the overlay, or has just loaded its
			// initial value from the store (ensureCache answered true, or cache.cache ran)
			loaded := func(in ssa.Instruction) bool { return isCall(in, "(*db/diffdb.cacheDB).cache") }
			ok1 := false
			for _, in := range s.Call.Block().Instrs {
				if in == ssa.Instruction(s.Call.(*ssa.Call)) {
					break
				}
				if loaded(in) {
					ok1 = true // loaded from the store just before, in the same block
				}
			}
			ok1 = ok1 || ff.EveryPathHasOr(s.Call.Block(), func(f Fact) bool {
				return boolFact(f, true, existAny) || boolFact(f, true, ensure)
			}, loaded)
			c.Require("C12.R3 write-through", FuncKey(set)+" ⇒ cache.set", p.InstrPos(s.Call), "cache.set only when the key is in the cache or was just loaded from the store (on every path to the call)", ok1, "")
		}
		for _, s := range CallsIn(set, "(*db/diffdb.cacheDB).add") {
			okA := ff.EveryPathHas(s.Call.Block(), func(f Fact) bool { return boolFact(f, false, existAny) })
			okB := ff.EveryPathHas(s.Call.Block(), func(f Fact) bool { return boolFact(f, false, ensure) || boolFact(f, false, storeGet) })
			c.Require("C12.R3 write-through", FuncKey(set)+" ⇒ cache.add", p.InstrPos(s.Call), "cache.add (no initial value) only when neither cache nor store has the key", okA && okB, fmt.Sprintf("not in overlay=%v not in store=%v", okA, okB))
		}
		c.MinInstances("C12.R3 Set sites", len(CallsIn(set, "(*db/diffdb.cacheDB).set"))+len(CallsIn(set, "(*db/diffdb.cacheDB).add")), 2)
		// Del: every path to cache.del either knows existAny or went to the store first
		df := factsOf(del)
		for _, s := range CallsIn(del, "(*db/diffdb.cacheDB).del") {
			ok := df.EveryPathHasOr(s.Call.Block(), func(f Fact) bool { return boolFact(f, true, existAny) },
				func(in ssa.Instruction) bool {
					if isCall(in, "(*db/diffdb.Database).ensureCache") {
						return true
					}
					cl, isC := in.(*ssa.Call)
					return isC && cl.Common().IsInvoke() && cl.Common().Method.Name() == "Get" && strings.HasSuffix(CalleeName(cl.Common()), "DatabaseReader.Get")
				})
			c.Require("C12.R3 write-through", FuncKey(del)+" ⇒ cache.del", p.InstrPos(s.Call), "before marking deleted, the initial value is in the cache (existAny) or the store was consulted (ensureCache / store.Get)", ok, "")
		}
	}

	// ---- R10 a staged write of a key ends any earlier staged delete of it: cache.set clears the
	// deleted mark and stores the value on every path (a shortcut for "same bytes" would leave
	// a deleted-then-rewritten key deleted)
	if setFn := c.Anchor("pkg/db/diffdb.(*cacheDB).set"); setFn != nil {
		for _, fld := range []string{"deleted", "value", "dirty"} {
			isSt := func(in ssa.Instruction) bool {
				st, ok := in.(*ssa.Store)
				if !ok {
					return false
				}
				fa, ok := st.Addr.(*ssa.FieldAddr)
				if !ok {
					return false
				}
				o, s := ownerOfFieldBase(fa.X.Type())
				return o == "db/diffdb.cacheValue" && fieldNameOf(s.Field(fa.Field)) == fld
			}
			first := setFn.Blocks[0].Instrs[0]
			path := reachesReturnAvoiding(first, isSt, nil)
			c.Require("C12.R10 set-ends-staged-delete", FuncKey(setFn)+": "+fld, p.Pos(setFn.Pos()), "every return of cache.set is preceded by the assignment of "+fld, path == nil, pathStr(path))
		}
		// and the mark is cleared, not set
		okFalse := false
		for _, st := range storesToField(setFn, "db/diffdb.cacheValue", "deleted") {
			okFalse = T(st.Val).String() == "false"
		}
		c.Require("C12.R10 set-ends-staged-delete", FuncKey(setFn)+": deleted = false", p.Pos(setFn.Pos()), "the deleted mark is cleared", okFalse, "")
	}

	// ---- R4 sentinel preservation
	checkSentinelProducers(c, "C12.R4 sentinel-preserved", commit)

	// ---- R7 key buffers are not shared between views (a prefix view's prefix and every
	// prefixed key are built in fresh memory)
	checkFreshKeyBuffers(c, "C12.R7 key-buffer-fresh", []string{"pkg/db"})

	// ---- R8 the overlay shared by a store and its prefix views is never re-pointed (a
	// snapshot restore must take effect for every view, not only for the handle it is called on)
	checkSharedRefNotRepointed(c, "C12.R8 shared-overlay-not-repointed", []string{"pkg/db/diffdb"}, 1)

	// ---- R9 the database's own range scan keeps both bounds in both directions: every key it
	// collects is under  Compare(key, end) <= 0  and above start, where a bound counts as
	// enforced by a comparison with the bound itself or — lower bound, ascending scan — by
	// seeking to the bound itself. Seeking to something derived from a bound (its successor
	// prefix) lets longer keys through.
	if ir := c.Anchor("pkg/db.iterateRange"); ir != nil {
		ff := factsOf(ir)
		n := 0
		for _, call := range AllCallsDeep(ir) {
			if CalleeName(call.Common()) != "builtin:append" {
				continue
			}
			if !strings.Contains(typeName(ArgK(call, 0).Type()), "KeyValue") {
				continue
			}
			n++
			blk := call.Block()
			cmpWith := func(param string, rel Rel) bool {
				for _, f := range ff.FactsAt(blk) {
					if !f.IsCmp {
						continue
					}
					l, r := f.L, f.R
					if l.Op == "call" && strings.HasSuffix(l.Sym, "bytes.Compare") && len(l.Args) == 2 && l.Args[1].String() == param && strings.Contains(l.Args[0].String(), "Iterator).Key") && r.String() == "0" {
						if k, rl, d, ok := canonCmp(f); ok && k != "" {
							if rel == LE && ((rl == LE && d <= 0) || (rl == EQ && d == 0)) {
								return true
							}
							if rel == GE && ((rl == GE && d >= 0) || (rl == EQ && d == 0)) {
								return true
							}
						}
					}
				}
				return false
			}
			seekGEStart := false
			for _, s := range CallsIn(ir, "(*github.com/cockroachdb/pebble.Iterator).SeekGE") {
				if instrDominates(s.Call, call) && T(ArgK(s.Call, 1)).String() == "p1" && !reachable2(s.Call.Block(), s.Call.Block()) {
					// ascending scan from start: only valid when this append is not also reached from the descending seek
					seekGEStart = true
				}
			}
			lower := cmpWith("p1", GE) || seekGEStart
			upper := cmpWith("p2", LE)
			c.Require("C12.R9 scan-keeps-both-bounds", fmt.Sprintf("%s: collected key #%d", FuncKey(ir), n), p.InstrPos(call), "every collected key is >= start (comparison, or ascending seek to start itself) and <= end (comparison with end itself)", lower && upper, fmt.Sprintf("lower bound enforced=%v upper bound enforced=%v", lower, upper))
		}
		c.MinInstances("C12.R9 scan-keeps-both-bounds", n, 2)
	}

	// ---- R11 the exclusive upper bound of a prefix scan is the successor of the prefix *as a
	// prefix*: the byte string cut right after the byte that was incremented. Keeping the
	// zeroed tail (01 ff → 02 00 instead of 02) lets the key 02 into the scan of prefix 01 ff,
	// and the prefix scans trust the iterator bounds (no per-key prefix test).
	if ub := c.Anchor("pkg/db.upperBound"); ub != nil {
		n := 0
		for _, r := range Returns(ub) {
			if len(r.Results) != 1 {
				continue
			}
			if kc, isC := r.Results[0].(*ssa.Const); isC && kc.Value == nil {
				continue // nil: no upper bound
			}
			n++
			sl, isSl := valueRoot(r.Results[0]).(*ssa.Slice)
			ok := false
			det := T(r.Results[0]).String()
			if isSl && sl.High != nil && sl.Low == nil {
				// High = index of an incremented element + 1
				hi := newLin()
				hi.add(linOf(T(sl.High)), 1)
				for _, b := range blocksDeep(ub) {
					for _, in := range b.Instrs {
						st, isSt := in.(*ssa.Store)
						if !isSt {
							continue
						}
						ia, isIA := st.Addr.(*ssa.IndexAddr)
						if !isIA {
							continue
						}
						d := newLin()
						d.add(hi, 1)
						d.add(linOf(T(ia.Index)), -1)
						if len(d.Coef) == 0 && d.Const == 1 {
							ok = true
						}
					}
				}
			}
			c.Require("C12.R11 prefix-successor-truncated", FuncKey(ub)+": returned bound", p.InstrPos(r), "the bound is cut right after the incremented byte (end[:i+1])", ok, det)
		}
		c.MinInstances("C12.R11 prefix-successor-truncated", n, 1)
	}

	// ---- R5 merge
	{
		// comparator: descending under reverse, ascending otherwise (less-function or three-way)
		sortCalls, cmps := sortSites(merge)
		var cmpFn *ssa.Function
		if len(cmps) > 0 {
			cmpFn = cmps[0]
		}
		ok := false
		detail := ""
		if cmpFn != nil {
			ff := factsOf(cmpFn)
			okRev, okFwd := false, false
			isRev := Matcher{"reverse", func(x *Term) bool { return x.Op == "free" || (x.Op == "load" && x.Args[0].Op == "free") }}
			for _, r := range Returns(cmpFn) {
				if r.Block() == cmpFn.Recover || len(r.Results) != 1 {
					continue
				}
				dir, key, okd := returnOrder(cmpFn, r)
				rev, _ := ff.BoolHoldsAt(r.Block(), isRev, true)
				fwd, _ := ff.BoolHoldsAt(r.Block(), isRev, false)
				detail += fmt.Sprintf("[%s on %s rev=%v fwd=%v] ", dir, key, rev, fwd)
				if !okd || !strings.Contains(key, "Key(") {
					continue
				}
				if rev && dir == "desc" {
					okRev = true
				}
				if (fwd || !rev) && dir == "asc" {
					okFwd = true
				}
				if (rev && dir == "asc") || (fwd && dir == "desc") {
					okRev, okFwd = false, false
					detail += "WRONG-WAY "
					break
				}
			}
			ok = okRev && okFwd
		}
		// the direction may also be chosen once, before the sort: the comparator handed over is
		// then one of two function literals, each with a fixed direction, selected by `reverse`
		if cmpFn == nil {
			mf0 := factsOf(merge)
			for _, call := range AllCallsDeep(merge) {
				if !isSortCall(CalleeName(call.Common())) || len(call.Common().Args) < 2 {
					continue
				}
				phi, isPhi := ArgK(call, 1).(*ssa.Phi)
				if !isPhi || len(phi.Edges) != 2 {
					continue
				}
				sortCalls = append(sortCalls, call)
				okRev, okFwd, bad := false, false, false
				for k, ev := range phi.Edges {
					mc, isMC := ev.(*ssa.MakeClosure)
					if !isMC {
						bad = true
						continue
					}
					f, _ := mc.Fn.(*ssa.Function)
					pred := phi.Block().Preds[k]
					rev, fwd := false, false
					facts := append(append([]Fact{}, mf0.FactsAt(pred)...), mf0.FactsOnEdge(pred, phi.Block())...)
					for _, fct := range facts {
						if !fct.IsCmp && fct.B != nil && fct.B.Op == "param" && fct.B.Owner == "reverse" {
							rev, fwd = fct.Truth, !fct.Truth
						}
					}
					if !rev && !fwd {
						// the edge that is not under `if reverse` is the default: taken when reverse is false
						// only if the other edge is under reverse == true
						fwd = true
					}
					dirs := map[string]bool{}
					for _, r := range Returns(f) {
						if r.Block() == f.Recover || len(r.Results) != 1 {
							continue
						}
						dir, key, okd := returnOrder(f, r)
						detail += fmt.Sprintf("[edge %d: %s on %s rev=%v] ", k, dir, key, rev)
						if okd && strings.Contains(key, "Key(") {
							dirs[dir] = true
						}
					}
					if len(dirs) != 1 {
						bad = true
					}
					if rev && dirs["desc"] {
						okRev = true
					} else if fwd && !rev && dirs["asc"] {
						okFwd = true
					} else {
						bad = true
					}
				}
				ok = okRev && okFwd && !bad
			}
		}
		c.Require("C12.R5 merge-order", FuncKey(merge)+" comparator", p.Pos(merge.Pos()), "less(i,j) is Compare(key_i,key_j) > 0 when reverse, < 0 otherwise", ok, detail)
		// limit slicing after sort
		var sortCall ssa.CallInstruction
		if len(sortCalls) > 0 {
			sortCall = sortCalls[0]
		}
		okL := false
		for _, b := range blocksDeep(merge) {
			for _, in := range b.Instrs {
				if sl, isS := in.(*ssa.Slice); isS && sl.High != nil && factsOf(merge).Term(sl.High).Op == "param" && sortCall != nil && instrDominates(sortCall, sl) {
					okL = true
				}
			}
		}
		c.Require("C12.R5 merge-order", FuncKey(merge)+" limit", p.Pos(merge.Pos()), "result[:limit] is taken after the sort", okL, "")
		// shadowing: stored entries are appended only when the key is not among the cached ones
		mf := factsOf(merge)
		okS := false
		for _, call := range AllCallsDeep(merge) {
			if CalleeName(call.Common()) != "builtin:append" {
				continue
			}
			for _, f := range mf.FactsAt(call.Block()) {
				if !f.IsCmp && !f.Truth && f.B.Op == "extract" && f.B.Args[0].Op == "lookup" {
					okS = true
				}
				// a set kept as map[key]bool and asked without comma-ok: absent reads false, so the
				// test is the same as long as only `true` is ever stored
				if !f.IsCmp && !f.Truth && f.B.Op == "lookup" {
					onlyTrue := true
					for _, b := range blocksDeep(merge) {
						for _, in := range b.Instrs {
							if mu, isMU := in.(*ssa.MapUpdate); isMU && T(mu.Map).String() == f.B.Args[0].String() && T(mu.Value).String() != "true" {
								onlyTrue = false
							}
						}
					}
					if onlyTrue {
						okS = true
					}
				}
			}
		}
		c.Require("C12.R5 overlay-shadows-store", FuncKey(merge), p.Pos(merge.Pos()), "a stored entry is appended only if no overlay entry has the same key", okS, "")
		checkCommitAlgebraAs(c, "C12.R5 commit-algebra", commit)
	}

	// ---- R6 iterators closed
	{
		n := 0
		for _, fn := range p.Subjects() {
			if !strings.HasPrefix(FuncKey(fn), "pkg/db.") || len(fn.Blocks) == 0 {
				continue
			}
			// functions taking a *pebble.Iterator parameter own it
			for i, prm := range fn.Params {
				if !strings.HasSuffix(typeName(prm.Type()), "pebble.Iterator") {
					continue
				}
				n++
				isClose := func(in ssa.Instruction) bool {
					cl, ok := in.(ssa.CallInstruction)
					if !ok || !strings.HasSuffix(CalleeName(cl.Common()), "pebble.Iterator).Close") || len(cl.Common().Args) == 0 {
						return false
					}
					// the same iterator, also when the close sits in a helper that was handed it
					return stripConv(ArgK(cl, 0)) == ssa.Value(prm) || factsOf(fn).Term(ArgK(cl, 0)).String() == T(prm).String()
				}
				// deferred close counts
				deferred := false
				for _, d := range deferredCalls(fn) {
					if isClose(d) {
						deferred = true
					}
				}
				var path []*ssa.BasicBlock
				if !deferred {
					first := fn.Blocks[0].Instrs[0]
					path = reachesReturnAvoiding(first, isClose, nil)
					if isClose(first) {
						path = nil
					}
				}
				c.Require("C12.R6 iterator-closed", FuncKey(fn)+fmt.Sprintf(" (iterator parameter %d)", i), p.Pos(fn.Pos()), "every path to return closes the pebble iterator it was given", path == nil, pathStr(path))
			}
			// functions creating one must hand it to an owner or close it
			for _, call := range AllCalls(fn) {
				if !strings.HasSuffix(CalleeName(call.Common()), ").NewIter") {
					continue
				}
				v := call.Value()
				handed := false
				for _, r := range *v.Referrers() {
					if cl, ok := r.(ssa.CallInstruction); ok && cl != call {
						handed = true
					}
				}
				c.Require("C12.R6 iterator-closed", FuncKey(fn)+" ⇒ NewIter", p.InstrPos(call), "a new iterator is handed to a scan helper (which closes it) or closed here", handed, "")
			}
		}
		c.MinInstances("C12.R6 iterator-closed", n, 3)
	}
}

// checkSentinelProducers: init == nil is the "key not in the database" marker
// tested by commit/del; every producer of a cacheValue must preserve it.
func checkSentinelProducers(c *Ctx, rule string, commit *ssa.Function) {
	p := c.P
	{
		n := 0
		for _, fn := range p.Subjects() {
			if !strings.HasPrefix(FuncKey(fn), "pkg/db/diffdb.") || len(fn.Blocks) == 0 {
				continue
			}
			ff := factsOf(fn)
			for _, b := range blocksDeep(fn) {
				for _, in := range b.Instrs {
					st, ok := in.(*ssa.Store)
					if !ok {
						continue
					}
					fa, ok := st.Addr.(*ssa.FieldAddr)
					if !ok {
						continue
					}
					o, s := ownerOfFieldBase(fa.X.Type())
					if o != "db/diffdb.cacheValue" || fieldNameOf(s.Field(fa.Field)) != "init" {
						continue
					}
					n++
					v := stripConv(st.Val)
					_, isMake := v.(*ssa.MakeSlice)
					cst, isConst := v.(*ssa.Const)
					isNil := isConst && cst.Value == nil
					// bytes.Clone(x) is nil exactly when x is nil and a fresh non-nil slice otherwise:
					// it keeps the sentinel by itself (unlike append([]byte(nil), x...), which
					// turns an empty non-nil x into nil)
					isClone := false
					if cl, ok := v.(*ssa.Call); ok && CalleeName(cl.Common()) == "bytes.Clone" && len(cl.Common().Args) == 1 {
						if at := T(ArgK(cl, 0)); IsField("db/diffdb.cacheValue", "init").Match(at) {
							isClone = true
						}
					}
					c.Require(rule, FuncKey(fn)+": cacheValue.init producer", p.InstrPos(st), "init is nil, a make()-allocated (always non-nil) copy, or bytes.Clone of another init — never a value that is nil for empty input", isMake || isNil || isClone, "value: "+T(st.Val).String())
					if isClone {
						continue
					}
					// if the function reads another cacheValue's init, the store must be guarded by that init != nil
					readsInit := false
					for _, bb := range blocksDeep(fn) {
						for _, i2 := range bb.Instrs {
							if fa2, ok := i2.(*ssa.FieldAddr); ok && fa2 != fa {
								o2, s2 := ownerOfFieldBase(fa2.X.Type())
								if o2 == "db/diffdb.cacheValue" && fieldNameOf(s2.Field(fa2.Field)) == "init" && fa2.X != fa.X {
									readsInit = true
								}
							}
						}
					}
					if readsInit {
						guard := false
						for _, f := range ff.FactsAt(b) {
							if f.IsCmp && f.Op.String() == "!=" && ((IsField("db/diffdb.cacheValue", "init").Match(f.L) && f.R.Sym == "nil") || (IsField("db/diffdb.cacheValue", "init").Match(f.R) && f.L.Sym == "nil")) {
								guard = true
							}
						}
						c.Require(rule, FuncKey(fn)+": copies init only when present", p.InstrPos(st), "a copy keeps init == nil (key not in database) as nil", guard, "")
					}
				}
			}
		}
		c.MinInstances(rule, n, 2)
		// consumers test the sentinel with == nil
		cf := factsOf(commit)
		uses := 0
		for _, f := range cf.Facts {
			if f.IsCmp && (IsField("db/diffdb.cacheValue", "init").Match(f.L) || IsField("db/diffdb.cacheValue", "init").Match(f.R)) {
				uses++
			}
		}
		c.Require(rule, "cacheDB.commit tests init against nil", p.Pos(commit.Pos()), "commit classifies by init == nil", uses >= 2, "")
	}

}

// checkNoSuccessorSentinel — R12. upperBound answers nil for a key made of 0xff bytes only ("no
// successor"). As an iterator option nil means "unbounded", which is right; as the argument of a
// seek it means "before every key": a reverse scan that seeks below the successor of its end bound
// must take the no-successor case separately (start from the last key), or the scan of a range
// that ends at ff…ff comes back empty while the forward scan of the same range does not.
func checkNoSuccessorSentinel(c *Ctx) {
	p := c.P
	n := 0
	for _, fn := range p.OwnFuncs {
		if !IsProd(fn) || len(fn.Blocks) == 0 || !strings.HasPrefix(FuncKey(fn), "pkg/db.") {
			continue
		}
		ff := factsOf(fn)
		for _, call := range AllCalls(fn) {
			cc := call.Common()
			name := ""
			if cc.IsInvoke() {
				name = cc.Method.Name()
			} else if g := cc.StaticCallee(); g != nil {
				name = g.Name()
			}
			if name != "SeekLT" && name != "SeekGE" && name != "SeekPrefixGE" {
				continue
			}
			for _, a := range cc.Args {
				t := ff.Term(a)
				if !(t.Op == "call" && strings.HasSuffix(t.Sym, "db.upperBound")) {
					continue
				}
				n++
				ok := false
				for _, f := range ff.FactsAt(call.Block()) {
					if f.IsCmp && f.Op == token.NEQ && f.R.Sym == "nil" && f.L.String() == t.String() {
						ok = true
					}
				}
				c.Require("C12.R12 no-successor-sentinel-handled", FuncKey(fn)+": "+name+"(upperBound(…))", p.InstrPos(call), "a seek to the successor of a bound is made only where that successor exists (upperBound answered non-nil)", ok, "")
			}
		}
	}
	c.MinInstances("C12.R12 no-successor-sentinel-handled", n, 1)
}
