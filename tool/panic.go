package main

import (
	"bufio"
	"bytes"
	"fmt"
	"go/constant"
	"go/token"
	"go/types"
	"os"
	"os/exec"
	"regexp"
	"sort"
	"strings"

	"golang.org/x/tools/go/ssa"
)

// ---------------------------------------------------------------------------
// E9: panic reachability from untrusted entry points.

type Entry struct {
	Fn  *ssa.Function
	How string
}

// funcValueTargets resolves a function-typed SSA value to the functions it may denote.
func funcValueTargets(v ssa.Value, depth int) []*ssa.Function {
	if depth > 4 {
		return nil
	}
	switch x := stripConv(v).(type) {
	case *ssa.Function:
		return []*ssa.Function{x}
	case *ssa.MakeClosure:
		f, _ := x.Fn.(*ssa.Function)
		if f == nil {
			return nil
		}
		if f.Synthetic != "" { // bound method thunk: its single static callee
			for _, c := range AllCalls(f) {
				if g := c.Common().StaticCallee(); g != nil {
					return []*ssa.Function{g}
				}
			}
		}
		return []*ssa.Function{f}
	case *ssa.Call:
		// a call returning a handler closure: look at what the callee returns
		if g := x.Common().StaticCallee(); g != nil {
			var out []*ssa.Function
			for _, r := range Returns(g) {
				if len(r.Results) == 1 {
					out = append(out, funcValueTargets(r.Results[0], depth+1)...)
				}
			}
			return out
		}
	case *ssa.Phi:
		var out []*ssa.Function
		for _, e := range x.Edges {
			out = append(out, funcValueTargets(e, depth+1)...)
		}
		return out
	}
	return nil
}

// discoverEntries finds the functions that receive bytes from peers or RPC clients.
func discoverEntries(p *Program) []Entry {
	var out []Entry
	seen := map[*ssa.Function]bool{}
	add := func(f *ssa.Function, how string) {
		if f != nil && !seen[f] && len(f.Blocks) > 0 {
			seen[f] = true
			out = append(out, Entry{f, how})
		}
	}
	for _, fn := range p.OwnFuncs {
		if !IsProd(fn) {
			continue
		}
		for _, call := range AllCalls(fn) {
			name := CalleeName(call.Common())
			args := call.Common().Args
			switch {
			case strings.HasSuffix(name, ".RegisterEventHandler"):
				// (name, handler, validator) — last two arguments
				if len(args) >= 2 {
					for _, f := range funcValueTargets(args[len(args)-2], 0) {
						add(f, "gossip handler registered in "+FuncKey(fn))
					}
					for _, f := range funcValueTargets(args[len(args)-1], 0) {
						add(f, "gossip validator registered in "+FuncKey(fn))
					}
				}
			case strings.HasSuffix(name, ".RegisterRPCHandler"):
				idx := 1
				if !call.Common().IsInvoke() {
					idx = 2
				}
				if idx < len(args) {
					for _, f := range funcValueTargets(args[idx], 0) {
						add(f, "RPC handler registered in "+FuncKey(fn))
					}
				}
			case strings.HasSuffix(name, "http.ServeMux).HandleFunc") || name == "net/http.HandleFunc" || strings.HasSuffix(name, "mux.Router).HandleFunc"):
				// HTTP / websocket endpoints of the RPC server: reachable by any client
				for _, f := range funcValueTargets(args[len(args)-1], 0) {
					add(f, "HTTP handler registered in "+FuncKey(fn))
				}
			case strings.HasSuffix(name, "Host.SetStreamHandler"):
				for _, f := range funcValueTargets(args[len(args)-1], 0) {
					add(f, "libp2p stream handler set in "+FuncKey(fn))
				}
			}
		}
		// JSON-RPC endpoints: values stored into a router.EndpointHandlers map
		for _, b := range fn.Blocks {
			for _, in := range b.Instrs {
				if mu, ok := in.(*ssa.MapUpdate); ok && (strings.HasSuffix(typeName(mu.Map.Type()), "router.EndpointHandlers") || strings.HasSuffix(typeName(mu.Value.Type()), "router.EndpointHandler")) {
					for _, f := range funcValueTargets(mu.Value, 0) {
						add(f, "JSON-RPC endpoint in "+FuncKey(fn))
					}
				}
			}
		}
	}
	// the gossip envelope validator and library verifiers meant for foreign data
	for _, k := range []string{
		"pkg/p2p.newMessageValidator$1",
		"pkg/trie/smt.Verify", "pkg/trie/smt.CalculateRoot",
		"pkg/trie/rmt.VerifyProof", "pkg/trie/rmt.VerifyRightWitness", "pkg/trie/rmt.CalculateRootFromUpdateData", "pkg/trie/rmt.CalculateRootFromAppendPath", "pkg/trie/rmt.CalculateRootFromRightWitness",
		"pkg/crypto.BLSVerify", "pkg/crypto.BLSVerifyAggSig", "pkg/crypto.BLSVerifyWeightedAggSig", "pkg/crypto.BLSPopVerify", "pkg/crypto.VerifySignature",
		"pkg/codec.Lisk32ToBytes", "pkg/codec.ValidateLisk32",
	} {
		add(p.Fn(k), "library verifier for foreign data")
	}
	// the codec's reader: every generated decoder — of messages the engine receives today or of
	// any other schema — is a sequence of calls to its exported methods on foreign bytes
	for _, fn := range p.OwnFuncs {
		if IsProd(fn) && fn.Object() != nil && fn.Object().Exported() && fn.Signature.Recv() != nil && strings.HasPrefix(FuncKey(fn), "pkg/codec.(*Reader).") {
			add(fn, "library decoder primitive for foreign data")
		}
	}
	sort.Slice(out, func(i, j int) bool { return FuncKey(out[i].Fn) < FuncKey(out[j].Fn) })
	return out
}

// reachableFrom computes own-module functions reachable through calls
// (static and VTA-resolved), goroutines and deferred calls included.
func reachableFrom(p *Program, roots []*ssa.Function, stop func(*ssa.Function) bool) map[*ssa.Function][]string {
	via := map[*ssa.Function][]string{}
	var work []*ssa.Function
	for _, r := range roots {
		if _, ok := via[r]; !ok {
			via[r] = []string{FuncKey(r)}
			work = append(work, r)
		}
	}
	for len(work) > 0 {
		f := work[0]
		work = work[1:]
		if len(via[f]) > 24 {
			continue
		}
		for _, call := range AllCalls(f) {
			cs := p.Callees(call)
			if len(cs) > 12 {
				continue // hopelessly imprecise dynamic call
			}
			for _, g := range cs {
				if !IsOwn(g) || len(g.Blocks) == 0 {
					continue
				}
				if _, ok := via[g]; ok {
					continue
				}
				if stop != nil && stop(g) {
					continue
				}
				via[g] = append(append([]string{}, via[f]...), FuncKey(g))
				work = append(work, g)
			}
		}
	}
	return via
}

var bceRe = regexp.MustCompile(`^(.*\.go):(\d+):(\d+): Found (IsInBounds|IsSliceInBounds)`)

// unprovenBounds asks the Go compiler's prove pass which bounds checks it
// could not eliminate. The sources are compiled, never run.
func unprovenBounds(dir string, env []string) (map[string]string, error) {
	cmd := exec.Command("go", "build", "-gcflags="+modPrefix+"...=-d=ssa/check_bce/debug=1", "./pkg/...")
	cmd.Dir = dir
	cmd.Env = append(append(os.Environ(), "GOFLAGS=-mod=mod", "GOPROXY=off", "GOSUMDB=off", "GOTOOLCHAIN=local", "GOWORK=off"), env...)
	var buf bytes.Buffer
	cmd.Stdout = &buf
	cmd.Stderr = &buf
	if err := cmd.Run(); err != nil {
		return nil, fmt.Errorf("go build for the bounds report failed: %v\n%s", err, tail(buf.String(), 600))
	}
	out := map[string]string{}
	sc := bufio.NewScanner(&buf)
	sc.Buffer(make([]byte, 1<<20), 1<<20)
	for sc.Scan() {
		m := bceRe.FindStringSubmatch(sc.Text())
		if m != nil {
			out[m[1]+":"+m[2]+":"+m[3]] = m[4]
		}
	}
	if len(out) < 100 {
		return nil, fmt.Errorf("bounds report has only %d entries; the compiler flag did not take effect", len(out))
	}
	return out, nil
}

func tail(s string, n int) string {
	if len(s) > n {
		return s[len(s)-n:]
	}
	return s
}

type PanicSite struct {
	Fn    *ssa.Function
	Instr ssa.Instruction
	Kind  string // index | slice | assert | div | make | panic | conv
	Desc  string
	Pos   string
}

func isIntegerType(t types.Type) bool {
	b, ok := t.Underlying().(*types.Basic)
	return ok && b.Info()&types.IsInteger != 0
}

// panicSites lists the panic-capable instructions of fn, before any discharge.
// unproven is the compiler's list of bounds checks it kept.
func panicSites(p *Program, fn *ssa.Function, unproven map[string]string) (sites []PanicSite, proven int) {
	pos := func(in ssa.Instruction) string { return p.Pos(in.Pos()) }
	for _, b := range fn.Blocks {
		if b == fn.Recover {
			continue
		}
		for _, in := range b.Instrs {
			switch x := in.(type) {
			case *ssa.IndexAddr:
				if _, isC := x.Index.(*ssa.Const); isC {
					if pt, ok := x.X.Type().Underlying().(*types.Pointer); ok {
						if _, isArr := pt.Elem().Underlying().(*types.Array); isArr {
							continue // constant index into an array: checked at compile time
						}
					}
				}
				if _, kept := unproven[pos(x)]; kept || !x.Pos().IsValid() {
					sites = append(sites, PanicSite{fn, in, "index", "index " + T(x.X).String() + "[" + T(x.Index).String() + "]", pos(x)})
				} else {
					proven++
				}
			case *ssa.Index:
				if _, kept := unproven[pos(x)]; kept {
					sites = append(sites, PanicSite{fn, in, "index", "index " + T(x.X).String() + "[" + T(x.Index).String() + "]", pos(x)})
				} else {
					proven++
				}
			case *ssa.Lookup:
				if mt, isMap := x.X.Type().Underlying().(*types.Map); isMap && !x.CommaOk {
					// m[k].f / *m[k] with a pointer-valued map: nil dereference when the key is absent
					if _, isPtr := mt.Elem().Underlying().(*types.Pointer); isPtr && lookupDereferenced(x) {
						sites = append(sites, PanicSite{fn, in, "nilentry", "entry " + T(x.X).String() + "[" + T(x.Index).String() + "] dereferenced without a presence check", pos(x)})
					}
				}
				if _, isMap := x.X.Type().Underlying().(*types.Map); !isMap {
					if _, kept := unproven[pos(x)]; kept {
						sites = append(sites, PanicSite{fn, in, "index", "string index " + T(x.X).String(), pos(x)})
					} else {
						proven++
					}
				}
			case *ssa.Slice:
				if x.Low == nil && x.High == nil && x.Max == nil {
					continue
				}
				if _, kept := unproven[pos(x)]; kept {
					sites = append(sites, PanicSite{fn, in, "slice", "slice " + T(x).String(), pos(x)})
				} else {
					proven++
				}
			case *ssa.TypeAssert:
				if !x.CommaOk {
					sites = append(sites, PanicSite{fn, in, "assert", "type assertion to " + typeName(x.AssertedType) + " without ok", pos(x)})
				}
			case *ssa.BinOp:
				if (x.Op == token.QUO || x.Op == token.REM) && isIntegerType(x.X.Type()) {
					if c, isC := x.Y.(*ssa.Const); isC && c.Value != nil && constant.Sign(c.Value) != 0 {
						continue
					}
					sites = append(sites, PanicSite{fn, in, "div", "division by " + T(x.Y).String(), pos(x)})
				}
			case *ssa.MakeSlice:
				_, lenC := x.Len.(*ssa.Const)
				_, capC := x.Cap.(*ssa.Const)
				switch {
				case !lenC:
					sites = append(sites, PanicSite{fn, in, "make", "make with length " + T(x.Len).String(), pos(x)})
				case !capC && x.Cap != x.Len:
					// make([]T, 0, n): the capacity is allocated at once, whatever is appended later
					sites = append(sites, PanicSite{fn, in, "make", "make with capacity " + T(x.Cap).String(), pos(x)})
				}
			case *ssa.Call:
				// library functions that panic on a malformed argument (documented precondition)
				if n := CalleeName(x.Common()); (n == "crypto/ed25519.Verify" || n == "golang.org/x/crypto/ed25519.Verify") && len(x.Call.Args) == 3 {
					sites = append(sites, PanicSite{fn, in, "libpre", "crypto/ed25519.Verify panics unless len(publicKey) == 32: " + T(x.Call.Args[0]).String(), pos(x)})
				}
			case *ssa.Panic:
				sites = append(sites, PanicSite{fn, in, "panic", "explicit panic(" + T(x.X).String() + ")", pos(x)})
			}
		}
	}
	return sites, proven
}

// lookupDereferenced: the pointer a map lookup returned is dereferenced directly (field
// access, load, or a call of a method that dereferences its receiver).
func lookupDereferenced(x *ssa.Lookup) bool {
	if x.Referrers() == nil {
		return false
	}
	for _, r := range *x.Referrers() {
		switch y := r.(type) {
		case *ssa.FieldAddr:
			if y.X == x {
				return true
			}
		case *ssa.UnOp:
			if y.Op == token.MUL && y.X == x {
				return true
			}
		case ssa.CallInstruction:
			if g := y.Common().StaticCallee(); g != nil && len(y.Common().Args) > 0 && y.Common().Args[0] == x && y.Common().Signature().Recv() != nil && methodDerefsReceiver(g) {
				return true
			}
		}
	}
	return false
}
