package main

import (
	"fmt"
	"go/types"
	"strings"

	"golang.org/x/tools/go/ssa"
)

func init() {
	register("C01", "Thin structural necessary conditions of finality safety (the 2/3 counting argument itself quantifies over histories and is not decided): "+
		"(R1) threshold bounds at set time: the store of new BFT parameters is dominated by the rejecting edges for len(validators) > batchSize, zero weights, precommit/certificate threshold ∉ [⌊W/3⌋+1, W] with W the sum over that same validator slice, and the stored prevote threshold is ⌊2W/3⌋+1 of the same W; "+
		"(R2) precommit discipline in the vote update: no vote is implied when maxHeightGenerated >= height; a precommit weight increment is control-dependent on prevoteWeight >= prevoteThreshold of the parameters at that block's own height and on height >= max(minActiveHeight, heightNotPrevoted+1, largestHeightPrecommit+1); largestHeightPrecommit is raised on the first (highest) precommit only; prevote increments are bounded below by max(maxHeightGenerated+1, minActiveHeight); every added weight is the voter's weight in the parameters at the voted block's height; "+
		"(R3) maxHeightPrevoted/Precommited are the first (highest) window entry whose weight reaches the threshold of its own height; "+
		"(R4) the verifier rejects a header the window flags as contradicting, and the window scan looks at the generator's most recent header.",
		runC01)
	register("C02", "Determinism and per-height parameter use of the BFT height computation (agreement with LIP-0058 on concrete chains is value-level and not decided): "+
		"(D1) effect analysis over everything reachable from the BFT module's block hook, genesis hook, parameter setters and getters: no clock, randomness, environment, goroutine or unordered map iteration reaches the stored votes/parameters/keys or a returned height (map iterations in the staged store are table rows whose consumer sorts, re-verified); "+
		"(D2) every weight added and every threshold compared in the vote update and in the max-height updates comes from the parameters at the voted block's own height (the per-height lookup), the window is 3·batchSize, the newest header is inserted at index 0; "+
		"(D3) the three stored schemas (votes, parameters, generator keys) have round-trip codec tables (shared with C08.T1); parameters are stored at tip+1 and looked up as 'latest <= height'.",
		runC02)
}

const bftPkg = "consensus/liskbft"

func runC01(c *Ctx) {
	p := c.P
	c.Assume = append(c.Assume, "the counting arithmetic, getHeightNotPrevoted and the quorum-intersection argument are not decided", "uint64 overflow of summed weights is ignored")
	setP := c.Anchor("pkg/consensus/liskbft.(*API).SetBFTParameters")
	upd := c.Anchor("pkg/consensus/liskbft.(*BFTVotes).updatePrevotesPrecommits")
	verify := c.Anchor("pkg/consensus.(*Executer).verifyBlock")
	if setP == nil || upd == nil || verify == nil {
		return
	}
	checkThresholdBounds(c, "C01", setP)
	checkVoteDiscipline(c, "C01", upd, true)
	checkMaxHeights(c, "C01")
	checkWalkBack(c, "C01")
	checkVoteInfoCarryOver(c, "C01", setP)
	// the weights and thresholds behind every finality decision come from the store of the
	// branch being processed, never from memory kept across blocks
	checkModuleStateless(c, "C01.D1 module-holds-no-state")
	// R4
	{
		ff := factsOf(verify)
		n := 0
		for _, r := range Returns(verify) {
			if classifyReturn(ff, r) != RetNil {
				continue
			}
			n++
			ok, _ := ff.BoolHoldsAt(r.Block(), IsResult("(*"+bftPkg+".API).IsHeaderContradictingChain", 0), false)
			okErr, _ := ff.NilErrAt(r.Block(), IsResult("(*"+bftPkg+".API).IsHeaderContradictingChain", 1))
			c.Require("C01.R4 contradicting-header-rejected", FuncKey(verify), p.InstrPos(r), "a block is accepted only when IsHeaderContradictingChain answered false without error", ok && okErr, "")
		}
		c.MinInstances("C01.R4 contradicting-header-rejected", n, 1)
		checkWindowOrder(c, "C01")
	}
}

func checkThresholdBounds(c *Ctx, prop string, setP *ssa.Function) {
	p := c.P
	ff := factsOf(setP)
	var store ssa.CallInstruction
	for _, s := range CallsIn(setP, "db/diffdb.SetEncodable") {
		if strings.Contains(T(ArgK(s.Call, 2)).String(), "complit") || strings.Contains(typeName(stripConv(ArgK(s.Call, 2)).Type()), "BFTParams") {
			store = s.Call
		}
	}
	if store == nil {
		c.Require(prop+".R1 thresholds-at-set-time", FuncKey(setP), p.Pos(setP.Pos()), "the parameters are stored with SetEncodable", false, "")
		return
	}
	blk := store.Block()
	facts := ff.FactsAt(blk)
	// W: the φ that accumulates bftWeight
	isW := Matcher{"W=Σweights", func(t *Term) bool {
		return t.Op == "phi" && strings.Contains(t.String(), ".bftWeight")
	}}
	has := func(pred func(f Fact) bool) (bool, string) {
		for _, f := range facts {
			if pred(f) {
				return true, f.String()
			}
		}
		return false, ""
	}
	// len(validators) <= batchSize
	ok, w := has(func(f Fact) bool {
		return f.Entails(CmpSpec{A: LenOf(IsParam(4)), B: IsField(bftPkg+".API", "batchSize"), Rel: LE, D: 0})
	})
	c.Require(prop+".R1 thresholds-at-set-time", "len(validators) <= batchSize", p.InstrPos(store), "the store is dominated by the rejecting edge for too many validators", ok, w)
	third := Matcher{"⌊W/3⌋", func(t *Term) bool {
		return t.Op == "binop" && t.Sym == "/" && isW.Match(t.Args[0]) && t.Args[1].String() == "3"
	}}
	for _, th := range []struct {
		name string
		prm  int
	}{{"precommitThreshold", 2}, {"certificateThreshold", 3}} {
		okLo, wLo := has(func(f Fact) bool { return f.Entails(CmpSpec{A: third, B: IsParam(th.prm), Rel: LE, D: -1}) })
		okHi, wHi := has(func(f Fact) bool { return f.Entails(CmpSpec{A: IsParam(th.prm), B: isW, Rel: LE, D: 0}) })
		c.Require(prop+".R1 thresholds-at-set-time", th.name+" >= ⌊W/3⌋+1", p.InstrPos(store), "lower bound enforced before the store", okLo, wLo)
		c.Require(prop+".R1 thresholds-at-set-time", th.name+" <= W", p.InstrPos(store), "upper bound enforced before the store", okHi, wHi)
	}
	// zero weights rejected: an edge X.bftWeight <= 0 (== 0) leading to an error return, inside the summing loop
	okZ := false
	for _, hf := range funcAndHelpers(setP) { // the check may sit in a validation helper
		hff := factsOf(hf)
		for i, e := range hff.Edges {
			f := hff.Facts[i]
			if f.IsCmp && strings.HasSuffix(f.L.String(), ".bftWeight") && f.R.String() == "0" && (f.Op.String() == "<=" || f.Op.String() == "==") {
				for _, in := range e.To.Instrs {
					if r, isR := in.(*ssa.Return); isR && classifyReturn(hff, r) == RetErr {
						okZ = true
					}
				}
			}
		}
	}
	c.Require(prop+".R1 thresholds-at-set-time", "every bftWeight > 0", p.Pos(setP.Pos()), "a zero weight is rejected while summing", okZ, "")
	// W sums the same slice that is stored: the φ's loop ranges over p4 and params.validators = p4
	sumsParam := false
	isW.F(&Term{}) // no-op
	for _, f := range facts {
		_ = f
	}
	for _, b := range blocksDeep(setP) {
		for _, in := range b.Instrs {
			if phi, ok := in.(*ssa.Phi); ok {
				t := ff.Term(phi)
				if isW.Match(t) && strings.Contains(t.String(), "p4[") {
					sumsParam = true
				}
			}
		}
	}
	c.Require(prop+".R1 thresholds-at-set-time", "W is the sum over the validators being stored", p.Pos(setP.Pos()), "the aggregate weight sums the bftWeight of the validators parameter", sumsParam, "")
	// prevote threshold = ⌊2W/3⌋+1 ; stored thresholds are the checked parameters; stored validators = the parameter
	wantFields := map[string]func(t *Term) bool{
		"prevoteThreshold": func(t *Term) bool {
			// ((W*2)/3)+1
			if !(t.Op == "binop" && t.Sym == "+" && t.Args[1].String() == "1") {
				return false
			}
			d := t.Args[0]
			if !(d.Op == "binop" && d.Sym == "/" && d.Args[1].String() == "3") {
				return false
			}
			m := d.Args[0]
			return m.Op == "binop" && m.Sym == "*" && ((isW.Match(m.Args[0]) && m.Args[1].String() == "2") || (isW.Match(m.Args[1]) && m.Args[0].String() == "2"))
		},
		"precommitThreshold":   func(t *Term) bool { return t.String() == "p2" },
		"certificateThreshold": func(t *Term) bool { return t.String() == "p3" },
		"validators":           func(t *Term) bool { return t.String() == "p4" },
	}
	got := map[string]string{}
	for _, b := range blocksDeep(setP) {
		for _, in := range b.Instrs {
			if st, ok := in.(*ssa.Store); ok {
				if fa, ok := st.Addr.(*ssa.FieldAddr); ok {
					o, s := ownerOfFieldBase(fa.X.Type())
					if o == bftPkg+".BFTParams" {
						name := fieldNameOf(s.Field(fa.Field))
						t := ff.Term(st.Val)
						got[name] = t.String()
						if chk, ok := wantFields[name]; ok {
							c.Require(prop+".R1 stored-parameters", "BFTParams."+name, p.InstrPos(st), "stored value is the checked one (prevote threshold = ⌊2W/3⌋+1)", chk(t), "value: "+t.String())
						}
					}
				}
			}
		}
	}
	for name := range wantFields {
		if _, ok := got[name]; !ok {
			c.Require(prop+".R1 stored-parameters", "BFTParams."+name, p.Pos(setP.Pos()), "field is assigned", false, "")
		}
	}
}

// element returns the window element term a weight store goes through.
func storesToField(root *ssa.Function, owner, field string) []*ssa.Store {
	var out []*ssa.Store
	for _, fn := range funcAndHelpers(root) {
		out = append(out, storesToField1(fn, owner, field)...)
	}
	return out
}

func storesToField1(fn *ssa.Function, owner, field string) []*ssa.Store {
	var out []*ssa.Store
	for _, b := range blocksDeep(fn) {
		for _, in := range b.Instrs {
			if st, ok := in.(*ssa.Store); ok {
				if fa, ok := st.Addr.(*ssa.FieldAddr); ok {
					o, s := ownerOfFieldBase(fa.X.Type())
					if o == owner && fieldNameOf(s.Field(fa.Field)) == field {
						out = append(out, st)
					}
				}
			}
		}
	}
	return out
}

func checkVoteDiscipline(c *Ctx, prop string, upd *ssa.Function, full bool) {
	p := c.P
	ff := factsOf(upd)
	hdr := bftPkg + ".BFTBlockHeader"
	// early exit
	okEarly := false
	for i, e := range ff.Edges {
		f := ff.Facts[i]
		if f.IsCmp && f.Op.String() == ">=" && strings.HasSuffix(f.L.String(), "[0].maxHeightGenerated") && strings.HasSuffix(f.R.String(), "[0].height") {
			for _, in := range e.To.Instrs {
				if r, isR := in.(*ssa.Return); isR && classifyReturn(ff, r) == RetNil {
					okEarly = true
				}
			}
		}
	}
	if !okEarly {
		// the same thing said from the other side: every weight that is touched is touched
		// where maxHeightGenerated < height is known (the test may sit in a helper that
		// decides whether the header votes at all)
		ws := append(storesToField(upd, hdr, "prevoteWeight"), storesToField(upd, hdr, "precommitWeight")...)
		all := len(ws) > 0
		for _, st := range ws {
			has := false
			for _, f := range ff.FactsAt(st.Block()) {
				if f.IsCmp && f.Op.String() == "<" && strings.HasSuffix(f.L.String(), "[0].maxHeightGenerated") && strings.HasSuffix(f.R.String(), "[0].height") {
					has = true
				}
			}
			if !has {
				all = false
			}
		}
		okEarly = all
	}
	if full {
		c.Require(prop+".R2 no-vote-when-maxHeightGenerated>=height", FuncKey(upd), p.Pos(upd.Pos()), "a header with maxHeightGenerated >= height implies no votes (returns before any weight is touched)", okEarly, "")
	}
	weightOK := func(st *ssa.Store, field string) (bool, string) {
		fa := st.Addr.(*ssa.FieldAddr)
		elem := ff.Term(fa.X).String()
		v := ff.Term(st.Val)
		// value = elem.field + Get(GetParameters(p1, elem.height)#0.validators, newest.generatorAddress)#0.bftWeight
		want := "GetParameters(p1, " + elem + ".height)#0.validators"
		s := v.String()
		ok := v.Op == "binop" && v.Sym == "+" && strings.Contains(s, elem+"."+field) && strings.Contains(s, want) && strings.Contains(s, "[0].generatorAddress)#0.bftWeight")
		return ok, "value: " + s
	}
	// precommit increments
	pre := storesToField(upd, hdr, "precommitWeight")
	for _, st := range pre {
		fa := st.Addr.(*ssa.FieldAddr)
		elem := ff.Term(fa.X).String()
		okW, d := weightOK(st, "precommitWeight")
		c.Require(prop+".R2 weight-from-own-height-params", FuncKey(upd)+": precommitWeight +=", p.InstrPos(st), "the weight added is the voter's weight in the parameters at the voted block's own height", okW, d)
		if !full {
			continue
		}
		okThr, okBound := false, false
		for _, f := range ff.FactsAt(st.Block()) {
			s := f.String()
			if f.IsCmp && f.Op.String() == ">=" && f.L.String() == elem+".prevoteWeight" && strings.Contains(f.R.String(), "GetParameters(p1, "+elem+".height)#0.prevoteThreshold") {
				okThr = true
			}
			if f.IsCmp && f.Op.String() == ">=" && f.L.String() == elem+".height" && strings.Contains(s, "ints.Max") &&
				strings.Contains(s, ".minActiveHeight") && strings.Contains(s, "getHeightNotPrevoted(p0) + 1)") && strings.Contains(s, ".largestHeightPrecommit + 1)") {
				okBound = true
			}
		}
		c.Require(prop+".R2 precommit-needs-prevote-quorum", FuncKey(upd)+": precommitWeight +=", p.InstrPos(st), "precommit only for a block whose prevoteWeight >= prevoteThreshold of its own height", okThr, "")
		c.Require(prop+".R2 precommit-lower-bound", FuncKey(upd)+": precommitWeight +=", p.InstrPos(st), "precommit only at heights >= max(minActiveHeight, heightNotPrevoted+1, largestHeightPrecommit+1)", okBound, "")
	}
	c.MinInstances(prop+".R2 precommit increments", len(pre), 1)
	// prevote increments
	pv := storesToField(upd, hdr, "prevoteWeight")
	for _, st := range pv {
		fa := st.Addr.(*ssa.FieldAddr)
		elem := ff.Term(fa.X).String()
		okW, d := weightOK(st, "prevoteWeight")
		c.Require(prop+".R2 weight-from-own-height-params", FuncKey(upd)+": prevoteWeight +=", p.InstrPos(st), "the weight added is the voter's weight in the parameters at the voted block's own height", okW, d)
		if !full {
			continue
		}
		okBound := false
		for _, f := range ff.FactsAt(st.Block()) {
			s := f.String()
			if f.IsCmp && f.Op.String() == ">=" && f.L.String() == elem+".height" && strings.Contains(s, "ints.Max") && strings.Contains(s, "[0].maxHeightGenerated + 1)") && strings.Contains(s, ".minActiveHeight") {
				okBound = true
			}
		}
		c.Require(prop+".R2 prevote-lower-bound", FuncKey(upd)+": prevoteWeight +=", p.InstrPos(st), "prevotes only at heights >= max(maxHeightGenerated+1, minActiveHeight)", okBound, "")
	}
	c.MinInstances(prop+".R2 prevote increments", len(pv), 1)
	if !full {
		return
	}
	// largestHeightPrecommit
	lh := storesToField(upd, bftPkg+".ActiveValidator", "largestHeightPrecommit")
	for _, st := range lh {
		v := ff.Term(st.Val).String()
		okVal := strings.HasSuffix(v, ".height") && strings.Contains(v, "blockBFTInfos[")
		okFirst, okOwner, okQ := false, false, false
		for _, f := range ff.FactsAt(st.Block()) {
			if !f.IsCmp && !f.Truth && f.B.Op == "phi" {
				okFirst = true // !hasPrecommitted
			}
			if !f.IsCmp && f.Truth && f.B.Op == "call" && strings.HasSuffix(f.B.Sym, "bytes.Equal") && strings.Contains(f.B.String(), "[0].generatorAddress") {
				okOwner = true
			}
			if f.IsCmp && f.Op.String() == ">=" && strings.HasSuffix(f.L.String(), ".prevoteWeight") {
				okQ = true
			}
		}
		// or the entry written is the one a by-address lookup returned for the generator
		if fa, ok := st.Addr.(*ssa.FieldAddr); ok {
			bt := ff.Term(fa.X)
			if bt.Any(func(t *Term) bool {
				return t.Op == "call" && strings.HasSuffix(t.Sym, "ActiveValidators).get") && strings.Contains(t.String(), "[0].generatorAddress")
			}) {
				okOwner = true
			}
		}
		c.Require(prop+".R2 largestHeightPrecommit", FuncKey(upd), p.InstrPos(st), "raised to the first (highest) precommitted height, for the generator's own entry, under the prevote quorum", okVal && okFirst && okOwner && okQ, fmt.Sprintf("value=%s first=%v owner=%v quorum=%v", v, okFirst, okOwner, okQ))
	}
	c.MinInstances(prop+".R2 largestHeightPrecommit", len(lh), 1)
}

func checkMaxHeights(c *Ctx, prop string) {
	p := c.P
	for _, x := range []struct{ fn, weight, thr, field string }{
		{"pkg/consensus/liskbft.(*BFTVotes).updateMaxHeightPrevoted", "prevoteWeight", "prevoteThreshold", "maxHeightPrevoted"},
		{"pkg/consensus/liskbft.(*BFTVotes).updateMaxHeightPrecommitted", "precommitWeight", "precommitThreshold", "maxHeightPrecommited"},
	} {
		fn := c.Anchor(x.fn)
		if fn == nil {
			continue
		}
		ff := factsOf(fn)
		sts := storesToField(fn, bftPkg+".BFTVotes", x.field)
		for _, st := range sts {
			v := ff.Term(st.Val)
			elem := strings.TrimSuffix(v.String(), ".height")
			okQ := false
			for _, f := range ff.FactsAt(st.Block()) {
				if f.IsCmp && f.Op.String() == ">=" && f.L.String() == elem+"."+x.weight && strings.Contains(f.R.String(), "GetParameters(p1, "+elem+".height)#0."+x.thr) {
					okQ = true
				}
			}
			// returns right after the store (first match from the newest end)
			okFirst := false
			for _, in := range st.Block().Instrs {
				if _, isR := in.(*ssa.Return); isR {
					okFirst = true
				}
			}
			// … or the value comes out of a search helper that returns it at the first match
			if o, isInstr := v.Orig.(ssa.Instruction); isInstr && !okFirst && o.Block() != nil && isNewHelper(o.Parent()) {
				if _, isR := o.Block().Instrs[len(o.Block().Instrs)-1].(*ssa.Return); isR {
					okFirst = true
				}
			}
			c.Require(prop+".R3 max-height-is-first-quorum", x.fn, p.InstrPos(st), x.field+" = height of the first window entry (newest first) whose "+x.weight+" >= "+x.thr+" of its own height", strings.HasSuffix(v.String(), ".height") && okQ && okFirst, fmt.Sprintf("value=%s quorum=%v first=%v", v, okQ, okFirst))
		}
		c.MinInstances(prop+".R3 "+x.field, len(sts), 1)
	}
}

// ---------------------------------------------------------------------------

var nondetCalls = []string{"time.Now", "time.Since", "math/rand.", "crypto/rand.", "os.Getenv", "os.Hostname", "runtime.NumGoroutine"}

// mapRangeExceptions: map iterations reachable from the BFT roots, with the reason order cannot escape.
var mapRangeExceptions = map[string]string{
	"pkg/db/diffdb.(*cacheDB).withPrefix":      "result is merged and sorted by mergeSortLimit (re-verified: every caller passes it to mergeSortLimit)",
	"pkg/db/diffdb.(*cacheDB).dataBetween":     "result is merged and sorted by mergeSortLimit (re-verified: every caller passes it to mergeSortLimit)",
	"pkg/db/diffdb.(*Database).mergeSortLimit": "builds a set for membership only; output is sorted afterwards (re-verified: sort.Slice dominates the return)",
}

func runC02(c *Ctx) {
	p := c.P
	c.Assume = append(c.Assume, "agreement with an independent LIP-0058 transcription on concrete chains is not decided", "the application (ABI) side is outside the roots")
	roots := []string{
		"pkg/consensus/liskbft.(*Module).BeforeTransactionsExecute",
		"pkg/consensus/liskbft.(*Module).InitGenesisState",
		"pkg/consensus/liskbft.(*API).SetBFTParameters",
		"pkg/consensus/liskbft.(*API).SetGeneratorKeys",
		"pkg/consensus/liskbft.(*API).GetBFTHeights",
		"pkg/consensus/liskbft.(*API).GetBFTParameters",
		"pkg/consensus/liskbft.(*API).GetGeneratorKeys",
		"pkg/consensus/liskbft.(*API).IsHeaderContradictingChain",
		"pkg/consensus/liskbft.(*API).ImpliesMaximalPrevotes",
		"pkg/consensus/liskbft.(*API).NextHeightBFTParameters",
		"pkg/consensus/liskbft.(*API).ExistBFTParameters",
	}
	seen := map[*ssa.Function]bool{}
	var order []*ssa.Function
	var walk func(f *ssa.Function, d int)
	walk = func(f *ssa.Function, d int) {
		if f == nil || seen[f] || len(f.Blocks) == 0 || !IsOwn(f) || d > 14 {
			return
		}
		seen[f] = true
		order = append(order, f)
		for _, call := range AllCalls(f) {
			for _, g := range p.Callees(call) {
				walk(g, d+1)
			}
		}
		for _, af := range f.AnonFuncs {
			walk(af, d+1)
		}
	}
	for _, r := range roots {
		fn := c.Anchor(r)
		walk(fn, 0)
	}
	c.Count("functions reachable from the BFT roots", len(order))
	c.MinInstances("C02.D1 reachable functions", len(order), 40)
	nClean := 0
	for _, f := range order {
		bad := 0
		for _, b := range blocksDeep(f) {
			for _, in := range b.Instrs {
				switch x := in.(type) {
				case *ssa.Go:
					bad++
					c.Require("C02.D1 no-nondeterminism", FuncKey(f)+": go statement", p.InstrPos(in), "no goroutine in the BFT height computation", false, "")
				case *ssa.Select:
					bad++
					c.Require("C02.D1 no-nondeterminism", FuncKey(f)+": select", p.InstrPos(in), "no select in the BFT height computation", false, "")
				case ssa.CallInstruction:
					n := CalleeName(x.Common())
					for _, nd := range nondetCalls {
						if n == nd || (strings.HasSuffix(nd, ".") && strings.HasPrefix(n, nd)) {
							bad++
							c.Require("C02.D1 no-nondeterminism", FuncKey(f)+" ⇒ "+n, p.InstrPos(in), "no clock/randomness/environment in the BFT height computation", false, "")
						}
					}
				case *ssa.Range:
					if _, isMap := x.X.Type().Underlying().(interface{ Key() interface{} }); isMap {
						_ = isMap
					}
					if strings.HasPrefix(typeName(x.X.Type()), "map[") {
						if x.Parent() != f && isNewHelper(x.Parent()) {
							if orderInsensitiveCollector(p, x.Parent(), 0) {
								continue // judged where it stands: a collector whose callers sort
							}
						}
						reason, ok := mapRangeExceptions[FuncKey(f)]
						good := ok && verifyMapRangeException(p, f)
						if !good && orderInsensitiveCollector(p, f, 0) {
							// not one of the reviewed functions, but of the same kind: it only collects
							// into the slice it returns, and every caller hands that slice to a sort
							good, reason = true, "collects into its result only; every caller passes the result to a function that sorts it before returning"
						}
						if !good && pruneOnlyRange(x) {
							good, reason = true, "the loop only deletes entries of the map it ranges over: the outcome does not depend on the order"
						}
						if !good {
							bad++
						}
						c.Require("C02.D1 map-order-does-not-escape", FuncKey(f)+": range over map", p.InstrPos(in), "iteration order of a map must not reach stored state or a result", good, reason)
					}
				}
			}
		}
		if bad == 0 {
			nClean++
		}
	}
	c.Require("C02.D1 no-nondeterminism", "all reachable functions", "-", fmt.Sprintf("%d functions scanned: no go/select/clock/random/env", len(order)), true, "")
	// package-level mutable variables written after init
	for _, f := range order {
		for _, b := range blocksDeep(f) {
			for _, in := range b.Instrs {
				if st, ok := in.(*ssa.Store); ok {
					if g, ok := st.Addr.(*ssa.Global); ok && strings.HasPrefix(relPkgName(g.Pkg.Pkg), "consensus/liskbft") {
						c.Require("C02.D1 no-global-state", FuncKey(f)+" writes "+g.Name(), p.InstrPos(st), "no package-level state is mutated by the computation", false, "")
					}
				}
			}
		}
	}

	checkModuleStateless(c, "C02.D1 module-holds-no-state")

	// U1: height arithmetic on unsigned integers never wraps into a comparison
	checkUnsignedDifferences(c, "C02.U1 unsigned-difference-guarded", func(fn *ssa.Function) bool { return strings.HasPrefix(FuncKey(fn), "pkg/consensus/liskbft.") }, c02UnsignedTable, 0)

	// ---- D2
	if setP := c.Anchor("pkg/consensus/liskbft.(*API).SetBFTParameters"); setP != nil {
		// the thresholds the height computation compares against are the LIP's function of the
		// weights (prevote threshold ⌊2W/3⌋+1), stored as checked
		checkThresholdBounds(c, "C02", setP)
		checkVoteInfoCarryOver(c, "C02", setP)
	}
	if upd := c.Anchor("pkg/consensus/liskbft.(*BFTVotes).updatePrevotesPrecommits"); upd != nil {
		checkVoteDiscipline(c, "C02", upd, false)
	}
	checkMaxHeights(c, "C02")
	checkWalkBack(c, "C02")
	checkWindowOrder(c, "C02")
	if mod := c.Anchor("pkg/consensus/liskbft.(*Module).Init"); mod != nil {
		ok := false
		for _, st := range storesToField(mod, bftPkg+".Module", "maxLengthBlock") {
			t := T(st.Val).String()
			ok = strings.Contains(t, "3") && strings.Contains(t, "*") && (strings.Contains(t, "p1") || strings.Contains(t, "batchSize"))
		}
		c.Require("C02.D2 window-is-3-rounds", FuncKey(mod), p.Pos(mod.Pos()), "vote window length = 3 · batchSize", ok, "")
	}
	if bte := c.Anchor("pkg/consensus/liskbft.(*Module).BeforeTransactionsExecute"); bte != nil {
		// order of the update steps
		steps := []string{"insertBlockBFTInfo", "updatePrevotesPrecommits", "updateMaxHeightPrevoted", "updateMaxHeightPrecommitted", "updateMaxHeightCertified"}
		var prev ssa.CallInstruction
		for i, s := range steps {
			cs := CallsIn(bte, "(*"+bftPkg+".BFTVotes)."+s)
			ok := len(cs) == 1 && (prev == nil || instrDominates(prev, cs[0].Call))
			c.Require("C02.D2 update-order", FuncKey(bte)+fmt.Sprintf(": step %d %s", i, s), p.Pos(bte.Pos()), "insert → votes → prevoted → precommitted → certified", ok, "")
			if len(cs) == 1 {
				prev = cs[0].Call
			}
		}
		// the votes are stored after all updates
		var lastStore ssa.CallInstruction
		for _, s := range CallsIn(bte, "db/diffdb.SetEncodable") {
			lastStore = s.Call
		}
		c.Require("C02.D2 update-order", FuncKey(bte)+": store after updates", p.Pos(bte.Pos()), "the updated votes are written after the last update step", lastStore != nil && prev != nil && instrDominates(prev, lastStore), "")
		// insertion uses the module's window length
		for _, s := range CallsIn(bte, "(*"+bftPkg+".BFTVotes).insertBlockBFTInfo") {
			t := T(ArgK(s.Call, 2)).String()
			c.Require("C02.D2 window-is-3-rounds", FuncKey(bte)+" ⇒ insertBlockBFTInfo", p.InstrPos(s.Call), "the window is truncated to maxLengthBlock", t == "p0.maxLengthBlock", t)
		}
	}
	// ---- D3 parameters stored at tip+1, looked up as latest <= height
	if setP := c.Anchor("pkg/consensus/liskbft.(*API).SetBFTParameters"); setP != nil {
		for _, s := range CallsIn(setP, "db/diffdb.SetEncodable") {
			k := T(ArgK(s.Call, 1)).String()
			if strings.Contains(k, "FromUint32") {
				c.Require("C02.D3 params-activate-next-height", FuncKey(setP), p.InstrPos(s.Call), "new parameters are stored under currentHeight+1", strings.Contains(k, " + 1)"), k)
			}
		}
	}
	if g := c.Anchor("pkg/consensus/liskbft.getBFTParams"); g != nil {
		ok := false
		gf := factsOf(g)
		for _, call := range AllCallsDeep(g) {
			if call.Common().IsInvoke() && call.Common().Method.Name() == "Range" {
				a := call.Common().Args
				s, e, lim, rev := gf.Term(a[0]).String(), gf.Term(a[1]).String(), gf.Term(a[2]).String(), gf.Term(a[3]).String()
				ok = strings.Contains(s, "FromUint32(0)") && strings.Contains(e, "FromUint32(p1)") && lim == "1" && rev == "true"
			}
		}
		c.Require("C02.D3 params-lookup-latest-at-or-below", FuncKey(g), p.Pos(g.Pos()), "parameters for a height = highest stored key in [0, height] (reverse scan, limit 1)", ok, "")
	}
	checkNextParamsNearest(c, "C02.D3 next-params-lookup-nearest-above")
	checkImpliesMaxPrevotesIndex(c, "C02.D4 implies-max-prevotes-reads-the-previous-block")
	checkPruneKeepsEntryInForce(c, "C02.D5 pruning-keeps-the-entry-in-force")
	// codec tables of the stored schemas
	for _, s := range p.schemas() {
		if s.Owner != bftPkg+".BFTVotes" && s.Owner != bftPkg+".BFTParams" && s.Owner != bftPkg+".GeneratorKeys" && s.Owner != bftPkg+".BFTBlockHeader" && s.Owner != bftPkg+".ActiveValidator" && s.Owner != bftPkg+".BFTValidator" {
			continue
		}
		enc := s.method(p, "Encode")
		dec := s.method(p, "DecodeFromReader")
		if enc == nil || dec == nil {
			c.Require("C02.D3 stored-schema-tables", s.Owner, "-", "generated codec exists", false, "")
			continue
		}
		want := append([]SchemaField{}, s.Fields...)
		sortFields(want)
		ok1, w1 := compareCalls(want, codecCalls(enc, "Writer"), true, "")
		ok2, w2 := compareCalls(want, codecCalls(dec, "Reader"), false, "false")
		c.Require("C02.D3 stored-schema-tables", s.Owner, p.Pos(enc.Pos()), "what is stored is what the next block decodes (writer/reader tables agree with the struct)", ok1 && ok2, w1+" / "+w2)
	}
}

func sortFields(f []SchemaField) {
	for i := 1; i < len(f); i++ {
		for j := i; j > 0 && f[j].Num < f[j-1].Num; j-- {
			f[j], f[j-1] = f[j-1], f[j]
		}
	}
}

// verifyMapRangeException re-checks the stated consumer of a tabled map iteration.
// sortsBeforeReturn: a sort call on every path to every return of f.
func sortsBeforeReturn(f *ssa.Function) bool {
	var sorts []ssa.CallInstruction
	for _, call := range AllCallsDeep(f) {
		n := CalleeName(call.Common())
		if isSortCall(n) || n == "sort.Strings" || n == "sort.Ints" || n == "sort.Sort" || n == "sort.Stable" || strings.HasPrefix(n, "slices.Sort") {
			sorts = append(sorts, call)
		}
	}
	if len(sorts) == 0 {
		return false
	}
	for _, r := range Returns(f) {
		if r.Block() == f.Recover {
			continue
		}
		dom := false
		for _, sc := range sorts {
			if instrDominates(sc, r) {
				dom = true
			}
		}
		if !dom {
			return false
		}
	}
	return true
}

// orderInsensitiveCollector: f writes nothing but its own result while it iterates (no field,
// element or map store, no call other than built-ins, byte/string helpers and the function
// values it was given), and at every production call site its result goes straight into a
// function that sorts before returning (or f is such a function itself).
func orderInsensitiveCollector(p *Program, f *ssa.Function, depth int) bool {
	if sortsBeforeReturn(f) {
		return true
	}
	if depth > 1 {
		return false
	}
	for _, b := range f.Blocks {
		for _, in := range b.Instrs {
			switch x := in.(type) {
			case *ssa.MapUpdate:
				return false
			case *ssa.Store:
				switch a := x.Addr.(type) {
				case *ssa.FieldAddr:
					if _, local := a.X.(*ssa.Alloc); !local {
						return false
					}
				case *ssa.IndexAddr:
					if al, isAl := a.X.(*ssa.Alloc); !isAl || al.Heap {
						// element store into something that is not a fresh local array (append's temporary)
						if _, isSlice := a.X.Type().Underlying().(*types.Slice); isSlice {
							return false
						}
					}
				}
			case ssa.CallInstruction:
				n := CalleeName(x.Common())
				_, viaParam := x.Common().Value.(*ssa.Parameter)
				if !(strings.HasPrefix(n, "builtin:") || strings.HasPrefix(n, "bytes.") || strings.HasPrefix(n, "strings.") || strings.HasPrefix(n, "collection/bytes.") || viaParam) {
					return false
				}
			case *ssa.Go, *ssa.Defer, *ssa.Send:
				return false
			}
		}
	}
	return resultSortedByCallers(p, f, 0)
}

// resultSortedByCallers: at every production call site the collector's result goes into a
// function that sorts before it returns — directly, or after the caller merely returned it
// to its own callers (a forwarding wrapper), to a small depth.
func resultSortedByCallers(p *Program, f *ssa.Function, depth int) bool {
	if depth > 2 {
		return false
	}
	n := 0
	for _, s := range p.callSitesOf(f) {
		if !IsProd(s.Fn) {
			continue
		}
		n++
		v := s.Call.Value()
		if v == nil {
			return false
		}
		ok := false
		for _, r := range *v.Referrers() {
			if cl, isC := r.(ssa.CallInstruction); isC {
				if g := cl.Common().StaticCallee(); g != nil && IsOwn(g) && sortsBeforeReturn(g) {
					ok = true
				}
			}
			if _, isRet := r.(*ssa.Return); isRet && resultSortedByCallers(p, s.Fn, depth+1) {
				ok = true
			}
		}
		if !ok {
			return false
		}
	}
	return n > 0
}

func verifyMapRangeException(p *Program, f *ssa.Function) bool {
	switch FuncKey(f) {
	case "pkg/db/diffdb.(*cacheDB).withPrefix", "pkg/db/diffdb.(*cacheDB).dataBetween":
		sites := p.callSitesOf(f)
		if len(sites) == 0 {
			return false
		}
		for _, s := range sites {
			if !IsProd(s.Fn) {
				continue
			}
			v := s.Call.Value()
			ok := false
			if v != nil {
				for _, r := range *v.Referrers() {
					if cl, isC := r.(ssa.CallInstruction); isC && strings.HasSuffix(CalleeName(cl.Common()), "Database).mergeSortLimit") {
						ok = true
					}
				}
			}
			if !ok {
				return false
			}
		}
		return true
	case "pkg/db/diffdb.(*Database).mergeSortLimit":
		var sortCall ssa.CallInstruction
		for _, s := range CallsIn(f, "sort.Slice") {
			sortCall = s.Call
		}
		if sortCall == nil {
			return false
		}
		for _, r := range Returns(f) {
			if r.Block() != f.Recover && !instrDominates(sortCall, r) {
				return false
			}
		}
		return true
	}
	return false
}

var c02UnsignedTable = []unsignedRow{
	{fn: "pkg/consensus/liskbft.(*API).ImpliesMaximalPrevotes", frag: "MaxHeightGenerated(p2)) − 1)", reason: "currentHeight equals the header's height (anything else returned an error) and maxHeightGenerated >= height returned false, so currentHeight − maxHeightGenerated >= 1"},
}

// checkWalkBack (R5): getHeightNotPrevoted follows a generator's own maxHeightGenerated
// pointers back through the window. Two structural conditions of "a vote is implied only for
// heights the generator has not voted on another branch":
//   - the walk goes on (the loop's back edge is taken) only where the block it stands on was
//     generated by the same validator and its pointer descends;
//   - where the block it stands on belongs to another validator, the walk ends with the height
//     reached so far (the loop variable), not with the bottom of the window.
func checkWalkBack(c *Ctx, prop string) {
	p := c.P
	fn := c.Anchor("pkg/consensus/liskbft.(*BFTVotes).getHeightNotPrevoted")
	if fn == nil {
		return
	}
	ff := factsOf(fn)
	sameGen := func(f Fact, truth bool) bool {
		return !f.IsCmp && f.Truth == truth && f.B.Op == "call" && strings.HasSuffix(f.B.Sym, "bytes.Equal") && len(f.B.Args) == 2 &&
			strings.HasSuffix(f.B.Args[0].String(), ".generatorAddress") && strings.HasSuffix(f.B.Args[1].String(), ".generatorAddress") &&
			(strings.HasSuffix(f.B.Args[0].String(), "blockBFTInfos[0].generatorAddress") != strings.HasSuffix(f.B.Args[1].String(), "blockBFTInfos[0].generatorAddress"))
	}
	loops := naturalLoops(fn)
	n := 0
	for _, li := range loops {
		for _, l := range li.Latch {
			n++
			okGen := ff.EveryPathHas(l, func(f Fact) bool { return sameGen(f, true) })
			okDesc := ff.EveryPathHas(l, func(f Fact) bool {
				return f.IsCmp && ((f.Op.String() == "<" && strings.HasSuffix(f.L.String(), ".maxHeightGenerated")) || (f.Op.String() == ">" && strings.HasSuffix(f.R.String(), ".maxHeightGenerated")))
			})
			c.Require(prop+".R5 walk-back-own-blocks-only", FuncKey(fn)+": continue", p.InstrPos(l.Instrs[len(l.Instrs)-1]), "the walk continues only from a block of the same generator whose maxHeightGenerated descends", okGen && okDesc, fmt.Sprintf("same-generator=%v descends=%v", okGen, okDesc))
		}
		// foreign block ⇒ the result is the height reached so far
		for i, e := range ff.Edges {
			if !sameGen(ff.Facts[i], false) || !li.Blocks[e.From] {
				continue
			}
			n++
			first := e.To.Instrs[0]
			bad := reachesReturnAvoiding(first, func(in ssa.Instruction) bool { return in.Block() == li.Header && in == li.Header.Instrs[0] }, func(r *ssa.Return) bool {
				phi, isPhi := stripConv(r.Results[0]).(*ssa.Phi)
				return !(isPhi && phi.Block() == li.Header)
			})
			if r, isR := first.(*ssa.Return); isR {
				phi, isPhi := stripConv(r.Results[0]).(*ssa.Phi)
				if isPhi && phi.Block() == li.Header {
					bad = nil
				}
			}
			c.Require(prop+".R5 walk-back-stops-at-foreign-block", FuncKey(fn)+": foreign generator", p.InstrPos(e.If), "meeting another validator's block ends the walk with the height reached so far", bad == nil, pathStr(bad))
		}
	}
	c.MinInstances(prop+".R5 walk-back", n, 2)
}

// checkVoteInfoCarryOver — R6. When the BFT parameters change, a validator that stays
// active keeps its vote bookkeeping: the entry placed in the new list is the stored entry
// (or copies minActiveHeight and largestHeightPrecommit from it). A fresh entry
// (minActiveHeight = h', largestHeightPrecommit = h'−1, h' the height the new parameters are
// stored under) is built only where the lookup of the address in the *whole* current list
// failed. Rewinding largestHeightPrecommit of a retained validator lets its next block
// precommit again what it already precommitted (its weight counts twice → two branches can
// both reach the precommit threshold); treating a retained validator as new drops its votes
// for earlier heights (heights differ from LIP-0058's).
func checkVoteInfoCarryOver(c *Ctx, prop string, setP *ssa.Function) {
	p := c.P
	rule := prop + ".R6 vote-info-carried-over"
	ff := factsOf(setP)
	// the height the new parameters are stored under
	var hNext *Term
	for _, s := range CallsIn(setP, "db/diffdb.SetEncodable") {
		v := stripConv(ArgK(s.Call, 2)).Type().String()
		if !strings.HasSuffix(v, "liskbft.BFTParams") {
			continue
		}
		k := T(ArgK(s.Call, 1))
		if k.Op == "call" && strings.HasSuffix(k.Sym, "bytes.FromUint32") && len(k.Args) == 1 {
			hNext = k.Args[0]
		}
	}
	if hNext == nil {
		c.Require(rule, FuncKey(setP)+": parameters key", p.Pos(setP.Pos()), "the new parameters are stored under bytes.FromUint32(h')", false, "key not recognised")
		return
	}
	// an index of the whole current list: a local map whose every insertion happens in a loop
	// ranging over bftVotes.activeValidatorsVoteInfo and stores that loop's element
	indexMaps := map[ssa.Value]bool{}
	for _, b := range blocksDeep(setP) {
		for _, in := range b.Instrs {
			mk, ok := in.(*ssa.MakeMap)
			if !ok {
				continue
			}
			okAll, n := true, 0
			for _, r := range *mk.Referrers() {
				mu, ok := r.(*ssa.MapUpdate)
				if !ok {
					continue
				}
				n++
				vt := T(mu.Value).String()
				if !strings.Contains(vt, ".activeValidatorsVoteInfo[") {
					okAll = false
				}
			}
			if okAll && n > 0 {
				indexMaps[mk] = true
			}
		}
	}
	isLookup := func(t *Term, k int) bool {
		if t == nil || t.Op != "extract" || len(t.Args) != 1 {
			return false
		}
		if fmt.Sprintf("#%d", k) != t.Sym {
			return false
		}
		cl := t.Args[0]
		if cl.Op == "lookup" && len(cl.Args) == 2 && cl.Args[0].V != nil && indexMaps[cl.Args[0].V] {
			return true
		}
		return cl.Op == "call" && strings.HasSuffix(cl.Sym, "liskbft.ActiveValidators).get")
	}
	lookupFailed := func(f Fact) bool {
		if !f.IsCmp {
			return !f.Truth && isLookup(f.B, 1)
		}
		// a whole-list library search that found nothing
		s := f.String()
		return (strings.Contains(s, "slices.IndexFunc(") || strings.Contains(s, "slices.Index(")) && (strings.Contains(s, "< 0") || strings.Contains(s, "== -1") || strings.Contains(s, "<= -1"))
	}
	nFresh, nKept := 0, 0
	for _, b := range blocksDeep(setP) {
		for _, in := range b.Instrs {
			// the stored entry itself goes into the new list
			if st, ok := in.(*ssa.Store); ok {
				if isLookup(ff.Term(st.Val), 0) {
					if _, isIdx := st.Addr.(*ssa.IndexAddr); isIdx {
						nKept++
					}
				}
				continue
			}
			al, ok := in.(*ssa.Alloc)
			if !ok || !al.Heap {
				continue
			}
			o, _ := ownerOfFieldBase(al.Type())
			if o != bftPkg+".ActiveValidator" {
				continue
			}
			fields := map[string]*Term{}
			for _, r := range *al.Referrers() {
				fa, ok := r.(*ssa.FieldAddr)
				if !ok {
					continue
				}
				_, stt := ownerOfFieldBase(al.Type())
				name := fieldNameOf(stt.Field(fa.Field))
				for _, rr := range *fa.Referrers() {
					if st, ok := rr.(*ssa.Store); ok && st.Addr == fa {
						fields[name] = ff.Term(st.Val)
					}
				}
			}
			mh, lp := fields["minActiveHeight"], fields["largestHeightPrecommit"]
			if mh == nil || lp == nil {
				c.Require(rule, FuncKey(setP)+": new ActiveValidator", p.InstrPos(al), "both minActiveHeight and largestHeightPrecommit of a built entry are set", false, fmt.Sprint(fields))
				continue
			}
			fromStored := func(t *Term, f string) bool {
				return t.Op == "field" && strings.HasSuffix(t.Sym, "."+f) && len(t.Args) == 1 && isLookup(t.Args[0], 0)
			}
			if fromStored(mh, "minActiveHeight") && fromStored(lp, "largestHeightPrecommit") {
				nKept++
				continue
			}
			nFresh++
			// (asked of the root's facts: for a block inside a helper they include the facts at its call sites)
			dom := ff.EveryPathHas(al.Block(), lookupFailed)
			d := newLin()
			d.add(linOf(mh), 1)
			d.add(linOf(lp), -1)
			okVals := mh.String() == hNext.String() && len(d.Coef) == 0 && d.Const == 1
			c.Require(rule, FuncKey(setP)+": fresh ActiveValidator only for a new validator", p.InstrPos(al), "a fresh vote-info entry is built only where the lookup in the whole current list failed (a retained validator keeps its stored entry)", dom, "minActiveHeight="+mh.String()+" largestHeightPrecommit="+lp.String())
			c.Require(rule, FuncKey(setP)+": fresh ActiveValidator fields", p.InstrPos(al), "a new validator may vote from the height the parameters take effect: minActiveHeight = h', largestHeightPrecommit = h'−1", okVals, "h'="+hNext.String()+" minActiveHeight="+mh.String()+" largestHeightPrecommit="+lp.String())
		}
	}
	c.Require(rule, FuncKey(setP)+": retained validator keeps its entry", p.Pos(setP.Pos()), "the stored entry of a validator found in the current list goes into the new list", nKept >= 1, fmt.Sprintf("%d kept, %d fresh", nKept, nFresh))
	c.MinInstances(rule, nFresh+nKept, 2)
}

// checkModuleStateless: the module object itself carries no state between calls: everything
// the heights depend on lives in the store (and is reverted with it). A container or lock
// reachable from Module/API/Endpoint — directly, or through structs declared in the package
// that they point to or embed — is memory that survives a revert (a branch switch) and is
// gone after a restart.
func checkModuleStateless(c *Ctx, rule string) {
	p := c.P
	pk := p.PkgByRel["pkg/consensus/liskbft"]
	if pk == nil {
		return
	}
	nT := 0
	for _, tn := range []string{"Module", "API", "Endpoint"} {
		o := pk.Types.Scope().Lookup(tn)
		if o == nil {
			continue
		}
		if _, ok := o.Type().Underlying().(*types.Struct); !ok {
			continue
		}
		nT++
		var bad []string
		seen := map[types.Type]bool{}
		var walk func(t types.Type, path string, depth int)
		walk = func(t types.Type, path string, depth int) {
			st, ok := t.Underlying().(*types.Struct)
			if !ok || seen[t] || depth > 4 {
				return
			}
			seen[t] = true
			for i := 0; i < st.NumFields(); i++ {
				f := st.Field(i)
				name := path + f.Name()
				ft := f.Type()
				if m, _ := isMutexType(ft); m || strings.HasPrefix(ft.String(), "sync.") || strings.HasPrefix(ft.String(), "*sync.") || strings.HasPrefix(ft.String(), "sync/atomic.") || strings.HasPrefix(ft.String(), "*sync/atomic.") {
					bad = append(bad, name+" "+ft.String())
					continue
				}
				switch u := ft.Underlying().(type) {
				case *types.Map, *types.Slice, *types.Chan, *types.Array:
					bad = append(bad, name+" "+ft.String())
				case *types.Struct:
					if declaredIn(ft, pk.Types) {
						walk(ft, name+".", depth+1)
					}
				case *types.Pointer:
					switch u.Elem().Underlying().(type) {
					case *types.Map, *types.Slice, *types.Chan, *types.Array:
						bad = append(bad, name+" "+ft.String())
					case *types.Struct:
						// the three module objects are each examined on their own
						if n, isN := u.Elem().(*types.Named); isN && (n.Obj().Name() == "Module" || n.Obj().Name() == "API" || n.Obj().Name() == "Endpoint") {
							continue
						}
						if declaredIn(u.Elem(), pk.Types) {
							walk(u.Elem(), name+".", depth+1)
						}
					}
				}
			}
		}
		walk(o.Type(), "", 0)
		c.Require(rule, "liskbft."+tn, "-", "the module object reaches no container or lock field (directly or through structs of its own package): no memory of earlier blocks outside the (revertible, persistent) store", len(bad) == 0, strings.Join(bad, "; "))
	}
	c.MinInstances(rule, nT, 3)
}

func declaredIn(t types.Type, pkg *types.Package) bool {
	n, ok := t.(*types.Named)
	return ok && n.Obj().Pkg() == pkg
}

// checkNextParamsNearest: "the next height with new BFT parameters after h" is the *smallest*
// stored key above h — a forward scan from h+1 with limit 1. The certificate bounds (no commit
// beyond the block preceding the next validator-set change) and the generator's choice of the
// height to certify both rest on it; with two pending changes the largest key is a different
// height.
func checkNextParamsNearest(c *Ctx, rule string) {
	p := c.P
	g := c.Anchor("pkg/consensus/liskbft.(*API).NextHeightBFTParameters")
	if g == nil {
		return
	}
	gf := factsOf(g)
	n := 0
	for _, call := range AllCallsDeep(g) {
		a := call.Common().Args
		if call.Common().IsInvoke() {
			if call.Common().Method.Name() != "Range" {
				continue
			}
		} else if strings.HasSuffix(CalleeName(call.Common()), "diffdb.Database).Range") && len(a) == 5 {
			a = a[1:] // the receiver comes first in a static method call
		} else {
			continue
		}
		n++
		ff := gf
		if call.Parent() != g {
			ff = factsOf(call.Parent())
		}
		s, lim, rev := gf.Term(a[0]).String(), gf.Term(a[2]).String(), gf.Term(a[3]).String()
		if call.Parent() != g {
			// a scan written in a new helper: its direction and limit are the helper's own
			// constants or what this caller passes
			lim, rev = ff.Term(a[2]).String(), ff.Term(a[3]).String()
			for _, v := range []*string{&lim, &rev} {
				if strings.HasPrefix(*v, "p") {
					if val, ok := resolveConstArg(p, call.Parent(), *v, g); ok {
						*v = val
					}
				}
			}
			s = ""
			for _, cs := range CallsIn(g, FuncName(call.Parent())) {
				for _, arg := range cs.Call.Common().Args {
					if t := gf.Term(arg).String(); strings.Contains(t, " + 1)") {
						s = "FromUint32(" + t + ")"
					}
				}
			}
		}
		ok := strings.Contains(s, "FromUint32((p2 + 1))") && lim == "1" && rev == "false"
		c.Require(rule, FuncKey(g), p.InstrPos(call), "the next parameter height above h = lowest stored key in [h+1, max] (forward scan from h+1, limit 1)", ok, fmt.Sprintf("start=%s limit=%s reverse=%s", s, lim, rev))
	}
	c.MinInstances(rule, n, 1)
}

// resolveConstArg: the constant passed for parameter pN of fn at its call sites in `from`.
func resolveConstArg(p *Program, fn *ssa.Function, param string, from *ssa.Function) (string, bool) {
	idx := 0
	if _, err := fmt.Sscanf(param, "p%d", &idx); err != nil {
		return "", false
	}
	val := ""
	for _, s := range p.callSitesOf(fn) {
		if from != nil && s.Fn != from {
			continue
		}
		a := s.Call.Common().Args
		if idx >= len(a) {
			return "", false
		}
		at := T(a[idx])
		if at.Op != "const" {
			return "", false
		}
		if val != "" && val != at.Sym {
			return "", false
		}
		val = at.Sym
	}
	return val, val != ""
}

// pruneOnlyRange: the body of a range over a map does nothing but test the entry and delete
// entries of that same map — whatever the iteration order, the same entries are gone afterwards.
func pruneOnlyRange(r *ssa.Range) bool {
	fn := r.Parent()
	var li *loopInfo
	for _, l := range naturalLoops(fn) {
		for _, in := range l.Header.Instrs {
			if nx, ok := in.(*ssa.Next); ok && nx.Iter == ssa.Value(r) {
				li = l
			}
		}
	}
	if li == nil {
		return false
	}
	for b := range li.Blocks {
		for _, in := range b.Instrs {
			switch x := in.(type) {
			case *ssa.Next, *ssa.Extract, *ssa.BinOp, *ssa.If, *ssa.Jump, *ssa.Phi, *ssa.UnOp, *ssa.FieldAddr, *ssa.Field, *ssa.Lookup, *ssa.DebugRef, *ssa.Convert, *ssa.ChangeType, *ssa.IndexAddr, *ssa.Index:
			case *ssa.Call:
				if CalleeName(x.Common()) != "builtin:delete" || len(x.Common().Args) == 0 || valueRoot(x.Common().Args[0]) != valueRoot(r.X) {
					// the map may be loaded again from the same field for the delete
					if CalleeName(x.Common()) == "builtin:delete" && len(x.Common().Args) > 0 && T(x.Common().Args[0]).String() == T(r.X).String() {
						continue
					}
					return false
				}
			default:
				return false
			}
		}
	}
	return true
}

// checkImpliesMaxPrevotesIndex — LIP-0058 impliesMaximalPrevotes: the header implies the maximal
// number of prevotes iff the block at height maxHeightGenerated on *this* chain was generated by the
// same validator (or lies outside the window). The window holds the newest header first and the
// function insists that the newest one is the header asked about, so the block at
// maxHeightGenerated sits exactly height − maxHeightGenerated places in: the index used to read
// the window, and the quantity compared with the window length, are that difference — any other
// constant reads a neighbour's block (one off: every honest round-robin block is denied).
func checkImpliesMaxPrevotesIndex(c *Ctx, rule string) {
	p := c.P
	fn := c.Anchor("pkg/consensus/liskbft.(*API).ImpliesMaximalPrevotes")
	if fn == nil {
		return
	}
	ff := factsOf(fn)
	n := 0
	for _, g := range funcAndHelpers(fn) {
		for _, b := range g.Blocks {
			for _, in := range b.Instrs {
				ia, ok := in.(*ssa.IndexAddr)
				if !ok {
					continue
				}
				bt := ff.Term(ia.X).String()
				if !strings.Contains(bt, "blockBFTInfos") {
					continue
				}
				l := linOf(ff.Term(ia.Index))
				if len(l.Coef) == 0 {
					continue // blockBFTInfos[0]: the newest header (latest())
				}
				n++
				okIdx := l.OK && l.Const == 0 && len(l.Coef) == 2
				pos, neg := "", ""
				for a, k := range l.Coef {
					if k == 1 {
						pos = a
					}
					if k == -1 {
						neg = a
					}
				}
				okIdx = okIdx && (strings.HasSuffix(pos, ".height") || strings.HasSuffix(pos, ".Height(p2)")) && strings.Contains(neg, "MaxHeightGenerated(")
				c.Require(rule, FuncKey(fn)+": window index", p.InstrPos(ia), "the window is read at index (height of the newest header) − (maxHeightGenerated of the header asked about), nothing added or subtracted", okIdx, "index = "+l.String())
			}
		}
	}
	c.MinInstances(rule, n, 1)
}
