package main

import (
	"fmt"
	"sort"
	"strings"

	"golang.org/x/tools/go/ssa"
)

func init() {
	register("C05", "Structural necessary conditions of 'deleting the tip restores the previous state', for every path: "+
		"(R1) key-family symmetry: every key family saveBlock sets (minus the monotone finalized marker) is deleted by removeBlock with the same key expression, the temp family is set only under saveTemp and deleted only under removeTemp; "+
		"(R2) the revert diff is stored at StateDiff‖height by the apply function and read, reverted and deleted at the same key by the delete function, in the order Get → Decode → RevertDiff → Del → ABI Revert(previous state root) → RemoveBlock; "+
		"(R3) diff algebra: cacheDB.commit emits {not-in-DB ⇒ Added+Set; deleted ⇒ Deleted(init)+Del; dirty ⇒ Updated(init)+Set} under exactly those edge facts, and RevertDiff is the inverse table {Added⇒Del; Deleted⇒Set(init); Updated⇒Set(init)}; "+
		"(R4) the initial value kept for the diff is a private copy (no aliasing with the live value); (R5) cache push/pop pair with AddBlock/RemoveBlock.",
		runC05)
}

func runC05(c *Ctx) {
	// what a block is verified against (generator list, BFT parameters) is read from the store of the
	// branch being processed; memory kept in the BFT module across blocks survives a revert
	checkModuleStateless(c, "C05.D1 module-holds-no-state")
	checkMemoryFollowsReverts(c, "C05.R12 memory-follows-reverts")
	p := c.P
	c.Assume = append(c.Assume, "byte equality of the resulting database is not decided (needs execution); the application-state side is C16")
	saveBlock := c.Anchor("pkg/blockchain.(*DataAccess).saveBlock")
	rmBlock := c.Anchor("pkg/blockchain.(*DataAccess).removeBlock")
	procV := c.Anchor("pkg/consensus.(*Executer).processValidated")
	del := c.Anchor("pkg/consensus.(*Executer).deleteBlock")
	commit := c.Anchor("pkg/db/diffdb.(*cacheDB).commit")
	revert := c.Anchor("pkg/db/diffdb.(*Database).RevertDiff")
	cacheFn := c.Anchor("pkg/db/diffdb.(*cacheDB).cache")
	if saveBlock == nil || rmBlock == nil || procV == nil || del == nil || commit == nil || revert == nil || cacheFn == nil {
		return
	}
	// removed blocks requested as temporary blocks stay retrievable until they are re-applied
	checkParkedBlocksSurvive(c, "C05.R9 parked-blocks-survive")
	// the finalized-height marker is the one thing removal does not restore: it only ever moves
	// up (the argument AddBlock stores is the maximum of the stored and the precommitted
	// height) — the rule of C04.R3
	c.MinInstances("C05.R10 finalized-marker-monotone", c.borrowRule(runC04, "C04", "R3 monotone-argument", "C05.R10 finalized-marker-monotone", nil), 1)
	// R11: the cached tip is restored by every removal, however many blocks are reverted in a
	// row: the block cache only holds the last few blocks and forgets one per removal, so the
	// removal refills it from the database once it runs empty (a nil tip is dereferenced by the
	// next removal and by block verification)
	if rb := c.Anchor("pkg/blockchain.(*Chain).RemoveBlock"); rb != nil {
		rf := factsOf(rb)
		okRefill := false
		site := p.Pos(rb.Pos())
		for _, s := range CallsIn(rb, "(*blockchain.Chain).PrepareCache") {
			site = p.InstrPos(s.Call)
			after := false
			for _, rc := range CallsIn(rb, "(*blockchain.DataAccess).RemoveCache") {
				if instrDominates(rc.Call, s.Call) {
					after = true
				}
			}
			gf := rf
			if s.Fn != rb {
				gf = factsOf(s.Fn)
			}
			empty := gf.EveryPathHas(s.Call.Block(), func(f Fact) bool {
				str := f.String()
				return f.IsCmp && (strings.Contains(str, "CachedLastBlock(") || strings.Contains(str, ".size")) && (strings.Contains(str, "nil") || strings.Contains(str, "== 0") || strings.Contains(str, "0 =="))
			})
			if after && empty {
				okRefill = true
			}
		}
		// the same mechanism in one step (no moment at which a concurrent reader finds the cache
		// empty): the removed block is popped only while others remain, otherwise the whole content
		// is replaced by the blocks loaded from the database
		if !okRefill {
			loaded := false
			for _, s := range CallsIn(rb, "(*blockchain.blockCache).replace") {
				site = p.InstrPos(s.Call)
				a := s.Call.Common().Args
				t := rf.Term(a[len(a)-1]).String()
				if strings.Contains(t, "getLastBlock(") || strings.Contains(t, "GetBlocksBetweenHeight(") || strings.Contains(t, "blocksBelowTip(") {
					loaded = true
				}
			}
			popsGuarded := true
			for _, rc := range CallsIn(rb, "(*blockchain.DataAccess).RemoveCache") {
				gf := rf
				if rc.Fn != rb {
					gf = factsOf(rc.Fn)
				}
				if !gf.EveryPathHas(rc.Call.Block(), func(f Fact) bool {
					str := f.String()
					return f.IsCmp && (strings.Contains(str, ".len(") || strings.Contains(str, ".size")) && f.Entails(CmpSpec{A: Matcher{"cache length", func(t *Term) bool {
						return strings.Contains(t.String(), ".len(") || strings.Contains(t.String(), ".size")
					}}, NoB: true, Rel: GE, D: 2})
				}) {
					popsGuarded = false
				}
			}
			okRefill = loaded && popsGuarded
		}
		c.Require("C05.R11 tip-cached-after-every-removal", FuncKey(rb), site, "after the cache forgot the removed block, an empty cache is refilled from the database before the removal returns (or the content is replaced in one step when the removed block is the only one cached)", okRefill, "")
	}

	// ---- R1 key-family symmetry
	checkKeyFamilySymmetry(c, "C05.R1", saveBlock, rmBlock)
	type fam struct {
		key  string
		op   DBOp
		cond []Fact
	}
	collect := func(fn *ssa.Function, kind string) map[string]fam {
		ff := factsOf(fn)
		out := map[string]fam{}
		for _, op := range DBOps(fn) {
			if op.Kind != kind || op.Family == "" {
				continue
			}
			out[op.Family] = fam{op.Key.String(), op, ff.FactsAt(op.Call.Block())}
		}
		return out
	}
	// ---- R8 the pre-block value of a key (cacheValue.init) is recorded once, when the entry is
	// created, and survives every later write of the block: set() updates the entry in place
	// (it never re-creates it, which would forget init and turn an update into an "added"
	// key that a revert deletes), and init is only ever assigned on a freshly allocated value
	if setFn := c.Anchor("pkg/db/diffdb.(*cacheDB).set"); setFn != nil {
		bad := ""
		for _, b := range blocksDeep(setFn) {
			for _, in := range b.Instrs {
				switch x := in.(type) {
				case *ssa.MapUpdate:
					if T(x.Map).Any(IsField("db/diffdb.cacheDB", "data").F) {
						bad = "replaces the map entry at " + p.InstrPos(in)
					}
				case ssa.CallInstruction:
					if n := CalleeName(x.Common()); n == "(*db/diffdb.cacheDB).add" || n == "(*db/diffdb.cacheDB).cache" {
						bad = "re-creates the entry through " + n + " at " + p.InstrPos(in)
					}
				}
			}
		}
		c.Require("C05.R8 init-survives-rewrites", FuncKey(setFn), p.Pos(setFn.Pos()), "a staged write updates the existing entry in place", bad == "", bad)
	}
	nInit := 0
	for _, fn := range p.Subjects() {
		if !strings.HasPrefix(FuncKey(fn), "pkg/db/diffdb.") || len(fn.Blocks) == 0 || !IsProd(fn) {
			continue
		}
		for _, st := range storesToField(fn, "db/diffdb.cacheValue", "init") {
			nInit++
			fa := st.Addr.(*ssa.FieldAddr)
			_, fresh := stripConv(fa.X).(*ssa.Alloc)
			c.Require("C05.R8 init-survives-rewrites", FuncKey(fn)+": init =", p.InstrPos(st), "init is assigned only while the value is being constructed", fresh, "base: "+T(fa.X).String())
		}
	}
	c.MinInstances("C05.R8 init assignments", nInit, 2)
	// temp family
	tempSet := collect(rmBlock, "Set")
	tempDel := collect(saveBlock, "Del")
	{
		s, ok := tempSet["blockchain.dbPrefixTemp"]
		okc := ok && len(tempSet) == 1 && hasBoolFact(s.cond, IsParam(3), true)
		c.Require("C05.R1 temp-block-kept-on-request", "removeBlock Set dbPrefixTemp", p.Pos(rmBlock.Pos()), "the only Set in removeBlock stores the removed block in the temp family, exactly under saveTemp", okc, fmt.Sprint(len(tempSet)))
		if ok {
			okv := s.op.Val.Op == "call" && strings.HasSuffix(s.op.Val.Sym, "Block).Encode") && s.op.Val.Args[0].String() == "p2"
			c.Require("C05.R1 temp-block-kept-on-request", "removeBlock temp value", p.InstrPos(s.op.Call), "temp value is the removed block's encoding", okv, s.op.Val.String())
		}
		d, ok := tempDel["blockchain.dbPrefixTemp"]
		okd := ok && hasBoolFact(d.cond, IsParam(5), true)
		c.Require("C05.R1 temp-block-dropped-on-restore", "saveBlock Del dbPrefixTemp", p.Pos(saveBlock.Pos()), "saveBlock deletes the temp entry exactly under removeTemp", okd, "")
		if ok && s.op.Key != nil {
			c.Require("C05.R1 temp-block-dropped-on-restore", "temp key", p.InstrPos(d.op.Call), "same temp key expression on both sides", d.key == s.key, d.key+" vs "+s.key)
		}
	}

	// ---- R6 pruning only at or below finality (the only deletions apply performs that removal cannot undo)
	{
		n := 0
		for _, op := range DBOps(saveBlock) {
			if op.Kind != "Del" || !op.Key.Any(func(t *Term) bool { return t.Op == "call" && strings.HasSuffix(t.Sym, "KeyValue.Key") }) {
				continue // only deletes of scanned keys are pruning; the temp delete is handled above
			}
			// key comes from a scan: the scan's upper bound must be min(finalizedHeight, …)
			n++
			var scan *Term
			op.Key.Walk(func(t *Term) bool {
				if t.Op == "call" && strings.HasSuffix(t.Sym, "db.DB).IterateRange") {
					scan = t
				}
				return true
			})
			ok := false
			detail := "key: " + op.Key.String()
			if scan != nil && len(scan.Args) >= 3 {
				end := scan.Args[2]
				detail = "upper bound: " + end.String()
				end.Walk(func(t *Term) bool {
					if t.Op == "call" && strings.HasPrefix(t.Sym, "collection/ints.Min") {
						for _, a := range t.Args {
							if a.Op == "list" {
								for _, e := range a.Args {
									if e.Op == "param" && e.Sym == "p4" {
										ok = true
									}
								}
							}
							if a.Op == "param" && a.Sym == "p4" {
								ok = true
							}
						}
					}
					return true
				})
			}
			c.Require("C05.R6 pruning-below-finality", "saveBlock pruning Del", p.InstrPos(op.Call), "index entries are pruned only up to min(finalizedHeight, …): nothing above finality is deleted by an apply", ok, detail)
		}
		c.MinInstances("C05.R6 pruning-below-finality (saveBlock)", n, 1)
		// state-diff pruning in the apply function
		pf := factsOf(procV)
		m := 0
		for _, op := range DBOps(procV) {
			if op.Kind != "Del" || !op.Key.Any(func(t *Term) bool { return t.Op == "call" && strings.HasSuffix(t.Sym, "db.DB).IterateKey") }) {
				continue
			}
			m++
			// the new finalized height: the precommitted height, or whatever value is handed to
			// AddBlock as the finalized height (max(stored, precommitted))
			preC := IsResult("(*consensus/liskbft.API).GetBFTHeights", 1)
			argStr := ""
			for _, s := range CallsIn(procV, "(*blockchain.Chain).AddBlock") {
				if a := s.Call.Common().Args; len(a) >= 5 {
					argStr = pf.Term(a[4]).String()
				}
			}
			newFin := Matcher{"new finalized height", func(t *Term) bool { return preC.Match(t) || (argStr != "" && t.String() == argStr) }}
			ok1, ok2 := false, false
			for _, f := range pf.FactsAt(op.Call.Block()) {
				if f.IsCmp && f.Op.String() == "<" && strings.Contains(f.L.String(), "bytes.ToUint32") && newFin.Match(f.R) {
					ok1 = true
				}
				if f.Entails(CmpSpec{A: newFin, B: IsResult("(*blockchain.DataAccess).GetFinalizedHeight", 0), Rel: GE, D: 1}) {
					ok2 = true
				}
			}
			c.Require("C05.R6 pruning-below-finality", "processValidated diff pruning Del", p.InstrPos(op.Call), "revert diffs are pruned only for heights below the new finalized height, and only when it was raised", ok1 && ok2, fmt.Sprintf("below=%v raised=%v", ok1, ok2))
		}
		c.MinInstances("C05.R6 pruning-below-finality (diffs)", m, 1)
	}

	// ---- R7 the diff classifies a key as added/updated/deleted by the overlay's
	// not-in-database sentinel (init == nil); every producer of overlay entries keeps it
	checkSentinelProducers(c, "C05.R7 diff-classification-sentinel", commit)

	// ---- R2 state diff lifecycle
	var setKey, delKey, getKey *Term
	for _, op := range DBOps(procV) {
		if op.Family == "blockchain.DBPrefixStateDiff" && op.Kind == "Set" {
			setKey = op.Key
		}
	}
	var delOp *DBOp
	for _, op := range DBOps(del) {
		op := op
		if op.Family == "blockchain.DBPrefixStateDiff" && op.Kind == "Del" {
			delKey = op.Key
			delOp = &op
		}
	}
	gets := CallsIn(del, "(*db.DB).Get")
	if len(gets) == 1 {
		getKey = T(ArgK(gets[0].Call, 1))
	}
	norm := func(t *Term) string {
		if t == nil {
			return "<none>"
		}
		// both functions name their block parameter p2
		return t.String()
	}
	c.Require("C05.R2 diff-key-symmetry", "processValidated Set / deleteBlock Get+Del StateDiff", p.Pos(del.Pos()),
		"diff is stored, read and deleted under the same block-relative key", setKey != nil && delKey != nil && getKey != nil && norm(setKey) == norm(delKey) && norm(getKey) == norm(delKey),
		"set "+norm(setKey)+"\nget "+norm(getKey)+"\ndel "+norm(delKey))
	// order chain
	chain := []string{"(*db.DB).Get", "(*db/diffdb.Diff).Decode", "(*db/diffdb.Database).RevertDiff", "(*db.Batch).Del", "(*consensus.stateReverter).Revert", "(*blockchain.Chain).RemoveBlock"}
	var prev ssa.CallInstruction
	for i, name := range chain {
		var cur ssa.CallInstruction
		if name == "(*db.Batch).Del" {
			if delOp != nil {
				cur = delOp.Call
			}
		} else if s := CallsIn(del, name); len(s) == 1 {
			cur = s[0].Call
		}
		ok := cur != nil && (prev == nil || instrDominates(prev, cur))
		site := p.Pos(del.Pos())
		if cur != nil {
			site = p.InstrPos(cur)
		}
		if i > 0 {
			c.Require("C05.R2 revert-order", "deleteBlock: "+chain[i-1]+" ≺ "+name, site, "each step dominates the next", ok, "")
		} else {
			c.Require("C05.R2 revert-order", "deleteBlock: "+name, site, "the stored diff is read exactly once", cur != nil, "")
		}
		if cur != nil {
			prev = cur
		}
	}
	// decoded diff is the one reverted; bytes decoded are the ones read; error edges respected
	if s := CallsIn(del, "(*db/diffdb.Database).RevertDiff"); len(s) == 1 {
		ff := factsOf(del)
		blk := s[0].Call.Block()
		okG, _ := ff.BoolHoldsAt(blk, IsResult("(*db.DB).Get", 1), true)
		okD, _ := ff.NilErrAt(blk, IsCall("(*db/diffdb.Diff).Decode"))
		c.Require("C05.R2 revert-uses-read-diff", "deleteBlock RevertDiff", p.InstrPos(s[0].Call), "RevertDiff only after the diff was found and decoded successfully", okG && okD, fmt.Sprintf("found=%v decoded=%v", okG, okD))
		dec := CallsIn(del, "(*db/diffdb.Diff).Decode")
		if len(dec) == 1 {
			same := valueOrigin(ArgK(dec[0].Call, 0)) == valueOrigin(ArgK(s[0].Call, 2))
			data := T(ArgK(dec[0].Call, 1))
			c.Require("C05.R2 revert-uses-read-diff", "deleteBlock Decode→RevertDiff object", p.InstrPos(s[0].Call), "the Diff object decoded is the one reverted, from the bytes read", same && IsResult("(*db.DB).Get", 0).Match(data), data.String())
		}
	}
	// previous state root
	if s := CallsIn(del, "(*consensus.stateReverter).Revert"); len(s) == 1 {
		t := T(ArgK(s[0].Call, 1))
		ok := t.Op == "field" && t.Sym == "StateRoot" && t.Args[0].Any(func(x *Term) bool {
			return x.Op == "call" && strings.HasSuffix(x.Sym, "GetBlockHeaderByHeight") && strings.Contains(x.Args[1].String(), "Height - 1)")
		})
		c.Require("C05.R2 revert-to-previous-root", "deleteBlock ⇒ ABI Revert", p.InstrPos(s[0].Call), "application reverts to the state root of the block at height-1", ok, t.String())
	}

	// ---- R3 diff algebra
	checkCommitAlgebra(c, commit)
	checkRevertAlgebra(c, revert)

	// ---- R4 no aliasing of init
	{
		n := 0
		for _, b := range blocksDeep(cacheFn) {
			for _, in := range b.Instrs {
				st, ok := in.(*ssa.Store)
				if !ok {
					continue
				}
				fa, ok := st.Addr.(*ssa.FieldAddr)
				if !ok {
					continue
				}
				_, s := ownerOfFieldBase(fa.X.Type())
				if s == nil || fieldNameOf(s.Field(fa.Field)) != "init" {
					continue
				}
				n++
				v := stripConv(st.Val)
				_, isMake := v.(*ssa.MakeSlice)
				c.Require("C05.R4 init-is-private-copy", "cacheDB.cache init", p.InstrPos(st), "init is a freshly made slice (copied), not the caller's value", isMake, T(st.Val).String())
				if isMake {
					okCopy := false
					for _, call := range AllCalls(cacheFn) {
						if CalleeName(call.Common()) == "builtin:copy" && stripConv(ArgK(call, 0)) == v {
							okCopy = T(ArgK(call, 1)).Op == "param"
						}
					}
					c.Require("C05.R4 init-is-private-copy", "cacheDB.cache copy", p.InstrPos(st), "the parameter's bytes are copied into init", okCopy, "")
				}
			}
		}
		c.MinInstances("C05.R4 init-is-private-copy", n, 1)
	}
}

func normFact(f Fact) string { return normIter(f.String()) }

func hasBoolFact(fs []Fact, m Matcher, truth bool) bool {
	for _, f := range fs {
		if !f.IsCmp && f.Truth == truth && m.Match(f.B) {
			return true
		}
	}
	return false
}

// listRoots maps every append() in fn to the Diff field its result finally
// flows into (through phis and further appends).
func appendTargets(fn *ssa.Function, owner string) map[*ssa.Call]string {
	out := map[*ssa.Call]string{}
	for _, b := range blocksDeep(fn) {
		for _, in := range b.Instrs {
			st, ok := in.(*ssa.Store)
			if !ok {
				continue
			}
			fa, ok := st.Addr.(*ssa.FieldAddr)
			if !ok {
				continue
			}
			o, s := ownerOfFieldBase(fa.X.Type())
			if o != owner || s == nil {
				continue
			}
			field := fieldNameOf(s.Field(fa.Field))
			seen := map[ssa.Value]bool{}
			var back func(v ssa.Value)
			back = func(v ssa.Value) {
				if seen[v] {
					return
				}
				seen[v] = true
				switch x := v.(type) {
				case *ssa.Phi:
					for _, e := range x.Edges {
						back(e)
					}
				case *ssa.Call:
					if CalleeName(x.Common()) == "builtin:append" {
						out[x] = field
						back(ArgK(x, 0))
					}
				}
			}
			back(st.Val)
		}
	}
	return out
}

// kvLiteral decodes &KV{Key: k, Value: v}.
func kvLiteral(tb *termBuilder, v ssa.Value) (key, val *Term, ok bool) {
	al, isAl := stripConv(v).(*ssa.Alloc)
	if !isAl {
		// a constructor (new helper whose one return hands back the literal): its fields,
		// written with the call's arguments
		if call, isCall := stripConv(v).(*ssa.Call); isCall {
			if g := newHelperCallee(call); g != nil {
				if rets := Returns1(g); len(rets) == 1 && len(rets[0].Results) == 1 {
					if k, vv, ok := kvLiteral(newTB(), rets[0].Results[0]); ok {
						args := argTerms(tb, call)
						return substParams(k, args), substParams(vv, args), true
					}
				}
			}
		}
		return nil, nil, false
	}
	for _, r := range *al.Referrers() {
		fa, isFA := r.(*ssa.FieldAddr)
		if !isFA {
			continue
		}
		_, s := ownerOfFieldBase(fa.X.Type())
		for _, rr := range *fa.Referrers() {
			if st, isSt := rr.(*ssa.Store); isSt && st.Addr == fa {
				switch fieldNameOf(s.Field(fa.Field)) {
				case "Key":
					key = tb.of(st.Val, 0)
				case "Value":
					val = tb.of(st.Val, 0)
				}
			}
		}
	}
	return key, val, key != nil && val != nil
}

func checkCommitAlgebra(c *Ctx, commit *ssa.Function) {
	checkCommitAlgebraAs(c, "C05.R3 commit-algebra", commit)
}

func checkCommitAlgebraAs(c *Ctx, rule string, commit *ssa.Function) {
	p := c.P
	ff := factsOf(commit)
	targets := appendTargets(commit, "db/diffdb.Diff")
	isInit := IsField("db/diffdb.cacheValue", "init")
	isDeleted := IsField("db/diffdb.cacheValue", "deleted")
	isDirty := IsField("db/diffdb.cacheValue", "dirty")
	isValue := IsField("db/diffdb.cacheValue", "value")
	nilInit := func(fs []Fact, wantNil bool) bool {
		for _, f := range fs {
			if !f.IsCmp {
				continue
			}
			l, r := f.L, f.R
			if l.Op == "const" {
				l, r = r, l
			}
			if r.Op == "const" && r.Sym == "nil" && isInit.Match(l) {
				if (f.Op.String() == "==") == wantNil {
					return true
				}
			}
		}
		return false
	}
	seenField := map[string]bool{}
	for call, field := range targets {
		seenField[field] = true
		blk := call.Block()
		fs := ff.FactsAt(blk)
		// the element appended
		var elem ssa.Value
		if sl, ok := ArgK(call, 1).(*ssa.Slice); ok {
			if al, ok := sl.X.(*ssa.Alloc); ok {
				if es, ok := arrayElems(al); ok && len(es) == 1 {
					elem = es[0]
				}
			}
		}
		// writer call in the same block
		var wkind string
		var wkey, wval *Term
		for _, in := range blk.Instrs {
			if wc, ok := in.(*ssa.Call); ok && wc.Common().IsInvoke() && strings.HasSuffix(CalleeName(wc.Common()), "DatabaseWriter."+wc.Common().Method.Name()) {
				wkind = wc.Common().Method.Name()
				wkey = ff.Term(ArgK(wc, 0))
				if len(wc.Common().Args) > 1 {
					wval = ff.Term(ArgK(wc, 1))
				}
			}
		}
		site := p.InstrPos(call)
		key := "cacheDB.commit ⇒ Diff." + field
		switch field {
		case "Added":
			c.Require(rule, key+" condition", site, "Added only when the key had no initial value (init == nil)", nilInit(fs, true), factsStr(fs))
			et := ff.Term(elem)
			c.Require(rule, key+" write", site, "Added key is Set to the current value in the same step", wkind == "Set" && elem != nil && wkey.String() == et.String() && isValue.Match(wval), fmt.Sprintf("writer.%s(%v, %v) elem=%v", wkind, wkey, wval, et))
		case "Deleted", "Updated":
			k, v, ok := kvLiteral(ff.tb, elem)
			okInit := ok && isInit.Match(v)
			c.Require(rule, key+" keeps-init", site, field+" records the pre-commit (init) value under the key", okInit, fmt.Sprintf("KV{%v,%v}", k, v))
			if field == "Deleted" {
				c.Require(rule, key+" condition", site, "Deleted only when init != nil and deleted", nilInit(fs, false) && hasBoolFact(fs, isDeleted, true), factsStr(fs))
				c.Require(rule, key+" write", site, "deleted key is Del'ed in the same step", wkind == "Del" && ok && wkey.String() == k.String(), fmt.Sprintf("writer.%s(%v)", wkind, wkey))
			} else {
				c.Require(rule, key+" condition", site, "Updated only when init != nil, not deleted, dirty", nilInit(fs, false) && hasBoolFact(fs, isDeleted, false) && hasBoolFact(fs, isDirty, true), factsStr(fs))
				c.Require(rule, key+" write", site, "updated key is Set to the current value in the same step", wkind == "Set" && ok && wkey.String() == k.String() && isValue.Match(wval), fmt.Sprintf("writer.%s(%v, %v)", wkind, wkey, wval))
			}
		}
	}
	for _, f := range []string{"Added", "Updated", "Deleted"} {
		c.Require(rule, "cacheDB.commit fills Diff."+f, p.Pos(commit.Pos()), "the diff field is built by appends in commit", seenField[f], "")
	}
	// no writer call outside the three classified steps
	nw := 0
	for _, call := range AllCalls(commit) {
		if call.Common().IsInvoke() && strings.Contains(CalleeName(call.Common()), "DatabaseWriter.") {
			nw++
		}
	}
	c.Require(rule, "cacheDB.commit writer calls", p.Pos(commit.Pos()), "exactly three writer calls (one per class)", nw == 3, fmt.Sprint(nw))
}

func factsStr(fs []Fact) string {
	var s []string
	for _, f := range fs {
		s = append(s, f.String())
	}
	return "facts: " + strings.Join(s, " ∧ ")
}

func checkRevertAlgebra(c *Ctx, revert *ssa.Function) {
	p := c.P
	tb := newTB()
	want := map[string]string{"Added": "Del", "Deleted": "Set", "Updated": "Set"}
	seen := map[string]bool{}
	for _, call := range AllCalls(revert) {
		if !call.Common().IsInvoke() || !strings.Contains(CalleeName(call.Common()), "DatabaseWriter.") {
			continue
		}
		kind := call.Common().Method.Name()
		key := tb.of(ArgK(call, 0), 0)
		field := ""
		key.Walk(func(t *Term) bool {
			if t.Op == "field" && t.Owner == "db/diffdb.Diff" {
				field = t.Sym
			}
			return true
		})
		seen[field] = true
		ok := want[field] == kind
		detail := "writer." + kind + "(" + key.String()
		if kind == "Set" && len(call.Common().Args) > 1 {
			val := tb.of(ArgK(call, 1), 0)
			detail += ", " + val.String()
			// Set(x.Key, x.Value) of the same element
			ok = ok && key.Op == "field" && key.Sym == "Key" && val.Op == "field" && val.Sym == "Value" && key.Args[0].String() == val.Args[0].String()
		}
		c.Require("C05.R3 revert-algebra", "RevertDiff Diff."+field+" ⇒ "+kind, p.InstrPos(call), "inverse table: Added⇒Del(key); Deleted⇒Set(key, init); Updated⇒Set(key, init)", ok, detail+")")
	}
	for f := range want {
		c.Require("C05.R3 revert-algebra", "RevertDiff handles Diff."+f, p.Pos(revert.Pos()), "every diff class is reverted", seen[f], "")
	}
}

// checkKeyFamilySymmetry: every key family saveBlock sets is deleted by removeBlock under the
// same key expression and under no stronger condition (rp: rule prefix, "C05.R1" / "C13.R9").
func checkKeyFamilySymmetry(c *Ctx, rp string, saveBlock, rmBlock *ssa.Function) {
	p := c.P
	// ---- R1 key-family symmetry
	type fam struct {
		key  string
		op   DBOp
		cond []Fact
	}
	collect := func(fn *ssa.Function, kind string) map[string]fam {
		ff := factsOf(fn)
		out := map[string]fam{}
		for _, op := range DBOps(fn) {
			if op.Kind != kind || op.Family == "" {
				continue
			}
			out[op.Family] = fam{op.Key.String(), op, ff.FactsAt(op.Call.Block())}
		}
		return out
	}
	sets, dels := collect(saveBlock, "Set"), collect(rmBlock, "Del")
	var fams []string
	for f := range sets {
		fams = append(fams, f)
	}
	sort.Strings(fams)
	n := 0
	for _, f := range fams {
		if f == "blockchain.dbPrefixFinalizedHeight" {
			continue // monotone marker: deliberately not undone (C04)
		}
		n++
		d, ok := dels[f]
		c.Require(rp+" set-has-inverse-del", "saveBlock Set "+f+" ⇔ removeBlock Del", p.InstrPos(sets[f].op.Call),
			"removeBlock deletes the family saveBlock sets", ok, "")
		if ok {
			c.Require(rp+" same-key-expression", "saveBlock/removeBlock "+f, p.InstrPos(d.op.Call),
				"Del key expression equals the Set key expression (same block-relative key)", normIter(d.key) == normIter(sets[f].key), "set: "+sets[f].key+"\ndel: "+d.key)
			// a Del must not be guarded by a condition the Set does not have
			// (e.g. deleting only when a list is non-empty is fine only if the Set is guarded the same way)
			seenCond := map[string]bool{}
			for _, df := range d.cond {
				ck := normFact(df)
				if k, r, dd, ok := canonCmp(df); ok {
					ck = fmt.Sprintf("%s %s %d", k, r, dd)
				}
				if seenCond[ck] {
					continue
				}
				seenCond[ck] = true
				has := false
				for _, sf := range sets[f].cond {
					if factImplies(sf, df) {
						has = true
					}
				}
				c.Require(rp+" del-not-more-guarded-than-set", "removeBlock Del "+f+" under "+ck, p.InstrPos(d.op.Call),
					"every condition guarding the Del also guards the Set", has, "Del guarded by "+df.String())
			}
		}
	}
	c.MinInstances(rp+" set-has-inverse-del", n, 6)
	for f := range dels {
		if _, ok := sets[f]; !ok {
			c.Require(rp+" del-has-set", "removeBlock Del "+f, p.InstrPos(dels[f].op.Call), "removeBlock deletes only families saveBlock sets", false, "")
		}
	}
}
