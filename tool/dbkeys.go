package main

import (
	"go/types"
	"strings"

	"golang.org/x/tools/go/ssa"
)

// DBOp is one staged or direct key-value mutation.
type DBOp struct {
	Fn     *ssa.Function
	Call   ssa.CallInstruction
	Kind   string // Set | Del | Write | DropAll
	Recv   string // callee name
	Key    *Term
	Val    *Term
	Family string // name of the DBPrefix global at the head of the key, "" when none
}

var dbMutators = map[string]string{
	"(*db.Batch).Set":                    "Set",
	"(*db.Batch).Del":                    "Del",
	"(*db.DB).Set":                       "Set",
	"(*db.DB).Del":                       "Del",
	"(*db.DB).Write":                     "Write",
	"(*db.DB).DropAll":                   "DropAll",
	"iface:db/diffdb.DatabaseWriter.Set": "Set",
	"iface:db/diffdb.DatabaseWriter.Del": "Del",
	"iface:db/diffdb.setter.Set":         "Set",
	"iface:db/diffdb.setter.Del":         "Del",
}

// DBOps lists the mutation calls in fn.
func DBOps(root *ssa.Function) []DBOp {
	var out []DBOp
	rf := factsOf(root)
	for _, fn := range funcAndHelpers(root) {
		for _, c := range AllCalls(fn) {
			name := CalleeName(c.Common())
			kind, ok := dbMutators[name]
			if !ok {
				continue
			}
			op := DBOp{Fn: fn, Call: c, Kind: kind, Recv: name}
			args := c.Common().Args
			if !c.Common().IsInvoke() && len(args) > 0 {
				args = args[1:] // drop receiver
			}
			if (kind == "Set" || kind == "Del") && len(args) >= 1 {
				op.Key = rf.Term(args[0])
				op.Family = keyFamily(op.Key)
				if op.Family == "" {
					op.Family = keyFamilyThroughBuilder(args[0], 0)
				}
				if kind == "Set" && len(args) >= 2 {
					op.Val = rf.Term(args[1])
				}
			}
			out = append(out, op)
		}
	}
	return out
}

// keyFamily finds the DBPrefix variable at the head of a key expression:
// the first load of a package-level variable of a named type whose name ends
// in "Prefix" found in pre-order.
func keyFamily(t *Term) string {
	fam := ""
	t.Walk(func(x *Term) bool {
		if fam != "" {
			return false
		}
		if x.Op == "load" && len(x.Args) == 1 && x.Args[0].Op == "global" {
			if g, ok := x.Args[0].V.(*ssa.Global); ok {
				if pt, ok := g.Type().Underlying().(*types.Pointer); ok {
					if n, ok := pt.Elem().(*types.Named); ok && strings.HasSuffix(n.Obj().Name(), "Prefix") {
						fam = x.Args[0].Sym
						return false
					}
				}
			}
		}
		return true
	})
	return fam
}

// keyFamilyThroughBuilder: a key made by a key-building function of this module (one that
// writes the prefix byte into a buffer instead of joining slices) belongs to the family of the
// prefix variable it was handed.
func keyFamilyThroughBuilder(v ssa.Value, depth int) string {
	if depth > 3 {
		return ""
	}
	call, ok := stripConv(v).(*ssa.Call)
	if !ok {
		if call, ok = valueRoot(v).(*ssa.Call); !ok {
			return ""
		}
	}
	g := call.Common().StaticCallee()
	if g == nil || !IsOwn(g) {
		return ""
	}
	for _, a := range call.Common().Args {
		if f := keyFamily(T(a)); f != "" {
			return f
		}
		if f := keyFamilyThroughBuilder(a, depth+1); f != "" {
			return f
		}
	}
	return ""
}

// constValue looks up the value of a package-level constant.
func (p *Program) constValue(pkgRel, name string) (string, bool) {
	pk := p.PkgByRel[pkgRel]
	if pk == nil {
		return "", false
	}
	o := pk.Types.Scope().Lookup(name)
	c, ok := o.(*types.Const)
	if !ok {
		return "", false
	}
	return c.Val().ExactString(), true
}
