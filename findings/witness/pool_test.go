package wit

import (
	"context"
	"testing"
	"time"

	"github.com/LiskHQ/lisk-engine/pkg/blockchain"
	"github.com/LiskHQ/lisk-engine/pkg/crypto"
	"github.com/LiskHQ/lisk-engine/pkg/labi"
	"github.com/LiskHQ/lisk-engine/pkg/log"
	"github.com/LiskHQ/lisk-engine/pkg/p2p"
	"github.com/LiskHQ/lisk-engine/pkg/txpool"
)

type conn struct{}

func (conn) Broadcast(ctx context.Context, event string, data []byte) error { return nil }
func (conn) RegisterRPCHandler(endpoint string, handler p2p.RPCHandler, opts ...p2p.RPCHandlerOption) error {
	return nil
}
func (conn) RegisterEventHandler(name string, handler p2p.EventHandler, validator p2p.Validator) error {
	return nil
}
func (conn) ApplyPenalty(pid p2p.PeerID, score int) {}
func (conn) RequestFrom(ctx context.Context, peerID p2p.PeerID, procedure string, data []byte) p2p.Response {
	return p2p.Response{}
}
func (conn) Publish(ctx context.Context, topicName string, data []byte) error { return nil }

type abi struct{}

func (abi) VerifyTransaction(req *labi.VerifyTransactionRequest) (*labi.VerifyTransactionResponse, error) {
	return &labi.VerifyTransactionResponse{Result: labi.TxVerifyResultOk}, nil
}

func mkTx(pk []byte, nonce, fee uint64) *blockchain.Transaction {
	tx := &blockchain.Transaction{Module: "token", Command: "transfer", Nonce: nonce, Fee: fee, SenderPublicKey: pk, Params: []byte{1}, Signatures: nil}
	tx.Init()
	return tx
}


func newPool(t *testing.T, max int) *txpool.TransactionPool {
	logger, err := log.NewDefaultProductionLogger()
	if err != nil {
		t.Fatal(err)
	}
	p := txpool.NewTransactionPool(&txpool.TransactionPoolConfig{MaxTransactions: max, MaxTransactionsPerAccount: 64})
	if err := p.Init(context.Background(), logger, nil, nil, conn{}, abi{}); err != nil {
		t.Fatal(err)
	}
	return p
}

func TestF10AddDeadlockWhenFull(t *testing.T) {
	p := newPool(t, 1)
	done := make(chan int, 1)
	go func() {
		n := 0
		for i := 0; i < 4; i++ {
			pk := crypto.RandomBytes(32)
			p.Add(mkTx(pk, 0, uint64(100000000*(i+1))))
			n++
		}
		done <- n
	}()
	select {
	case n := <-done:
		t.Logf("F10 all %d adds returned; pool size %d (Max=1)", n, len(p.GetAll()))
	case <-time.After(3 * time.Second):
		t.Logf("F10 Add blocked forever once pool exceeded Max=1; (deadlock)")
	}
}

func TestF11ReplacementLeavesStale(t *testing.T) {
	p := newPool(t, 100)
	pk := crypto.RandomBytes(32)
	a := mkTx(pk, 5, 100000000)
	b := mkTx(pk, 5, 900000000)
	t.Logf("add a=%v add b(replacement)=%v", p.Add(a), p.Add(b))
	_, okA := p.Get(a.ID)
	_, okB := p.Get(b.ID)
	t.Logf("F11 after replacement: old still in pool=%v new in pool=%v total=%d (expected old=false total=1)", okA, okB, len(p.GetAll()))
}
