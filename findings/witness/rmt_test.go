package wit

import (
	"testing"

	"github.com/LiskHQ/lisk-engine/pkg/db"
	"github.com/LiskHQ/lisk-engine/pkg/trie/rmt"
)

// F30: the first Append returns before saveInfo, so a tree of size 1 cannot be reloaded.
func TestF30ReloadAfterFirstAppend(t *testing.T) {
	for _, n := range []int{1, 2, 3} {
		d, _ := db.NewInMemoryDB()
		tr := rmt.NewRegularMerkleTree(d)
		for i := 0; i < n; i++ {
			if err := tr.Append([]byte{byte(i)}); err != nil {
				t.Fatal(err)
			}
		}
		re, err := rmt.NewRegularMerkleTreeWithPastData(d)
		if err != nil {
			t.Logf("F30 n=%d reload error: %v", n, err)
			continue
		}
		t.Logf("F30 n=%d reload ok size=%d rootEqual=%v", n, re.Size(), string(re.Root()) == string(tr.Root()))
	}
}

// Known gap G1 (no static rule finds it): CalculateRootFromAppendPath predicts the
// root correctly but the append path only when the old size is 2^k-1.
func TestG1PredictVsAppend(t *testing.T) {
	d, _ := db.NewInMemoryDB()
	tr := rmt.NewRegularMerkleTree(d)
	for i := 0; i < 12; i++ {
		val := []byte{byte(i)}
		var pred *rmt.RootWithAppendPath
		if tr.Size() > 0 {
			pred = rmt.CalculateRootFromAppendPath(val, tr.AppendPath(), tr.Size())
		}
		_ = tr.Append(val)
		if pred != nil {
			same := len(pred.AppendPath) == len(tr.AppendPath())
			if same {
				for j := range pred.AppendPath {
					if string(pred.AppendPath[j]) != string(tr.AppendPath()[j]) {
						same = false
					}
				}
			}
			t.Logf("G1 size->%d rootEqual=%v appendPathEqual=%v", tr.Size(), string(pred.Root) == string(tr.Root()), same)
		}
	}
}
