package wit

import (
	"testing"
	"time"

	"github.com/LiskHQ/lisk-engine/pkg/crypto"
	"github.com/LiskHQ/lisk-engine/pkg/trie/rmt"
)

// F35 (C09): rmt.VerifyRightWitness never returned when the witness carried more hashes
// than the node index has set bits to consume them (layerIndex grew past 63 and both
// digits stayed 0 forever). A malformed proof from a peer pinned the calling goroutine.
func TestF35RightWitnessTerminates(t *testing.T) {
	h := func(s string) []byte { return crypto.Hash([]byte(s)) }
	done := make(chan bool, 1)
	go func() {
		done <- rmt.VerifyRightWitness(0, [][]byte{h("a"), h("b")}, [][]byte{h("c")}, h("root"))
	}()
	select {
	case ok := <-done:
		if ok {
			t.Errorf("malformed witness verified")
		}
	case <-time.After(3 * time.Second):
		t.Errorf("VerifyRightWitness(0, 2 append-path hashes, 1 witness hash) did not return within 3s")
	}
}
