package wit

import (
	"context"
	"testing"

	"github.com/LiskHQ/lisk-engine/pkg/blockchain"
	"github.com/LiskHQ/lisk-engine/pkg/db"
	"github.com/LiskHQ/lisk-engine/pkg/framework"
	"github.com/LiskHQ/lisk-engine/pkg/framework/config"
	"github.com/LiskHQ/lisk-engine/pkg/labi"
	"github.com/LiskHQ/lisk-engine/pkg/log"
	"github.com/LiskHQ/lisk-engine/pkg/statemachine"
)

func TestF15InitRecoveryNilContext(t *testing.T) {
	logger, _ := log.NewDefaultProductionLogger()
	stateDB, _ := db.NewInMemoryDB()
	moduleDB, _ := db.NewInMemoryDB()
	exec := statemachine.NewExecuter()
	exec.Init(logger)
	h := framework.NewABIHandler(context.Background(), &config.ApplicationConfig{}, logger, exec, nil, stateDB, moduleDB, nil)
	hdr := &blockchain.BlockHeader{Version: 2, Height: 1, AggregateCommit: &blockchain.AggregateCommit{}}
	res, err := h.InitStateMachine(&labi.InitStateMachineRequest{Header: hdr})
	if err != nil {
		t.Fatal(err)
	}
	cr, err := h.Commit(&labi.CommitRequest{ContextID: res.ContextID, StateRoot: nil, DryRun: false})
	if err != nil {
		t.Fatal(err)
	}
	t.Logf("committed height 1 root=%x", cr.StateRoot)
	_, _ = h.Clear(&labi.ClearRequest{})
	// engine restarts one block behind the application (crash between ABI commit and engine write)
	p := catch(func() {
		_, err = h.Init(&labi.InitRequest{ChainID: []byte{0, 0, 0, 0}, LastBlockHeight: 0, LastStateRoot: nil})
	})
	t.Logf("F15 Init recovery: panic=%v err=%v", p, err)
}
