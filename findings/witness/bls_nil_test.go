package wit

import (
	"testing"

	"github.com/LiskHQ/lisk-engine/pkg/crypto"
)

func try(t *testing.T, name string, f func()) {
	defer func() {
		if r := recover(); r != nil {
			t.Logf("%s: PANIC %v", name, r)
		}
	}()
	f()
	t.Logf("%s: returned", name)
}

func TestBLSMalformedInputs(t *testing.T) {
	garbage48 := make([]byte, 48)
	garbage96 := make([]byte, 96)
	for i := range garbage48 {
		garbage48[i] = 0xff
	}
	for i := range garbage96 {
		garbage96[i] = 0xff
	}
	msg := make([]byte, 32)
	try(t, "BLSVerify(garbage sig, garbage pk)", func() { crypto.BLSVerify(msg, garbage96, garbage48) })
	try(t, "BLSVerify(short sig, short pk)", func() { crypto.BLSVerify(msg, []byte{1}, []byte{2}) })
	try(t, "BLSVerifyAggSig garbage key bit set", func() { crypto.BLSVerifyAggSig([][]byte{garbage48}, []byte{1}, garbage96, msg) })
	try(t, "BLSVerifyWeightedAggSig garbage", func() {
		crypto.BLSVerifyWeightedAggSig([][]byte{garbage48}, []byte{1}, garbage96, []uint64{1}, 1, msg)
	})
	try(t, "BLSVerifyWeightedAggSig short weights", func() {
		kp := crypto.BLSKeyGen(make([]byte, 32))
		crypto.BLSVerifyWeightedAggSig([][]byte{kp.PublicKey, kp.PublicKey}, []byte{3}, garbage96, []uint64{1}, 1, msg)
	})
	try(t, "BLSVerifyAggSig empty sig", func() {
		kp := crypto.BLSKeyGen(make([]byte, 32))
		crypto.BLSVerifyAggSig([][]byte{kp.PublicKey}, []byte{1}, []byte{}, msg)
	})
}
